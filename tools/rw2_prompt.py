#!/usr/bin/env python3
"""Prompt for a strengthening rule-writer: rw2_prompt.py <group> <seedname> ..."""
import sys
grp = sys.argv[1]; seeds = sys.argv[2:]
print(f"""You are extending a repo-specific STATIC ANALYSER ("verifcheck", Go) that decides semantic properties of InfluxDB 2.x (source in /repo, read-only for you) without running it. Independent testers produced seeded defects that the current rule sets MISS. Your task: for each seeded defect listed below, add a SOUND structural rule that (a) passes on today's /repo, (b) reports the seeded change, and (c) is a genuine necessary condition of the property, general enough to also catch neighbouring variants of the same mistake and to stay silent on behaviour-preserving rewrites. If no such rule exists (the defect is purely value-level), say so plainly — an honest "out of reach of static rules" is a valid answer; never write a rule that just pattern-matches the seeded diff.

Seeded defects to cover: {', '.join(seeds)} — each is a directory /verif/seeded/<name>/ with patch.diff (the change), meta.json (property id, what it breaks and what it needs to manifest) and the demonstration test.

## Read first
1. /verif/checker/README.md (rule-author guide, core API) and the existing rule file of each affected property (/verif/checker/rules/cNN.go) so you extend rather than duplicate; helper files core/x_rw*.go contain edge-fact helpers (go/cfg keeps `a && b` as ONE condition node — use `EdgeFacts`, `X4Implied`, `Establishes`, `AtomEdge` … from those files to reason about conjuncts). 2. The property record in /verif/properties.jsonl and /verif/DESIGN.md §0, §3. 3. The anchored source in /repo.

## Where you work
Your private copy of the checker is /tmp/rw/{grp}/checker (already created). Write ONLY there: for property CNN create `rules/cNNx_{grp}.go` containing
    func init() {{ extend("CNN", "<one-sentence description of what the added rules decide>", []string{{"./extra/pkg/if/needed"}}, func(p *core.Prog, r *core.Report, tier string) {{ ... }}) }}
(`extend` is defined in rules/registry.go: the extra rules run after the property's own rules and the note is appended to its explanation). Helpers go in those files or a NEW file core/x_{grp}.go. Do NOT modify existing files. Never write to /verif or /repo. Build and run:

  cd /tmp/rw/{grp}/checker && PATH=/opt/veriftools/go1.26.8/bin:$PATH GOTOOLCHAIN=local GOFLAGS=-mod=mod GOPROXY=off GOSUMDB=off GOWORK=off go build -o /tmp/rw/{grp}/verifcheck . && VERIF_DIR=/tmp/rw/{grp}/out VERIF_VERBOSE=1 /tmp/rw/{grp}/verifcheck -p CNN
  # evaluate on a seeded change (applied in memory, /repo untouched): prints DETECTED <key> or NOT DETECTED
  VERIF_DIR=/tmp/rw/{grp}/out /tmp/rw/{grp}/verifcheck -p CNN -seed /verif/seeded/<name>

(copy /verif/known_findings.json to /tmp/rw/{grp}/out/ first so known findings are treated as such.) Do not run more than one check at a time (shared machine).

## Validate both ways
Besides the seeded change itself, for each new rule try 2–3 neighbouring breaking edits and 1–2 behaviour-preserving rewrites of the same code in a scratch worktree (`git -C /repo worktree add --detach /tmp/rw/{grp}/wt HEAD`, run with `VERIF_REPO=/tmp/rw/{grp}/wt`, `git -C /tmp/rw/{grp}/wt checkout -- .` between edits, remove the worktree at the end with `git -C /repo worktree remove --force /tmp/rw/{grp}/wt`). Never use `git stash`.

## Final report (concise)
Per seed: the rule added (name → what it checks and why it is a necessary condition), DETECTED/NOT and the key, neighbouring edits tried and results, benign rewrites tried and results; seeds declared out of reach and why; files created.""")
