#!/usr/bin/env python3
"""Prompt for a false-alarm hardening agent: harden_prompt.py <grp> <prop>:<benign patch path> ..."""
import sys
grp = sys.argv[1]; items = sys.argv[2:]
props = sorted({i.split(':')[0] for i in items})
print(f"""You are maintaining a repo-specific STATIC ANALYSER ("verifcheck", Go) that decides semantic properties of InfluxDB 2.x (source in /repo, read-only for you). Independent testers produced BEHAVIOUR-PRESERVING refactorings of the InfluxDB source; some rule sets raise FALSE ALARMS on them. Your task: make the affected rules robust against these (and similar) harmless rewrites WITHOUT weakening what they detect.

False alarms to remove (property : behaviour-preserving patch that must NOT be reported):
{chr(10).join('  - ' + i for i in items)}
(each patch's intent is described in the index.json next to it). Reproduce an alarm with:
  mkdir -p /tmp/rw/{grp}/b1 && cp <patch> /tmp/rw/{grp}/b1/patch.diff && VERIF_DIR=/tmp/rw/{grp}/out /tmp/rw/{grp}/verifcheck -p <prop> -seed /tmp/rw/{grp}/b1     (prints DETECTED <key> … for every NEW report, or NOT DETECTED)

## Read first
/verif/checker/README.md (rule-author guide, core API); the rule files of the affected properties in your copy: rules/cNN.go (+ rules/cNNx*.go); the helper files core/x_rw*.go (go/cfg keeps `a && b` as ONE condition node — use the edge-fact helpers); `core.(*Graph).CallingDeep` (graph.go) treats a call of a same-module helper all of whose success exits pass a call of class m as a call of class m — useful when statements were extracted into a helper; for rules that look INSIDE a function for specific statements consider following calls to same-package helpers (inline one level) or formulating the rule on the callee.

## Where you work
Your private copy of the checker is /tmp/rw/{grp}/checker (already created, current state of /verif/checker). You MAY edit the rule files of the affected properties ({', '.join('rules/' + p.lower() + '*.go' for p in props)}) and add helpers in a NEW file core/x_{grp}.go; do not modify other existing files. Never write to /verif or /repo. Build and run:
  cd /tmp/rw/{grp}/checker && PATH=/opt/veriftools/go1.26.8/bin:$PATH GOTOOLCHAIN=local GOFLAGS=-mod=mod GOPROXY=off GOSUMDB=off GOWORK=off go build -o /tmp/rw/{grp}/verifcheck . && VERIF_DIR=/tmp/rw/{grp}/out /tmp/rw/{grp}/verifcheck -p <prop>
Do not run more than one check at a time (shared machine).

## Acceptance (all must hold at the end)
1. `-p <prop>` on the unchanged /repo: 0 violations (known findings excepted) for every affected property.
2. Each listed benign patch: NOT DETECTED for its property.
3. Every seeded defect of the affected properties is STILL detected: for each directory /verif/seeded/<name>/ whose meta.json names one of {', '.join(props)} (e.g. /verif/seeded/C26, /verif/seeded/C26b …) `-p <prop> -seed /verif/seeded/<name>` prints DETECTED.
4. The rule still means something: for each rule you touched, make one small breaking edit of the protected construct in a scratch worktree (`git -C /repo worktree add --detach /tmp/rw/{grp}/wt HEAD`; run with `VERIF_REPO=/tmp/rw/{grp}/wt`; `git -C /tmp/rw/{grp}/wt checkout -- .` between edits; remove the worktree at the end; never `git stash`) and confirm it is reported — also when the construct now lives in an extracted helper.
Generalise: fix the CLASS of rewrite (helper extraction, local closure, hoisted invariant, switch⇄if, renamed/introduced temporaries), not the one patch. If a rule cannot be made robust without guessing, drop that sub-rule and say so.

## Final report (concise)
Per alarm: root cause in the rule, the change made, results of the 4 acceptance points; files changed.""")
