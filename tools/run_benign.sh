#!/bin/bash
# run_benign.sh <grp>: run every claimed property on each behaviour-preserving patch of /tmp/benign/<grp>
grp=$1; out=/tmp/benign/$grp/results.txt; : > $out
for d in /tmp/benign/$grp/*.diff; do
  n=$(basename $d .diff); w=/tmp/benign_run/${grp}_$n; mkdir -p $w; cp $d $w/patch.diff
  echo "== $grp/$n" >> $out
  /verif/bin/verifcheck -p all -seed $w >> $out 2>&1
done
grep -c "^ALARM\|^ERROR" $out
