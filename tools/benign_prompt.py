#!/usr/bin/env python3
"""Prompt for a behaviour-preserving-refactoring agent: benign_prompt.py <grp> <file> <file> ..."""
import sys
grp = sys.argv[1]; files = sys.argv[2:]
print(f"""You are helping to evaluate a static-analysis based verification effort on InfluxDB 2.x (Go). Your job: produce a set of SMALL, BEHAVIOUR-PRESERVING refactorings of real source files. They are used to check that the verification machinery does not raise false alarms on harmless edits, so they must be *truly* semantics-preserving and realistic — the kind of edit a maintainer makes while cleaning up.

You work ONLY inside your own scratch git worktree: /tmp/wt/{grp} (a checkout of the repository). Do NOT look at or touch /repo, /verif (except running the one command that printed this text), or other directories under /tmp/wt. Write your deliverables to /tmp/benign/{grp}/.

## Files to refactor (non-test source only)
{chr(10).join('- ' + f for f in files)}

## What to produce
12 to 16 independent patches, spread over those files and over the functions that look central (the write/flush/fsync paths, locking, authorization checks, error handling, loops that filter or count, switch dispatch, marshal/unmarshal). Each patch is ONE refactoring touching 1–30 lines, applied to a clean tree (they must each apply on their own to the unmodified worktree). Use a VARIETY of kinds, for example:
  1. rename a local variable / loop variable / named result;
  2. introduce or inline a temporary variable (`x := f(); if x != nil` ⇄ `if f() != nil`);
  3. split `if err := f(); err != nil {{` into two statements, or the reverse;
  4. invert an if/else (negate the condition and swap the branches), or turn `if c {{ A; return }}; B` into `if !c {{ B; return }}; A` when equivalent;
  5. turn an if/else-if chain into a tagless switch or a switch on a value (or the reverse);
  6. reorder two adjacent statements that are independent of each other (no data dependence, no shared side effects, not lock/unlock, not I/O ordering);
  7. add a log/trace/metric statement or a comment; remove a redundant conversion or a dead local;
  8. rewrite a loop (`for i := range xs` ⇄ `for _, x := range xs`, index loop ⇄ range loop) when equivalent;
  9. replace a comparison by an equivalent one (`len(x) == 0` ⇄ `0 == len(x)`, `!(a < b)` ⇄ `a >= b`, `a != nil && b` ⇄ `b` nested inside `if a != nil`), De Morgan rewrites;
  10. extract 2–6 consecutive statements of a function into a NEW unexported helper function in the same file and call it (keep the original function's name and signature; keep lock/unlock pairs, defers and early returns semantics intact);
  11. wrap a repeated expression into a local closure, or hoist a loop-invariant expression out of a loop when that is safe.
Do NOT: rename, move, delete or change the signature of any existing function, method, type, field, constant or package-level variable; change behaviour in any corner case (error values returned, order of I/O operations, locking discipline, what is stored/returned); touch generated-file headers; edit test files.

## Checks you must do for EVERY patch
- it applies to the clean tree; `go build` of the touched package(s) and their dependants that you can reasonably build succeeds;
- the existing tests of the touched package pass with it (for packages whose test binary cannot start — see below — build only, and say so);
- you re-read the diff and convinced yourself it cannot change behaviour, including under concurrency and on error paths.

## Environment (sealed sandbox, no network)
Every shell call needs: `export GOFLAGS=-mod=mod GOPROXY=off PKG_CONFIG_PATH=/tmp/stubflux` (env does not persist between calls). Do NOT set GOSUMDB or GOTOOLCHAIN. Most packages link the C library libflux, which does not exist here; /tmp/stubflux holds a STUB that lets them link, so `go test ./tsdb/engine/tsm1/` etc. work. Test binaries that import the Flux standard library panic at init with the stub (known: ./http, ./kv, ./tenant, ./authorizer, ./task/backend/middleware): for those, build only. In ./tsdb/index/tsi1 the test TestGenerateIndexFile_Uvarint fails on the unmodified tree too; skip it. Use `-count=1 -vet=off -p 4`. NEVER use `git stash` (shared between worktrees); to reset between patches use `git checkout -- .` inside your own worktree. Keep individual file reads small (only the line ranges you need).

## Deliverables in /tmp/benign/{grp}/
- `NN.diff` (01.diff, 02.diff, …): `git diff` from the worktree root for that one refactoring (applies with `git apply` to a clean tree);
- `index.json`: a list of objects {{"patch": "NN.diff", "kind": "<one of the kinds above>", "file": "...", "function": "...", "description": "...", "tests": "what you ran and the result"}}.
Leave the worktree clean at the end (`git checkout -- .`). Final message: a short table of the patches (number, kind, function) and anything you were unsure about.""")
