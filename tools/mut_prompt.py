#!/usr/bin/env python3
"""Prompt for a survivor-driven strengthening agent: mut_prompt.py <grp> <prop> [<prop> ...]"""
import sys
grp = sys.argv[1]; props = sys.argv[2:]
print(f"""You are extending a repo-specific STATIC ANALYSER ("verifcheck", Go) that decides semantic properties of InfluxDB 2.x (source in /repo, read-only for you) WITHOUT running it: rules over the type-checked syntax tree and per-function control-flow graphs. Each claimed property has a rule set that encodes structural NECESSARY conditions of the property. A built-in fault enumerator measures how sensitive a rule set is: it applies generic single-site faults (delete a call / defer / field store, negate an if, swap && and ||, < and <=, == and !=, return nil instead of err, break<->continue) to the functions the rules analysed, in memory, and re-runs the rules. A fault no rule reports is a SURVIVOR.

Your task, for the properties {', '.join(props)}: triage the survivors and strengthen the rule sets where a survivor is a REAL violation of the property.

For each survivor decide, by reading the property statement and the code:
  (a) equivalent or irrelevant — the fault does not change behaviour, or changes only something the property statement does not talk about (logging, metrics, statistics, tracing, an error MESSAGE, performance, an unrelated feature, a defensive check that cannot fire, dead code). Most survivors are of this kind. Leave them alone.
  (b) breaks the property as stated — for some input / schedule / crash point / history the faulted code violates the property's statement. Then add (or extend) a rule that reports it. The rule must be a genuine structural necessary condition of the property, formulated on resolved callees / fields / CFG paths / edge facts (never on source text, line numbers, variable names or the exact shape of today's statement), general enough to catch neighbouring variants of the same mistake, and SILENT on behaviour-preserving rewrites (helper extraction, local closure, temporaries, inverted if/else, switch<->if chain, early-return vs else).
  (c) breaks the property but is value-level (an arithmetic result, an off-by-one only visible in values, a codec bit layout) with no sound structural rule in reach — say so; do not force a brittle rule.
Spend your effort on (b); prefer few strong rules that each kill a CLASS of faults over many narrow ones. A wrong rule (false alarm on correct code) is worse than a missing one.

## The properties
The records are in /verif/properties.jsonl (one JSON object per line: id, title, statement, quantifier, anchors). Read the record of each of your properties first, then its current rule files and what they already decide: /tmp/rw/{grp}/checker/rules/cNN*.go and the generated summary /verif/PROPERTIES_DECIDED.md.

## Read first
/verif/checker/README.md (rule-author guide, core API). Helper files core/x_rw*.go, core/x_hd*.go contain edge-fact helpers (go/cfg keeps `a && b` as ONE condition node — use `AtomEdge`, `EdgeFacts`, `Establishes`, `EmptyOn`, `NilEdge` … to reason about conjuncts), `(*Func).Inline` (x_hd1.go: CFG with same-package helpers spliced in), `ResolveLocal`/`SingleDef` (x_rw5.go: see through single-definition temporaries), `RuleWriters`, `RulePrecede`, `RuleMustPass`, `RuleErrorsUsed`, `RuleFailurePropagates` (core/propagate.go — already applied to every analysed function as a post-pass: a failure of any error-returning call must make the function fail; exceptions in rules/propagate.go), the finite decision-table interpreter core/dtable.go (`EvalOn`, `EnumModels`: enumerate a small abstract domain and evaluate a pure function on every row — good for comparators, predicates, status/option dispatch).

## Where you work
Your private copy of the checker is /tmp/rw/{grp}/checker (already created, current state of /verif/checker). For property CNN create `rules/cNNx_{grp}.go` containing
    func init() {{ extend("CNN", "<one-sentence description of what the added rules decide>", []string{{"./extra/pkg/if/needed"}}, func(p *core.Prog, r *core.Report, tier string) {{ ... }}) }}
(`extend`, rules/registry.go: the extra rules run after the property's own rules; the note is appended to its explanation). You may also edit the existing rule files of YOUR properties (rules/cNN*.go) when a rule needs to become more precise, and add helpers in a NEW file core/x_{grp}.go. Do not modify other files. Never write to /verif or /repo. Build and run:

  cd /tmp/rw/{grp}/checker && PATH=/opt/veriftools/go1.26.8/bin:$PATH GOTOOLCHAIN=local GOFLAGS=-mod=mod GOPROXY=off GOSUMDB=off GOWORK=off go build -o /tmp/rw/{grp}/verifcheck . && VERIF_DIR=/tmp/rw/{grp}/out VERIF_VERBOSE=1 /tmp/rw/{grp}/verifcheck -p CNN
  # survivors: thorough tier, N faults sampled with seed S (deterministic); results in the evidence file
  VERIF_DIR=/tmp/rw/{grp}/out VERIF_MUTANTS=60 VERIF_SEED=1 /tmp/rw/{grp}/verifcheck -p CNN -tier thorough | tail -3
  jq -r '.coverage.generic_fault_enumeration | (.survivors[]), "killed=\\(.faults_killed) survived=\\(.faults_survived) of \\(.fault_sites_in_analysed_functions) sites"' /tmp/rw/{grp}/out/evidence/CNN.json
  # evaluate a specific change (a directory holding patch.diff, applied in memory): prints DETECTED <key> / NOT DETECTED
  VERIF_DIR=/tmp/rw/{grp}/out /tmp/rw/{grp}/verifcheck -p CNN -seed <dir>

(/tmp/rw/{grp}/out/known_findings.json is already in place.) Use two or three different VERIF_SEED values to see more of the fault space (each run takes 2–6 minutes; do not run more than one at a time — shared machine). A survivor line reads `file:line function: operator`; the line refers to /repo's current source.

## Acceptance (all must hold at the end)
1. `-p CNN` on the unchanged /repo: 0 violations (known findings excepted) for each of your properties, and `/tmp/rw/{grp}/verifcheck -selftest` passes.
2. Every seeded defect of your properties is STILL detected: for each directory /verif/seeded/<name>/ whose meta.json names one of your properties, `-p CNN -seed /verif/seeded/<name>` prints DETECTED (seeds whose meta.json has "detected_by" naming another property are exempt).
3. No false alarms on the behaviour-preserving refactorings collected so far: for every /tmp/benign/*/NN.diff that touches a file your rules analyse (grep the paths; index.json next to them describes each), `mkdir -p /tmp/rw/{grp}/b && cp <patch> /tmp/rw/{grp}/b/patch.diff && VERIF_DIR=/tmp/rw/{grp}/out /tmp/rw/{grp}/verifcheck -p CNN -seed /tmp/rw/{grp}/b` prints NOT DETECTED.
4. For each rule you add: the survivor(s) that motivated it are now killed (re-run the enumeration with the same seed), 2–3 neighbouring breaking edits are reported and 2 behaviour-preserving rewrites of the same code are not — try them in a scratch worktree (`git -C /repo worktree add --detach /tmp/rw/{grp}/wt HEAD`; run with `VERIF_REPO=/tmp/rw/{grp}/wt`; `git -C /tmp/rw/{grp}/wt checkout -- .` between edits; remove the worktree at the end with `git -C /repo worktree remove --force /tmp/rw/{grp}/wt`; never `git stash`).
If reading the code for a survivor shows that /repo ITSELF violates the property on today's tree (a genuine defect, not a seeded one), do not hide it: describe the construct, the failing input/schedule and why, in your report.

## Final report (concise)
Per property: kill rate before/after (same seed), the rules added (name -> what it checks, why it is a necessary condition, which survivor classes it kills), survivors judged (a)/(c) in one line per class, neighbouring edits and benign rewrites tried, any genuine defect suspected; files created/changed.""")
