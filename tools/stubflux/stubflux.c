/* Stub of libflux's C API: lets the Go packages that link libflux (almost all of
 * influxdb) be *linked and unit-tested* offline when no real libflux exists.
 * Every entry point reports failure. Used ONLY to run demonstrations of seeded
 * changes and of findings; never part of a deciding step. */
#include <stddef.h>
#include <stdlib.h>
#include <string.h>
#include <stdio.h>
struct flux_buffer_t { char *data; size_t len; };
struct flux_error_t { const char *msg; };
/* minimal valid flatbuffer: root table with an empty vtable (0 assignments) */
static void empty_fb(struct flux_buffer_t *b){
  static const unsigned char fb[12] = {8,0,0,0, 4,0,4,0, 4,0,0,0};
  b->data = malloc(sizeof fb); memcpy(b->data, fb, sizeof fb); b->len = sizeof fb;
}
static struct flux_error_t stub_err = { "libflux stub: not implemented" };
void flux_semantic_packages(struct flux_buffer_t *b){ empty_fb(b); }
void flux_free_error(struct flux_error_t *e){ (void)e; }
const char *flux_error_str(struct flux_error_t *e){ return strdup(e ? e->msg : ""); }
void flux_error_print(struct flux_error_t *e){ if(e) fprintf(stderr,"%s\n",e->msg); }
void flux_free_bytes(const char *p){ free((void*)p); }
struct flux_ast_pkg_t; struct flux_semantic_pkg_t; struct flux_stateful_analyzer_t;
struct flux_ast_pkg_t *flux_parse(const char *f, const char *s){ (void)f;(void)s; return NULL; }
struct flux_error_t *flux_ast_format(struct flux_ast_pkg_t *p, struct flux_buffer_t *b){ (void)p;(void)b; return &stub_err; }
struct flux_error_t *flux_ast_get_error(struct flux_ast_pkg_t *p, const char* o){ (void)p;(void)o; return &stub_err; }
void flux_free_ast_pkg(struct flux_ast_pkg_t *p){ (void)p; }
struct flux_error_t *flux_merge_ast_pkgs(struct flux_ast_pkg_t *a, struct flux_ast_pkg_t *b){ (void)a;(void)b; return &stub_err; }
struct flux_error_t *flux_parse_json(const char *s, struct flux_ast_pkg_t **o){ (void)s; if(o)*o=NULL; return &stub_err; }
struct flux_error_t *flux_ast_marshal_json(struct flux_ast_pkg_t *p, struct flux_buffer_t *b){ (void)p;(void)b; return &stub_err; }
void flux_get_env_stdlib(struct flux_buffer_t *b){ empty_fb(b); }
struct flux_stateful_analyzer_t *flux_new_stateful_analyzer(const char *o){ (void)o; return NULL; }
void flux_free_stateful_analyzer(struct flux_stateful_analyzer_t *a){ (void)a; }
struct flux_error_t *flux_analyze_with(struct flux_stateful_analyzer_t *a, const char *s, struct flux_ast_pkg_t *p, struct flux_semantic_pkg_t **o){ (void)a;(void)s;(void)p; if(o)*o=NULL; return &stub_err; }
struct flux_error_t *flux_analyze(struct flux_ast_pkg_t *p, const char *o, struct flux_semantic_pkg_t **out){ (void)p;(void)o; if(out)*out=NULL; return &stub_err; }
struct flux_error_t *flux_find_var_type(struct flux_semantic_pkg_t *p, const char *n, struct flux_buffer_t *b){ (void)p;(void)n;(void)b; return &stub_err; }
void flux_free_semantic_pkg(struct flux_semantic_pkg_t *p){ (void)p; }
struct flux_error_t *flux_semantic_marshal_fb(struct flux_semantic_pkg_t *p, struct flux_buffer_t *b){ (void)p;(void)b; return &stub_err; }
