#!/bin/sh
# Builds the stub into $1 (default /tmp/stubflux) and prints the PKG_CONFIG_PATH to export.
set -e
here=$(cd "$(dirname "$0")" && pwd)
out=${1:-/tmp/stubflux}
inc=$(ls -d /root/go/pkg/mod/github.com/influxdata/flux@*/libflux/include | head -1)
mkdir -p "$out"
gcc -O1 -fPIC -c "$here/stubflux.c" -o "$out/stubflux.o"
ar rcs "$out/libflux.a" "$out/stubflux.o"
cat > "$out/flux.pc" <<P
Name: flux
Version: 0.0.0-stub
Description: stub libflux (verif demonstrations only)
Cflags: -I$inc
Libs: -L$out -lflux
P
echo "export PKG_CONFIG_PATH=$out"
