#!/usr/bin/env python3
"""Prints the prompt given to an independent change-seeding agent for one property.
The prompt contains the property record and environment facts only — nothing about
how /verif decides the property."""
import json, sys
HINTS = {}
pid = sys.argv[1]
variant = sys.argv[2] if len(sys.argv) > 2 else ""
import os, glob
tried = []
for d in sorted(glob.glob('/verif/seeded/%s*' % pid)):
    try:
        tried.append(json.load(open(d + '/meta.json'))['summary'])
    except Exception:
        pass
rec = None
for l in open('/verif/properties.jsonl'):
    r = json.loads(l)
    if r['id'] == pid:
        rec = r
name = pid + variant
VARIANT = ""
if variant and tried:
    VARIANT = "- Other testers ALREADY produced the change(s) summarised below for this property. Produce a DIFFERENT one: another mechanism / another function / another clause of the statement (do not re-use the same idea on a sibling line):\n" + "\n".join("    * " + t[:600] for t in tried) + "\n"
print(f"""You are helping to evaluate a verification effort on InfluxDB 2.x (Go). Your job: produce ONE realistic code change ("seeded defect") to the InfluxDB source that BREAKS the semantic property below, while the code still compiles and the existing tests still pass — plus a demonstration that fails with your change and passes without it.

You work ONLY inside your own scratch git worktree: /tmp/wt/{name} (a checkout of the repository). Do NOT look at or touch /repo, /verif, or other directories under /tmp/wt; do not read anything under /verif or /root/.vp. Write your deliverables to /tmp/seedout/{name}/.

## The property (id {pid})

Title: {rec['title']}

Statement: {rec['statement']}

Quantifier: {rec['quantifier']['text']}

Why the existing tests cannot settle it: {rec['why_tests_cant']}

Code anchors (where the mechanism lives): {json.dumps(rec['anchors'], indent=1)}

## What kind of change

- A small, plausible edit a developer could make by mistake or as a misguided "cleanup/optimisation" (a dropped fsync or error check, a lock taken too late or released too early, a reordered pair of steps, an off-by-one on a boundary, a missing case, a guard on the wrong variable, a wrong key function, etc.) in NON-test source files. 1–30 changed lines is typical. Do not add obviously-sabotaging code (no random, no time bombs, no special-casing magic values for their own sake).
- It must need something SPECIFIC to manifest: a particular interleaving, a crash/fault at a particular point, a multi-step sequence of operations, an unusual input, or two cooperating sites that each look fine alone — NOT something ordinary use or the existing tests expose at once.
- The tree must still compile (`go build ./...` for the packages you touch and their dependants, `go vet` not required) and the existing tests of the packages you touched must still pass, as must the repository's pinned baseline (which only covers libflux-free packages such as models, toml, kit/*, pkg/*, tsdb/cursors, cmd/influxd/run).
- Read the real code first and make sure your change truly violates the property statement (not merely some internal detail) for some input / schedule / crash point / history.
{VARIANT}
## Environment (sealed sandbox, no network)

Every shell call needs: `export GOFLAGS=-mod=mod GOPROXY=off PKG_CONFIG_PATH=/tmp/stubflux` (env does not persist between calls). Do NOT set GOSUMDB or GOTOOLCHAIN. The default `go` works inside the worktree. Most packages link the C library libflux, which does not exist here; /tmp/stubflux holds a STUB that lets them link, so `go test ./tsdb/engine/tsm1/` etc. work (tsm1 ≈ 25 s, tsdb ≈ 50 s). Test binaries that import the Flux standard library panic at init with the stub (known: ./http, ./kv, ./tenant, ./authorizer and a few others): for code in such packages write the demonstration so that it avoids those imports (e.g. an external `_test` package or a tiny `main` program that only imports what it needs), or demonstrate at a lower layer. Use `-count=1 -vet=off`. Keep builds to the packages you need; do not run `go test ./...` for the whole repository. The machine is shared with other jobs: use `-p 4` for go test/build.

## Deliverables in /tmp/seedout/{name}/

1. `patch.diff` — `git diff` of your change to NON-test files only (from the worktree root, so it applies with `git apply` at the repo root). Must not include the demonstration.
2. The demonstration: a new `*_test.go` file (or small program) — keep a copy in /tmp/seedout/{name}/ with a note of the path it must be placed at in the tree. It must FAIL (or exit non-zero) with patch.diff applied and PASS without it, deterministically (if it needs an interleaving, force it with hooks available in the code, channels, or repetition that makes it reliable; a crash can be simulated by copying files / reopening / truncating).
3. `meta.json`: {{"property": "{pid}", "summary": "...one paragraph: what was changed and why it breaks the property...", "needs_to_manifest": "...the specific interleaving / crash point / sequence / input...", "files_changed": [...], "demo_path_in_tree": "...", "demo_cmd": "...exact command to run the demo from the worktree root...", "existing_tests_cmd": "...what you ran to confirm existing tests still pass...", "results": {{"demo_with_patch": "FAIL ...", "demo_without_patch": "PASS ...", "existing_tests_with_patch": "PASS ..."}}}}

Verify all three results yourself before finishing (run the demo with the patch, then revert ONLY the non-test change with `git diff -- <files> > /tmp/seedout/<name>/p.diff; git apply -R /tmp/seedout/<name>/p.diff`, run it again, then `git apply` it back — NEVER use `git stash` (the stash is shared by all worktrees of the repository and other agents are working concurrently)). Leave the worktree with your change AND the demo applied at the end. Your final message should be a 5-line summary: what you changed, what it needs to manifest, and the verified results. If after honest effort you cannot find a change that satisfies everything, say so plainly and explain what you tried.""")
