#!/bin/bash
# run_benign_fast.sh <grp> [jobs]: like run_benign.sh, but each behaviour-preserving patch is only evaluated by the
# properties whose analysed packages (evidence/<id>.json .coverage.packages, from the last quick run) include a
# directory the patch touches. Any DETECTED line is a false alarm.
grp=$1; jobs=${2:-3}; src=/verif/benign/$grp; [ -d /tmp/benign/$grp ] && src=/tmp/benign/$grp; mkdir -p /tmp/benign/$grp; out=/tmp/benign/$grp/results_fast.txt; : > $out
one() {
  d=$1; grp=$2; n=$(basename $d .diff); w=/tmp/benign_run/f_${grp}_$n; mkdir -p $w; cp $d $w/patch.diff
  dirs=$(grep -h '^+++ b/' $d | sed 's#^+++ b/##' | xargs -n1 dirname | sort -u)
  props=""
  for e in /verif/evidence/C*.json; do
    case $e in *violations*) continue;; esac
    id=$(basename $e .json)
    for dir in $dirs; do
      true
      if jq -e --arg d "$dir" '.coverage.packages | index($d)' $e >/dev/null 2>&1; then props="$props $id"; break; fi
    done
  done
  res="== $grp/$n props:$props"
  for id in $props; do
    o=$(/verif/bin/verifcheck -p $id -seed $w 2>&1 | grep -E "^DETECTED|seed error" | head -5)
    [ -n "$o" ] && res="$res
ALARM $id $o"
  done
  echo "$res"
}
export -f one
ls $src/*.diff | xargs -P $jobs -I{} bash -c 'one {} '"$grp" >> $out
grep -c "^ALARM" $out
