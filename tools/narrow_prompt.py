#!/usr/bin/env python3
"""Prompt for a rule-writer on a property that is value-level taken whole: narrow_prompt.py <grp> <prop> [<prop> ...]"""
import sys
grp = sys.argv[1]; props = sys.argv[2:]
first = props[0]
print(f"""You are extending a repo-specific STATIC ANALYSER ("verifcheck", Go) that decides semantic properties of InfluxDB 2.x (source in /repo, read-only for you) WITHOUT running it: rules over the type-checked syntax tree and per-function control-flow graphs (go/types, go/cfg). Properties {', '.join(props)} are currently listed as NOT APPLICABLE because, taken whole, they are equalities of computed values with a reference semantics, which no static rule can decide. Your task: look again, clause by clause, for STRUCTURAL NECESSARY CONDITIONS of each property that static analysis can decide exactly — and implement those; or confirm, with reasons, that there are none worth claiming.

## What counts
Split the statement into clauses and the anchors into sites. A clause is claimable when its truth is visible in the shape of the code on every path and breaking it must break the stated behaviour for some input. Typical shapes that have worked for other properties here:
  * exhaustiveness / table agreement — every function name / option / aggregate kind / fill mode / data type that the front end ACCEPTS has a handler case in every dispatch that must handle it (compile-time allow-list vs iterator-builder switch vs per-type constructor; reader vs writer tables);
  * guards on effects — "a value is emitted only on the edge that established X" (non-negative variants drop negative differences; a window is emitted only when full; nothing is emitted before the first point; `prev` is updated on every path that consumed a point);
  * loop accounting — every iteration ends in exactly one of emit / skip / carry; a counter/limit/offset is advanced exactly once per emitted row; the remainder after a full buffer is carried, not dropped;
  * clipping / bounds — every store of a window bound passes through the clip against the query bounds; the fill value per aggregate kind (null vs 0 for count) is a finite table;
  * comparators and tie-breaks — finite decision tables: enumerate every ordering pattern of (value, time) pairs with the abstract interpreter core/dtable.go (`EvalOn`, `EnumModels`, see rules/c01x_cmp.go, rules/c28.go, rules/c16.go for complete examples) and compare with the documented order (top/bottom/mode/percentile tie-breaks, sort order of distinct, heap Less functions);
  * sibling agreement — where the property quantifies over value types or directions, the generated per-type instantiations agree (core.RuleSiblings / RuleSiblings10) — but ONLY as an additional rule, never the sole basis of a claim (a consistent edit to all siblings is invisible to it);
  * failure propagation is already applied to every analysed function (core/propagate.go).
Not claimable: anything whose truth depends on arithmetic results, floating-point values, or the equality of two computations; and anything you could only check by matching today's exact source text, variable names or statement positions (a rule that would also fire on a behaviour-preserving rewrite is a false alarm in waiting). An honest "no structural clause worth claiming, because …" for a property is a valid outcome.

State plainly, in each Prop's `Explanation`, which clause(s) you decide and, in `NotCovered`, that the value-level behaviour (the equality with the reference semantics) is NOT decided. Level is "other".

## Read first
1. /verif/checker/README.md — rule-author guide and core API. 2. Examples of narrow claims: /verif/checker/rules/c35.go and c36.go (value-level properties claimed through structural clauses only), rules/c20.go and c21.go (cursor/aggregate machinery of the storage read path — neighbours of your anchors), rules/c01x_cmp.go (comparator decision tables). 3. Helper files core/x_rw*.go, core/x_hd*.go (edge-fact helpers: go/cfg keeps `a && b` as ONE condition node — use `AtomEdge`, `EdgeFacts`, `Establishes`, `EmptyOn`, `NilEdge`; `ResolveLocal`/`SingleDef` see through temporaries; `(*Func).Inline` splices same-package helpers into a CFG). 4. /verif/DESIGN.md §0 and §3. 5. The property records in /verif/properties.jsonl (ids {', '.join(props)}) and the anchored source in /repo — READ the real functions before writing a rule.

## Where you work
Your private copy of the checker is /tmp/rw/{grp}/checker (already created). Write ONLY there: one new file `rules/cNN.go` per property you decide to claim (register(&Prop{{…}}) as in rules/c35.go; remove nothing from rules/registry.go — an entry in its NotApplicable list is ignored once the property is registered); helpers in those files or a NEW file `core/x_{grp}.go`. Do NOT modify existing files. Never write to /verif or /repo. Build and run:

  cd /tmp/rw/{grp}/checker && PATH=/opt/veriftools/go1.26.8/bin:$PATH GOTOOLCHAIN=local GOFLAGS=-mod=mod GOPROXY=off GOSUMDB=off GOWORK=off go build -o /tmp/rw/{grp}/verifcheck . && VERIF_DIR=/tmp/rw/{grp}/out VERIF_VERBOSE=1 /tmp/rw/{grp}/verifcheck -p {first}

(`VERIF_DIR` keeps evidence out of /verif.) Note: packages that import the cgo package github.com/influxdata/flux/libflux still type-check from source with go/packages (only libflux itself fails to load; that is tolerated by the loader). The machine is shared: do not run more than one check at a time.

## What good looks like
- Rules are decided on resolved structure (types, callees, CFG paths, fields, constants) — never source text, line numbers or variable names.
- Anti-vacuity: every rule asserts that its anchors exist and matched at least the number of sites you confirmed by reading.
- On today's /repo every rule must pass, except genuine defects: if a rule fails on today's tree, work out whether the code really violates the property statement for some input (then leave it reported and describe the failing input precisely in your report — do not add known findings or fixes yourself) or whether the rule is too strong (then fix or drop the rule).
- Validate both ways: for each rule make 2–3 small breaking edits that still type-check and 2 behaviour-preserving rewrites (helper extraction, temporaries, inverted if/else, switch<->if) of the same code in ONE scratch worktree (`git -C /repo worktree add --detach /tmp/rw/{grp}/wt HEAD`; run with `VERIF_REPO=/tmp/rw/{grp}/wt`; `git -C /tmp/rw/{grp}/wt checkout -- .` between edits; remove the worktree at the end with `git -C /repo worktree remove --force /tmp/rw/{grp}/wt`; never `git stash`). Breaking edits must be reported at the construct; benign rewrites must not be reported.
- You can measure sensitivity with the built-in fault enumerator: `VERIF_DIR=/tmp/rw/{grp}/out VERIF_MUTANTS=60 VERIF_SEED=1 /tmp/rw/{grp}/verifcheck -p CNN -tier thorough | tail -3; jq -r '.coverage.generic_fault_enumeration | (.survivors[]), "killed=\\(.faults_killed) survived=\\(.faults_survived)"' /tmp/rw/{grp}/out/evidence/CNN.json` (single-site faults in the functions your rules analysed; survivors that break a clause you claim deserve a rule).
- Keep quick-tier cost low: load only the packages needed (`Patterns`).

## Final report (your last message, concise)
Per property: claimed or declined; if claimed — the clauses decided, rules implemented (name -> what it checks, #instances, why it is a necessary condition), clauses considered and dropped with the reason, violations on today's tree (key + failing input if genuine), the breaking edits and benign rewrites tried with results, fault-enumeration kill rate; files created. If declined — which clauses you examined and why none is soundly decidable.""")
