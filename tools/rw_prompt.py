#!/usr/bin/env python3
"""Prompt for a rule-writer agent: rw_prompt.py <group> <C..> <C..> ..."""
import sys
grp = sys.argv[1]; props = sys.argv[2:]
print(f"""You are extending a repo-specific STATIC ANALYSER ("verifcheck", Go) that decides semantic properties of InfluxDB 2.x (source in /repo, read-only for you) without running it. Your task: write the rule sets for properties {', '.join(props)}.

## Read first
1. /verif/checker/README.md — the rule-author guide and core API. 2. /verif/checker/rules/c02.go — a complete example; /verif/checker/rules/c09.go — lockset table example. 3. /verif/DESIGN.md — §0 (stance), §3 (engines) and, in §5, the sections for {', '.join(props)}: they list the clauses to decide ("decides:"), the anchors, the expected exceptions and the expected findings on today's tree. 4. The property records in /verif/properties.jsonl (ids {', '.join(props)}). 5. The anchored source in /repo — READ the real functions before writing a rule; DESIGN.md was written from a reading of the code but may be imprecise in details; the code wins.

## Where you work
Your private copy of the checker is /tmp/rw/{grp}/checker (already created). Write ONLY there: one new file `rules/cXX.go` (lower-case, e.g. rules/c13.go) per property; helpers you need go in those files or in a NEW file `core/x_{grp}.go` — do NOT modify any existing file in core/ or rules/ (other people are working on copies of the same tree and your files will be merged by copying). Never write to /verif or /repo. Build and run:

  cd /tmp/rw/{grp}/checker && PATH=/opt/veriftools/go1.26.8/bin:$PATH GOTOOLCHAIN=local GOFLAGS=-mod=mod GOPROXY=off GOSUMDB=off GOWORK=off go build -o /tmp/rw/{grp}/verifcheck . && VERIF_DIR=/tmp/rw/{grp}/out VERIF_VERBOSE=1 /tmp/rw/{grp}/verifcheck -p C13

(`VERIF_DIR` keeps evidence out of /verif; a run takes 4–15 s.) The machine is shared: do not run more than one check at a time.

## What good looks like
- Implement as many of the "decides:" clauses of each property as you can make EXACT. A clause you cannot decide without guessing is dropped and named in your report — no approximations that could false-alarm. Prefer several independent structural rules per property over one; think about what a realistic bad edit to the anchored code would look like (dropped fsync/error check, lock released early or taken late, reordered steps, missing switch case, guard on the wrong variable, wrong key function, skipped counter update, check moved after the effect …) and make sure such an edit changes the truth of some rule.
- Rules are decided on resolved structure (types, callees, CFG paths, fields) — never source text, line numbers, or exact-expression matches where a semantically equal rewrite is likely. Matching a condition by `core.ExprStr(cond) == "…"` is acceptable only for picking an exempt edge and only when no type-level way exists.
- Anti-vacuity: every rule asserts that its anchors exist and matched at least the number of sites you confirmed by reading.
- On today's /repo every rule must pass, EXCEPT the genuine defects DESIGN.md §6 expects (and any new genuine one you find — explain the failing history precisely). Leave genuine defects reported as violations and list them in your final report with the obligation key printed in the FAIL line / evidence (`rule:construct:what`); do not add known_findings or fixes yourself. Every other report on today's tree must be triaged: fix the rule, or add a named exception with a one-line reason.
- Validate both ways: for each rule family, create ONE scratch worktree (`git -C /repo worktree add --detach /tmp/rw/{grp}/wt HEAD`), make a small breaking edit that still type-checks, run with `VERIF_REPO=/tmp/rw/{grp}/wt`, confirm the rule reports exactly that construct, `git -C /tmp/rw/{grp}/wt checkout -- .` and go on to the next edit. Remove the worktree at the end (`git -C /repo worktree remove --force /tmp/rw/{grp}/wt`). Record each edit and result.
- `Explanation` (what is decided, which rules) and `NotCovered` (what is not) of each Prop must be accurate, plain prose; Level is "other".
- Keep quick-tier cost low: load only the packages needed (`Patterns`).

## Final report (your last message, concise)
Per property: rules implemented (name → what it checks, #instances), clauses dropped and why, exceptions added with reasons, violations on today's tree (key + why genuine), the mutation edits you tried and whether each was caught, and the files you created.""")
