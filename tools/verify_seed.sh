#!/bin/bash
# verify_seed.sh <name>: confirm a seeded change in its scratch worktree /tmp/wt/<name>:
# demo fails with patch, passes without, existing tests pass with patch.
name=$1; wt=/tmp/wt/$name; out=/tmp/seedout/$name
export GOFLAGS=-mod=mod GOPROXY=off PKG_CONFIG_PATH=/tmp/stubflux
cd $wt || exit 2
log=$out/verify.log; : > $log
demo=$(python3 -c "import json;print(json.load(open('$out/meta.json'))['demo_cmd'])")
exist=$(python3 -c "import json;print(json.load(open('$out/meta.json'))['existing_tests_cmd'])")
echo "== status" >> $log; git status --short >> $log
# make sure the tree has exactly patch applied
git apply -R --check $out/patch.diff 2>>$log || { echo "RESULT patch-not-applied-cleanly" >> $log; }
echo "== demo WITH patch: $demo" >> $log
( eval "$demo" ) >> $log 2>&1; with=$?
git apply -R $out/patch.diff >> $log 2>&1
echo "== demo WITHOUT patch" >> $log
( eval "$demo" ) >> $log 2>&1; without=$?
git apply $out/patch.diff >> $log 2>&1
echo "== existing tests WITH patch: $exist" >> $log
( eval "$exist" ) >> $log 2>&1; ex=$?
echo "RESULT with=$with without=$without existing=$ex" | tee -a $log
if [ $with -ne 0 ] && [ $without -eq 0 ] && [ $ex -eq 0 ]; then echo CONFIRMED | tee -a $log; else echo NOT-CONFIRMED | tee -a $log; fi
