#!/bin/bash
# verify_seed.sh <name>: confirm a seeded change in its scratch worktree /tmp/wt/<name>:
#  - the demonstration fails with the patch and passes without it,
#  - the existing tests of every package the patch touches still pass with it
#    (demo tests skipped; tsi1's TestGenerateIndexFile_Uvarint fails on the
#    unmodified tree too and is skipped).
name=$1; wt=/tmp/wt/$name; out=/tmp/seedout/$name
export GOFLAGS=-mod=mod GOPROXY=off PKG_CONFIG_PATH=/tmp/stubflux
cd $wt || exit 2
log=$out/verify.log; : > $log
demo=$(python3 -c "import json;print(json.load(open('$out/meta.json'))['demo_cmd'])")
pkgs=$(grep '^+++ b/' $out/patch.diff | sed 's|^+++ b/||' | xargs -n1 dirname | sort -u | sed 's|^|./|' | tr '\n' ' ')
skips=$(cat $out/*_test.go 2>/dev/null | grep -o '^func Test[A-Za-z0-9_]*' | sed 's/^func //' | sort -u | tr '\n' '|')
skips="${skips}TestGenerateIndexFile_Uvarint"
exist="go build -p 6 $pkgs && go test -p 6 -count=1 -vet=off -skip '$skips' $pkgs"
echo "== status" >> $log; git status --short >> $log
git apply -R --check $out/patch.diff 2>>$log || echo "WARN patch-not-applied-cleanly" >> $log
echo "== demo WITH patch: $demo" >> $log
( eval "$demo" ) >> $log 2>&1; with=$?
git apply -R $out/patch.diff >> $log 2>&1
echo "== demo WITHOUT patch" >> $log
( eval "$demo" ) >> $log 2>&1; without=$?
git apply $out/patch.diff >> $log 2>&1
echo "== existing tests WITH patch: $exist" >> $log
( eval "$exist" ) >> $log 2>&1; ex=$?
echo "RESULT $name with=$with without=$without existing=$ex" | tee -a $log
if [ $with -ne 0 ] && [ $without -eq 0 ] && [ $ex -eq 0 ]; then echo "CONFIRMED $name" | tee -a $log; else echo "NOT-CONFIRMED $name" | tee -a $log; fi
