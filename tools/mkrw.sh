#!/bin/sh
# usage: mkrw.sh <grp> — private copy of the checker for a rule-writing agent at /tmp/rw/<grp>
set -e
d=/tmp/rw/$1
rm -rf "$d"; mkdir -p "$d/out/evidence"
cp -r /verif/checker "$d/checker"
cp /verif/known_findings.json "$d/out/"
mkdir -p "$d/out/seeded"   # thorough tier looks for seeds under VERIF_DIR/seeded: link the real ones
rmdir "$d/out/seeded"; ln -s /verif/seeded "$d/out/seeded"
mkdir -p "$d/out/checker"; ln -s "$d/checker/testdata" "$d/out/checker/testdata"
echo "$d"
