#!/bin/sh
# usage: mkwt.sh <name>  — creates a scratch worktree of /repo HEAD at /tmp/wt/<name>
set -e
d=/tmp/wt/$1
[ -d "$d" ] && { echo "$d exists"; exit 0; }
git -C /repo worktree add --detach -q "$d" HEAD
mkdir -p /tmp/seedout/$1
echo "$d"
