package io

// Demonstration for the "fix:" commit in LimitedReadCloser.Read.
// Place at kit/io/ and run: go test -count=1 -run TestC32_ExactLimitIsNotExceeded ./kit/io/
// Before the fix a body of exactly the limit made Close return
// ErrReadLimitExceeded, which the write handler answers with 413.

import (
	"bytes"
	"io"
	"testing"
)

func TestC32_ExactLimitIsNotExceeded(t *testing.T) {
	for _, tc := range []struct {
		body  string
		limit int64
		want  error
	}{
		{"ho", 2, nil},
		{"h", 2, nil},
		{"how", 2, ErrReadLimitExceeded},
		{"", 0, nil},
	} {
		rc := NewLimitedReadCloser(&closer{Reader: bytes.NewBufferString(tc.body)}, tc.limit)
		if _, err := io.ReadAll(rc); err != nil {
			t.Fatal(err)
		}
		if got := rc.Close(); got != tc.want {
			t.Fatalf("body %q limit %d: Close() = %v, want %v", tc.body, tc.limit, got, tc.want)
		}
	}
}
