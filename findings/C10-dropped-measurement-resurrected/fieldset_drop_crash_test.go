package tsdb_test

// Demonstration for the "fix:" commit in tsdb.marshalFieldChanges /
// loadFieldChangeSet. Place at tsdb/ and run:
//   go test -count=1 -vet=off -run TestC10_DroppedMeasurementStaysDroppedAfterCrash ./tsdb/
// Before the fix the DeleteMeasurement change is acknowledged by Save but never
// reaches fields.idxl, so a restart without a clean Close (crash) brings the
// dropped measurement's field schema back.

import (
	"path/filepath"
	"testing"

	"github.com/influxdata/influxdb/v2/tsdb"
	"github.com/influxdata/influxql"
)

func TestC10_DroppedMeasurementStaysDroppedAfterCrash(t *testing.T) {
	path := filepath.Join(t.TempDir(), "fields.idx")
	mf, err := tsdb.NewMeasurementFieldSet(path, nil)
	if err != nil {
		t.Fatal(err)
	}
	fields := mf.CreateFieldsIfNotExists([]byte("cpu"))
	if _, _, err := fields.CreateFieldIfNotExists("value", influxql.Float); err != nil {
		t.Fatal(err)
	}
	add := tsdb.FieldChange{
		FieldCreate: tsdb.FieldCreate{Measurement: []byte("cpu"), Field: &tsdb.Field{Name: "value", Type: influxql.Float}},
		ChangeType:  tsdb.AddMeasurementField,
	}
	if err := mf.Save(tsdb.FieldChanges{&add}); err != nil {
		t.Fatal(err)
	}
	// drop the measurement: in-memory delete + acknowledged, persisted change
	mf.Delete("cpu")
	if err := mf.Save(tsdb.MeasurementsToFieldChangeDeletions([]string{"cpu"})); err != nil {
		t.Fatal(err)
	}
	// crash: no Close / WriteToFile. Reopen from what is on disk.
	mf2, err := tsdb.NewMeasurementFieldSet(path, nil)
	if err != nil {
		t.Fatalf("reopen: %v", err)
	}
	defer mf2.Close()
	if f := mf2.FieldsByString("cpu"); f != nil && f.Field("value") != nil {
		t.Fatalf("schema of dropped measurement cpu came back after an unclean restart: value is %v", f.Field("value").Type)
	}
}
