package tsm1_test

// Known finding C02 (recorded, not repaired): after a FAILED cache snapshot
// Cache.Snapshot hands the same (old) snapshot back for the retry, but
// doWriteSnapshot closes the WAL segment again and pairs that old snapshot with
// the list of ALL closed segments — including the one that holds the writes made
// between the two attempts. Those writes are only in the live cache; when the
// retry succeeds their segment is removed, and a crash loses them.
// Place at tsdb/engine/tsm1/ and run:
//   go test -count=1 -vet=off -run TestC02_WritesBetweenSnapshotAttemptsSurvive ./tsdb/engine/tsm1/
// The test FAILS on the unchanged tree (that is the finding).

import (
	"context"
	"testing"

	"github.com/influxdata/influxdb/v2/models"
	"github.com/influxdata/influxdb/v2/tsdb"
	"github.com/influxdata/influxdb/v2/tsdb/engine/tsm1"
)

func TestC02_WritesBetweenSnapshotAttemptsSurvive(t *testing.T) {
	ctx := context.Background()
	e, err := NewEngine(t, tsdb.TSI1IndexName)
	if err != nil {
		t.Fatal(err)
	}
	e.CompactionPlan = &mockPlanner{}
	if err := e.Open(ctx); err != nil {
		t.Fatal(err)
	}
	write := func(lp string) {
		t.Helper()
		p := MustParsePointString(lp)
		if err := e.CreateSeriesIfNotExists(p.Key(), p.Name(), p.Tags()); err != nil {
			t.Fatal(err)
		}
		if err := e.WritePoints(ctx, []models.Point{p}); err != nil {
			t.Fatal(err)
		}
	}
	write("cpu,host=A value=1.1 1000000000")
	e.Compactor.DisableSnapshots()
	if err := e.WriteSnapshot(); err == nil {
		t.Fatal("setup: the snapshot was expected to fail while snapshots are disabled")
	}
	write("cpu,host=A value=1.2 2000000000") // acknowledged between the two attempts
	e.Compactor.EnableSnapshots()
	if err := e.WriteSnapshot(); err != nil {
		t.Fatal(err)
	}
	if err := e.Reopen(); err != nil { // crash + restart (no flush)
		t.Fatal(err)
	}
	key := tsm1.SeriesFieldKeyBytes("cpu,host=A", "value")
	found := false
	for _, v := range e.Cache.Values(key) {
		if v.UnixNano() == 2000000000 {
			found = true
		}
	}
	if vs, _ := e.FileStore.Read(key, 2000000000); len(vs) > 0 {
		for _, v := range vs {
			if v.UnixNano() == 2000000000 {
				found = true
			}
		}
	}
	if !found {
		t.Fatalf("the write acknowledged between the failed and the successful snapshot is gone after a restart (cache: %v)", e.Cache.Values(key))
	}
}
