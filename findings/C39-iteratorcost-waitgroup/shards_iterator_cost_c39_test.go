package tsdb_test

import (
	"context"
	"path/filepath"
	"testing"
	"time"

	"github.com/influxdata/influxdb/v2/influxql/query"
	"github.com/influxdata/influxdb/v2/tsdb"
)

// IteratorCost under a cancelled context (a query that was killed while it
// waited for a limiter slot) must return, not block for ever.
func TestC39_ShardsIteratorCost_CancelledContextReturns(t *testing.T) {
	dir := t.TempDir()
	var shards tsdb.Shards
	for i := 0; i < 64; i++ {
		p := filepath.Join(dir, "db0", "rp0", "1")
		shards = append(shards, tsdb.NewShard(uint64(i), p, filepath.Join(dir, "wal"), nil, tsdb.NewEngineOptions()))
	}
	ctx, cancel := context.WithCancel(context.Background())
	cancel()
	done := make(chan struct{})
	go func() {
		defer close(done)
		_, _ = shards.IteratorCost(ctx, "cpu", query.IteratorOptions{})
	}()
	select {
	case <-done:
	case <-time.After(5 * time.Second):
		t.Fatal("Shards.IteratorCost did not return within 5s for a cancelled context: it waits on a WaitGroup whose counter was raised for a goroutine that was never started")
	}
}
