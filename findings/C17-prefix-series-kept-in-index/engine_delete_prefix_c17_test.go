package tsm1_test

import (
	"context"
	"testing"

	"github.com/influxdata/influxdb/v2/models"
	"github.com/influxdata/influxdb/v2/tsdb"
)

// A series whose key is a proper prefix of another series' key ("cpu,host=a" /
// "cpu,host=ab"), both only in the cache. One delete covers every point of the
// first and leaves a point of the second. The first series has no data left and
// must disappear from the index.
func TestC17_DeleteSeriesRange_PrefixSeriesKeptInIndex(t *testing.T) {
	for _, index := range tsdb.RegisteredIndexes() {
		t.Run(index, func(t *testing.T) {
			pa := MustParsePointString("cpu,host=a value=1.0 1000000000")
			pab1 := MustParsePointString("cpu,host=ab value=2.0 1000000000")
			pab2 := MustParsePointString("cpu,host=ab value=3.0 9000000000") // outside the deleted range

			e, err := NewEngine(t, index)
			if err != nil {
				t.Fatal(err)
			}
			e.CompactionPlan = &mockPlanner{}
			if err := e.Open(context.Background()); err != nil {
				t.Fatal(err)
			}
			pts := []models.Point{pa, pab1, pab2}
			for _, p := range pts {
				if err := e.CreateSeriesIfNotExists(p.Key(), p.Name(), p.Tags()); err != nil {
					t.Fatal(err)
				}
			}
			if err := e.WritePoints(context.Background(), pts); err != nil {
				t.Fatal(err)
			}

			itr := &seriesIterator{keys: [][]byte{[]byte("cpu,host=a"), []byte("cpu,host=ab")}}
			if err := e.DeleteSeriesRange(context.Background(), itr, 0, 3000000000); err != nil {
				t.Fatal(err)
			}

			// data: only cpu,host=ab @9s is left
			if n := e.Cache.Values([]byte("cpu,host=a#!~#value")).Len(); n != 0 {
				t.Fatalf("cpu,host=a still has %d cached values", n)
			}
			if n := e.Cache.Values([]byte("cpu,host=ab#!~#value")).Len(); n != 1 {
				t.Fatalf("cpu,host=ab: %d cached values, want 1", n)
			}

			// index: exactly the series that still has data is listed
			indexSet := tsdb.IndexSet{Indexes: []tsdb.Index{e.index}, SeriesFile: e.sfile}
			iter, err := indexSet.MeasurementSeriesIDIterator([]byte("cpu"))
			if err != nil {
				t.Fatal(err)
			}
			defer iter.Close()
			var listed []string
			for {
				elem, err := iter.Next()
				if err != nil {
					t.Fatal(err)
				}
				if elem.SeriesID == 0 {
					break
				}
				name, tags := e.sfile.Series(elem.SeriesID)
				listed = append(listed, string(models.MakeKey(name, tags)))
			}
			if len(listed) != 1 || listed[0] != "cpu,host=ab" {
				t.Fatalf("series listed for cpu after the delete: %v, want [cpu,host=ab] (cpu,host=a has no data left)", listed)
			}
		})
	}
}
