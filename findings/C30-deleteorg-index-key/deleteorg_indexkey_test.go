package tenant_test

// Demonstration for the "fix:" commit in tenant.Store.DeleteOrg.
// Place at tenant/ and run (only this file, the package's other tests link the
// Flux stdlib which cannot initialise with the stub libflux):
//   go test -count=1 -vet=off -run TestC30_DeleteOrgWithPaddedName ./tenant/deleteorg_indexkey_test.go
// Before the fix: deleting an organization whose stored name has surrounding
// blanks leaves its (trimmed) name-index entry behind: the name then resolves to
// a record that does not exist and can never be used again.

import (
	"context"
	"testing"

	"github.com/influxdata/influxdb/v2"
	"github.com/influxdata/influxdb/v2/inmem"
	"github.com/influxdata/influxdb/v2/kv"
	"github.com/influxdata/influxdb/v2/kv/migration/all"
	"github.com/influxdata/influxdb/v2/tenant"
	"go.uber.org/zap/zaptest"
)

func TestC30_DeleteOrgWithPaddedName(t *testing.T) {
	ctx := context.Background()
	s := inmem.NewKVStore()
	if err := all.Up(ctx, zaptest.NewLogger(t), s); err != nil {
		t.Fatal(err)
	}
	st := tenant.NewStore(s)
	o := &influxdb.Organization{Name: " acme "}
	if err := st.Update(ctx, func(tx kv.Tx) error { return st.CreateOrg(ctx, tx, o) }); err != nil {
		t.Fatal(err)
	}
	if err := st.Update(ctx, func(tx kv.Tx) error { return st.DeleteOrg(ctx, tx, o.ID) }); err != nil {
		t.Fatal(err)
	}
	// the name must be free again and must not resolve to anything
	err := st.View(ctx, func(tx kv.Tx) error {
		_, err := st.GetOrgByName(ctx, tx, "acme")
		return err
	})
	if err == nil {
		t.Fatalf("deleted organization still resolvable by name")
	}
	o2 := &influxdb.Organization{Name: "acme"}
	if err := st.Update(ctx, func(tx kv.Tx) error { return st.CreateOrg(ctx, tx, o2) }); err != nil {
		t.Fatalf("name of a deleted organization cannot be reused: %v", err)
	}
}
