package tsm1_test

// Known finding C05: the full-compaction branch of (*DefaultPlanner).Plan skips
// generations that are already held by a running compaction (and over-sized
// ones) with `continue` while it keeps accumulating the SAME group, so the group
// it hands out is not contiguous in generation order.
// Place at tsdb/engine/tsm1/ and run:
//   go test -count=1 -vet=off -run TestC05_FullPlanSkipsHeldGeneration ./tsdb/engine/tsm1/
// The test FAILS on the unchanged tree (that is the finding).

import (
	"testing"
	"time"

	"github.com/influxdata/influxdb/v2/tsdb/engine/tsm1"
)

func TestC05_FullPlanSkipsHeldGeneration(t *testing.T) {
	data := []tsm1.FileStat{
		{Path: "01-04.tsm1", Size: 10 * 1024 * 1024},
		{Path: "02-01.tsm1", Size: 1 * 1024 * 1024},
		{Path: "03-01.tsm1", Size: 1 * 1024 * 1024},
		{Path: "04-01.tsm1", Size: 1 * 1024 * 1024},
		{Path: "05-01.tsm1", Size: 1 * 1024 * 1024},
		{Path: "06-04.tsm1", Size: 10 * 1024 * 1024},
	}
	cp := tsm1.NewDefaultPlanner(newFakeFileStore(withFileStats(t, data)), time.Nanosecond)

	// a level-1 compaction takes generations 2..5 (held by a running compaction)
	lvl, _ := cp.PlanLevel(cp.FindGenerations(), 1)
	if len(lvl) != 1 {
		t.Fatalf("setup: expected one level-1 group, got %v", lvl)
	}
	held := map[string]bool{}
	for _, f := range lvl[0] {
		held[f] = true
	}
	// the shard is cold: a full compaction is planned while that group is still held
	full, _ := cp.Plan(cp.FindGenerations(), time.Now().Add(-time.Hour))
	if len(full) == 0 {
		return // nothing planned: fine
	}
	for _, f := range full[0] {
		if held[f] {
			t.Fatalf("double-booked file %s", f)
		}
	}
	// contiguity: the planned files must be a contiguous run of generations
	idx := map[string]int{}
	for i, d := range data {
		idx[d.Path] = i
	}
	lo, hi := len(data), -1
	for _, f := range full[0] {
		if idx[f] < lo {
			lo = idx[f]
		}
		if idx[f] > hi {
			hi = idx[f]
		}
	}
	if hi-lo+1 != len(full[0]) {
		t.Fatalf("non-contiguous full-compaction group %v while %v is held by a running compaction: generations %d..%d would be merged around the held ones", full[0], lvl[0], lo+1, hi+1)
	}
}
