package dbrp_test

// Demonstration for the "fix:" commit in dbrp.Service.FindMany.
// Place at dbrp/ and run:
//   go test -count=1 -vet=off -run TestC43_VirtualMappingSuppressedAfterDefault ./dbrp/
// History: bucket "foo" (B1) exists; DBRP (foo, x -> B2) is created first and is
// the default; DBRP (foo, autogen -> B2) is created second. Listing the
// organization's mappings then (before the fix) returns BOTH the physical
// (foo, autogen -> B2) and the virtual (foo, autogen -> B1): one (database,
// retention policy) pair resolves to two buckets.

import (
	"context"
	"testing"

	"github.com/influxdata/influxdb/v2"
	"github.com/influxdata/influxdb/v2/dbrp"
	"github.com/influxdata/influxdb/v2/kit/platform"
	"github.com/influxdata/influxdb/v2/mock"
	itesting "github.com/influxdata/influxdb/v2/testing"
)

func TestC43_VirtualMappingSuppressedAfterDefault(t *testing.T) {
	ctx := context.Background()
	s, closeStore := itesting.NewTestBoltStore(t)
	defer closeStore()
	org := platform.ID(10)
	b1, b2 := platform.ID(101), platform.ID(102)
	bs := &mock.BucketService{
		FindBucketByIDFn: func(ctx context.Context, id platform.ID) (*influxdb.Bucket, error) {
			return &influxdb.Bucket{ID: id, OrgID: org, Name: "bar"}, nil
		},
		FindBucketsFn: func(ctx context.Context, bf influxdb.BucketFilter, fo ...influxdb.FindOptions) ([]*influxdb.Bucket, int, error) {
			return []*influxdb.Bucket{{ID: b1, OrgID: org, Name: "foo"}}, 1, nil
		},
	}
	svc := dbrp.NewService(ctx, bs, s)
	m1 := &influxdb.DBRPMapping{Database: "foo", RetentionPolicy: "x", OrganizationID: org, BucketID: b2}
	if err := svc.Create(ctx, m1); err != nil {
		t.Fatal(err)
	}
	m2 := &influxdb.DBRPMapping{Database: "foo", RetentionPolicy: "autogen", OrganizationID: org, BucketID: b2}
	if err := svc.Create(ctx, m2); err != nil {
		t.Fatal(err)
	}
	ms, _, err := svc.FindMany(ctx, influxdb.DBRPMappingFilter{OrgID: &org})
	if err != nil {
		t.Fatal(err)
	}
	seen := map[string]platform.ID{}
	for _, m := range ms {
		k := m.Database + "/" + m.RetentionPolicy
		if prev, dup := seen[k]; dup && prev != m.BucketID {
			t.Fatalf("(database, retention policy) %s resolves to two buckets: %v and %v (virtual=%v)", k, prev, m.BucketID, m.Virtual)
		}
		seen[k] = m.BucketID
	}
}
