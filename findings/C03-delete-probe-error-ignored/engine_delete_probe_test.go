package tsm1_test

// Demonstration for the "fix:" commit in (*Engine).deleteSeriesRange (overlap
// probe error ignored). Place at tsdb/engine/tsm1/ and run:
//   go test -count=1 -vet=off -run TestC03_DeleteReportsFailureWhenFilesCannotBeScanned ./tsdb/engine/tsm1/
// With new readers blocked (the window the retention service opens before it
// removes a shard) FileStore.Apply fails before looking at any file. The probe's
// error was discarded, "nothing overlaps" was concluded, and with an empty cache
// the delete returned success without writing a tombstone: the points stay readable.

import (
	"context"
	"math"
	"testing"

	"github.com/influxdata/influxdb/v2/models"
	"github.com/influxdata/influxdb/v2/tsdb"
)

func TestC03_DeleteReportsFailureWhenFilesCannotBeScanned(t *testing.T) {
	e, err := NewEngine(t, tsdb.TSI1IndexName)
	if err != nil {
		t.Fatal(err)
	}
	e.CompactionPlan = &mockPlanner{}
	if err := e.Open(context.Background()); err != nil {
		t.Fatal(err)
	}
	p := MustParsePointString("cpu,host=A value=1.2 2000000000")
	if err := e.CreateSeriesIfNotExists(p.Key(), p.Name(), p.Tags()); err != nil {
		t.Fatal(err)
	}
	if err := e.WritePoints(context.Background(), []models.Point{p}); err != nil {
		t.Fatal(err)
	}
	if err := e.WriteSnapshot(); err != nil { // data now only in a TSM file, cache empty
		t.Fatal(err)
	}
	if err := e.FileStore.SetNewReadersBlocked(true); err != nil {
		t.Fatal(err)
	}
	itr := &seriesIterator{keys: [][]byte{[]byte("cpu,host=A")}}
	derr := e.DeleteSeriesRange(context.Background(), itr, math.MinInt64, math.MaxInt64)
	if err := e.FileStore.SetNewReadersBlocked(false); err != nil {
		t.Fatal(err)
	}
	stillThere := len(e.FileStore.Keys()) > 0
	if derr == nil && stillThere {
		t.Fatalf("DeleteSeriesRange returned success but deleted nothing: %d key(s) still readable", len(e.FileStore.Keys()))
	}
}
