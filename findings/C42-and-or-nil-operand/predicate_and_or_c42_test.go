package tsi1_test

import (
	"testing"

	"github.com/influxdata/influxdb/v2/models"
	"github.com/influxdata/influxdb/v2/tsdb"
	"github.com/influxdata/influxql"
)

// Listing measurements with a condition that combines a system tag with an
// ordinary tag (SHOW MEASUREMENTS WHERE _tagKey = 'x' AND host = 'a') must
// answer, not panic.
func TestC42_MeasurementNames_AndOrWithOperandWithoutIterator(t *testing.T) {
	idx := MustOpenDefaultIndex(t)
	panicked := false
	defer func() {
		if !panicked { // a panic leaves the series file retained: Close would wait for ever
			idx.Close()
		}
	}()
	if err := idx.CreateSeriesListIfNotExists(
		[][]byte{[]byte("cpu,host=a")}, [][]byte{[]byte("cpu")},
		[]models.Tags{models.NewTags(map[string]string{"host": "a"})}); err != nil {
		t.Fatal(err)
	}
	is := tsdb.IndexSet{Indexes: []tsdb.Index{idx.Index}, SeriesFile: idx.SeriesFile.SeriesFile}
	for _, q := range []string{`_tagKey = 'x' AND host = 'a'`, `host = 'a' OR _tagKey = 'x'`, `_tagKey = 'x' OR _tagKey = 'y'`} {
		for name, f := range map[string]func(influxql.Expr) ([][]byte, error){
			"ByExpr":      func(e influxql.Expr) ([][]byte, error) { return is.MeasurementNamesByExpr(nil, e) },
			"ByPredicate": func(e influxql.Expr) ([][]byte, error) { return is.MeasurementNamesByPredicate(nil, e) },
		} {
			func() {
				defer func() {
					if r := recover(); r != nil {
						panicked = true
						t.Errorf("%s(%s): panic: %v", name, q, r)
					}
				}()
				names, err := f(influxql.MustParseExpr(q))
				if err != nil {
					t.Errorf("%s(%s): %v", name, q, err)
				}
				if q == `host = 'a' OR _tagKey = 'x'` && (len(names) != 1 || string(names[0]) != "cpu") {
					t.Errorf("%s(%s) = %q, want [cpu]", name, q, names)
				}
			}()
		}
	}
}
