package tsdb_test

// Demonstration for the "fix:" commit in (*Shard).Restore.
// Place at tsdb/ and run:
//   go test -count=1 -vet=off -run TestC38_RestoreReportsEngineFailure ./tsdb/
// Before the fix a failing Engine.Restore (corrupt or truncated archive) was
// answered with success: the caller believes the shard was restored although
// nothing was installed.

import (
	"bytes"
	"context"
	"path/filepath"
	"testing"

	"github.com/influxdata/influxdb/v2/tsdb"
	_ "github.com/influxdata/influxdb/v2/tsdb/engine"
	_ "github.com/influxdata/influxdb/v2/tsdb/index"
)

func TestC38_RestoreReportsEngineFailure(t *testing.T) {
	dir := t.TempDir()
	sfile := MustOpenSeriesFile(t)
	defer sfile.Close()
	opts := tsdb.NewEngineOptions()
	opts.Config.WALDir = filepath.Join(dir, "wal")
	sh := tsdb.NewShard(1, filepath.Join(dir, "db0", "rp0", "1"), filepath.Join(dir, "wal", "db0", "rp0", "1"), sfile.SeriesFile, opts)
	if err := sh.Open(context.Background()); err != nil {
		t.Fatal(err)
	}
	defer sh.Close()
	// 2 KiB of non-tar bytes: the tar reader fails with "invalid tar header"
	garbage := bytes.Repeat([]byte("this is not a tar archive. "), 80)
	if err := sh.Restore(context.Background(), bytes.NewReader(garbage), "db0/rp0/1"); err == nil {
		t.Fatalf("Restore of a corrupt archive reported success")
	}
}
