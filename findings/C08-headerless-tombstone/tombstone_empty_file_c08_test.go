package tsm1_test

import (
	"os"
	"strings"
	"testing"

	"github.com/influxdata/influxdb/v2/tsdb/engine/tsm1"
)

// A zero-length tombstone file next to a TSM file ("should not exist, but an old
// bug allowed them to occur", says Tombstoner.Walk, which reads it as empty) must
// not make the next delete unreadable: the tombstone added afterwards persists
// across reopen.
func TestC08_TombstoneAddedNextToAnEmptyTombstoneFilePersists(t *testing.T) {
	dir := t.TempDir()
	f := MustTempFile(t, dir)
	tombPath := strings.TrimSuffix(f.Name(), ".tsm") + ".tombstone"
	if !strings.HasSuffix(f.Name(), ".tsm") {
		tombPath = f.Name() + ".tombstone"
	}
	ts := tsm1.NewTombstoner(f.Name(), nil)
	if err := ts.AddRange([][]byte{[]byte("probe")}, 0, 1); err != nil {
		t.Fatal(err)
	}
	if err := ts.Flush(); err != nil {
		t.Fatal(err)
	}
	// find the real tombstone path, then start over with an EMPTY file there
	stats := ts.TombstoneStats()
	tombPath = stats.Path
	if err := os.WriteFile(tombPath, nil, 0o666); err != nil {
		t.Fatal(err)
	}

	ts = tsm1.NewTombstoner(f.Name(), nil)
	if got := len(mustReadAll(ts)); got != 0 {
		t.Fatalf("an empty tombstone file reads as %d entries", got)
	}
	if err := ts.AddRange([][]byte{[]byte("cpu,host=a#!~#value")}, 10, 20); err != nil {
		t.Fatal(err)
	}
	if err := ts.Flush(); err != nil {
		t.Fatal(err)
	}

	// reopen
	ts = tsm1.NewTombstoner(f.Name(), nil)
	var got []tsm1.Tombstone
	if err := ts.Walk(func(t tsm1.Tombstone) error { got = append(got, t); return nil }); err != nil {
		t.Fatalf("the tombstone file written after the delete cannot be read back: %v", err)
	}
	if len(got) != 1 || string(got[0].Key) != "cpu,host=a#!~#value" || got[0].Min != 10 || got[0].Max != 20 {
		t.Fatalf("acknowledged delete [cpu,host=a#!~#value 10..20] reads back as %d entries: %+v", len(got), got)
	}
}
