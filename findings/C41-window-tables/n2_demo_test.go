package storageflux_test

import (
	"context"
	"errors"
	"math"
	"testing"
	"time"

	"github.com/influxdata/flux"
	"github.com/influxdata/flux/execute"
	"github.com/influxdata/flux/memory"
	"github.com/influxdata/flux/plan"
	"github.com/influxdata/influxdb/v2/kit/platform"
	"github.com/influxdata/influxdb/v2/models"
	"github.com/influxdata/influxdb/v2/pkg/data/gen"
	"github.com/influxdata/influxdb/v2/query"
	storageflux "github.com/influxdata/influxdb/v2/storage/flux"
)

var errTooMany = errors.New("too many tables")

func n2run(t *testing.T, kinds []plan.ProcedureKind, force bool, timeCol string, createEmpty bool) (tables, rows int) {
	reader := NewStorageReader(t, func(org, bucket platform.ID) (gen.SeriesGenerator, gen.TimeRange) {
		tagsSpec := &gen.TagsSpec{Tags: []*gen.TagValuesSpec{{TagKey: "t0", Values: func() gen.CountableSequence { return gen.NewCounterByteSequence("a%s", 0, 1) }}}}
		spec := gen.Spec{Measurements: []gen.MeasurementSpec{{
			Name: "m0", TagsSpec: tagsSpec,
			FieldValuesSpec: &gen.FieldValuesSpec{
				Name:             "f0",
				TimeSequenceSpec: gen.TimeSequenceSpec{Count: 3, Delta: 20 * time.Second},
				DataType:         models.Integer,
				Values: func(spec gen.TimeSequenceSpec) gen.TimeValuesSequence {
					return gen.NewTimeIntegerValuesSequence(spec.Count, gen.NewTimestampSequenceFromSpec(spec), gen.NewIntegerArrayValuesSequence([]int64{1, 2}))
				},
			},
		}}}
		tr := gen.TimeRange{Start: mustParseTime("2019-11-25T00:00:00Z"), End: mustParseTime("2019-11-25T00:01:00Z")}
		return gen.NewSeriesGeneratorFromSpec(&spec, tr), tr
	})
	defer reader.Close()
	ti, err := reader.ReadWindowAggregate(context.Background(), query.ReadWindowAggregateSpec{
		ReadFilterSpec: query.ReadFilterSpec{OrganizationID: reader.Org, BucketID: reader.Bucket, Bounds: execute.Bounds{Start: reader.Bounds.Start, Stop: reader.Bounds.Start.Add(flux.ConvertDuration(time.Hour))}},
		Window:         execute.Window{Every: flux.ConvertDuration(time.Second), Period: flux.ConvertDuration(time.Second)},
		Aggregates:     kinds,
		CreateEmpty:    createEmpty,
		ForceAggregate: force,
		TimeColumn:     timeCol,
	}, memory.DefaultAllocator)
	if err != nil {
		t.Fatal(err)
	}
	if err := ti.Do(func(table flux.Table) error {
		tables++
		if tables > 5000 {
			return errTooMany
		}
		k := table.Key()
		return table.Do(func(cr flux.ColReader) error {
			rows += cr.Len()
			if cr.Len() > 0 && len(kinds) > 0 && kinds[0] == storageflux.FirstKind && (tables < 50 || !createEmpty) {
				vi := execute.ColIdx("_value", cr.Cols())
				t.Logf("non-empty table #%d key=[%v,%v) value null=%v", tables, k.Value(0), k.Value(1), cr.Ints(vi).IsNull(0))
			}
			return nil
		})
	}); err != nil && err != errTooMany {
		t.Fatal(err)
	}
	return
}

func TestN2TrailingEmptyWindows(t *testing.T) {
	_ = math.MaxInt32
	tbFirst, _ := n2run(t, []plan.ProcedureKind{storageflux.FirstKind}, false, "", true)
	tbCount, _ := n2run(t, []plan.ProcedureKind{storageflux.CountKind}, false, "", true)
	t.Logf("createEmpty over 3600 windows: first -> %d tables, count -> %d tables", tbFirst, tbCount)
	if tbFirst != 3600 || tbCount != 3600 {
		t.Fatalf("one table per window inside the bounds expected (3600): first=%d count=%d", tbFirst, tbCount)
	}
}

func TestN2ForceAggregateSelector(t *testing.T) {
	tb, rows := n2run(t, []plan.ProcedureKind{storageflux.FirstKind}, true, "", false)
	t.Logf("first, forceAggregate, createEmpty=false, 3 points: tables=%d rows=%d", tb, rows)
	if tb != 3 {
		t.Fatalf("3 points in 3 different windows: 3 tables expected, got %d", tb)
	}
}
