package models_test

// Demonstration for the "fix:" commit in (*point).Name.
// Place at models/ and run: go test -count=1 -run TestC11_NameRoundTripsThroughKey ./models/
// Before the fix Name() unescaped with pkg/escape (which also unescapes `=` and
// `"`), while keys are built with EscapeMeasurement (only `,` and space): a
// measurement containing `\=` came back as `=` from Name() but as `\=` from
// ParseName(key), and a point rebuilt from Name() had a different series key.

import (
	"testing"
	"time"

	"github.com/influxdata/influxdb/v2/models"
)

func TestC11_NameRoundTripsThroughKey(t *testing.T) {
	for _, name := range []string{`cpu\=1`, `a\"b`, `plain`, `with space`, `with,comma`} {
		p, err := models.NewPoint(name, models.NewTags(map[string]string{"h": "a"}), models.Fields{"v": 1.0}, time.Unix(1, 0))
		if err != nil {
			t.Fatal(err)
		}
		if got := string(p.Name()); got != name {
			t.Errorf("Name() = %q, want %q", got, name)
		}
		if got := string(models.ParseName(p.Key())); got != name {
			t.Errorf("ParseName(Key()) = %q, want %q", got, name)
		}
		q, err := models.NewPoint(string(p.Name()), p.Tags(), models.Fields{"v": 1.0}, time.Unix(1, 0))
		if err != nil {
			t.Fatal(err)
		}
		if string(q.Key()) != string(p.Key()) {
			t.Errorf("rebuilding from Name(): key %q != %q", q.Key(), p.Key())
		}
	}
}
