package tsi1_test

import (
	"testing"

	"github.com/influxdata/influxdb/v2/models"
	"github.com/influxdata/influxdb/v2/tsdb"
	"github.com/influxdata/influxql"
)

// A metadata query with a predicate on a system tag other than _name (for
// example `_tagKey = 'host'`) must complete without a panic.
func TestC39_MeasurementNamesByPredicate_SystemTag(t *testing.T) {
	idx := MustOpenDefaultIndex(t)
	defer idx.Close()
	if err := idx.CreateSeriesListIfNotExists(
		[][]byte{[]byte("cpu,host=a")}, [][]byte{[]byte("cpu")},
		[]models.Tags{models.NewTags(map[string]string{"host": "a"})}); err != nil {
		t.Fatal(err)
	}
	is := tsdb.IndexSet{Indexes: []tsdb.Index{idx.Index}, SeriesFile: idx.SeriesFile.SeriesFile}
	defer func() {
		if r := recover(); r != nil {
			t.Fatalf("panic: %v", r)
		}
	}()
	if _, err := is.MeasurementNamesByPredicate(nil, influxql.MustParseExpr(`_tagKey = 'host'`)); err != nil {
		t.Fatal(err)
	}
}
