package reads

import (
	"context"
	"testing"

	"github.com/influxdata/influxdb/v2/tsdb/cursors"
	"github.com/influxdata/influxql"
)

type zzFloatCur struct {
	arrs []*cursors.FloatArray
}

func (c *zzFloatCur) Close()                     {}
func (c *zzFloatCur) Err() error                 { return nil }
func (c *zzFloatCur) Stats() cursors.CursorStats { return cursors.CursorStats{} }
func (c *zzFloatCur) Next() *cursors.FloatArray {
	if len(c.arrs) == 0 {
		return &cursors.FloatArray{}
	}
	a := c.arrs[0]
	c.arrs = c.arrs[1:]
	return a
}

type zzItr struct{ ts []int64; vs []float64 }

func (i *zzItr) Next(ctx context.Context, r *cursors.CursorRequest) (cursors.Cursor, error) {
	return &zzFloatCur{arrs: []*cursors.FloatArray{{Timestamps: i.ts, Values: i.vs}}}, nil
}
func (i *zzItr) Stats() cursors.CursorStats { return cursors.CursorStats{} }

func readAll(cur cursors.Cursor) (n int) {
	fc := cur.(cursors.FloatArrayCursor)
	for {
		a := fc.Next()
		if a.Len() == 0 {
			return
		}
		n += a.Len()
	}
}

func TestZZStaleFilter(t *testing.T) {
	m := newMultiShardArrayCursors(context.Background(), 0, 100, true)
	shards := func() cursors.CursorIterators {
		return cursors.CursorIterators{
			&zzItr{ts: []int64{1, 2}, vs: []float64{1, 9}},   // shard 1
			&zzItr{ts: []int64{11, 12}, vs: []float64{2, 8}}, // shard 2
		}
	}
	cond, _ := influxql.ParseExpr(`"$" > 5.0`)
	// row 1: field a with value condition -> 2 of 4 points
	n1 := readAll(m.createCursor(SeriesRow{Field: "a", Query: shards(), ValueCond: cond}))
	// row 2: field b WITHOUT value condition -> must be all 4 points
	n2 := readAll(m.createCursor(SeriesRow{Field: "b", Query: shards()}))
	t.Logf("row a (filtered) = %d points, row b (unfiltered) = %d points", n1, n2)
	if n2 != 4 {
		t.Fatalf("row without value condition returned %d points, want 4", n2)
	}
}
