package tsm1_test

// Demonstration for the "fix:" commit in (*WAL).Open (append mode).
// Place at tsdb/engine/tsm1/ and run:
//   go test -count=1 -vet=off -run TestC02_WritesAfterTornTailRecoverySurvive ./tsdb/engine/tsm1/
// History: some acknowledged writes; crash leaves half an entry at the end of the
// last WAL segment; reopen (the torn tail is truncated); MORE acknowledged
// writes; crash; reopen. Before the fix the WAL writer stayed positioned past the
// truncated tail, so the later entries were written after a hole of zero bytes and
// were all discarded at the next restart.

import (
	"context"
	"os"
	"path/filepath"
	"sort"
	"testing"

	"github.com/influxdata/influxdb/v2/models"
	"github.com/influxdata/influxdb/v2/tsdb"
	"github.com/influxdata/influxdb/v2/tsdb/engine/tsm1"
)

func TestC02_WritesAfterTornTailRecoverySurvive(t *testing.T) {
	ctx := context.Background()
	e, err := NewEngine(t, tsdb.TSI1IndexName)
	if err != nil {
		t.Fatal(err)
	}
	e.CompactionPlan = &mockPlanner{}
	if err := e.Open(ctx); err != nil {
		t.Fatal(err)
	}
	write := func(lp string) {
		t.Helper()
		p := MustParsePointString(lp)
		if err := e.CreateSeriesIfNotExists(p.Key(), p.Name(), p.Tags()); err != nil {
			t.Fatal(err)
		}
		if err := e.WritePoints(ctx, []models.Point{p}); err != nil {
			t.Fatal(err)
		}
	}
	write("cpu,host=A value=1.1 1000000000")
	write("cpu,host=A value=1.2 2000000000")

	// crash with a torn tail: half an entry is on disk after the last acknowledged
	// one (appended through a second descriptor; the engine is not writing now),
	// then the process "dies" (Reopen closes without flushing the cache)
	segs, _ := filepath.Glob(filepath.Join(e.WAL.Path(), "*.wal"))
	sort.Strings(segs)
	if len(segs) == 0 {
		t.Fatal("no wal segment")
	}
	f, err := os.OpenFile(segs[len(segs)-1], os.O_WRONLY|os.O_APPEND, 0)
	if err != nil {
		t.Fatal(err)
	}
	f.Write([]byte{0x01, 0x00, 0x00, 0x10, 0x00, 0xde, 0xad}) // header announcing 4096 bytes, 2 present
	f.Close()

	if err := e.Reopen(); err != nil {
		t.Fatal(err)
	}
	write("cpu,host=A value=1.3 3000000000") // acknowledged after the first recovery
	write("cpu,host=A value=1.4 4000000000")
	if err := e.Reopen(); err != nil { // crash again, restart
		t.Fatal(err)
	}
	vs := e.Cache.Values(tsm1.SeriesFieldKeyBytes("cpu,host=A", "value"))
	if len(vs) != 4 {
		t.Fatalf("after the second restart %d of 4 acknowledged points are left: %v", len(vs), vs)
	}
}
