// Demonstration for property C44, clause "a request is authenticated only with a
// token that exists and is active".
//
// Place at: authorization/c44toctou/update_vs_delete_test.go
// Run with: go test -count=1 -vet=off ./authorization/c44toctou/
//
// Service.UpdateAuthorization read the record in one transaction (View) and wrote
// it back in another (Update). The schedule below commits a concurrent operation
// between the two: the test wraps the kv store so that the FIRST Update
// transaction started by the update operation is preceded by the other
// operation's transaction — exactly what a concurrent caller can do.
package c44toctou_test

import (
	"context"
	"testing"

	"github.com/influxdata/influxdb/v2"
	"github.com/influxdata/influxdb/v2/authorization"
	"github.com/influxdata/influxdb/v2/inmem"
	"github.com/influxdata/influxdb/v2/kv"
	"github.com/influxdata/influxdb/v2/kv/migration/all"
	"github.com/influxdata/influxdb/v2/tenant"
	"go.uber.org/zap/zaptest"
)

// interleavingStore runs `before` once, just before the next Update transaction.
type interleavingStore struct {
	kv.SchemaStore
	before func()
}

func (s *interleavingStore) Update(ctx context.Context, fn func(kv.Tx) error) error {
	if b := s.before; b != nil {
		s.before = nil
		b()
	}
	return s.SchemaStore.Update(ctx, fn)
}

func setup(t *testing.T) (*interleavingStore, influxdb.AuthorizationService, influxdb.AuthorizationService, *influxdb.Authorization) {
	t.Helper()
	ctx := context.Background()
	inner := inmem.NewKVStore()
	if err := all.Up(ctx, zaptest.NewLogger(t), inner); err != nil {
		t.Fatal(err)
	}
	ts := tenant.NewService(tenant.NewStore(inner))
	org := &influxdb.Organization{Name: "org"}
	if err := ts.CreateOrganization(ctx, org); err != nil {
		t.Fatal(err)
	}
	user := &influxdb.User{Name: "alice"}
	if err := ts.CreateUser(ctx, user); err != nil {
		t.Fatal(err)
	}
	wrapped := &interleavingStore{SchemaStore: inner}
	mk := func(s kv.SchemaStore) influxdb.AuthorizationService {
		st, err := authorization.NewStore(ctx, s, false)
		if err != nil {
			t.Fatal(err)
		}
		return authorization.NewService(st, ts)
	}
	updater, other := mk(wrapped), mk(inner)
	a := &influxdb.Authorization{
		Token: "secret-token", OrgID: org.ID, UserID: user.ID, Status: influxdb.Active,
		Permissions: []influxdb.Permission{{Action: influxdb.ReadAction, Resource: influxdb.Resource{Type: influxdb.BucketsResourceType, OrgID: &org.ID}}},
	}
	if err := other.CreateAuthorization(ctx, a); err != nil {
		t.Fatal(err)
	}
	return wrapped, updater, other, a
}

func TestDeletedTokenIsNotResurrectedByAConcurrentUpdate(t *testing.T) {
	ctx := context.Background()
	store, updater, other, a := setup(t)
	store.before = func() {
		if err := other.DeleteAuthorization(ctx, a.ID); err != nil {
			t.Fatal(err)
		}
	}
	desc := "renamed"
	_, _ = updater.UpdateAuthorization(ctx, a.ID, &influxdb.AuthorizationUpdate{Description: &desc})
	if got, err := other.FindAuthorizationByToken(ctx, "secret-token"); err == nil {
		t.Fatalf("the token was deleted (DeleteAuthorization returned nil) but authenticates again: %+v", got.ID)
	}
}

func TestDeactivatedTokenIsNotReactivatedByAConcurrentUpdate(t *testing.T) {
	ctx := context.Background()
	store, updater, other, a := setup(t)
	store.before = func() {
		st := influxdb.Inactive
		if _, err := other.UpdateAuthorization(ctx, a.ID, &influxdb.AuthorizationUpdate{Status: &st}); err != nil {
			t.Fatal(err)
		}
	}
	desc := "renamed"
	if _, err := updater.UpdateAuthorization(ctx, a.ID, &influxdb.AuthorizationUpdate{Description: &desc}); err != nil {
		t.Fatal(err)
	}
	got, err := other.FindAuthorizationByToken(ctx, "secret-token")
	if err != nil {
		t.Fatal(err)
	}
	if got.Status != influxdb.Inactive {
		t.Fatalf("the token was deactivated, then a description-only update made it %q again", got.Status)
	}
}
