package tsm1_test

// Known finding C38 (recorded, not repaired): (*Engine).readFileFromBackup skips
// every archive member that is not a .tsm file, so the tombstone files that
// MakeSnapshotLinks puts into every backup are dropped on restore. A range delete
// that has not been compacted away yet is undone in the restored shard: the
// restored shard does not have "the same readable points".
// Place at tsdb/engine/tsm1/ and run:
//   go test -count=1 -vet=off -run TestC38_RestoreKeepsPendingDeletes ./tsdb/engine/tsm1/
// The test FAILS on the unchanged tree (that is the finding).

import (
	"bytes"
	"context"
	"testing"
	"time"

	"github.com/influxdata/influxdb/v2/models"
	"github.com/influxdata/influxdb/v2/tsdb"
)

func TestC38_RestoreKeepsPendingDeletes(t *testing.T) {
	ctx := context.Background()
	e, err := NewEngine(t, tsdb.TSI1IndexName)
	if err != nil {
		t.Fatal(err)
	}
	e.CompactionPlan = &mockPlanner{}
	if err := e.Open(ctx); err != nil {
		t.Fatal(err)
	}
	pa := MustParsePointString("cpu,host=A value=1.1 1000000000")
	pb := MustParsePointString("cpu,host=B value=1.2 2000000000")
	for _, p := range []models.Point{pa, pb} {
		if err := e.CreateSeriesIfNotExists(p.Key(), p.Name(), p.Tags()); err != nil {
			t.Fatal(err)
		}
	}
	if err := e.WritePoints(ctx, []models.Point{pa, pb}); err != nil {
		t.Fatal(err)
	}
	if err := e.WriteSnapshot(); err != nil {
		t.Fatal(err)
	}
	// delete host=A: recorded as a tombstone next to the TSM file
	itr := &seriesIterator{keys: [][]byte{[]byte("cpu,host=A")}}
	if err := e.DeleteSeriesRange(ctx, itr, 0, 3000000000); err != nil {
		t.Fatal(err)
	}
	if n := len(e.FileStore.Keys()); n != 1 {
		t.Fatalf("setup: source shard should expose 1 key after the delete, has %d", n)
	}
	var buf bytes.Buffer
	if err := e.Backup(&buf, "", time.Unix(0, 0)); err != nil {
		t.Fatal(err)
	}

	e2, err := NewEngine(t, tsdb.TSI1IndexName)
	if err != nil {
		t.Fatal(err)
	}
	e2.CompactionPlan = &mockPlanner{}
	if err := e2.Open(ctx); err != nil {
		t.Fatal(err)
	}
	if err := e2.Restore(&buf, ""); err != nil {
		t.Fatal(err)
	}
	if n := len(e2.FileStore.Keys()); n != 1 {
		t.Fatalf("restored shard exposes %d keys, the source exposed 1: the deleted series is back (%v)", n, e2.FileStore.Keys())
	}
}
