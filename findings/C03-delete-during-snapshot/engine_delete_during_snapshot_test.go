package tsm1_test

// Known finding C03 (recorded, not repaired): a range delete that arrives while a
// cache snapshot is in flight (after Cache.Snapshot, before FileStore.Replace)
// only filters the hot store. The snapshot store keeps the points: reads still
// merge them, and the snapshot is then written to a TSM file that carries no
// tombstone, so the deleted points are back for good.
// Place at tsdb/engine/tsm1/ and run:
//   go test -count=1 -vet=off -run TestC03_DeleteDuringInFlightSnapshot ./tsdb/engine/tsm1/
// The test FAILS on the unchanged tree (that is the finding).

import (
	"context"
	"math"
	"testing"

	"github.com/influxdata/influxdb/v2/models"
	"github.com/influxdata/influxdb/v2/tsdb"
	"github.com/influxdata/influxdb/v2/tsdb/engine/tsm1"
	"go.uber.org/zap"
)

func TestC03_DeleteDuringInFlightSnapshot(t *testing.T) {
	e, err := NewEngine(t, tsdb.TSI1IndexName)
	if err != nil {
		t.Fatal(err)
	}
	e.CompactionPlan = &mockPlanner{}
	if err := e.Open(context.Background()); err != nil {
		t.Fatal(err)
	}
	p := MustParsePointString("cpu,host=A value=1.2 2000000000")
	if err := e.CreateSeriesIfNotExists(p.Key(), p.Name(), p.Tags()); err != nil {
		t.Fatal(err)
	}
	if err := e.WritePoints(context.Background(), []models.Point{p}); err != nil {
		t.Fatal(err)
	}
	key := tsm1.SeriesFieldKeyBytes("cpu,host=A", "value")

	// a snapshot is started (first half of Engine.WriteSnapshot) …
	snap, err := e.Cache.Snapshot()
	if err != nil {
		t.Fatal(err)
	}
	// … and a delete of everything arrives and is acknowledged
	itr := &seriesIterator{keys: [][]byte{[]byte("cpu,host=A")}}
	if err := e.DeleteSeriesRange(context.Background(), itr, math.MinInt64, math.MaxInt64); err != nil {
		t.Fatal(err)
	}
	if vs := e.Cache.Values(key); len(vs) != 0 {
		t.Errorf("after the acknowledged delete the cache still returns %d deleted point(s)", len(vs))
	}
	// the snapshot completes (second half of Engine.WriteSnapshot)
	files, err := e.Compactor.WriteSnapshot(snap, zap.NewNop())
	if err != nil {
		t.Fatal(err)
	}
	if err := e.FileStore.Replace(nil, files); err != nil {
		t.Fatal(err)
	}
	e.Cache.ClearSnapshot(true)
	if ks := e.FileStore.Keys(); len(ks) != 0 {
		t.Fatalf("deleted points are back in a TSM file without tombstone: keys %v", ks)
	}
}
