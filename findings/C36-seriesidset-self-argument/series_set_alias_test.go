package tsdb

import (
	"testing"
	"time"
)

func rw14Hangs(f func()) bool {
	done := make(chan struct{})
	go func() { f(); close(done) }()
	select {
	case <-done:
		return false
	case <-time.After(2 * time.Second):
		return true
	}
}

func TestRW14SelfDiff(t *testing.T) {
	s := NewSeriesIDSet(1, 2, 3)
	if rw14Hangs(func() { s.Diff(s) }) {
		t.Errorf("s.Diff(s) did not return within 2s (expected: s becomes empty)")
	}
}

func TestRW14SelfMerge(t *testing.T) {
	s := NewSeriesIDSet(1, 2, 3)
	if rw14Hangs(func() { s.Merge(s) }) {
		t.Errorf("s.Merge(s) did not return within 2s (expected: s unchanged)")
	}
}

func TestRW14SelfMergeInPlace(t *testing.T) {
	s := NewSeriesIDSet(1, 2, 3)
	if rw14Hangs(func() { s.MergeInPlace(s) }) {
		t.Errorf("s.MergeInPlace(s) hung")
	}
}
