// Demonstration for property C32, clause "a well-formed request is answered with
// 204 only after every point was stored, or with an error that states how many
// points were dropped".
//
// Place at: storage/c32demo/logging_writer_test.go
// Run with: go test -count=1 -vet=off ./storage/c32demo/
package c32demo_test

import (
	"context"
	"errors"
	"testing"

	"github.com/influxdata/influxdb/v2"
	"github.com/influxdata/influxdb/v2/kit/platform"
	"github.com/influxdata/influxdb/v2/models"
	"github.com/influxdata/influxdb/v2/storage"
	"github.com/influxdata/influxdb/v2/tsdb"
)

type partialWriter struct{ logWrites int }

func (w *partialWriter) WritePoints(ctx context.Context, orgID, bucketID platform.ID, p []models.Point) error {
	if len(p) == 1 && string(p[0].Name()) == "write_errors" {
		w.logWrites++
		return errors.New("log bucket is read-only")
	}
	return tsdb.PartialWriteError{Reason: "field type conflict", Dropped: 2}
}

type finder struct {
	n   int
	err error
}

func (f finder) FindBuckets(ctx context.Context, filter influxdb.BucketFilter, opts ...influxdb.FindOptions) ([]*influxdb.Bucket, int, error) {
	if f.err != nil {
		return nil, 0, f.err
	}
	if f.n == 0 {
		return nil, 0, nil
	}
	return []*influxdb.Bucket{{ID: 7}}, 1, nil
}

func TestPartialWriteIsReportedWhateverHappensToTheLogEntry(t *testing.T) {
	pts, err := models.ParsePointsString("cpu v=1 1\ncpu v=2 2\ncpu v=3 3")
	if err != nil {
		t.Fatal(err)
	}
	for name, f := range map[string]finder{
		"log bucket lookup fails": {err: errors.New("kv store unavailable")},
		"no log bucket":           {n: 0},
		"log write fails":         {n: 1},
	} {
		t.Run(name, func(t *testing.T) {
			w := &storage.LoggingPointsWriter{Underlying: &partialWriter{}, BucketFinder: f, LogBucketName: "_monitoring"}
			got := w.WritePoints(context.Background(), 1, 2, pts)
			// the write handler recognises a partial write by exactly this assertion
			pw, ok := got.(tsdb.PartialWriteError)
			if !ok || pw.Dropped != 2 {
				t.Fatalf("1 point stored, 2 dropped, but the caller is told %q (%T): the dropped count is lost, the handler answers 500", got, got)
			}
		})
	}
}
