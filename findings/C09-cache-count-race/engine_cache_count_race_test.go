package tsm1_test

// Demonstration for the "fix:" commit that replaces the unlocked
// e.Cache.store.count() in (*Engine).deleteSeriesRange by e.Cache.Count().
// Place at tsdb/engine/tsm1/ and run:
//   go test -race -count=1 -vet=off -run TestC09_DeleteVsSnapshotRace ./tsdb/engine/tsm1/
// Before the fix the race detector reports a write of Cache.store in
// (*Cache).Snapshot (under c.mu) racing the lock-free read in deleteSeriesRange.

import (
	"context"
	"sync"
	"testing"

	"github.com/influxdata/influxdb/v2/models"
	"github.com/influxdata/influxdb/v2/tsdb"
)

func TestC09_DeleteVsSnapshotRace(t *testing.T) {
	e, err := NewEngine(t, tsdb.TSI1IndexName)
	if err != nil {
		t.Fatal(err)
	}
	e.CompactionPlan = &mockPlanner{}
	if err := e.Open(context.Background()); err != nil {
		t.Fatal(err)
	}

	p := MustParsePointString("cpu,host=A value=1.2 2000000000")
	if err := e.CreateSeriesIfNotExists(p.Key(), p.Name(), p.Tags()); err != nil {
		t.Fatal(err)
	}
	var wg sync.WaitGroup
	wg.Add(2)
	go func() {
		defer wg.Done()
		for i := 0; i < 200; i++ {
			if err := e.WritePoints(context.Background(), []models.Point{p}); err != nil {
				t.Error(err)
				return
			}
			_ = e.WriteSnapshot() // swaps Cache.store under c.mu
		}
	}()
	go func() {
		defer wg.Done()
		for i := 0; i < 200; i++ {
			// a range no TSM file overlaps, so the cache-count shortcut is evaluated
			itr := &seriesIterator{keys: [][]byte{[]byte("cpu,host=A")}}
			if err := e.DeleteSeriesRange(context.Background(), itr, 9000000000000, 9000000000001); err != nil {
				t.Error(err)
				return
			}
		}
	}()
	wg.Wait()
}
