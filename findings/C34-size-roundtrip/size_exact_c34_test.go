package toml_test

import (
	"bytes"
	"math"
	"testing"

	btoml "github.com/BurntSushi/toml"
	itoml "github.com/influxdata/influxdb/v2/toml"
)

// Every size written out by the configuration layer parses back to the identical
// value — for all uint64 / int64 values, not only those a float64 can hold.
func TestC34_SizeRoundTripIsExactBeyondFloat64(t *testing.T) {
	type cfg struct {
		U itoml.Size  `toml:"u"`
		S itoml.SSize `toml:"s"`
	}
	for _, in := range []cfg{
		{U: 1<<53 + 1, S: 1<<53 + 1},
		{U: math.MaxInt64, S: math.MaxInt64},
		{U: 1<<62 + 12345, S: -math.MaxInt64},
		{U: 12345678901234567, S: math.MinInt64},
	} {
		var buf bytes.Buffer
		if err := btoml.NewEncoder(&buf).Encode(in); err != nil {
			t.Fatal(err)
		}
		var out cfg
		if _, err := btoml.Decode(buf.String(), &out); err != nil {
			t.Errorf("written %q does not load: %v", buf.String(), err)
			continue
		}
		if out != in {
			t.Errorf("written %+v (%q), read back %+v", in, buf.String(), out)
		}
	}
}

// Known finding: a Size above MaxInt64 is written as a raw TOML integer, which the
// TOML decoder itself rejects (TOML integers are int64) before UnmarshalText runs.
func TestC34_Uint64SizeAboveInt64Loads(t *testing.T) {
	type cfg struct {
		U itoml.Size `toml:"u"`
	}
	for _, in := range []cfg{{U: 1 << 63}, {U: math.MaxUint64}} {
		var buf bytes.Buffer
		if err := btoml.NewEncoder(&buf).Encode(in); err != nil {
			t.Fatal(err)
		}
		var out cfg
		if _, err := btoml.Decode(buf.String(), &out); err != nil {
			t.Errorf("written %q does not load: %v", buf.String(), err)
		} else if out != in {
			t.Errorf("written %+v, read back %+v", in, out)
		}
	}
}
