package tsdb_test

// Demonstration for the "fix:" commit in (*Store).DeleteShard.
// Place at tsdb/ and run:
//   go test -race -count=1 -vet=off -run TestC39_DeleteShardVsCreateShardRace ./tsdb/
// DeleteShard read the s.databases map after releasing Store.mu while
// CreateShard (first shard of another database) inserts into it under the lock:
// the race detector reports a concurrent map read and map write.

import (
	"context"
	"fmt"
	"sync"
	"testing"
)

func TestC39_DeleteShardVsCreateShardRace(t *testing.T) {
	s := MustOpenStore(t, "tsi1")
	defer s.Close()
	ctx := context.Background()
	const n = 30
	for i := 0; i < n; i++ {
		if err := s.CreateShard(ctx, "db0", "rp0", uint64(i+1), true); err != nil {
			t.Fatal(err)
		}
	}
	var wg sync.WaitGroup
	wg.Add(2)
	go func() {
		defer wg.Done()
		for i := 0; i < n; i++ {
			if err := s.DeleteShard(uint64(i + 1)); err != nil {
				t.Error(err)
				return
			}
		}
	}()
	go func() {
		defer wg.Done()
		for i := 0; i < n; i++ {
			if err := s.CreateShard(ctx, fmt.Sprintf("newdb%d", i), "rp0", uint64(1000+i), true); err != nil {
				t.Error(err)
				return
			}
		}
	}()
	wg.Wait()
}
