package coordinator_test

// Demonstration for the "fix:" commit in PointsWriter.MapShards.
// Place at v1/coordinator/ and run:
//   go test -count=1 -vet=off -run TestC19_RetentionRejectionIndependentOfBatch ./v1/coordinator/
// A point older than now-retention is rejected when written alone, but (before
// the fix) accepted when the same request also holds a newer point whose shard
// group happens to cover it.

import (
	"testing"
	"time"

	"github.com/influxdata/influxdb/v2/v1/coordinator"
	"github.com/influxdata/influxdb/v2/v1/services/meta"
)

func TestC19_RetentionRejectionIndependentOfBatch(t *testing.T) {
	now := time.Now()
	// retention 2h, shard groups of 24h: the live group started long before the cut-off
	rp := &meta.RetentionPolicyInfo{
		Name:               "myrp",
		ReplicaN:           1,
		Duration:           2 * time.Hour,
		ShardGroupDuration: 24 * time.Hour,
		ShardGroups: []meta.ShardGroupInfo{{
			ID:        1,
			StartTime: now.Add(-12 * time.Hour),
			EndTime:   now.Add(12 * time.Hour),
			Shards:    []meta.ShardInfo{{ID: 7, Owners: []meta.ShardOwner{{NodeID: 1}}}},
		}},
	}
	ms := PointsWriterMetaClient{}
	ms.NodeIDFn = func() uint64 { return 1 }
	ms.RetentionPolicyFn = func(db, retentionPolicy string) (*meta.RetentionPolicyInfo, error) { return rp, nil }
	ms.CreateShardGroupIfNotExistsFn = func(database, policy string, timestamp time.Time) (*meta.ShardGroupInfo, error) {
		return &rp.ShardGroups[0], nil
	}
	c := coordinator.PointsWriter{MetaClient: ms}
	old := now.Add(-3 * time.Hour) // older than now - 2h

	alone := &coordinator.WritePointsRequest{Database: "mydb", RetentionPolicy: "myrp"}
	alone.AddPoint("cpu", 1.0, old, nil)
	m1, err := c.MapShards(alone)
	if err != nil {
		t.Fatal(err)
	}
	if m1.RetentionDropped != 1 {
		t.Fatalf("setup: the expired point written alone must be dropped, got %d", m1.RetentionDropped)
	}

	batch := &coordinator.WritePointsRequest{Database: "mydb", RetentionPolicy: "myrp"}
	batch.AddPoint("cpu", 2.0, now, nil)
	batch.AddPoint("cpu", 1.0, old, nil)
	m2, err := c.MapShards(batch)
	if err != nil {
		t.Fatal(err)
	}
	if m2.RetentionDropped != 1 {
		t.Fatalf("the same expired point was accepted because a newer point shared the request: dropped=%d", m2.RetentionDropped)
	}
}
