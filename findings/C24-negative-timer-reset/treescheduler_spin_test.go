package scheduler

// Demonstration for the "fix:" commit in the TreeScheduler main loop.
// Place at task/backend/scheduler/ and run:
//   go test -count=1 -vet=off -run TestC24_NoSpinWhileNothingIsDue ./task/backend/scheduler/
// History: task A (due in 100ms) is scheduled, released, then task B (due in
// ~1.5s) is scheduled. The timer still fires for A's time, finds B not yet due
// and re-arms itself with ts.Sub(it.When()) — a NEGATIVE duration — so it fires
// again at once: the loop spins (tens of thousands of clock reads) until B is
// due, and When() keeps reporting A's stale time.

import (
	"context"
	"sync"
	"sync/atomic"
	"testing"
	"time"

	"github.com/benbjohnson/clock"
)

type countingClock struct {
	clock.Clock
	nows int64
}

func (c *countingClock) Now() time.Time {
	atomic.AddInt64(&c.nows, 1)
	return c.Clock.Now()
}

func TestC24_NoSpinWhileNothingIsDue(t *testing.T) {
	cc := &countingClock{Clock: clock.New()}
	exe := &mockExecutor{fn: func(l *sync.Mutex, ctx context.Context, id ID, scheduledFor time.Time) {}}
	sch, _, err := NewScheduler(exe, &mockSchedulableService{fn: func(ctx context.Context, id ID, t time.Time) error { return nil }}, WithTime(cc))
	if err != nil {
		t.Fatal(err)
	}
	defer sch.Stop()

	every1s, _, err := NewSchedule("* * * * * * *", time.Now().UTC()) // every second
	if err != nil {
		t.Fatal(err)
	}
	now := time.Now().UTC()
	// A: next run at the next full second; B: offset pushes it ~2s later
	a := mockSchedulable{id: 1, schedule: every1s, offset: 0, lastScheduled: now}
	b := mockSchedulable{id: 2, schedule: every1s, offset: 2 * time.Second, lastScheduled: now}
	if err := sch.Schedule(a); err != nil {
		t.Fatal(err)
	}
	if err := sch.Release(a.ID()); err != nil {
		t.Fatal(err)
	}
	if err := sch.Schedule(b); err != nil {
		t.Fatal(err)
	}
	// let A's (stale) timer fire; B is not due for at least another second
	time.Sleep(time.Until(now.Truncate(time.Second).Add(time.Second).Add(300 * time.Millisecond)))
	before := atomic.LoadInt64(&cc.nows)
	time.Sleep(500 * time.Millisecond) // nothing is due in this window
	spins := atomic.LoadInt64(&cc.nows) - before
	if spins > 100 {
		t.Fatalf("scheduler read the clock %d times in 500ms while nothing was due: busy spin", spins)
	}
	if w := sch.When(); !w.IsZero() && w.Before(time.Now().Add(-200*time.Millisecond)) {
		t.Fatalf("When() reports %v, which is in the past although the earliest pending run is later", w)
	}
}
