package coordinator

// Demonstration for the "fix:" commit in Coordinator.TaskCreated.
// Place at task/backend/coordinator/ and run:
//   go test -count=1 -vet=off -run TestC25_InactiveTaskCreatedIsNotScheduled ./task/backend/coordinator/
// Before the fix a task created with status "inactive" through the coordinating
// task service is handed to the scheduler like an active one.

import (
	"context"
	"testing"
	"time"

	"github.com/influxdata/influxdb/v2/kit/platform"
	"github.com/influxdata/influxdb/v2/task/backend/scheduler"
	"github.com/influxdata/influxdb/v2/task/taskmodel"
	"go.uber.org/zap/zaptest"
)

type recordingScheduler struct {
	scheduled []scheduler.ID
}

func (s *recordingScheduler) Schedule(t scheduler.Schedulable) error {
	s.scheduled = append(s.scheduled, t.ID())
	return nil
}
func (s *recordingScheduler) Release(scheduler.ID) error { return nil }

func TestC25_InactiveTaskCreatedIsNotScheduled(t *testing.T) {
	sch := &recordingScheduler{}
	c := NewCoordinator(zaptest.NewLogger(t), sch, nil)
	now := time.Now().UTC()
	inactive := &taskmodel.Task{ID: platform.ID(2), Status: string(taskmodel.TaskInactive), CreatedAt: now, Cron: "* * * * *"}
	if err := c.TaskCreated(context.Background(), inactive); err != nil {
		t.Fatal(err)
	}
	if len(sch.scheduled) != 0 {
		t.Fatalf("task created inactive was scheduled: %v", sch.scheduled)
	}
	active := &taskmodel.Task{ID: platform.ID(3), Status: string(taskmodel.TaskActive), CreatedAt: now, Cron: "* * * * *"}
	if err := c.TaskCreated(context.Background(), active); err != nil {
		t.Fatal(err)
	}
	if len(sch.scheduled) != 1 || sch.scheduled[0] != scheduler.ID(3) {
		t.Fatalf("active task not scheduled: %v", sch.scheduled)
	}
}
