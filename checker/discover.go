package main

import (
	"fmt"
	"go/ast"
	"go/types"
	"sort"
	"strings"

	"verif/checker/core"
)

// discoverSwallow is a rule-discovery aid (never part of a check): it lists, for
// every function of the given packages, the error-returning calls whose failure
// branch can reach a success exit. The output is read by hand; confirmed
// must-propagate instances are frozen in the rule tables.
func discoverSwallow(patterns string) int {
	pats := strings.Split(patterns, ",")
	p, err := core.Load(core.LoadOpts{Patterns: pats})
	if err != nil {
		fmt.Println("load:", err)
		return 1
	}
	any := func(*types.Info, *ast.CallExpr) bool { return true }
	var lines []string
	nf, ns := 0, 0
	for _, pk := range p.Roots {
		for _, f := range p.Funcs(pk.PkgPath) {
			if f.Decl == nil || f.Decl.Body == nil {
				continue
			}
			nf++
			n, sw := core.FailuresSwallowed(f, any)
			ns += n
			seen := map[string]bool{}
			for _, s := range sw {
				k := fmt.Sprintf("%s\t%s\t%s -> exit %s", f.String(), core.FName(core.Callee(f.Info(), s.Call)), p.Pos(s.Call.Pos()), f.Graph().Line(s.Exit))
				if !seen[k] {
					seen[k] = true
					lines = append(lines, k)
				}
			}
		}
	}
	sort.Strings(lines)
	for _, l := range lines {
		fmt.Println(l)
	}
	fmt.Printf("# %d functions, %d tested/forwarded error calls, %d swallowing (call, exit) pairs\n", nf, ns, len(lines))
	return 0
}
