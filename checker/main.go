// verifcheck decides the claimed properties of /repo by static analysis.
package main

import (
	"flag"
	"fmt"
	"os"
	"runtime/debug"
	"strings"

	"verif/checker/core"
	"verif/checker/rules"
)

func main() {
	prop := flag.String("p", "", "property id (C01…)")
	tier := flag.String("tier", "", "quick|thorough (default $VERIF_TIER or quick)")
	list := flag.Bool("list", false, "list claimed properties")
	replay := flag.String("replay", "", "violations file: re-evaluate the property and show those obligations")
	manifest := flag.Bool("manifest", false, "regenerate /verif/MANIFEST.json from the rule registry")
	selftest := flag.Bool("selftest", false, "run the checker's own fixtures")
	seed := flag.String("seed", "", "directory of a seeded change (patch.diff): evaluate -p on the tree with the change applied in memory")
	seedAll := flag.Bool("seedall", false, "evaluate every seeded change under /verif/seeded with its property and print the kill matrix")
	swallow := flag.String("discover-swallow", "", "rule discovery aid: comma-separated package patterns; lists error calls whose failure can reach a success exit")
	discC41 := flag.Bool("discover-c41", false, "rule discovery aid, NOT a check: run the bounded scenario interpreter over the C41 window tables and print what deviates")
	doc := flag.Bool("doc", false, "print the per-property documentation (markdown) from the rule registry")
	flag.Parse()
	rules.Finalize()
	if *discC41 {
		prog, err := core.Load(core.LoadOpts{Patterns: []string{"./storage/flux"}})
		if err != nil {
			fmt.Println("load:", err)
			os.Exit(1)
		}
		for _, l := range rules.DiscoverC41(prog) {
			fmt.Println(l)
		}
		return
	}
	if *swallow != "" {
		os.Exit(discoverSwallow(*swallow))
	}
	if *doc {
		for _, id := range rules.IDs() {
			p := rules.Get(id)
			fmt.Printf("### %s — level %s\n\n**Decides.** %s\n\n**Not covered.** %s\n\n", id, p.Level, p.Explanation, p.NotCovered)
			if len(p.Assumptions) > 0 {
				fmt.Printf("**Assumes.** %s\n\n", strings.Join(p.Assumptions, "; "))
			}
			fmt.Printf("Packages loaded: `%s`\n\n", strings.Join(p.Patterns, "`, `"))
		}
		return
	}
	if *seedAll {
		os.Exit(rules.SeedMatrix())
	}
	if *seed != "" && *prop == "all" {
		// run every claimed property on the changed tree; used with behaviour-preserving
		// refactorings, where ANY new report is a false alarm
		alarms := 0
		for _, id := range rules.IDs() {
			vs, err := rules.RunOnSeed(rules.Get(id), *seed, "quick")
			if err != nil {
				fmt.Printf("ERROR %s %v\n", id, err)
				alarms++
				continue
			}
			for _, v := range vs {
				fmt.Printf("ALARM %s %s\n", id, v)
				alarms++
			}
		}
		fmt.Printf("alarms=%d\n", alarms)
		if alarms > 0 {
			os.Exit(3)
		}
		return
	}
	if *seed != "" {
		p := rules.Get(*prop)
		if p == nil {
			fmt.Fprintf(os.Stderr, "unknown property %q\n", *prop)
			os.Exit(2)
		}
		vs, err := rules.RunOnSeed(p, *seed, "quick")
		if err != nil {
			fmt.Println("seed error:", err)
			os.Exit(2)
		}
		for _, v := range vs {
			fmt.Println("DETECTED", v)
		}
		if len(vs) == 0 {
			fmt.Println("NOT DETECTED")
			os.Exit(3)
		}
		return
	}
	if *manifest {
		if err := writeManifest(); err != nil {
			fmt.Fprintln(os.Stderr, err)
			os.Exit(1)
		}
		return
	}
	if *selftest {
		os.Exit(selfTest())
	}
	if *list {
		fmt.Println(strings.Join(rules.IDs(), "\n"))
		return
	}
	if *tier == "" {
		*tier = os.Getenv("VERIF_TIER")
	}
	if *tier != "thorough" {
		*tier = "quick"
	}
	p := rules.Get(*prop)
	if p == nil {
		fmt.Fprintf(os.Stderr, "unknown property %q\n", *prop)
		os.Exit(2)
	}
	_ = replay
	os.Exit(run(p, *tier))
}

func run(p *rules.Prop, tier string) (code int) {
	r := core.NewReport(p.ID, tier)
	defer func() {
		if e := recover(); e != nil {
			// an analysis panic is a failed check, never a silent pass
			fmt.Printf("analysis panic: %v\n%s\n", e, debug.Stack())
			r.Bad("framework", "panic", "panic", "-", fmt.Sprint(e))
			code = r.Finish(p.Level, p.Explanation, p.Assumptions, nil)
			if code == 0 {
				code = 1
			}
		}
	}()
	prog, err := core.Load(core.LoadOpts{Patterns: p.Patterns})
	if err != nil {
		fmt.Println("load failed:", err)
		r.Bad("framework", "load", "load", "-", err.Error())
		return r.Finish(p.Level, p.Explanation, p.Assumptions, nil)
	}
	r.Note("loaded %d root package(s), %d total, in %.1fs", len(prog.Roots), len(prog.All), prog.LoadSecs)
	p.Run(prog, r, tier)
	if tier == "thorough" {
		rules.RunSeeded(p, r)
	}
	var extra map[string]any
	if p.Extra != nil {
		extra = p.Extra()
	}
	if tier == "thorough" && len(r.NewViolations()) == 0 {
		if m := rules.RunMutants(p, prog, r); m != nil {
			if extra == nil {
				extra = map[string]any{}
			}
			extra["generic_fault_enumeration"] = m
			fmt.Printf("generic faults: tried=%v not-compiling=%v killed=%v survived=%v\n", m["faults_tried"], m["faults_not_compiling"], m["faults_killed"], m["faults_survived"])
		}
	}
	expl := p.Explanation
	if p.NotCovered != "" {
		expl += " NOT COVERED: " + p.NotCovered
	}
	return r.Finish(p.Level, expl, p.Assumptions, extra)
}
