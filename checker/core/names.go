package core

import (
	"go/ast"
	"go/token"
	"go/types"
	"strings"

	"golang.org/x/tools/go/types/typeutil"
)

// Callee resolves the static callee (function, method, interface method) of a call
// through type information. nil for builtins, conversions and calls of func values.
func Callee(info *types.Info, call *ast.CallExpr) *types.Func {
	if f, ok := typeutil.Callee(info, call).(*types.Func); ok {
		return f.Origin()
	}
	return nil
}

// FName is the canonical name used in rule tables:
//
//	"tsdb/engine/tsm1.Cache.WriteMulti"  method (pointer-ness dropped)
//	"tsdb.Engine.WritePoints"            interface method
//	"os.File.Sync", "sync.RWMutex.Lock"  stdlib
//	"pkg/file.SyncDir"                   function
func FName(f *types.Func) string {
	if f == nil {
		return ""
	}
	pkg := ""
	if f.Pkg() != nil {
		pkg = Short(f.Pkg().Path())
	}
	sig, _ := f.Type().(*types.Signature)
	if sig != nil && sig.Recv() != nil {
		t := sig.Recv().Type()
		if pt, ok := t.(*types.Pointer); ok {
			t = pt.Elem()
		}
		switch nt := t.(type) {
		case *types.Named:
			if nt.Obj().Pkg() != nil {
				pkg = Short(nt.Obj().Pkg().Path())
			}
			return pkg + "." + nt.Obj().Name() + "." + f.Name()
		case *types.Alias:
			return pkg + "." + nt.Obj().Name() + "." + f.Name()
		default:
			// method of an unnamed interface literal, or embedded interface method
			return pkg + ".?." + f.Name()
		}
	}
	return pkg + "." + f.Name()
}

// Glob reports whether name matches pattern; '*' matches any run of characters.
func Glob(pattern, name string) bool {
	if !strings.Contains(pattern, "*") {
		return pattern == name
	}
	parts := strings.Split(pattern, "*")
	if !strings.HasPrefix(name, parts[0]) {
		return false
	}
	name = name[len(parts[0]):]
	for i := 1; i < len(parts)-1; i++ {
		j := strings.Index(name, parts[i])
		if j < 0 {
			return false
		}
		name = name[j+len(parts[i]):]
	}
	return strings.HasSuffix(name, parts[len(parts)-1])
}

// Matcher selects calls.
type Matcher func(info *types.Info, call *ast.CallExpr) bool

// CallTo matches calls whose resolved callee name matches one of the patterns.
func CallTo(patterns ...string) Matcher {
	return func(info *types.Info, call *ast.CallExpr) bool {
		n := FName(Callee(info, call))
		if n == "" {
			return false
		}
		for _, p := range patterns {
			if Glob(p, n) {
				return true
			}
		}
		return false
	}
}

// Or combines matchers.
func Or(ms ...Matcher) Matcher {
	return func(info *types.Info, call *ast.CallExpr) bool {
		for _, m := range ms {
			if m(info, call) {
				return true
			}
		}
		return false
	}
}

// Builtin matches calls of a builtin such as "append", "delete", "copy", "panic".
func Builtin(name string) Matcher {
	return func(info *types.Info, call *ast.CallExpr) bool {
		id, ok := ast.Unparen(call.Fun).(*ast.Ident)
		if !ok || id.Name != name {
			return false
		}
		_, isb := info.Uses[id].(*types.Builtin)
		return isb
	}
}

// WalkOpts controls what Walk descends into.
type WalkOpts struct {
	IntoFuncLits bool // also bodies of function literals that are not invoked in place
	IntoDefer    bool // the deferred/go'd call itself (arguments are always visited)
}

// Walk visits the sub-nodes of one CFG node in evaluation-relevant manner:
// bodies of function literals are skipped unless the literal is invoked in place
// (func(){…}()) or IntoFuncLits is set; the call of a defer/go statement is
// skipped unless IntoDefer is set (its arguments are evaluated in place and are
// always visited).
func Walk(n ast.Node, o WalkOpts, f func(ast.Node) bool) {
	if n == nil {
		return
	}
	var visit func(n ast.Node)
	visit = func(n ast.Node) {
		ast.Inspect(n, func(m ast.Node) bool {
			switch x := m.(type) {
			case nil:
				return false
			case *ast.FuncLit:
				if o.IntoFuncLits {
					return f(x)
				}
				f(x)
				return false
			case *ast.CallExpr:
				if !f(x) {
					return false
				}
				if fl, ok := ast.Unparen(x.Fun).(*ast.FuncLit); ok {
					// invoked in place: the body runs here
					for _, a := range x.Args {
						visit(a)
					}
					visit(fl.Body)
					return false
				}
				return true
			case *ast.DeferStmt:
				if !f(x) {
					return false
				}
				if o.IntoDefer {
					return true
				}
				for _, a := range x.Call.Args {
					visit(a)
				}
				if se, ok := x.Call.Fun.(*ast.SelectorExpr); ok {
					visit(se.X)
				}
				return false
			case *ast.GoStmt:
				if !f(x) {
					return false
				}
				if o.IntoDefer {
					return true
				}
				for _, a := range x.Call.Args {
					visit(a)
				}
				return false
			}
			return f(m)
		})
	}
	visit(n)
}

// CallsIn returns the calls inside node n (see Walk) selected by m.
func CallsIn(info *types.Info, n ast.Node, m Matcher, o WalkOpts) []*ast.CallExpr {
	var out []*ast.CallExpr
	Walk(n, o, func(x ast.Node) bool {
		if c, ok := x.(*ast.CallExpr); ok && m(info, c) {
			out = append(out, c)
		}
		return true
	})
	return out
}

// AllCalls returns every call in a function body, including those inside
// function literals and defer statements.
func AllCalls(info *types.Info, body ast.Node, m Matcher) []*ast.CallExpr {
	var out []*ast.CallExpr
	if body == nil {
		return nil
	}
	ast.Inspect(body, func(x ast.Node) bool {
		if c, ok := x.(*ast.CallExpr); ok && m(info, c) {
			out = append(out, c)
		}
		return true
	})
	return out
}

// FieldOf resolves a selector expression to the struct field it denotes.
func FieldOf(info *types.Info, e ast.Expr) *types.Var {
	se, ok := ast.Unparen(e).(*ast.SelectorExpr)
	if !ok {
		return nil
	}
	if sel := info.Selections[se]; sel != nil && sel.Kind() == types.FieldVal {
		if v, ok := sel.Obj().(*types.Var); ok {
			return v.Origin()
		}
	}
	return nil
}

// LookupField finds field T.f in package pk.
func LookupField(pk *types.Package, typ, field string) *types.Var {
	o := pk.Scope().Lookup(typ)
	if o == nil {
		return nil
	}
	st, ok := o.Type().Underlying().(*types.Struct)
	if !ok {
		return nil
	}
	for i := 0; i < st.NumFields(); i++ {
		if st.Field(i).Name() == field {
			return st.Field(i)
		}
	}
	return nil
}

// IsNilIdent reports whether e is the predeclared nil.
func IsNilIdent(info *types.Info, e ast.Expr) bool {
	id, ok := ast.Unparen(e).(*ast.Ident)
	if !ok {
		return false
	}
	_, isNil := info.Uses[id].(*types.Nil)
	return isNil
}

// NilTest decodes `x != nil` / `x == nil` (either operand order).
// It returns the tested expression and whether the TRUE branch means x is non-nil.
func NilTest(info *types.Info, cond ast.Expr) (x ast.Expr, nonNilOnTrue bool, ok bool) {
	be, isBin := ast.Unparen(cond).(*ast.BinaryExpr)
	if !isBin || (be.Op != token.NEQ && be.Op != token.EQL) {
		return nil, false, false
	}
	switch {
	case IsNilIdent(info, be.Y):
		x = be.X
	case IsNilIdent(info, be.X):
		x = be.Y
	default:
		return nil, false, false
	}
	return ast.Unparen(x), be.Op == token.NEQ, true
}

// ObjOf returns the object an identifier expression denotes (nil otherwise).
func ObjOf(info *types.Info, e ast.Expr) types.Object {
	if id, ok := ast.Unparen(e).(*ast.Ident); ok {
		if o := info.Uses[id]; o != nil {
			return o
		}
		return info.Defs[id]
	}
	return nil
}

var errorType = types.Universe.Lookup("error").Type()

// IsErrorType reports whether t is the error interface type.
func IsErrorType(t types.Type) bool { return t != nil && types.Identical(t, errorType) }

// ExprStr renders an expression compactly.
func ExprStr(e ast.Expr) string { return types.ExprString(e) }
