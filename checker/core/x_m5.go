package core

import (
	"go/ast"
	"go/token"
	"go/types"
)

// ---------------------------------------------------------------- lock balance (m5)

// LockImbalance5 is one way a critical section on a mutex field is left open.
type LockImbalance5 struct {
	Lock *Node  // the acquiring node
	Kind string // "held-at-exit" | "re-acquired"
	At   *Node  // the exit / the second acquisition
}

// BodyOf5 resolves a call to the body of its callee when that body is available
// for summarising (same-package declared function, local closure); nil otherwise.
type BodyOf5 func(c *ast.CallExpr) *ast.BlockStmt

// SamePkgBodies5 is the usual BodyOf5: declared functions of g's package and
// local variables bound once to a function literal.
func (g *Graph) SamePkgBodies5() BodyOf5 {
	return func(c *ast.CallExpr) *ast.BlockStmt {
		if fn := Callee(g.Info, c); fn != nil {
			if f := g.Prog.FuncOf(fn); f != nil && g.Fn != nil && f.Pkg == g.Fn.Pkg && f.Decl.Body != nil {
				return f.Decl.Body
			}
			return nil
		}
		if id, ok := ast.Unparen(c.Fun).(*ast.Ident); ok && g.Fn != nil && g.Fn.Decl.Body != nil {
			if _, isVar := ObjOf(g.Info, id).(*types.Var); isVar {
				if lit := LocalLit(g.Info, g.Fn.Decl.Body, ObjOf(g.Info, id)); lit != nil {
					return lit.Body
				}
			}
		}
		return nil
	}
}

// lockOpsIn5 collects the lock operations on mu that run when root is evaluated,
// not counting deferred / go'd calls and the bodies of function literals
// (neither invoked-in-place nor stored ones: see summarise in mutexOps5).
func lockOpsIn5(info *types.Info, root ast.Node, mu *types.Var, visit func(op string), other func(c *ast.CallExpr)) {
	ast.Inspect(root, func(x ast.Node) bool {
		switch s := x.(type) {
		case *ast.FuncLit, *ast.DeferStmt, *ast.GoStmt:
			return false
		case *ast.CallExpr:
			if f, op, ok := LockOpOn(info, s); ok {
				if f == mu {
					visit(op)
				}
				return true
			}
			if other != nil {
				other(s)
			}
			// arguments (and a method receiver) are still evaluated here
			for _, a := range s.Args {
				lockOpsIn5(info, a, mu, visit, other)
			}
			if se, ok := ast.Unparen(s.Fun).(*ast.SelectorExpr); ok {
				lockOpsIn5(info, se.X, mu, visit, other)
			}
			return false
		}
		return true
	})
}

// mutexOps5 classifies node n with respect to mutex field mu:
// acquire ('W' Lock, 'R' RLock, 0 none) and release (same letters) by calls
// evaluated in place (not deferred / go'd). A call of a literal invoked in
// place, of a same-package helper or of a local closure whose body only
// acquires (only releases) the mutex - and registers no deferred operation on
// it - counts as that acquisition (release); a balanced callee is neutral (it
// is examined as a graph of its own).
func mutexOps5(info *types.Info, n *Node, mu *types.Var, bodyOf BodyOf5) (acq, rel byte) {
	if n.N == nil {
		return 0, 0
	}
	switch n.N.(type) {
	case *ast.DeferStmt, *ast.GoStmt:
		return 0, 0
	}
	note := func(op string) {
		switch op {
		case "Lock":
			acq = 'W'
		case "RLock":
			acq = 'R'
		case "Unlock":
			rel = 'W'
		case "RUnlock":
			rel = 'R'
		}
	}
	summarise := func(c *ast.CallExpr) {
		var body *ast.BlockStmt
		if fl, ok := ast.Unparen(c.Fun).(*ast.FuncLit); ok {
			body = fl.Body
		} else if bodyOf != nil {
			body = bodyOf(c)
		}
		if body == nil {
			return
		}
		hasDeferred := false
		ast.Inspect(body, func(y ast.Node) bool {
			if d, ok := y.(*ast.DeferStmt); ok {
				ast.Inspect(d.Call, func(z ast.Node) bool {
					if cc, ok := z.(*ast.CallExpr); ok {
						if f, _, ok := LockOpOn(info, cc); ok && f == mu {
							hasDeferred = true
						}
					}
					return true
				})
			}
			return true
		})
		var ops []string
		lockOpsIn5(info, body, mu, func(op string) { ops = append(ops, op) }, nil)
		if hasDeferred || len(ops) == 0 {
			return
		}
		onlyAcq, onlyRel := true, true
		for _, op := range ops {
			if op == "Lock" || op == "RLock" {
				onlyRel = false
			} else {
				onlyAcq = false
			}
		}
		if onlyAcq || onlyRel {
			for _, op := range ops {
				note(op)
			}
		}
	}
	lockOpsIn5(info, n.N, mu, note, summarise)
	return
}

// isLockWrapper5: the body consists of exactly one statement, an acquisition of mu.
func isLockWrapper5(info *types.Info, body *ast.BlockStmt, mu *types.Var) bool {
	if body == nil || len(body.List) != 1 {
		return false
	}
	es, ok := body.List[0].(*ast.ExprStmt)
	if !ok {
		return false
	}
	c, ok := ast.Unparen(es.X).(*ast.CallExpr)
	if !ok {
		return false
	}
	f, op, ok := LockOpOn(info, c)
	return ok && f == mu && (op == "Lock" || op == "RLock")
}

// deferredRelease5: n is `defer X.mu.Unlock()` / `defer func(){ … X.mu.Unlock() … }()`.
func deferredRelease5(info *types.Info, n *Node, mu *types.Var, mode byte) bool {
	d, ok := n.N.(*ast.DeferStmt)
	if !ok {
		return false
	}
	found := false
	ast.Inspect(d.Call, func(x ast.Node) bool {
		if c, ok := x.(*ast.CallExpr); ok {
			if f, op, ok := LockOpOn(info, c); ok && f == mu && ((mode == 'W' && op == "Unlock") || (mode == 'R' && op == "RUnlock")) {
				found = true
			}
		}
		return true
	})
	return found
}

// LockBalance5 examines every in-place acquisition of the mutex field mu in g:
// on every path from the acquisition the matching release must come before the
// function (literal) returns - a release registered with defer after the
// acquisition counts - and before the same mutex is acquired again (a second
// Lock, or a Lock after RLock, by the same goroutine never returns). It returns
// the number of acquisitions examined and the imbalances found. Panicking exits
// are ignored. Same-package helpers / local closures that only lock or only
// unlock are seen through; a function whose whole body is the Lock call is a
// wrapper and may return with the mutex held (its callers are checked).
func (g *Graph) LockBalance5(mu *types.Var) (sites int, out []LockImbalance5) {
	if mu == nil {
		return 0, nil
	}
	bodyOf := g.SamePkgBodies5()
	wrapper := isLockWrapper5(g.Info, g.Body, mu)
	for _, n := range g.Nodes {
		acq, _ := mutexOps5(g.Info, n, mu, bodyOf)
		if acq == 0 {
			continue
		}
		sites++
		released := func(x *Node) bool {
			_, rel := mutexOps5(g.Info, x, mu, bodyOf)
			return rel == acq
		}
		start := After(n, nil)
		// (1) re-acquisition while held
		for x := range g.Reach(start, released, nil) {
			if a2, _ := mutexOps5(g.Info, x, mu, bodyOf); a2 != 0 && (a2 == 'W' || acq == 'W') {
				out = append(out, LockImbalance5{n, "re-acquired", x})
				break
			}
		}
		// (2) still held at a normal exit (a one-statement Lock wrapper is meant to)
		if wrapper {
			continue
		}
		relOrDefer := func(x *Node) bool { return released(x) || deferredRelease5(g.Info, x, mu, acq) }
		if len(n.Succ) == 0 && n.Kind != KPanic {
			out = append(out, LockImbalance5{n, "held-at-exit", n})
			continue
		}
		for x := range g.Reach(start, relOrDefer, nil) {
			if len(x.Succ) == 0 && x.Kind != KPanic {
				out = append(out, LockImbalance5{n, "held-at-exit", x})
				break
			}
		}
	}
	return
}

// ---------------------------------------------------------------- small fact helpers (m5)

// CountZeroAtom5: the atom `cond == val` states that the integer expression
// accepted by isX (for instance a Len() call or len(x)) is zero:
// X == 0, !(X != 0), !(X > 0), X <= 0, X < 1, !(X >= 1), and mirrored forms.
func CountZeroAtom5(info *types.Info, cond ast.Expr, val bool, isX func(ast.Expr) bool) bool {
	be, ok := ast.Unparen(cond).(*ast.BinaryExpr)
	if !ok {
		return false
	}
	x, y, op := ast.Unparen(be.X), ast.Unparen(be.Y), be.Op
	cv, isConst := ConstInt(info, y)
	if !isConst {
		if cv, isConst = ConstInt(info, x); !isConst {
			return false
		}
		x = y
		switch op { // mirror: c op X  ==  X op' c
		case token.LSS:
			op = token.GTR
		case token.LEQ:
			op = token.GEQ
		case token.GTR:
			op = token.LSS
		case token.GEQ:
			op = token.LEQ
		}
	}
	if !isX(x) {
		return false
	}
	eval := func(n int64) bool {
		switch op {
		case token.EQL:
			return n == cv
		case token.NEQ:
			return n != cv
		case token.LSS:
			return n < cv
		case token.LEQ:
			return n <= cv
		case token.GTR:
			return n > cv
		case token.GEQ:
			return n >= cv
		}
		return !val // unknown operator: never "zero"
	}
	switch op {
	case token.EQL, token.NEQ, token.LSS, token.LEQ, token.GTR, token.GEQ:
	default:
		return false
	}
	if eval(0) != val {
		return false
	}
	for _, n := range []int64{1, 2, 3, 1 << 40} {
		if eval(n) == val {
			return false
		}
	}
	return true
}

// AllDefsAre5: obj is a local variable and every definition of it under root is
// (result idx of) a call matched by m; at least one definition exists.
func AllDefsAre5(info *types.Info, root ast.Node, obj types.Object, m Matcher) bool {
	v, ok := obj.(*types.Var)
	if !ok || v.IsField() {
		return false
	}
	ds := DefsOf(info, root, obj)
	if len(ds) == 0 {
		return false
	}
	for _, d := range ds {
		c, ok := ast.Unparen(d.Rhs).(*ast.CallExpr)
		if d.Rhs == nil || d.Range != nil || !ok || !m(info, c) {
			return false
		}
	}
	return true
}

// ExitReached5 reports whether a normally-returning exit is in the reach set.
func ExitReached5(reach map[*Node]bool) *Node {
	for x := range reach {
		if len(x.Succ) == 0 && x.Kind != KPanic {
			return x
		}
	}
	return nil
}
