package core

import (
	"fmt"
	"go/ast"
	"go/constant"
	"go/token"
	"go/types"
	"sort"
	"strconv"
	"strings"
)

// N2 — abstract execution of function bodies on small abstract scenarios.
//
// The interpreter below walks the type-checked syntax tree of functions of the
// repository (nothing is compiled or run). Integers, booleans and strings that
// the scenario fixes are concrete members of a small abstract universe; every
// other scalar (field values, float data, …) is an opaque symbol (N2KUnk) that
// may be moved around but never inspected: a branch on such a symbol makes the
// run UNDECIDED, which the caller must treat as a failed obligation. Calls of
// functions without a body in the inlinable set are either interpreted by a
// rule-supplied intrinsic (the contract of a library type) or stay opaque
// (result: a fresh symbol named after the call).

type N2Kind uint8

const (
	N2KNil N2Kind = iota
	N2KInt
	N2KBool
	N2KStr
	N2KRef   // object: struct (value or pointer), slice, map, chan, opaque library object
	N2KPtr   // pointer to a scalar cell (variable, field or element)
	N2KFunc  // function value
	N2KTuple // multiple results
	N2KUnk   // opaque scalar symbol
)

// N2Val is an abstract value.
type N2Val struct {
	K N2Kind
	I int64
	B bool
	S string // string value / symbol term / cell key of a field pointer
	O *N2Obj
	C *N2Val // pointer to a variable cell
	F *N2Fn
	T []N2Val
}

func N2Int(i int64) N2Val      { return N2Val{K: N2KInt, I: i} }
func N2Bool(b bool) N2Val      { return N2Val{K: N2KBool, B: b} }
func N2Str(s string) N2Val     { return N2Val{K: N2KStr, S: s} }
func N2Nil() N2Val             { return N2Val{K: N2KNil} }
func N2Unk(t string) N2Val     { return N2Val{K: N2KUnk, S: t} }
func N2Ref(o *N2Obj) N2Val     { return N2Val{K: N2KRef, O: o} }
func N2Tuple(v ...N2Val) N2Val { return N2Val{K: N2KTuple, T: v} }

// N2Obj is a heap object.
type N2Obj struct {
	ID     int
	Term   string
	Typ    types.Type // type of the object itself (struct, slice, …); nil when unknown
	Fields map[string]N2Val
	Len    int      // slices/arrays: number of elements; -1 unknown
	Sym    bool     // absent fields come from the model / are symbols (else: zero values)
	Kind   string   // tag for intrinsic objects
	Impl   []string // type names a symbolic/intrinsic object answers to in type switches
	Data   any
}

// N2Fn is a function value.
type N2Fn struct {
	Fn    *types.Func // declared function or method
	Recv  *N2Val      // bound receiver of a method value
	Lit   *ast.FuncLit
	Frame *n2Frame // defining frame of a literal
	Go    func(x *N2Exec, args []N2Val) N2Val
	Name  string
}

// N2Call is what an intrinsic sees.
type N2Call struct {
	Name string // FName of the callee
	Fn   *types.Func
	Recv *N2Val
	Args []N2Val
	Pos  token.Pos
}

// N2Intrinsic interprets a call; handled=false falls through to inlining / opaque.
type N2Intrinsic func(x *N2Exec, c *N2Call) (res N2Val, handled bool)

type n2Intr struct {
	pat   string
	parts []string // pat split at '*'
	fn    N2Intrinsic
}

// n2Glob is Glob on a pre-split pattern.
func n2Glob(parts []string, name string) bool {
	if len(parts) == 1 {
		return parts[0] == name
	}
	if !strings.HasPrefix(name, parts[0]) {
		return false
	}
	name = name[len(parts[0]):]
	for i := 1; i < len(parts)-1; i++ {
		j := strings.Index(name, parts[i])
		if j < 0 {
			return false
		}
		name = name[j+len(parts[i]):]
	}
	return strings.HasSuffix(name, parts[len(parts)-1])
}

type n2Frame struct {
	vars    map[types.Object]*N2Val
	parent  *n2Frame
	fn      *Func
	info    *types.Info
	defers  []func()
	results []*N2Val
	ret     N2Val
}

// N2Exec is one abstract machine (one scenario).
type N2Exec struct {
	Prog   *Prog
	Model  map[string]N2Val
	Consts map[string]N2Val // "pkg.Name" -> overriding value of a named constant
	Inline func(fn *types.Func) bool
	intr   []n2Intr
	Budget int
	Select func(n int) int        // which case of a select statement is taken (default 0)
	Names  map[*types.Func]string // optional cache of callee names, may be shared between machines

	Fail    string // first reason the run is undecided
	Panic   string // the code panics on this scenario
	Steps   int
	Entered map[*Func]int
	Log     []string
	Debug   bool
	nextID  int
	globals map[types.Object]*N2Val
	depth   int
}

func NewN2(p *Prog) *N2Exec {
	return &N2Exec{Prog: p, Model: map[string]N2Val{}, Consts: map[string]N2Val{}, Budget: 200000, Entered: map[*Func]int{}}
}

// Intrinsic registers an interpretation for callees whose FName matches pat.
func (x *N2Exec) Intrinsic(pat string, fn N2Intrinsic) {
	x.intr = append(x.intr, n2Intr{pat, strings.Split(pat, "*"), fn})
}

func (x *N2Exec) Stopped() bool { return x.Fail != "" || x.Panic != "" }

func (x *N2Exec) undecided(pos token.Pos, format string, a ...any) {
	if x.Fail == "" && x.Panic == "" {
		x.Fail = fmt.Sprintf(format, a...) + " at " + x.Prog.Pos(pos)
	}
}

func (x *N2Exec) panicf(pos token.Pos, format string, a ...any) {
	if x.Fail == "" && x.Panic == "" {
		x.Panic = fmt.Sprintf(format, a...) + " at " + x.Prog.Pos(pos)
	}
}

// NewObj creates a concrete object.
func (x *N2Exec) NewObj(t types.Type, term string) *N2Obj {
	x.nextID++
	if term == "" {
		term = fmt.Sprintf("obj#%d", x.nextID)
	}
	return &N2Obj{ID: x.nextID, Term: term, Typ: t, Fields: map[string]N2Val{}, Len: -1}
}

// NewSym creates a symbolic object: absent fields are looked up in the model
// ("term.field") or become symbols.
func (x *N2Exec) NewSym(t types.Type, term string, impl ...string) *N2Obj {
	o := x.NewObj(t, term)
	o.Sym = true
	o.Impl = impl
	return o
}

// NewSlice creates a slice object with the given elements.
func (x *N2Exec) NewSlice(t types.Type, term string, elems []N2Val) *N2Obj {
	o := x.NewObj(t, term)
	o.Len = len(elems)
	for i, e := range elems {
		o.Fields["["+strconv.Itoa(i)+"]"] = e
	}
	return o
}

// Elems returns the elements of a slice object of known length.
func (x *N2Exec) Elems(o *N2Obj) []N2Val {
	var out []N2Val
	for i := 0; i < o.Len; i++ {
		out = append(out, x.elem(o, int64(i), nil, token.NoPos))
	}
	return out
}

// Render names a value inside terms and messages.
func (v N2Val) Render() string {
	switch v.K {
	case N2KNil:
		return "nil"
	case N2KInt:
		return strconv.FormatInt(v.I, 10)
	case N2KBool:
		return strconv.FormatBool(v.B)
	case N2KStr:
		return strconv.Quote(v.S)
	case N2KRef:
		return v.O.Term
	case N2KPtr:
		if v.O != nil {
			return "&" + v.O.Term + "." + v.S
		}
		return "&var"
	case N2KFunc:
		return "func:" + v.F.Name
	case N2KTuple:
		var ps []string
		for _, e := range v.T {
			ps = append(ps, e.Render())
		}
		return "(" + strings.Join(ps, ", ") + ")"
	}
	return v.S
}

func n2TypeName(t types.Type) string {
	switch tt := t.(type) {
	case *types.Pointer:
		return "*" + n2TypeName(tt.Elem())
	case *types.Named:
		if tt.Obj().Pkg() != nil {
			return tt.Obj().Pkg().Name() + "." + tt.Obj().Name()
		}
		return tt.Obj().Name()
	case *types.Alias:
		return n2TypeName(types.Unalias(tt))
	}
	if t == nil {
		return "?"
	}
	return t.String()
}

func derefType(t types.Type) types.Type {
	if t == nil {
		return nil
	}
	if p, ok := t.Underlying().(*types.Pointer); ok {
		return p.Elem()
	}
	return t
}

func isStructType(t types.Type) bool {
	if t == nil {
		return false
	}
	_, ok := t.Underlying().(*types.Struct)
	return ok
}

// zero value of a type.
func (x *N2Exec) zero(t types.Type) N2Val {
	if t == nil {
		return N2Nil()
	}
	switch u := t.Underlying().(type) {
	case *types.Basic:
		switch {
		case u.Info()&types.IsBoolean != 0:
			return N2Bool(false)
		case u.Info()&types.IsString != 0:
			return N2Str("")
		case u.Info()&types.IsNumeric != 0:
			return N2Int(0)
		}
		return N2Nil()
	case *types.Struct:
		return N2Ref(x.NewObj(t, ""))
	case *types.Array:
		o := x.NewObj(t, "")
		o.Len = int(u.Len())
		return N2Ref(o)
	}
	return N2Nil()
}

// symOfType makes the symbolic value of the given static type named term.
func (x *N2Exec) symOfType(term string, t types.Type) N2Val {
	if v, ok := x.Model[term]; ok {
		return v
	}
	if t != nil {
		switch u := t.Underlying().(type) {
		case *types.Basic:
			_ = u
			return N2Unk(term)
		case *types.Tuple:
			var vs []N2Val
			for i := 0; i < u.Len(); i++ {
				vs = append(vs, x.symOfType(fmt.Sprintf("%s.%d", term, i), u.At(i).Type()))
			}
			if len(vs) == 0 {
				return N2Nil()
			}
			if len(vs) == 1 {
				return vs[0]
			}
			return N2Tuple(vs...)
		}
	}
	return N2Ref(x.NewSym(derefType(t), term))
}

// copyVal implements value semantics of structs: a struct-typed value is cloned
// when it is assigned, passed or stored.
func (x *N2Exec) copyVal(v N2Val, t types.Type) N2Val {
	if v.K != N2KRef || t == nil {
		return v
	}
	if v.O.Kind != "" {
		// library object interpreted by an intrinsic: a struct value is copied
		// (its Data is immutable by convention), a pointer shares the object
		if isStructType(t) {
			c := *v.O
			x.nextID++
			c.ID = x.nextID
			return N2Ref(&c)
		}
		return v
	}
	st, ok := t.Underlying().(*types.Struct)
	if !ok {
		if at, isArr := t.Underlying().(*types.Array); isArr {
			c := *v.O
			x.nextID++
			c.ID = x.nextID
			c.Fields = map[string]N2Val{}
			for k, fv := range v.O.Fields {
				c.Fields[k] = x.copyVal(fv, at.Elem())
			}
			return N2Ref(&c)
		}
		return v
	}
	c := *v.O
	x.nextID++
	c.ID = x.nextID
	c.Fields = map[string]N2Val{}
	ftypes := map[string]types.Type{}
	for i := 0; i < st.NumFields(); i++ {
		ftypes[st.Field(i).Name()] = st.Field(i).Type()
	}
	for k, fv := range v.O.Fields {
		c.Fields[k] = x.copyVal(fv, ftypes[k])
	}
	return N2Ref(&c)
}

// field reads obj.name (ftype: static type of the field).
func (x *N2Exec) field(o *N2Obj, name string, ftype types.Type) N2Val {
	if v, ok := o.Fields[name]; ok {
		return v
	}
	var v N2Val
	if o.Sym {
		v = x.symOfType(o.Term+"."+name, ftype)
	} else {
		v = x.zero(ftype)
	}
	o.Fields[name] = v
	return v
}

// elem reads obj[i].
func (x *N2Exec) elem(o *N2Obj, i int64, etype types.Type, pos token.Pos) N2Val {
	if o.Len >= 0 && (i < 0 || i >= int64(o.Len)) {
		x.panicf(pos, "index out of range [%d] with length %d (%s)", i, o.Len, o.Term)
		return N2Nil()
	}
	if etype == nil && o.Typ != nil {
		switch u := o.Typ.Underlying().(type) {
		case *types.Slice:
			etype = u.Elem()
		case *types.Array:
			etype = u.Elem()
		}
	}
	key := "[" + strconv.FormatInt(i, 10) + "]"
	if v, ok := o.Fields[key]; ok {
		return v
	}
	var v N2Val
	if o.Sym {
		v = x.symOfType(o.Term+key, etype)
	} else {
		v = x.zero(etype)
	}
	o.Fields[key] = v
	return v
}

// LenOf returns the length of a value when it is known.
func (x *N2Exec) LenOf(v N2Val) (int64, bool) {
	switch v.K {
	case N2KNil:
		return 0, true
	case N2KStr:
		return int64(len(v.S)), true
	case N2KRef:
		if v.O.Len >= 0 {
			return int64(v.O.Len), true
		}
		if m, ok := x.Model["len("+v.O.Term+")"]; ok && m.K == N2KInt {
			return m.I, true
		}
	}
	return 0, false
}

var _ = sort.Strings
var _ = constant.MakeInt64

// ---------------------------------------------------------------- frames

func (fr *n2Frame) lookup(o types.Object) *N2Val {
	for f := fr; f != nil; f = f.parent {
		if c, ok := f.vars[o]; ok {
			return c
		}
	}
	return nil
}

func (fr *n2Frame) define(o types.Object, v N2Val) *N2Val {
	c := new(N2Val)
	*c = v
	fr.vars[o] = c
	return c
}

type n2Ctl struct {
	kind  int // 0 none, 1 break, 2 continue, 3 return, 4 stop (panic / undecided)
	label string
}

const (
	n2None = iota
	n2Break
	n2Continue
	n2Return
	n2Stop
)

// CallFunc runs a declared function on the given receiver and arguments.
func (x *N2Exec) CallFunc(f *Func, recv *N2Val, args []N2Val) N2Val {
	if x.Stopped() {
		return N2Nil()
	}
	if x.depth > 60 {
		x.undecided(f.Decl.Pos(), "call depth exceeded in %s", f)
		return N2Nil()
	}
	x.depth++
	defer func() { x.depth-- }()
	x.Entered[f]++
	fr := &n2Frame{vars: map[types.Object]*N2Val{}, fn: f, info: f.Info()}
	info := fr.info
	if f.Decl.Recv != nil && recv != nil {
		for _, fd := range f.Decl.Recv.List {
			for _, nm := range fd.Names {
				if o := info.Defs[nm]; o != nil {
					fr.define(o, x.copyVal(*recv, o.Type()))
				}
			}
		}
	}
	sig, _ := f.Obj.Type().(*types.Signature)
	i := 0
	if f.Decl.Type.Params != nil {
		np := 0
		for _, fd := range f.Decl.Type.Params.List {
			np += max(1, len(fd.Names))
		}
		for _, fd := range f.Decl.Type.Params.List {
			names := fd.Names
			if len(names) == 0 {
				i++
				continue
			}
			for _, nm := range names {
				var v N2Val
				if sig != nil && sig.Variadic() && i == np-1 {
					rest := []N2Val{}
					if i < len(args) {
						rest = args[i:]
					}
					if len(rest) == 1 && rest[0].K == N2KRef && rest[0].O.Kind == "spread" {
						v = N2Ref(rest[0].O.Data.(*N2Obj))
					} else {
						v = N2Ref(x.NewSlice(info.Defs[nm].Type(), "", rest))
					}
				} else if i < len(args) {
					v = args[i]
				}
				if o := info.Defs[nm]; o != nil {
					fr.define(o, x.copyVal(v, o.Type()))
				}
				i++
			}
		}
	}
	if f.Decl.Type.Results != nil {
		for _, fd := range f.Decl.Type.Results.List {
			for _, nm := range fd.Names {
				if o := info.Defs[nm]; o != nil {
					fr.results = append(fr.results, fr.define(o, x.zero(o.Type())))
				}
			}
		}
	}
	x.block(fr, f.Decl.Body.List)
	x.runDefers(fr)
	return fr.ret
}

func (x *N2Exec) runDefers(fr *n2Frame) {
	for i := len(fr.defers) - 1; i >= 0; i-- {
		if x.Stopped() {
			return
		}
		fr.defers[i]()
	}
	fr.defers = nil
}

// callLit runs a function literal.
func (x *N2Exec) callLit(fn *N2Fn, args []N2Val) N2Val {
	if x.Stopped() {
		return N2Nil()
	}
	if x.depth > 60 {
		x.undecided(fn.Lit.Pos(), "call depth exceeded in a function literal")
		return N2Nil()
	}
	x.depth++
	defer func() { x.depth-- }()
	fr := &n2Frame{vars: map[types.Object]*N2Val{}, parent: fn.Frame, fn: fn.Frame.fn, info: fn.Frame.info}
	i := 0
	if fn.Lit.Type.Params != nil {
		for _, fd := range fn.Lit.Type.Params.List {
			if len(fd.Names) == 0 {
				i++
			}
			for _, nm := range fd.Names {
				var v N2Val
				if i < len(args) {
					v = args[i]
				}
				if o := fr.info.Defs[nm]; o != nil {
					fr.define(o, x.copyVal(v, o.Type()))
				}
				i++
			}
		}
	}
	if fn.Lit.Type.Results != nil {
		for _, fd := range fn.Lit.Type.Results.List {
			for _, nm := range fd.Names {
				if o := fr.info.Defs[nm]; o != nil {
					fr.results = append(fr.results, fr.define(o, x.zero(o.Type())))
				}
			}
		}
	}
	x.block(fr, fn.Lit.Body.List)
	x.runDefers(fr)
	return fr.ret
}

// CallValue calls a function value.
func (x *N2Exec) CallValue(f N2Val, args []N2Val, pos token.Pos) N2Val {
	if f.K != N2KFunc {
		if f.K == N2KNil {
			x.panicf(pos, "call of a nil function value")
		} else {
			x.undecided(pos, "call of a non-function value %s", f.Render())
		}
		return N2Nil()
	}
	switch {
	case f.F.Go != nil:
		return f.F.Go(x, args)
	case f.F.Lit != nil:
		return x.callLit(f.F, args)
	case f.F.Fn != nil:
		return x.invoke(f.F.Fn, f.F.Recv, args, pos, nil)
	}
	x.undecided(pos, "empty function value")
	return N2Nil()
}

func (x *N2Exec) block(fr *n2Frame, list []ast.Stmt) n2Ctl {
	for _, s := range list {
		c := x.stmt(fr, s)
		if c.kind != n2None {
			return c
		}
	}
	return n2Ctl{}
}

func (x *N2Exec) tick(pos token.Pos) bool {
	x.Steps++
	if x.Steps > x.Budget {
		x.undecided(pos, "step budget of %d exceeded (the abstract run does not terminate)", x.Budget)
	}
	return !x.Stopped()
}

func (x *N2Exec) stmt(fr *n2Frame, s ast.Stmt) n2Ctl {
	if !x.tick(s.Pos()) {
		return n2Ctl{kind: n2Stop}
	}
	c := x.stmt1(fr, s, "")
	if x.Stopped() {
		return n2Ctl{kind: n2Stop}
	}
	return c
}

func (x *N2Exec) truth(v N2Val, pos token.Pos) bool {
	if v.K == N2KBool {
		return v.B
	}
	x.undecided(pos, "condition depends on the opaque value %s", v.Render())
	return false
}

func (x *N2Exec) stmt1(fr *n2Frame, s ast.Stmt, label string) n2Ctl {
	info := fr.info
	switch st := s.(type) {
	case *ast.BlockStmt:
		return x.block(fr, st.List)
	case *ast.EmptyStmt:
		return n2Ctl{}
	case *ast.LabeledStmt:
		return x.stmt1(fr, st.Stmt, st.Label.Name)
	case *ast.ExprStmt:
		x.eval(fr, st.X)
		return n2Ctl{}
	case *ast.DeclStmt:
		gd, _ := st.Decl.(*ast.GenDecl)
		if gd != nil && gd.Tok == token.VAR {
			for _, sp := range gd.Specs {
				vs := sp.(*ast.ValueSpec)
				var vals []N2Val
				if len(vs.Values) == 1 && len(vs.Names) > 1 {
					t := x.eval(fr, vs.Values[0])
					vals = t.T
				} else {
					for _, e := range vs.Values {
						vals = append(vals, x.eval(fr, e))
					}
				}
				for i, nm := range vs.Names {
					o := info.Defs[nm]
					if o == nil {
						continue
					}
					if i < len(vals) {
						fr.define(o, x.copyVal(vals[i], o.Type()))
					} else {
						fr.define(o, x.zero(o.Type()))
					}
				}
			}
		}
		return n2Ctl{}
	case *ast.AssignStmt:
		x.assignStmt(fr, st)
		return n2Ctl{}
	case *ast.IncDecStmt:
		v := x.eval(fr, st.X)
		if v.K == N2KInt {
			d := int64(1)
			if st.Tok == token.DEC {
				d = -1
			}
			x.assign(fr, st.X, N2Int(v.I+d), false)
		} else {
			x.assign(fr, st.X, N2Unk("("+v.Render()+st.Tok.String()+")"), false)
		}
		return n2Ctl{}
	case *ast.ReturnStmt:
		var vals []N2Val
		if len(st.Results) == 0 {
			for _, c := range fr.results {
				vals = append(vals, *c)
			}
		} else if len(st.Results) == 1 {
			v := x.eval(fr, st.Results[0])
			if v.K == N2KTuple {
				vals = v.T
			} else {
				vals = []N2Val{x.copyVal(v, info.TypeOf(st.Results[0]))}
			}
		} else {
			for _, e := range st.Results {
				vals = append(vals, x.copyVal(x.eval(fr, e), info.TypeOf(e)))
			}
		}
		// named results are visible to deferred functions
		for i, c := range fr.results {
			if i < len(vals) {
				*c = vals[i]
			}
		}
		switch len(vals) {
		case 0:
			fr.ret = N2Nil()
		case 1:
			fr.ret = vals[0]
		default:
			fr.ret = N2Tuple(vals...)
		}
		return n2Ctl{kind: n2Return}
	case *ast.IfStmt:
		if st.Init != nil {
			if c := x.stmt(fr, st.Init); c.kind != n2None {
				return c
			}
		}
		c := x.eval(fr, st.Cond)
		if x.Stopped() {
			return n2Ctl{kind: n2Stop}
		}
		if x.truth(c, st.Cond.Pos()) {
			return x.block(fr, st.Body.List)
		}
		if x.Stopped() {
			return n2Ctl{kind: n2Stop}
		}
		if st.Else != nil {
			return x.stmt(fr, st.Else)
		}
		return n2Ctl{}
	case *ast.ForStmt:
		if st.Init != nil {
			if c := x.stmt(fr, st.Init); c.kind != n2None {
				return c
			}
		}
		for {
			if !x.tick(st.Pos()) {
				return n2Ctl{kind: n2Stop}
			}
			if st.Cond != nil {
				c := x.eval(fr, st.Cond)
				if x.Stopped() {
					return n2Ctl{kind: n2Stop}
				}
				if !x.truth(c, st.Cond.Pos()) {
					break
				}
			}
			c := x.block(fr, st.Body.List)
			if done, out := loopCtl(c, label); done {
				return out
			} else if out.kind == n2Break {
				break
			}
			if st.Post != nil {
				if c := x.stmt(fr, st.Post); c.kind != n2None {
					return c
				}
			}
		}
		if x.Stopped() {
			return n2Ctl{kind: n2Stop}
		}
		return n2Ctl{}
	case *ast.RangeStmt:
		return x.rangeStmt(fr, st, label)
	case *ast.SwitchStmt:
		return x.switchStmt(fr, st, label)
	case *ast.TypeSwitchStmt:
		return x.typeSwitchStmt(fr, st, label)
	case *ast.BranchStmt:
		l := ""
		if st.Label != nil {
			l = st.Label.Name
		}
		switch st.Tok {
		case token.BREAK:
			return n2Ctl{kind: n2Break, label: l}
		case token.CONTINUE:
			return n2Ctl{kind: n2Continue, label: l}
		}
		x.undecided(st.Pos(), "%s statement is outside the interpreted fragment", st.Tok)
		return n2Ctl{kind: n2Stop}
	case *ast.DeferStmt:
		call := st.Call
		// function value and arguments are evaluated now
		if lit, ok := ast.Unparen(call.Fun).(*ast.FuncLit); ok && len(call.Args) == 0 {
			fn := &N2Fn{Lit: lit, Frame: fr, Name: "deferred literal"}
			fr.defers = append(fr.defers, func() { x.callLit(fn, nil) })
			return n2Ctl{}
		}
		th := x.prepareCall(fr, call)
		if th != nil {
			fr.defers = append(fr.defers, th)
		}
		return n2Ctl{}
	case *ast.GoStmt:
		x.undecided(st.Pos(), "go statement is outside the interpreted fragment")
		return n2Ctl{kind: n2Stop}
	case *ast.SelectStmt:
		n := len(st.Body.List)
		k := 0
		if x.Select != nil {
			k = x.Select(n)
		}
		if k < 0 || k >= n {
			return n2Ctl{}
		}
		cc := st.Body.List[k].(*ast.CommClause)
		if cc.Comm != nil {
			if c := x.stmt(fr, cc.Comm); c.kind != n2None {
				return c
			}
		}
		c := x.block(fr, cc.Body)
		if c.kind == n2Break && c.label == "" {
			return n2Ctl{}
		}
		return c
	case *ast.SendStmt:
		x.eval(fr, st.Value)
		return n2Ctl{}
	}
	x.undecided(s.Pos(), "statement %T is outside the interpreted fragment", s)
	return n2Ctl{kind: n2Stop}
}

// loopCtl interprets the control outcome of a loop body: done=true means the
// loop statement itself terminates with out; otherwise out.kind is n2Break
// (leave the loop normally) or n2None (next iteration).
func loopCtl(c n2Ctl, label string) (done bool, out n2Ctl) {
	switch c.kind {
	case n2Break:
		if c.label == "" || c.label == label {
			return false, n2Ctl{kind: n2Break}
		}
		return true, c
	case n2Continue:
		if c.label == "" || c.label == label {
			return false, n2Ctl{}
		}
		return true, c
	case n2Return, n2Stop:
		return true, c
	}
	return false, n2Ctl{}
}

func (x *N2Exec) rangeStmt(fr *n2Frame, st *ast.RangeStmt, label string) n2Ctl {
	info := fr.info
	coll := x.eval(fr, st.X)
	if x.Stopped() {
		return n2Ctl{kind: n2Stop}
	}
	var n int64
	var elemAt func(i int64) N2Val
	switch coll.K {
	case N2KInt:
		n = coll.I
		elemAt = nil
	case N2KNil:
		n = 0
	case N2KRef:
		if _, isMap := derefType(info.TypeOf(st.X)).Underlying().(*types.Map); isMap {
			keys := make([]string, 0, len(coll.O.Fields))
			for k := range coll.O.Fields {
				keys = append(keys, k)
			}
			if len(keys) > 0 || coll.O.Sym {
				x.undecided(st.Pos(), "range over a non-empty or symbolic map")
				return n2Ctl{kind: n2Stop}
			}
			return n2Ctl{}
		}
		l, ok := x.LenOf(coll)
		if !ok {
			x.undecided(st.Pos(), "range over %s whose length is not fixed by the scenario", coll.O.Term)
			return n2Ctl{kind: n2Stop}
		}
		n = l
		var et types.Type
		if t := info.TypeOf(st.X); t != nil {
			switch u := derefType(t).Underlying().(type) {
			case *types.Slice:
				et = u.Elem()
			case *types.Array:
				et = u.Elem()
			}
		}
		elemAt = func(i int64) N2Val {
			if coll.O.Len < 0 {
				coll.O.Len = int(n)
			}
			return x.elem(coll.O, i, et, st.Pos())
		}
	default:
		x.undecided(st.Pos(), "range over %s", coll.Render())
		return n2Ctl{kind: n2Stop}
	}
	for i := int64(0); i < n; i++ {
		if !x.tick(st.Pos()) {
			return n2Ctl{kind: n2Stop}
		}
		bind := func(e ast.Expr, v N2Val) {
			if e == nil {
				return
			}
			if id, ok := e.(*ast.Ident); ok && id.Name == "_" {
				return
			}
			if st.Tok == token.DEFINE {
				if id, ok := e.(*ast.Ident); ok {
					if o := info.Defs[id]; o != nil {
						fr.define(o, x.copyVal(v, o.Type()))
					}
				}
				return
			}
			x.assign(fr, e, v, false)
		}
		bind(st.Key, N2Int(i))
		if st.Value != nil && elemAt != nil {
			bind(st.Value, elemAt(i))
		}
		c := x.block(fr, st.Body.List)
		if done, out := loopCtl(c, label); done {
			return out
		} else if out.kind == n2Break {
			break
		}
	}
	if x.Stopped() {
		return n2Ctl{kind: n2Stop}
	}
	return n2Ctl{}
}

func (x *N2Exec) switchStmt(fr *n2Frame, st *ast.SwitchStmt, label string) n2Ctl {
	if st.Init != nil {
		if c := x.stmt(fr, st.Init); c.kind != n2None {
			return c
		}
	}
	var tag N2Val
	if st.Tag != nil {
		tag = x.eval(fr, st.Tag)
	}
	if x.Stopped() {
		return n2Ctl{kind: n2Stop}
	}
	clauses := st.Body.List
	hit := -1
	def := -1
	for i, cl := range clauses {
		cc := cl.(*ast.CaseClause)
		if cc.List == nil {
			def = i
			continue
		}
		for _, e := range cc.List {
			v := x.eval(fr, e)
			if x.Stopped() {
				return n2Ctl{kind: n2Stop}
			}
			var ok bool
			if st.Tag != nil {
				eq, known := x.equal(tag, v)
				if !known {
					x.undecided(e.Pos(), "switch compares the opaque values %s and %s", tag.Render(), v.Render())
					return n2Ctl{kind: n2Stop}
				}
				ok = eq
			} else {
				ok = x.truth(v, e.Pos())
				if x.Stopped() {
					return n2Ctl{kind: n2Stop}
				}
			}
			if ok {
				hit = i
				break
			}
		}
		if hit >= 0 {
			break
		}
	}
	if hit < 0 {
		hit = def
	}
	for hit >= 0 && hit < len(clauses) {
		cc := clauses[hit].(*ast.CaseClause)
		fall := false
		body := cc.Body
		if n := len(body); n > 0 {
			if b, ok := body[n-1].(*ast.BranchStmt); ok && b.Tok == token.FALLTHROUGH {
				fall = true
				body = body[:n-1]
			}
		}
		c := x.block(fr, body)
		if c.kind == n2Break && (c.label == "" || c.label == label) {
			return n2Ctl{}
		}
		if c.kind != n2None {
			return c
		}
		if !fall {
			break
		}
		hit++
	}
	return n2Ctl{}
}

func (x *N2Exec) typeSwitchStmt(fr *n2Frame, st *ast.TypeSwitchStmt, label string) n2Ctl {
	info := fr.info
	if st.Init != nil {
		if c := x.stmt(fr, st.Init); c.kind != n2None {
			return c
		}
	}
	var operand ast.Expr
	var bound *ast.Ident
	switch a := st.Assign.(type) {
	case *ast.AssignStmt:
		bound, _ = a.Lhs[0].(*ast.Ident)
		operand = ast.Unparen(a.Rhs[0]).(*ast.TypeAssertExpr).X
	case *ast.ExprStmt:
		operand = ast.Unparen(a.X).(*ast.TypeAssertExpr).X
	}
	v := x.eval(fr, operand)
	if x.Stopped() {
		return n2Ctl{kind: n2Stop}
	}
	var chosen, def *ast.CaseClause
	for _, cl := range st.Body.List {
		cc := cl.(*ast.CaseClause)
		if cc.List == nil {
			def = cc
			continue
		}
		for _, te := range cc.List {
			if id, ok := te.(*ast.Ident); ok && id.Name == "nil" && info.Types[te].IsNil() {
				if v.K == N2KNil {
					chosen = cc
				}
				continue
			}
			m, known := x.typeMatches(v, info.TypeOf(te))
			if !known {
				x.undecided(te.Pos(), "type switch on %s whose dynamic type the scenario does not fix", v.Render())
				return n2Ctl{kind: n2Stop}
			}
			if m {
				chosen = cc
				break
			}
		}
		if chosen != nil {
			break
		}
	}
	if chosen == nil {
		chosen = def
	}
	if chosen == nil {
		return n2Ctl{}
	}
	if bound != nil {
		if o := info.Implicits[chosen]; o != nil {
			fr.define(o, v)
		}
	}
	c := x.block(fr, chosen.Body)
	if c.kind == n2Break && (c.label == "" || c.label == label) {
		return n2Ctl{}
	}
	return c
}

// typeMatches decides v.(T).
func (x *N2Exec) typeMatches(v N2Val, t types.Type) (match, known bool) {
	if t == nil {
		return false, false
	}
	switch v.K {
	case N2KNil:
		return false, true
	case N2KRef:
		o := v.O
		name := n2TypeName(t)
		if len(o.Impl) > 0 {
			for _, n := range o.Impl {
				if n == name {
					return true, true
				}
			}
			return false, true
		}
		if o.Typ != nil && !o.Sym {
			if it, ok := t.Underlying().(*types.Interface); ok {
				return types.Implements(types.NewPointer(o.Typ), it) || types.Implements(o.Typ, it), true
			}
			return types.Identical(derefType(t), o.Typ), true
		}
		return false, false
	case N2KInt, N2KBool, N2KStr:
		if _, ok := t.Underlying().(*types.Interface); ok {
			return false, false
		}
		b, ok := t.Underlying().(*types.Basic)
		if !ok {
			return false, true
		}
		switch v.K {
		case N2KInt:
			return b.Info()&types.IsNumeric != 0, true
		case N2KBool:
			return b.Info()&types.IsBoolean != 0, true
		default:
			return b.Info()&types.IsString != 0, true
		}
	}
	return false, false
}

// ---------------------------------------------------------------- assignment

func (x *N2Exec) assignStmt(fr *n2Frame, st *ast.AssignStmt) {
	info := fr.info
	define := st.Tok == token.DEFINE
	if st.Tok != token.ASSIGN && st.Tok != token.DEFINE {
		// op-assign
		var op token.Token
		switch st.Tok {
		case token.ADD_ASSIGN:
			op = token.ADD
		case token.SUB_ASSIGN:
			op = token.SUB
		case token.MUL_ASSIGN:
			op = token.MUL
		case token.QUO_ASSIGN:
			op = token.QUO
		case token.REM_ASSIGN:
			op = token.REM
		case token.OR_ASSIGN:
			op = token.OR
		case token.AND_ASSIGN:
			op = token.AND
		default:
			x.undecided(st.Pos(), "assignment operator %s", st.Tok)
			return
		}
		a := x.eval(fr, st.Lhs[0])
		b := x.eval(fr, st.Rhs[0])
		x.assign(fr, st.Lhs[0], x.binop(op, a, b, st.Pos()), false)
		return
	}
	var vals []N2Val
	if len(st.Rhs) == 1 && len(st.Lhs) > 1 {
		switch r := ast.Unparen(st.Rhs[0]).(type) {
		case *ast.TypeAssertExpr:
			v := x.eval(fr, r.X)
			m, known := x.typeMatches(v, info.TypeOf(r.Type))
			if !known {
				m = v.K != N2KNil // a value the scenario supplies is taken to have the asserted type
			}
			if m {
				vals = []N2Val{v, N2Bool(true)}
			} else {
				vals = []N2Val{x.zero(info.TypeOf(r.Type)), N2Bool(false)}
			}
		case *ast.IndexExpr:
			base := x.eval(fr, r.X)
			key := x.eval(fr, r.Index)
			if base.K == N2KRef && !base.O.Sym {
				v, ok := base.O.Fields["["+mapKey(key)+"]"]
				if !ok {
					v = x.zero(info.TypeOf(r))
				}
				vals = []N2Val{v, N2Bool(ok)}
			} else if base.K == N2KNil {
				vals = []N2Val{x.zero(info.TypeOf(r)), N2Bool(false)}
			} else {
				x.undecided(st.Pos(), "comma-ok lookup in a symbolic map")
				return
			}
		case *ast.UnaryExpr:
			vals = []N2Val{N2Unk("<-chan"), N2Bool(true)}
		default:
			t := x.eval(fr, st.Rhs[0])
			if t.K != N2KTuple || len(t.T) != len(st.Lhs) {
				x.undecided(st.Pos(), "tuple assignment from %s", t.Render())
				return
			}
			vals = t.T
		}
	} else {
		for _, e := range st.Rhs {
			vals = append(vals, x.eval(fr, e))
		}
	}
	if x.Stopped() {
		return
	}
	// struct values are copied before any store (a, b = b, a)
	for i, l := range st.Lhs {
		if i < len(vals) {
			vals[i] = x.copyVal(vals[i], info.TypeOf(l))
		}
	}
	for i, l := range st.Lhs {
		if i < len(vals) {
			x.assign(fr, l, vals[i], define)
		}
	}
}

func mapKey(k N2Val) string {
	if k.K == N2KStr {
		return k.S
	}
	return k.Render()
}

func (x *N2Exec) global(o types.Object) *N2Val {
	if x.globals == nil {
		x.globals = map[types.Object]*N2Val{}
	}
	if c, ok := x.globals[o]; ok {
		return c
	}
	c := new(N2Val)
	pk := ""
	if o.Pkg() != nil {
		pk = Short(o.Pkg().Path())
	}
	*c = x.symOfType(pk+"."+o.Name(), o.Type())
	x.globals[o] = c
	return c
}

func (x *N2Exec) assign(fr *n2Frame, lhs ast.Expr, v N2Val, define bool) {
	info := fr.info
	switch l := ast.Unparen(lhs).(type) {
	case *ast.Ident:
		if l.Name == "_" {
			return
		}
		if define {
			if o := info.Defs[l]; o != nil {
				fr.define(o, v)
				return
			}
		}
		o := info.Uses[l]
		if o == nil {
			o = info.Defs[l]
		}
		if o == nil {
			return
		}
		if c := fr.lookup(o); c != nil {
			*c = v
			return
		}
		*x.global(o) = v
	case *ast.SelectorExpr:
		if sel := info.Selections[l]; sel != nil && sel.Kind() == types.FieldVal {
			base := x.eval(fr, l.X)
			obj, f := x.walkSel(base, sel, l.Pos())
			if obj == nil {
				return
			}
			obj.Fields[f.Name()] = v
			return
		}
		// qualified package variable
		if o := info.Uses[l.Sel]; o != nil {
			*x.global(o) = v
		}
	case *ast.IndexExpr:
		base := x.eval(fr, l.X)
		idx := x.eval(fr, l.Index)
		if x.Stopped() {
			return
		}
		if base.K == N2KNil {
			x.panicf(l.Pos(), "store into a nil slice or map")
			return
		}
		if base.K == N2KPtr { // pointer to array
			base = x.ptrLoad(base, nil)
		}
		if base.K != N2KRef {
			x.undecided(l.Pos(), "indexed store into %s", base.Render())
			return
		}
		if _, isMap := derefType(info.TypeOf(l.X)).Underlying().(*types.Map); isMap {
			base.O.Fields["["+mapKey(idx)+"]"] = v
			return
		}
		if idx.K != N2KInt {
			x.undecided(l.Pos(), "store at the opaque index %s", idx.Render())
			return
		}
		if base.O.Len >= 0 && (idx.I < 0 || idx.I >= int64(base.O.Len)) {
			x.panicf(l.Pos(), "index out of range [%d] with length %d in a store to %s", idx.I, base.O.Len, base.O.Term)
			return
		}
		base.O.Fields["["+strconv.FormatInt(idx.I, 10)+"]"] = v
	case *ast.StarExpr:
		p := x.eval(fr, l.X)
		switch p.K {
		case N2KPtr:
			x.ptrStore(p, v)
		case N2KRef:
			if v.K == N2KRef {
				id := p.O.ID
				fields := map[string]N2Val{}
				for k, fv := range v.O.Fields {
					fields[k] = fv
				}
				*p.O = *v.O
				p.O.ID = id
				p.O.Fields = fields
			}
		case N2KNil:
			x.panicf(l.Pos(), "store through a nil pointer")
		default:
			x.undecided(l.Pos(), "store through %s", p.Render())
		}
	default:
		x.undecided(lhs.Pos(), "assignment target %T", lhs)
	}
}

func (x *N2Exec) ptrLoad(p N2Val, t types.Type) N2Val {
	if p.C != nil {
		return *p.C
	}
	if p.O != nil {
		if strings.HasPrefix(p.S, "[") {
			if v, ok := p.O.Fields[p.S]; ok {
				return v
			}
			return x.zero(t)
		}
		return x.field(p.O, p.S, t)
	}
	return N2Nil()
}

func (x *N2Exec) ptrStore(p N2Val, v N2Val) {
	if p.C != nil {
		*p.C = v
		return
	}
	if p.O != nil {
		p.O.Fields[p.S] = v
	}
}

// walkSel follows the implicit embedded-field path of a selection and returns
// the object that holds the selected field (or is the method's receiver) and,
// for a field selection, the field.
func (x *N2Exec) walkSel(base N2Val, sel *types.Selection, pos token.Pos) (*N2Obj, *types.Var) {
	if base.K == N2KPtr {
		base = x.ptrLoad(base, nil)
	}
	if base.K == N2KNil {
		x.panicf(pos, "nil pointer dereference (selecting %s)", sel.Obj().Name())
		return nil, nil
	}
	if base.K != N2KRef {
		x.undecided(pos, "selection of %s on %s", sel.Obj().Name(), base.Render())
		return nil, nil
	}
	cur := base.O
	t := derefType(sel.Recv())
	idx := sel.Index()
	n := len(idx)
	if sel.Kind() != types.FieldVal {
		n-- // last index is the method
		if cur.Kind != "" {
			return cur, nil // library object interpreted by an intrinsic: promoted methods stay on it
		}
	}
	for i := 0; i < n; i++ {
		st, ok := t.Underlying().(*types.Struct)
		if !ok {
			x.undecided(pos, "selection path through non-struct %s", t)
			return nil, nil
		}
		f := st.Field(idx[i])
		if sel.Kind() == types.FieldVal && i == n-1 {
			return cur, f
		}
		v := x.field(cur, f.Name(), f.Type())
		if v.K == N2KNil {
			x.panicf(pos, "nil pointer dereference through embedded %s", f.Name())
			return nil, nil
		}
		if v.K != N2KRef {
			// embedded interface or scalar: the value itself is the receiver
			return nil, nil
		}
		cur = v.O
		t = derefType(f.Type())
	}
	return cur, nil
}

// ---------------------------------------------------------------- expressions

func (x *N2Exec) constVal(c *types.Const) N2Val {
	key := c.Name()
	if c.Pkg() != nil {
		key = Short(c.Pkg().Path()) + "." + c.Name()
	}
	if v, ok := x.Consts[key]; ok {
		return v
	}
	return n2Const(c.Val(), key)
}

func n2Const(v constant.Value, name string) N2Val {
	switch v.Kind() {
	case constant.Bool:
		return N2Bool(constant.BoolVal(v))
	case constant.String:
		return N2Str(constant.StringVal(v))
	case constant.Int:
		if i, ok := constant.Int64Val(v); ok {
			return N2Int(i)
		}
	case constant.Float:
		if iv := constant.ToInt(v); iv.Kind() == constant.Int {
			if i, ok := constant.Int64Val(iv); ok {
				return N2Int(i)
			}
		}
	}
	return N2Unk("const:" + name + "=" + v.ExactString())
}

func (x *N2Exec) eval(fr *n2Frame, e ast.Expr) N2Val {
	if x.Stopped() {
		return N2Nil()
	}
	info := fr.info
	switch ex := e.(type) {
	case *ast.ParenExpr:
		return x.eval(fr, ex.X)
	case *ast.BasicLit:
		switch ex.Kind {
		case token.INT:
			if i, err := strconv.ParseInt(ex.Value, 0, 64); err == nil {
				return N2Int(i)
			}
		case token.STRING:
			if s, err := strconv.Unquote(ex.Value); err == nil {
				return N2Str(s)
			}
		case token.CHAR:
			if s, err := strconv.Unquote(ex.Value); err == nil && len(s) > 0 {
				return N2Int(int64([]rune(s)[0]))
			}
		}
		return N2Unk("lit:" + ex.Value)
	case *ast.Ident:
		o := info.Uses[ex]
		if o == nil {
			o = info.Defs[ex]
		}
		switch ob := o.(type) {
		case *types.Nil:
			return N2Nil()
		case *types.Const:
			if ob.Pkg() == nil { // true, false, iota
				return n2Const(ob.Val(), ob.Name())
			}
			if tv, ok := info.Types[ex]; ok && tv.Value != nil && ob.Name() == "iota" {
				return n2Const(tv.Value, "iota")
			}
			return x.constVal(ob)
		case *types.Var:
			if c := fr.lookup(ob); c != nil {
				return *c
			}
			if ob.Parent() != nil && ob.Pkg() != nil && ob.Parent() == ob.Pkg().Scope() {
				return *x.global(ob)
			}
			x.undecided(ex.Pos(), "variable %s has no value in this run", ex.Name)
			return N2Nil()
		case *types.Func:
			return N2Val{K: N2KFunc, F: &N2Fn{Fn: ob.Origin(), Name: FName(ob)}}
		}
		x.undecided(ex.Pos(), "identifier %s", ex.Name)
		return N2Nil()
	case *ast.SelectorExpr:
		if sel := info.Selections[ex]; sel != nil {
			base := x.eval(fr, ex.X)
			if x.Stopped() {
				return N2Nil()
			}
			switch sel.Kind() {
			case types.FieldVal:
				obj, f := x.walkSel(base, sel, ex.Pos())
				if obj == nil {
					if !x.Stopped() {
						x.undecided(ex.Pos(), "field %s of %s", ex.Sel.Name, base.Render())
					}
					return N2Nil()
				}
				return x.field(obj, f.Name(), f.Type())
			case types.MethodVal:
				recv := base
				if obj, _ := x.walkSel(base, sel, ex.Pos()); obj != nil {
					recv = N2Ref(obj)
				}
				fn := sel.Obj().(*types.Func).Origin()
				return N2Val{K: N2KFunc, F: &N2Fn{Fn: fn, Recv: &recv, Name: FName(fn)}}
			}
			x.undecided(ex.Pos(), "method expression")
			return N2Nil()
		}
		// qualified identifier
		switch ob := info.Uses[ex.Sel].(type) {
		case *types.Const:
			return x.constVal(ob)
		case *types.Var:
			return *x.global(ob)
		case *types.Func:
			return N2Val{K: N2KFunc, F: &N2Fn{Fn: ob.Origin(), Name: FName(ob)}}
		}
		x.undecided(ex.Pos(), "selector %s", ex.Sel.Name)
		return N2Nil()
	case *ast.StarExpr:
		p := x.eval(fr, ex.X)
		switch p.K {
		case N2KPtr:
			return x.ptrLoad(p, info.TypeOf(ex))
		case N2KRef:
			return p
		case N2KNil:
			x.panicf(ex.Pos(), "nil pointer dereference")
		default:
			x.undecided(ex.Pos(), "dereference of %s", p.Render())
		}
		return N2Nil()
	case *ast.UnaryExpr:
		return x.unary(fr, ex)
	case *ast.BinaryExpr:
		if ex.Op == token.LAND || ex.Op == token.LOR {
			l := x.eval(fr, ex.X)
			if x.Stopped() {
				return N2Nil()
			}
			if l.K != N2KBool {
				// opaque left operand: the result is opaque as well
				r := x.eval(fr, ex.Y)
				return N2Unk("(" + l.Render() + ex.Op.String() + r.Render() + ")")
			}
			if (ex.Op == token.LAND) != l.B {
				return l
			}
			return x.eval(fr, ex.Y)
		}
		l := x.eval(fr, ex.X)
		r := x.eval(fr, ex.Y)
		if x.Stopped() {
			return N2Nil()
		}
		return x.binop(ex.Op, l, r, ex.Pos())
	case *ast.CallExpr:
		th := x.resolveCall(fr, ex)
		if th == nil || x.Stopped() {
			return N2Nil()
		}
		return th()
	case *ast.CompositeLit:
		return x.compositeLit(fr, ex)
	case *ast.FuncLit:
		return N2Val{K: N2KFunc, F: &N2Fn{Lit: ex, Frame: fr, Name: "literal@" + x.Prog.Pos(ex.Pos())}}
	case *ast.IndexExpr:
		if tv, ok := info.Types[ex.X]; ok && !tv.IsValue() {
			x.undecided(ex.Pos(), "generic instantiation")
			return N2Nil()
		}
		base := x.eval(fr, ex.X)
		idx := x.eval(fr, ex.Index)
		if x.Stopped() {
			return N2Nil()
		}
		return x.index(base, idx, info.TypeOf(ex.X), info.TypeOf(ex), ex.Pos())
	case *ast.SliceExpr:
		return x.sliceExpr(fr, ex)
	case *ast.TypeAssertExpr:
		v := x.eval(fr, ex.X)
		if ex.Type == nil {
			return v
		}
		if m, known := x.typeMatches(v, info.TypeOf(ex.Type)); known && !m {
			x.panicf(ex.Pos(), "interface conversion: %s is not %s", v.Render(), n2TypeName(info.TypeOf(ex.Type)))
		}
		return v
	case *ast.KeyValueExpr:
		return x.eval(fr, ex.Value)
	}
	x.undecided(e.Pos(), "expression %T is outside the interpreted fragment", e)
	return N2Nil()
}

func (x *N2Exec) index(base, idx N2Val, bt, et types.Type, pos token.Pos) N2Val {
	if base.K == N2KPtr {
		base = x.ptrLoad(base, nil)
	}
	switch base.K {
	case N2KStr:
		if idx.K == N2KInt {
			if idx.I < 0 || idx.I >= int64(len(base.S)) {
				x.panicf(pos, "string index out of range")
				return N2Nil()
			}
			return N2Int(int64(base.S[idx.I]))
		}
	case N2KNil:
		if bt != nil {
			if _, isMap := derefType(bt).Underlying().(*types.Map); isMap {
				return x.zero(et)
			}
		}
		x.panicf(pos, "index of a nil slice")
		return N2Nil()
	case N2KRef:
		if bt != nil {
			if _, isMap := derefType(bt).Underlying().(*types.Map); isMap {
				k := "[" + mapKey(idx) + "]"
				if v, ok := base.O.Fields[k]; ok {
					return v
				}
				if base.O.Sym {
					return x.symOfType(base.O.Term+k, et)
				}
				return x.zero(et)
			}
		}
		if idx.K == N2KInt {
			return x.elem(base.O, idx.I, et, pos)
		}
		x.undecided(pos, "index %s of %s is opaque", idx.Render(), base.O.Term)
		return N2Nil()
	}
	x.undecided(pos, "index of %s", base.Render())
	return N2Nil()
}

func (x *N2Exec) sliceExpr(fr *n2Frame, ex *ast.SliceExpr) N2Val {
	base := x.eval(fr, ex.X)
	var lo, hi N2Val
	hasLo, hasHi := ex.Low != nil, ex.High != nil
	if hasLo {
		lo = x.eval(fr, ex.Low)
	}
	if hasHi {
		hi = x.eval(fr, ex.High)
	}
	if x.Stopped() {
		return N2Nil()
	}
	if base.K == N2KPtr {
		base = x.ptrLoad(base, nil)
	}
	n, known := x.LenOf(base)
	l, h := int64(0), n
	if hasLo {
		if lo.K != N2KInt {
			known = false
		}
		l = lo.I
	}
	if hasHi {
		if hi.K != N2KInt {
			known = false
		} else {
			h = hi.I
			if base.K == N2KRef && base.O.Len < 0 && (!hasLo || lo.K == N2KInt) {
				known = true // bounded above by the scenario
			}
		}
	}
	switch base.K {
	case N2KNil:
		return N2Nil()
	case N2KStr:
		if known && l >= 0 && h <= int64(len(base.S)) && l <= h {
			return N2Str(base.S[l:h])
		}
	case N2KRef:
		if known {
			if l < 0 || h < l || (base.O.Len >= 0 && h > int64(base.O.Len) && !hasHi) {
				x.panicf(ex.Pos(), "slice bounds out of range [%d:%d] of %s", l, h, base.O.Term)
				return N2Nil()
			}
			o := x.NewObj(base.O.Typ, fmt.Sprintf("%s[%d:%d]", base.O.Term, l, h))
			o.Len = int(h - l)
			o.Sym = base.O.Sym
			for i := l; i < h; i++ {
				src := "[" + strconv.FormatInt(i, 10) + "]"
				if v, ok := base.O.Fields[src]; ok {
					o.Fields["["+strconv.FormatInt(i-l, 10)+"]"] = v
				} else if base.O.Sym {
					o.Fields["["+strconv.FormatInt(i-l, 10)+"]"] = x.elem(base.O, i, nil, ex.Pos())
				}
			}
			return N2Ref(o)
		}
		return N2Ref(x.NewSym(base.O.Typ, base.O.Term+"[slice]"))
	}
	x.undecided(ex.Pos(), "slice expression on %s", base.Render())
	return N2Nil()
}

func (x *N2Exec) unary(fr *n2Frame, ex *ast.UnaryExpr) N2Val {
	info := fr.info
	switch ex.Op {
	case token.AND:
		op := ast.Unparen(ex.X)
		if cl, ok := op.(*ast.CompositeLit); ok {
			return x.compositeLit(fr, cl)
		}
		t := info.TypeOf(op)
		if t != nil {
			switch t.Underlying().(type) {
			case *types.Struct, *types.Array:
				return x.eval(fr, op) // the object itself stands for its address
			}
		}
		switch o := op.(type) {
		case *ast.Ident:
			ob := info.Uses[o]
			if ob == nil {
				ob = info.Defs[o]
			}
			if c := fr.lookup(ob); c != nil {
				return N2Val{K: N2KPtr, C: c}
			}
			if ob != nil {
				return N2Val{K: N2KPtr, C: x.global(ob)}
			}
		case *ast.SelectorExpr:
			if sel := info.Selections[o]; sel != nil && sel.Kind() == types.FieldVal {
				base := x.eval(fr, o.X)
				obj, f := x.walkSel(base, sel, o.Pos())
				if obj == nil {
					return N2Nil()
				}
				x.field(obj, f.Name(), f.Type()) // materialise
				return N2Val{K: N2KPtr, O: obj, S: f.Name()}
			}
			if ob := info.Uses[o.Sel]; ob != nil {
				return N2Val{K: N2KPtr, C: x.global(ob)}
			}
		case *ast.IndexExpr:
			base := x.eval(fr, o.X)
			idx := x.eval(fr, o.Index)
			if base.K == N2KRef && idx.K == N2KInt {
				x.elem(base.O, idx.I, info.TypeOf(o), o.Pos())
				return N2Val{K: N2KPtr, O: base.O, S: "[" + strconv.FormatInt(idx.I, 10) + "]"}
			}
		}
		x.undecided(ex.Pos(), "address of %T", op)
		return N2Nil()
	case token.NOT:
		v := x.eval(fr, ex.X)
		if v.K == N2KBool {
			return N2Bool(!v.B)
		}
		return N2Unk("!" + v.Render())
	case token.SUB:
		v := x.eval(fr, ex.X)
		if v.K == N2KInt {
			return N2Int(-v.I)
		}
		return N2Unk("-" + v.Render())
	case token.ADD:
		return x.eval(fr, ex.X)
	case token.XOR:
		v := x.eval(fr, ex.X)
		if v.K == N2KInt {
			return N2Int(^v.I)
		}
		return N2Unk("^" + v.Render())
	case token.ARROW:
		x.eval(fr, ex.X)
		return N2Unk("<-chan")
	}
	x.undecided(ex.Pos(), "unary operator %s", ex.Op)
	return N2Nil()
}

// equal decides a == b when the abstract values determine it.
func (x *N2Exec) equal(a, b N2Val) (eq, known bool) {
	if a.K == N2KNil || b.K == N2KNil {
		o := a
		if a.K == N2KNil {
			o = b
		}
		switch o.K {
		case N2KNil:
			return true, true
		case N2KRef, N2KPtr, N2KFunc, N2KStr:
			return false, true
		}
		return false, false
	}
	if a.K != b.K {
		if a.K == N2KUnk || b.K == N2KUnk {
			return false, false
		}
		return false, true
	}
	switch a.K {
	case N2KInt:
		return a.I == b.I, true
	case N2KBool:
		return a.B == b.B, true
	case N2KStr:
		return a.S == b.S, true
	case N2KUnk:
		if a.S == b.S {
			return true, true
		}
		return false, false
	case N2KRef:
		if a.O == b.O {
			return true, true
		}
		if a.O.Sym || b.O.Sym || isStructType(a.O.Typ) {
			if a.O.Term == b.O.Term && a.O.Sym && b.O.Sym {
				return true, true
			}
			return false, false
		}
		return false, true
	case N2KPtr:
		return a.C == b.C && a.O == b.O && a.S == b.S, true
	}
	return false, false
}

func (x *N2Exec) binop(op token.Token, a, b N2Val, pos token.Pos) N2Val {
	unk := func() N2Val { return N2Unk("(" + a.Render() + " " + op.String() + " " + b.Render() + ")") }
	switch op {
	case token.EQL, token.NEQ:
		eq, known := x.equal(a, b)
		if !known {
			return unk()
		}
		return N2Bool(eq == (op == token.EQL))
	case token.LSS, token.LEQ, token.GTR, token.GEQ:
		var c int
		switch {
		case a.K == N2KInt && b.K == N2KInt:
			c = cmpInt(a.I, b.I)
		case a.K == N2KStr && b.K == N2KStr:
			c = strings.Compare(a.S, b.S)
		default:
			return unk()
		}
		switch op {
		case token.LSS:
			return N2Bool(c < 0)
		case token.LEQ:
			return N2Bool(c <= 0)
		case token.GTR:
			return N2Bool(c > 0)
		}
		return N2Bool(c >= 0)
	}
	if a.K == N2KStr && b.K == N2KStr && op == token.ADD {
		return N2Str(a.S + b.S)
	}
	if a.K != N2KInt || b.K != N2KInt {
		return unk()
	}
	switch op {
	case token.ADD:
		return N2Int(a.I + b.I)
	case token.SUB:
		return N2Int(a.I - b.I)
	case token.MUL:
		return N2Int(a.I * b.I)
	case token.QUO:
		if b.I == 0 {
			x.panicf(pos, "integer divide by zero")
			return N2Nil()
		}
		return N2Int(a.I / b.I)
	case token.REM:
		if b.I == 0 {
			x.panicf(pos, "integer divide by zero")
			return N2Nil()
		}
		return N2Int(a.I % b.I)
	case token.AND:
		return N2Int(a.I & b.I)
	case token.OR:
		return N2Int(a.I | b.I)
	case token.XOR:
		return N2Int(a.I ^ b.I)
	case token.SHL:
		return N2Int(a.I << uint(b.I))
	case token.SHR:
		return N2Int(a.I >> uint(b.I))
	case token.AND_NOT:
		return N2Int(a.I &^ b.I)
	}
	return unk()
}

func cmpInt(a, b int64) int {
	switch {
	case a < b:
		return -1
	case a > b:
		return 1
	}
	return 0
}

func (x *N2Exec) compositeLit(fr *n2Frame, cl *ast.CompositeLit) N2Val {
	info := fr.info
	t := info.TypeOf(cl)
	if t == nil {
		x.undecided(cl.Pos(), "composite literal without type")
		return N2Nil()
	}
	t = derefType(t)
	switch u := t.Underlying().(type) {
	case *types.Struct:
		o := x.NewObj(t, "")
		o.Term = fmt.Sprintf("%s#%d", n2TypeName(t), o.ID)
		for i, el := range cl.Elts {
			if kv, ok := el.(*ast.KeyValueExpr); ok {
				name := kv.Key.(*ast.Ident).Name
				var ft types.Type
				for k := 0; k < u.NumFields(); k++ {
					if u.Field(k).Name() == name {
						ft = u.Field(k).Type()
					}
				}
				o.Fields[name] = x.copyVal(x.eval(fr, kv.Value), ft)
			} else if i < u.NumFields() {
				o.Fields[u.Field(i).Name()] = x.copyVal(x.eval(fr, el), u.Field(i).Type())
			}
		}
		return N2Ref(o)
	case *types.Slice, *types.Array:
		var et types.Type
		if s, ok := u.(*types.Slice); ok {
			et = s.Elem()
		} else {
			et = u.(*types.Array).Elem()
		}
		o := x.NewObj(t, "")
		next, maxN := int64(0), int64(0)
		for _, el := range cl.Elts {
			val := el
			if kv, ok := el.(*ast.KeyValueExpr); ok {
				k := x.eval(fr, kv.Key)
				if k.K != N2KInt {
					x.undecided(el.Pos(), "opaque index in a composite literal")
					return N2Nil()
				}
				next = k.I
				val = kv.Value
			}
			o.Fields["["+strconv.FormatInt(next, 10)+"]"] = x.copyVal(x.eval(fr, val), et)
			next++
			if next > maxN {
				maxN = next
			}
		}
		o.Len = int(maxN)
		if a, ok := u.(*types.Array); ok {
			o.Len = int(a.Len())
		}
		return N2Ref(o)
	case *types.Map:
		o := x.NewObj(t, "")
		for _, el := range cl.Elts {
			if kv, ok := el.(*ast.KeyValueExpr); ok {
				o.Fields["["+mapKey(x.eval(fr, kv.Key))+"]"] = x.copyVal(x.eval(fr, kv.Value), u.Elem())
			}
		}
		return N2Ref(o)
	}
	x.undecided(cl.Pos(), "composite literal of %s", t)
	return N2Nil()
}

// ---------------------------------------------------------------- calls

func (x *N2Exec) evalArgs(fr *n2Frame, call *ast.CallExpr) []N2Val {
	var args []N2Val
	if len(call.Args) == 1 {
		v := x.eval(fr, call.Args[0])
		if v.K == N2KTuple {
			return v.T
		}
		args = []N2Val{v}
	} else {
		for _, a := range call.Args {
			args = append(args, x.eval(fr, a))
		}
	}
	if call.Ellipsis.IsValid() && len(args) > 0 {
		last := args[len(args)-1]
		if last.K == N2KRef {
			sp := x.NewObj(nil, last.O.Term+"...")
			sp.Kind = "spread"
			sp.Data = last.O
			args[len(args)-1] = N2Ref(sp)
		}
	}
	return args
}

// prepareCall evaluates callee and arguments (defer) and returns the pending call.
func (x *N2Exec) prepareCall(fr *n2Frame, call *ast.CallExpr) func() {
	th := x.resolveCall(fr, call)
	if th == nil {
		return nil
	}
	return func() { th() }
}

func (x *N2Exec) resolveCall(fr *n2Frame, call *ast.CallExpr) func() N2Val {
	info := fr.info
	fun := ast.Unparen(call.Fun)
	if tv, ok := info.Types[fun]; ok && tv.IsType() {
		if len(call.Args) != 1 {
			x.undecided(call.Pos(), "conversion with %d operands", len(call.Args))
			return nil
		}
		v := x.eval(fr, call.Args[0])
		return func() N2Val { return v }
	}
	if id, ok := fun.(*ast.Ident); ok {
		if _, isB := info.Uses[id].(*types.Builtin); isB {
			return func() N2Val { return x.builtin(fr, id.Name, call) }
		}
	}
	if fn := Callee(info, call); fn != nil {
		var recv *N2Val
		if se, ok := fun.(*ast.SelectorExpr); ok {
			if sel := info.Selections[se]; sel != nil {
				base := x.eval(fr, se.X)
				if x.Stopped() {
					return nil
				}
				r := base
				if base.K == N2KRef || base.K == N2KNil || base.K == N2KPtr {
					if base.K == N2KNil {
						if _, isIface := sel.Recv().Underlying().(*types.Interface); isIface || len(sel.Index()) > 1 {
							x.panicf(call.Pos(), "nil pointer dereference (call of %s on nil)", fn.Name())
							return nil
						}
					} else if obj, _ := x.walkSel(base, sel, se.Pos()); obj != nil {
						r = N2Ref(obj)
					}
				}
				if x.Stopped() {
					return nil
				}
				recv = &r
			}
		}
		args := x.evalArgs(fr, call)
		if x.Stopped() {
			return nil
		}
		return func() N2Val { return x.invoke(fn, recv, args, call.Pos(), info.TypeOf(call)) }
	}
	f := x.eval(fr, fun)
	args := x.evalArgs(fr, call)
	if x.Stopped() {
		return nil
	}
	return func() N2Val { return x.CallValue(f, args, call.Pos()) }
}

// invoke calls a declared function or method: intrinsic, dynamic dispatch,
// inlined body, or opaque.
func (x *N2Exec) invoke(fn *types.Func, recv *N2Val, args []N2Val, pos token.Pos, resT types.Type) N2Val {
	if x.Stopped() {
		return N2Nil()
	}
	name, cached := x.Names[fn]
	if !cached {
		name = FName(fn)
		if x.Names != nil {
			x.Names[fn] = name
		}
	}
	if x.Debug {
		rs := ""
		if recv != nil {
			rs = recv.Render()
		}
		x.Log = append(x.Log, fmt.Sprintf("call %s recv=%s nargs=%d", name, rs, len(args)))
	}
	for _, in := range x.intr {
		if n2Glob(in.parts, name) {
			if res, ok := in.fn(x, &N2Call{Name: name, Fn: fn, Recv: recv, Args: args, Pos: pos}); ok {
				return res
			}
			if x.Stopped() {
				return N2Nil()
			}
		}
	}
	sig, _ := fn.Type().(*types.Signature)
	if sig != nil && sig.Recv() != nil && recv != nil {
		if _, isIface := sig.Recv().Type().Underlying().(*types.Interface); isIface {
			switch {
			case recv.K == N2KNil:
				x.panicf(pos, "nil pointer dereference (interface method %s on nil)", fn.Name())
				return N2Nil()
			case recv.K == N2KRef && recv.O.Typ != nil && recv.O.Kind == "":
				if _, stillIface := recv.O.Typ.Underlying().(*types.Interface); !stillIface {
					obj, idx, _ := types.LookupFieldOrMethod(types.NewPointer(recv.O.Typ), true, fn.Pkg(), fn.Name())
					if m, ok := obj.(*types.Func); ok {
						cur := recv.O
						t := recv.O.Typ
						for _, k := range idx[:len(idx)-1] {
							st, ok := t.Underlying().(*types.Struct)
							if !ok {
								break
							}
							f := st.Field(k)
							v := x.field(cur, f.Name(), f.Type())
							if v.K == N2KNil {
								x.panicf(pos, "nil pointer dereference through embedded %s", f.Name())
								return N2Nil()
							}
							if v.K != N2KRef {
								break
							}
							cur = v.O
							t = derefType(f.Type())
						}
						r := N2Ref(cur)
						return x.invoke(m.Origin(), &r, args, pos, resT)
					}
				}
			}
		}
	}
	if decl := x.Prog.FuncOf(fn); decl != nil && decl.Decl.Body != nil && x.Inline != nil && x.Inline(fn) {
		return x.CallFunc(decl, recv, args)
	}
	// opaque
	var ps []string
	for _, a := range args {
		ps = append(ps, a.Render())
	}
	term := ""
	if recv != nil {
		term = recv.Render() + "." + fn.Name()
	} else {
		term = name
	}
	term += "(" + strings.Join(ps, ", ") + ")"
	if x.Debug {
		x.Log = append(x.Log, "opaque "+term)
	}
	if sig == nil || sig.Results().Len() == 0 {
		return N2Nil()
	}
	if sig.Results().Len() == 1 {
		return x.symOfType(term, sig.Results().At(0).Type())
	}
	return x.symOfType(term, sig.Results())
}

// CallMethod calls the method called name on a concrete object.
func (x *N2Exec) CallMethod(recv N2Val, name string, args ...N2Val) N2Val {
	if recv.K != N2KRef || recv.O.Typ == nil {
		x.undecided(token.NoPos, "method %s of %s cannot be resolved", name, recv.Render())
		return N2Nil()
	}
	var pkg *types.Package
	if nt, ok := recv.O.Typ.(*types.Named); ok {
		pkg = nt.Obj().Pkg()
	}
	obj, idx, _ := types.LookupFieldOrMethod(types.NewPointer(recv.O.Typ), true, pkg, name)
	m, ok := obj.(*types.Func)
	if !ok {
		x.undecided(token.NoPos, "type %s has no method %s", n2TypeName(recv.O.Typ), name)
		return N2Nil()
	}
	cur := recv.O
	t := recv.O.Typ
	for _, k := range idx[:len(idx)-1] {
		st, ok := t.Underlying().(*types.Struct)
		if !ok {
			break
		}
		f := st.Field(k)
		v := x.field(cur, f.Name(), f.Type())
		if v.K != N2KRef {
			break
		}
		cur = v.O
		t = derefType(f.Type())
	}
	r := N2Ref(cur)
	return x.invoke(m.Origin(), &r, args, token.NoPos, nil)
}

// GoFunc wraps a Go callback as a function value of the abstract machine.
func N2GoFunc(name string, f func(x *N2Exec, args []N2Val) N2Val) N2Val {
	return N2Val{K: N2KFunc, F: &N2Fn{Go: f, Name: name}}
}

func (x *N2Exec) builtin(fr *n2Frame, name string, call *ast.CallExpr) N2Val {
	info := fr.info
	switch name {
	case "len", "cap":
		v := x.eval(fr, call.Args[0])
		if v.K == N2KPtr {
			v = x.ptrLoad(v, nil)
		}
		if n, ok := x.LenOf(v); ok {
			return N2Int(n)
		}
		return N2Unk("len(" + v.Render() + ")")
	case "append":
		base := x.eval(fr, call.Args[0])
		var add []N2Val
		known := true
		for i, a := range call.Args[1:] {
			v := x.eval(fr, a)
			if call.Ellipsis.IsValid() && i == len(call.Args)-2 {
				switch {
				case v.K == N2KNil:
				case v.K == N2KRef && v.O.Len >= 0:
					add = append(add, x.Elems(v.O)...)
				default:
					known = false
				}
			} else {
				add = append(add, v)
			}
		}
		if x.Stopped() {
			return N2Nil()
		}
		t := info.TypeOf(call)
		var et types.Type
		if t != nil {
			if s, ok := t.Underlying().(*types.Slice); ok {
				et = s.Elem()
			}
		}
		for i := range add {
			add[i] = x.copyVal(add[i], et)
		}
		if base.K == N2KNil && known {
			return N2Ref(x.NewSlice(t, "", add))
		}
		if base.K == N2KRef && base.O.Len >= 0 && known {
			o := x.NewSlice(t, "", append(x.Elems(base.O), add...))
			return N2Ref(o)
		}
		return N2Ref(x.NewSym(t, "append("+base.Render()+",…)"))
	case "make":
		t := info.TypeOf(call.Args[0])
		switch t.Underlying().(type) {
		case *types.Slice:
			n := x.eval(fr, call.Args[1])
			if n.K == N2KInt {
				if n.I < 0 {
					x.panicf(call.Pos(), "makeslice: len out of range")
					return N2Nil()
				}
				o := x.NewObj(t, "")
				o.Len = int(n.I)
				return N2Ref(o)
			}
			return N2Ref(x.NewSym(t, "make(["+n.Render()+"])"))
		}
		o := x.NewObj(t, "")
		return N2Ref(o)
	case "new":
		t := info.TypeOf(call.Args[0])
		if isStructType(t) {
			return N2Ref(x.NewObj(t, ""))
		}
		c := new(N2Val)
		*c = x.zero(t)
		return N2Val{K: N2KPtr, C: c}
	case "copy":
		dst := x.eval(fr, call.Args[0])
		src := x.eval(fr, call.Args[1])
		dn, ok1 := x.LenOf(dst)
		sn, ok2 := x.LenOf(src)
		if ok1 && ok2 {
			n := min(dn, sn)
			if n > 0 && dst.K == N2KRef && src.K == N2KRef {
				for i := int64(0); i < n; i++ {
					dst.O.Fields["["+strconv.FormatInt(i, 10)+"]"] = x.elem(src.O, i, nil, call.Pos())
				}
			}
			return N2Int(n)
		}
		return N2Unk("copy()")
	case "panic":
		v := x.eval(fr, call.Args[0])
		x.panicf(call.Pos(), "panic(%s)", v.Render())
		return N2Nil()
	case "close", "print", "println", "clear":
		for _, a := range call.Args {
			x.eval(fr, a)
		}
		return N2Nil()
	case "delete":
		m := x.eval(fr, call.Args[0])
		k := x.eval(fr, call.Args[1])
		if m.K == N2KRef {
			delete(m.O.Fields, "["+mapKey(k)+"]")
		}
		return N2Nil()
	case "recover":
		return N2Nil()
	case "min", "max":
		var best N2Val
		for i, a := range call.Args {
			v := x.eval(fr, a)
			if v.K != N2KInt {
				return N2Unk(name + "()")
			}
			if i == 0 || (name == "min" && v.I < best.I) || (name == "max" && v.I > best.I) {
				best = v
			}
		}
		return best
	}
	x.undecided(call.Pos(), "builtin %s", name)
	return N2Nil()
}

// EnteredNames lists the functions whose bodies were interpreted.
func (x *N2Exec) EnteredNames() []string {
	var out []string
	for f := range x.Entered {
		out = append(out, f.String())
	}
	sort.Strings(out)
	return out
}

// ---------------------------------------------------------------- exported accessors for rule files

// Field reads a field of an object (zero value / symbol when absent).
func (x *N2Exec) Field(o *N2Obj, name string) N2Val {
	var ft types.Type
	if o.Typ != nil {
		if st, ok := o.Typ.Underlying().(*types.Struct); ok {
			for i := 0; i < st.NumFields(); i++ {
				if st.Field(i).Name() == name {
					ft = st.Field(i).Type()
				}
			}
		}
	}
	return x.field(o, name, ft)
}

// PtrLoad / PtrStore access the cell a pointer value designates.
func (x *N2Exec) PtrLoad(p N2Val) N2Val {
	v := x.ptrLoad(p, nil)
	return v
}
func (x *N2Exec) PtrStore(p, v N2Val) { x.ptrStore(p, v) }

// Undecided / PanicAt let intrinsics stop the run.
func (x *N2Exec) Undecided(pos token.Pos, format string, a ...any) { x.undecided(pos, format, a...) }
func (x *N2Exec) PanicAt(pos token.Pos, format string, a ...any)   { x.panicf(pos, format, a...) }

// Equal exposes the abstract equality.
func (x *N2Exec) Equal(a, b N2Val) (eq, known bool) { return x.equal(a, b) }

// NamedType looks a named type up in a loaded package ("tsdb/cursors", "FloatArray").
func (p *Prog) NamedType(pkg, name string) types.Type {
	pk := p.Pkg(pkg)
	if pk == nil || pk.Types == nil {
		return nil
	}
	if o := pk.Types.Scope().Lookup(name); o != nil {
		return o.Type()
	}
	return nil
}
