package core

// Helpers added for the C05 / C06 / C08 rule sets:
//   - emptiness edges (the branch of `len(x) op const` on which x is known empty),
//   - loop iteration analysis (E8: gaps in an accumulation / lossless loops),
//   - an extended lockset walker (caller-holds-ANY-of, per-call hook, lock leaks),
//   - field writer enumeration (E3 who-may-write).

import (
	"fmt"
	"go/ast"
	"go/constant"
	"go/token"
	"go/types"
	"sort"
	"strings"

	"golang.org/x/tools/go/cfg"
)

// ---------------------------------------------------------------- emptiness edges

// LenCmp decodes `len(X) op c` / `c op len(X)` (c an integer constant). eval
// gives the truth value of the condition for a given length.
func LenCmp(info *types.Info, cond ast.Expr) (x ast.Expr, eval func(n int64) bool, ok bool) {
	be, isBin := ast.Unparen(cond).(*ast.BinaryExpr)
	if !isBin {
		return nil, nil, false
	}
	lenArg := func(e ast.Expr) ast.Expr {
		c, isCall := ast.Unparen(e).(*ast.CallExpr)
		if !isCall || len(c.Args) != 1 || !Builtin("len")(info, c) {
			return nil
		}
		return ast.Unparen(c.Args[0])
	}
	constOf := func(e ast.Expr) (int64, bool) {
		if tv, has := info.Types[e]; has && tv.Value != nil && tv.Value.Kind() == constant.Int {
			return constant.Int64Val(tv.Value)
		}
		return 0, false
	}
	op := be.Op
	var c int64
	if a := lenArg(be.X); a != nil {
		v, isC := constOf(be.Y)
		if !isC {
			return nil, nil, false
		}
		x, c = a, v
	} else if a := lenArg(be.Y); a != nil {
		v, isC := constOf(be.X)
		if !isC {
			return nil, nil, false
		}
		x, c = a, v
		// c op len  ==  len op' c
		switch op {
		case token.LSS:
			op = token.GTR
		case token.LEQ:
			op = token.GEQ
		case token.GTR:
			op = token.LSS
		case token.GEQ:
			op = token.LEQ
		}
	} else {
		return nil, nil, false
	}
	switch op {
	case token.EQL, token.NEQ, token.LSS, token.LEQ, token.GTR, token.GEQ:
	default:
		return nil, nil, false
	}
	eval = func(n int64) bool {
		switch op {
		case token.EQL:
			return n == c
		case token.NEQ:
			return n != c
		case token.LSS:
			return n < c
		case token.LEQ:
			return n <= c
		case token.GTR:
			return n > c
		default:
			return n >= c
		}
	}
	return x, eval, true
}

// EmptyOn: cond is a length test that is exactly "len(x) == 0" on one branch;
// it returns x and the branch value on which x is empty.
func EmptyOn(info *types.Info, cond ast.Expr) (x ast.Expr, branch bool, ok bool) {
	x, eval, ok := LenCmp(info, cond)
	if !ok {
		return nil, false, false
	}
	b0 := eval(0)
	for _, n := range []int64{1, 2, 3, 1 << 40} {
		if eval(n) == b0 {
			return nil, false, false
		}
	}
	return x, b0, true
}

// Atom is a sub-condition whose truth value is known on a conditional edge.
type Atom struct {
	X   ast.Expr
	Val bool
}

// AtomsOn lists what is known when cond evaluated to branch. go/cfg keeps
// `a && b` / `a || b` / `!a` conditions whole; this splits them: on the true
// branch of a conjunction both conjuncts hold, on the false branch of a
// disjunction both disjuncts are false, negation flips.
func AtomsOn(cond ast.Expr, branch bool) []Atom {
	cond = ast.Unparen(cond)
	switch c := cond.(type) {
	case *ast.UnaryExpr:
		if c.Op == token.NOT {
			return AtomsOn(c.X, !branch)
		}
	case *ast.BinaryExpr:
		if (c.Op == token.LAND && branch) || (c.Op == token.LOR && !branch) {
			return append(AtomsOn(c.X, branch), AtomsOn(c.Y, branch)...)
		}
	}
	return []Atom{{cond, branch}}
}

// Atoms of a conditional edge (nil for unconditional and tag-switch edges).
func (e *Edge) Atoms() []Atom {
	if e.Cond == nil || e.Tag != nil {
		return nil
	}
	return AtomsOn(e.Cond, e.Branch)
}

// AtomEdge selects the edges on which some known atom satisfies test.
func AtomEdge(test func(x ast.Expr, val bool) bool) EdgePred {
	return func(e *Edge) bool {
		for _, a := range e.Atoms() {
			if test(a.X, a.Val) {
				return true
			}
		}
		return false
	}
}

// EmptyEdge selects the conditional edges on which the expression accepted by
// isX is known to have length 0.
func (g *Graph) EmptyEdge(isX func(ast.Expr) bool) EdgePred {
	return AtomEdge(func(c ast.Expr, val bool) bool {
		x, br, ok := EmptyOn(g.Info, c)
		return ok && val == br && isX(x)
	})
}

// NilEdge selects the edges on which the expression accepted by isX is known
// to be nil (wantNil) or non-nil (!wantNil).
func (g *Graph) NilEdge(isX func(ast.Expr) bool, wantNil bool) EdgePred {
	return AtomEdge(func(c ast.Expr, val bool) bool {
		x, nonNilOnTrue, ok := NilTest(g.Info, c)
		return ok && isX(x) && (val != nonNilOnTrue) == wantNil
	})
}

// EqEdge selects the edges on which `a == b` (wantEqual) or `a != b` is known
// for a pair of operands accepted by isA / isB (either order).
func EqEdge(isA, isB func(ast.Expr) bool, wantEqual bool) EdgePred {
	return AtomEdge(func(c ast.Expr, val bool) bool {
		be, ok := c.(*ast.BinaryExpr)
		if !ok || (be.Op != token.EQL && be.Op != token.NEQ) {
			return false
		}
		x, y := ast.Unparen(be.X), ast.Unparen(be.Y)
		if !((isA(x) && isB(y)) || (isA(y) && isB(x))) {
			return false
		}
		return (val == (be.Op == token.EQL)) == wantEqual
	})
}

// ErrNonNilEdge selects the edges on which some error-typed expression is
// known to be non-nil (failure branches, also inside `err != nil && …`).
func (g *Graph) ErrNonNilEdge() EdgePred {
	return g.NilEdge(func(x ast.Expr) bool { return IsErrorType(g.Info.TypeOf(x)) }, false)
}

// OrEdge combines edge predicates.
func OrEdge(ps ...EdgePred) EdgePred {
	return func(e *Edge) bool {
		for _, p := range ps {
			if p != nil && p(e) {
				return true
			}
		}
		return false
	}
}

// IsObj returns a predicate accepting identifier expressions denoting obj.
func IsObj(info *types.Info, obj types.Object) func(ast.Expr) bool {
	return func(e ast.Expr) bool { return obj != nil && ObjOf(info, e) == obj }
}

// ---------------------------------------------------------------- loops

// LoopBody returns the body of a for/range statement (nil otherwise).
func LoopBody(s ast.Stmt) *ast.BlockStmt {
	switch l := s.(type) {
	case *ast.ForStmt:
		return l.Body
	case *ast.RangeStmt:
		return l.Body
	}
	return nil
}

// LoopEntry is the first CFG node of the body of loop statement s.
func (g *Graph) LoopEntry(s ast.Stmt) *Node {
	for _, n := range g.Nodes {
		if n.Block != nil && n.Block.Stmt == ast.Node(s) && (n.Block.Kind == cfg.KindForBody || n.Block.Kind == cfg.KindRangeBody) {
			return n
		}
	}
	return nil
}

// InStmt selects the nodes lying syntactically inside one of the statements.
func InStmt(stmts ...ast.Node) NodePred {
	return func(n *Node) bool {
		for _, s := range stmts {
			if s != nil && InRegion(n, s) {
				return true
			}
		}
		return false
	}
}

// Gap is one way an iteration of a loop can end (or leave the loop) without
// passing an accumulate or close node.
type Gap struct {
	Via   *Node  // last body node of the gap path
	Label string // stable-ish name derived from the controlling condition
	Kind  string // "next-iteration" | "leave-then-accumulate"
}

func condLabel(info *types.Info, c ast.Expr) string {
	if c == nil {
		return "?"
	}
	name := ""
	ast.Inspect(c, func(x ast.Node) bool {
		if call, ok := x.(*ast.CallExpr); ok && name == "" {
			if fn := Callee(info, call); fn != nil {
				name = fn.Name()
			}
		}
		return true
	})
	if name != "" {
		return name
	}
	return Trim(ExprStr(c), 40)
}

func gapLabel(info *types.Info, n *Node) string {
	if n.Block != nil {
		if is, ok := n.Block.Stmt.(*ast.IfStmt); ok {
			switch n.Block.Kind {
			case cfg.KindIfThen:
				return "if(" + condLabel(info, is.Cond) + ")"
			case cfg.KindIfElse:
				return "else(" + condLabel(info, is.Cond) + ")"
			}
		}
	}
	return "end-of-body"
}

// LoopGaps analyses one iteration of loop statement s: starting at the first
// node of the body, which paths reach the next iteration — or leave the loop
// and later reach an accumulate node — without passing a node selected by acc
// or closeP? (closeP may be nil.) ok=false when the loop is not in the graph.
func (g *Graph) LoopGaps(s ast.Stmt, acc, closeP NodePred) (gaps []Gap, ok bool) {
	body := LoopBody(s)
	entry := g.LoopEntry(s)
	if body == nil || entry == nil {
		return nil, false
	}
	stop := AnyOf(acc, closeP)
	r1 := g.Reach([]*Node{entry}, stop, nil)
	if len(r1) == 0 {
		return nil, true // the first statement of the body already accumulates/closes
	}
	inBody := func(n *Node) bool { return n == entry || InRegion(n, body) }
	// continue target: loop head / post statement of this very loop
	isNext := func(m *Node) bool {
		if m == entry {
			return true
		}
		if m.Block == nil || m.Block.Stmt != ast.Node(s) {
			return false
		}
		switch m.Block.Kind {
		case cfg.KindForLoop, cfg.KindForPost, cfg.KindRangeLoop:
			return true
		}
		return false
	}
	seen := map[string]bool{}
	add := func(n *Node, kind string) {
		l := gapLabel(g.Info, n)
		if !seen[kind+l] {
			seen[kind+l] = true
			gaps = append(gaps, Gap{Via: n, Label: l, Kind: kind})
		}
	}
	// does the iteration come round again?
	cycle := false
	for _, e := range entry.Pred {
		if r1[e.From] {
			cycle = true
		}
	}
	var leave []*Node
	for n := range r1 {
		if !inBody(n) {
			continue
		}
		for _, e := range n.Succ {
			m := e.To
			if stop(m) {
				continue
			}
			switch {
			case isNext(m):
				if cycle {
					add(n, "next-iteration")
				}
			case inBody(m):
			default:
				leave = append(leave, m)
			}
		}
	}
	// paths that leave the loop (break/goto) and accumulate again later
	if len(leave) > 0 {
		r2 := g.Reach(leave, stop, nil)
		for n := range r2 {
			for _, e := range n.Succ {
				if acc(e.To) {
					add(n, "leave-then-accumulate")
				}
			}
		}
	}
	sort.Slice(gaps, func(i, j int) bool { return gaps[i].Via.ID < gaps[j].Via.ID })
	return gaps, true
}

// RulePrecedeG is RulePrecede on an explicit graph (a function literal).
func RulePrecedeG(r *Report, g *Graph, f *Func, rule string, aName string, a Matcher, bName string, b Matcher) bool {
	return rulePrecedeG(r, g, f, rule, aName, a, bName, b)
}

// ---------------------------------------------------------------- extended lockset

// HoldAny: the caller of a function must hold at least one of Locks (any mode)
// on the object passed as receiver (Param < 0) or as parameter #Param.
type HoldAny struct {
	Param int
	Locks []string
}

// LockRulesX extends LockRules.
type LockRulesX struct {
	LockRules
	HoldsAny map[string]HoldAny
	// OnCall is invoked for every call evaluated in the analysed functions
	// (including calls inside nested literals) with the locks held on every
	// path reaching it.
	OnCall func(f *Func, c *ast.CallExpr, v LockView)
}

// LockView exposes a lock state to rule code.
type LockView struct{ st lockState }

// Mode: 0 not held, 1 read, 2 write.
func (v LockView) Mode(path string) int { return int(v.st[path]) }
func (v LockView) String() string       { return v.st.String() }

// LockAnalysisX runs the extended analysis.
type LockAnalysisX struct {
	LockAnalysis
	X         *LockRulesX
	AnySites  int
	HookCalls int
}

func paramName(fd *ast.FuncDecl, idx int) string {
	if fd.Type.Params == nil {
		return ""
	}
	i := 0
	for _, fl := range fd.Type.Params.List {
		if len(fl.Names) == 0 {
			i++
			continue
		}
		for _, nm := range fl.Names {
			if i == idx {
				return nm.Name
			}
			i++
		}
	}
	return ""
}

func (a *LockAnalysisX) entryFor(f *Func) lockState {
	entry := lockState{}
	if held, ok := a.Rules.CallerHolds[f.Name]; ok {
		rn := recvName(f.Decl)
		for lk, m := range held {
			md := int8(2)
			if m == 'R' {
				md = 1
			}
			entry[rn+"."+lk] = md
		}
	}
	if h, ok := a.X.HoldsAny[f.Name]; ok && len(h.Locks) > 0 {
		base := recvName(f.Decl)
		if h.Param >= 0 {
			base = paramName(f.Decl, h.Param)
		}
		entry[base+"."+h.Locks[0]] = 1
	}
	return entry
}

// RunX analyses every function of the package.
func (a *LockAnalysisX) RunX() {
	a.Rules = &a.X.LockRules
	pk := a.Prog.Pkg(a.Rules.Pkg)
	if pk == nil {
		return
	}
	guarded := map[*types.Var]guardInfo{}
	for i := range a.Rules.Guards {
		gd := &a.Rules.Guards[i]
		for _, fn := range gd.Fields {
			if v := LookupField(pk.Types, gd.Type, fn); v != nil {
				guarded[v] = guardInfo{gd, gd.Locks}
			}
		}
	}
	for _, f := range a.Prog.Funcs(a.Rules.Pkg) {
		if f.Decl.Body == nil {
			continue
		}
		a.Funcs++
		if _, ex := a.Rules.ExemptFunc[f.Name]; ex {
			continue
		}
		a.checkGraphX(f, f.Graph(), a.entryFor(f), guarded)
	}
}

func (a *LockAnalysisX) checkGraphX(f *Func, g *Graph, entry lockState, guarded map[*types.Var]guardInfo) {
	in := a.flow(g, entry, nil)
	info := g.Info
	locals := constructedLocals(info, g.Body)
	for _, n := range g.Nodes {
		if n.N == nil {
			continue
		}
		st, reachable := in[n]
		if !reachable {
			continue
		}
		writes := writeTargets(n.N)
		var lits []*ast.FuncLit
		inspectNoLit(n.N, &lits, func(x ast.Node) {
			switch e := x.(type) {
			case *ast.SelectorExpr:
				fv := FieldOf(info, e)
				gi, ok := guarded[fv]
				if !ok {
					return
				}
				a.Checked++
				base := a.lockBase(e.X)
				if id, isId := ast.Unparen(e.X).(*ast.Ident); isId && locals[ObjOf(info, id)] {
					return
				}
				isWrite := writes[e]
				if _, ex := a.Rules.ExemptAccess[f.Name+":"+fv.Name()]; ex {
					return
				}
				ok = false
				if isWrite {
					ok = true
					for _, lk := range gi.locks {
						if st[base+"."+lk] != 2 {
							ok = false
						}
					}
				} else {
					for _, lk := range gi.locks {
						if st[base+"."+lk] >= 1 {
							ok = true
						}
					}
				}
				if !ok {
					acc := "read"
					if isWrite {
						acc = "write"
					}
					a.Violations = append(a.Violations, LockViolation{Func: f, What: gi.g.Type + "." + fv.Name(), Pos: e.Pos(),
						Need: base + ".{" + strings.Join(gi.locks, ",") + "}", Held: st.String(), Access: acc})
				}
			case *ast.CallExpr:
				if a.X.OnCall != nil {
					if !deferredCallIs(n.N, e) {
						a.HookCalls++
						a.X.OnCall(f, e, LockView{st})
					}
				}
				fn := Callee(info, e)
				callee := a.Prog.FuncOf(fn)
				if callee == nil || callee.Pkg != f.Pkg {
					return
				}
				if _, ex := a.Rules.ExemptAccess[f.Name+":"+callee.Name]; ex {
					return
				}
				if need, ok := a.Rules.CallerHolds[callee.Name]; ok {
					a.CallSites++
					if se, isSel := ast.Unparen(e.Fun).(*ast.SelectorExpr); isSel {
						base := ExprStr(se.X)
						if id, isId := ast.Unparen(se.X).(*ast.Ident); !isId || !locals[ObjOf(info, id)] {
							var lks []string
							for lk := range need {
								lks = append(lks, lk)
							}
							sort.Strings(lks)
							for _, lk := range lks {
								m := need[lk]
								have := st[base+"."+lk]
								if (m == 'W' && have != 2) || (m == 'R' && have < 1) {
									a.Violations = append(a.Violations, LockViolation{Func: f, What: callee.Name, Pos: e.Pos(),
										Need: fmt.Sprintf("%s.%s:%c", base, lk, m), Held: st.String(), Access: "call"})
								}
							}
						}
					}
				}
				if h, ok := a.X.HoldsAny[callee.Name]; ok {
					a.AnySites++
					var be ast.Expr
					if h.Param < 0 {
						if se, isSel := ast.Unparen(e.Fun).(*ast.SelectorExpr); isSel {
							be = se.X
						}
					} else if h.Param < len(e.Args) {
						be = e.Args[h.Param]
					}
					if be == nil {
						return
					}
					if id, isId := ast.Unparen(be).(*ast.Ident); isId && locals[ObjOf(info, id)] {
						return
					}
					base := ExprStr(be)
					held := false
					for _, lk := range h.Locks {
						if st[base+"."+lk] >= 1 {
							held = true
						}
					}
					if !held {
						a.Violations = append(a.Violations, LockViolation{Func: f, What: callee.Name, Pos: e.Pos(),
							Need: base + ".{" + strings.Join(h.Locks, "|") + "}", Held: st.String(), Access: "call"})
					}
				}
			}
		})
		for _, fl := range lits {
			ent := st.clone()
			if _, isGo := n.N.(*ast.GoStmt); isGo {
				ent = lockState{}
			}
			a.checkGraphX(f, f.LitGraph(fl), ent, guarded)
		}
	}
}

// deferredCallIs reports whether c is the deferred call itself of defer stmt n
// (it runs at function exit, not here).
func deferredCallIs(n ast.Node, c *ast.CallExpr) bool {
	switch d := n.(type) {
	case *ast.DeferStmt:
		return d.Call == c
	case *ast.GoStmt:
		return d.Call == c
	}
	return false
}

// RuleLocksX runs the extended analysis and reports like RuleLocks.
func RuleLocksX(r *Report, p *Prog, rules *LockRulesX, rule string, minAccesses, minAnySites int) *LockAnalysisX {
	a := &LockAnalysisX{X: rules}
	a.Prog = p
	a.Rules = &rules.LockRules
	pk := p.Pkg(rules.Pkg)
	if pk == nil {
		r.Bad("anchor", rules.Pkg, "unresolved", "-", "package not loaded")
		return a
	}
	for _, gd := range rules.Guards {
		for _, fn := range append(append([]string{}, gd.Fields...), gd.Locks...) {
			if LookupField(pk.Types, gd.Type, fn) == nil {
				r.Bad("anchor", rules.Pkg+"."+gd.Type+"."+fn, "unresolved", "-", "field named in the lock table does not exist")
			}
		}
	}
	var names []string
	for name := range rules.CallerHolds {
		names = append(names, name)
	}
	for name := range rules.HoldsAny {
		names = append(names, name)
	}
	for name := range rules.ExemptFunc {
		names = append(names, name)
	}
	sort.Strings(names)
	for _, name := range names {
		if f := p.Func(rules.Pkg, name); f == nil {
			r.Bad("anchor", rules.Pkg+"."+name, "unresolved", "-", "function named in the lock table does not exist")
		} else {
			r.Saw(f)
		}
	}
	a.RunX()
	seen := map[string]bool{}
	for _, v := range a.Violations {
		key := v.Func.Name + ":" + v.What + ":" + v.Access
		if seen[key] {
			continue
		}
		seen[key] = true
		r.Saw(v.Func)
		r.Bad(rule, v.Func.String(), v.What+":"+v.Access, p.Pos(v.Pos),
			fmt.Sprintf("%s of %s needs %s, held on every path here: %s", v.Access, v.What, v.Need, v.Held))
	}
	if a.Checked < minAccesses {
		r.Bad(rule, rules.Pkg, "accesses:count", "-", fmt.Sprintf("only %d guarded accesses found, expected >= %d (rule would be vacuous)", a.Checked, minAccesses))
	}
	if a.AnySites < minAnySites {
		r.Bad(rule, rules.Pkg, "caller-holds-any:count", "-", fmt.Sprintf("only %d call sites of caller-holds-any functions found, expected >= %d", a.AnySites, minAnySites))
	}
	r.Ok(rule, rules.Pkg, "-", fmt.Sprintf("%d functions, %d guarded accesses, %d caller-holds and %d caller-holds-any call sites examined, %d unprotected",
		a.Funcs, a.Checked, a.CallSites, a.AnySites, len(seen)))
	return a
}

// LockLeaks returns, for function f, the lock paths (filtered by keep) that are
// held at some normally-returning exit although they were not held at entry.
// Deferred unlocks are applied at every exit (a defer that is itself
// conditional is therefore over-approximated as executed).
func (a *LockAnalysis) LockLeaks(f *Func, keep func(path string) bool) map[string]string {
	out := map[string]string{}
	g := f.Graph()
	if g == nil {
		return out
	}
	in := a.flow(g, lockState{}, nil)
	for _, x := range g.Exits {
		if x.Kind == KPanic {
			continue
		}
		st, ok := in[x]
		if !ok {
			continue
		}
		o := st.clone()
		a.transfer(g, x, o, nil)
		a.applyDefers(g, o, nil)
		for p := range o {
			if keep(p) {
				out[p] = g.Line(x)
			}
		}
	}
	return out
}

// LockOpOn decodes a Lock/RLock/Unlock/RUnlock call on a mutex that is a struct
// field; it returns the field and the operation name.
func LockOpOn(info *types.Info, c *ast.CallExpr) (field *types.Var, op string, ok bool) {
	_, op, ok = lockOp(info, c)
	if !ok {
		return nil, "", false
	}
	se := ast.Unparen(c.Fun).(*ast.SelectorExpr)
	return FieldOf(info, se.X), op, true
}

// ---------------------------------------------------------------- E3 field writers

// FieldWrite is one store to a struct field.
type FieldWrite struct {
	Func *Func
	Pos  token.Pos
	Kind string // "assign" | "literal" | "address"
}

// FieldWriters lists every store to the given field in the package: assignment
// targets (x.f = …, x.f[i] = …, x.f++, delete(x.f,k), range into x.f), keyed
// composite-literal elements, and address-taking (&x.f).
func FieldWriters(p *Prog, pkg string, field *types.Var) []FieldWrite {
	var out []FieldWrite
	if field == nil {
		return out
	}
	for _, f := range p.Funcs(pkg) {
		if f.Decl.Body == nil {
			continue
		}
		info := f.Info()
		ast.Inspect(f.Decl.Body, func(n ast.Node) bool {
			switch s := n.(type) {
			case *ast.AssignStmt, *ast.IncDecStmt, *ast.RangeStmt, *ast.ExprStmt:
				// writeTargets does not descend into literals; a nested literal's
				// statements are visited by the outer Inspect anyway. To avoid
				// double counting only look at this statement's own targets.
				for se := range shallowWriteTargets(s) {
					if FieldOf(info, se) == field {
						out = append(out, FieldWrite{f, se.Pos(), "assign"})
					}
				}
			case *ast.KeyValueExpr:
				if id, ok := s.Key.(*ast.Ident); ok {
					if v, ok := info.Uses[id].(*types.Var); ok && v.Origin() == field {
						out = append(out, FieldWrite{f, id.Pos(), "literal"})
					}
				}
			case *ast.UnaryExpr:
				if s.Op == token.AND && FieldOf(info, lhsBase(s.X)) == field {
					out = append(out, FieldWrite{f, s.Pos(), "address"})
				}
			}
			return true
		})
	}
	return out
}

// shallowWriteTargets: the selector expressions written by statement s itself
// (not by statements nested in it).
func shallowWriteTargets(s ast.Node) map[*ast.SelectorExpr]bool {
	out := map[*ast.SelectorExpr]bool{}
	mark := func(e ast.Expr) {
		if se, ok := lhsBase(e).(*ast.SelectorExpr); ok {
			out[se] = true
		}
	}
	switch t := s.(type) {
	case *ast.AssignStmt:
		for _, l := range t.Lhs {
			mark(l)
		}
	case *ast.IncDecStmt:
		mark(t.X)
	case *ast.RangeStmt:
		if t.Key != nil {
			mark(t.Key)
		}
		if t.Value != nil {
			mark(t.Value)
		}
	case *ast.ExprStmt:
		if c, ok := t.X.(*ast.CallExpr); ok {
			if id, ok := c.Fun.(*ast.Ident); ok && (id.Name == "delete" || id.Name == "clear") && len(c.Args) > 0 {
				mark(c.Args[0])
			}
		}
	}
	return out
}

// RuleWriters checks writers(T.field) ⊆ allow and that every allowed writer
// still writes the field (a stale table entry is reported too).
func RuleWriters(r *Report, p *Prog, pkg, typ, field string, allow []string, rule string) {
	pk := p.Pkg(pkg)
	construct := pkg + "." + typ + "." + field
	if pk == nil {
		r.Bad("anchor", pkg, "unresolved", "-", "package not loaded")
		return
	}
	fv := LookupField(pk.Types, typ, field)
	if fv == nil {
		r.Bad("anchor", construct, "unresolved", "-", "field not found")
		return
	}
	allowed := map[string]bool{}
	for _, a := range allow {
		allowed[a] = true
	}
	seen := map[string]bool{}
	n := 0
	// callersOf: the functions of the package that call h (anywhere in their body)
	callersOf := func(h *Func) []*Func {
		var out []*Func
		for _, f := range p.Funcs(pkg) {
			if f.Decl.Body == nil || f == h {
				continue
			}
			if len(AllCalls(f.Info(), f.Decl.Body, func(info *types.Info, c *ast.CallExpr) bool { return Callee(info, c) == types.Object(h.Obj) })) > 0 {
				out = append(out, f)
			}
		}
		return out
	}
	// viaHelper: an UNEXPORTED function outside the table whose every caller is a
	// table writer (or such a helper again, 3 levels) is an extracted part of those
	// writers: its stores are attributed to them. Exported functions are entry
	// points of their own and must be in the table.
	var viaHelper func(h *Func, depth int) ([]string, bool)
	viaHelper = func(h *Func, depth int) ([]string, bool) {
		if depth > 3 || h.Obj == nil || h.Obj.Exported() {
			return nil, false
		}
		cs := callersOf(h)
		if len(cs) == 0 {
			return nil, false
		}
		var owners []string
		for _, c := range cs {
			if allowed[c.Name] {
				owners = append(owners, c.Name)
				continue
			}
			up, ok := viaHelper(c, depth+1)
			if !ok {
				return nil, false
			}
			owners = append(owners, up...)
		}
		return owners, true
	}
	for _, w := range FieldWriters(p, pkg, fv) {
		n++
		r.Saw(w.Func)
		if seen[w.Func.Name] {
			continue
		}
		seen[w.Func.Name] = true
		if !allowed[w.Func.Name] {
			if owners, ok := viaHelper(w.Func, 1); ok {
				for _, o := range owners {
					seen[o] = true
				}
				r.Ok(rule, construct, p.Pos(w.Pos), fmt.Sprintf("%s stores to %s.%s on behalf of its only callers %v (unexported helper of table writers)", w.Func.Name, typ, field, owners))
				continue
			}
			r.Bad(rule, construct, "writer:"+w.Func.Name, p.Pos(w.Pos), fmt.Sprintf("%s stores to %s.%s (%s) but is not in the writer table %v", w.Func.Name, typ, field, w.Kind, allow))
		}
	}
	ok := true
	for _, a := range allow {
		if !seen[a] {
			ok = false
			r.Bad(rule, construct, "stale:"+a, "-", fmt.Sprintf("%s is listed as a writer of %s.%s but no longer stores to it (table must be re-confirmed)", a, typ, field))
		}
	}
	if ok {
		r.Ok(rule, construct, "-", fmt.Sprintf("%d store(s) in %d function(s), all in the writer table", n, len(seen)))
	}
}
