package core

import (
	"fmt"
	"go/ast"
	"go/token"
	"go/types"
)

// Helpers added by hd1 (robustness of C21 / C26 against behaviour-preserving
// rewrites).
//
//  1. Inline: the CFG of a function with its same-package helpers (declared
//     functions and local closures bound once to a literal) spliced in at their
//     call sites. Path rules evaluated on that graph give the same verdict
//     whether a run of statements lives in the function itself or was extracted
//     into a helper. Calls matched by `anchors` (the call classes the rule set
//     talks about) are never inlined, so on a tree where every same-package
//     callee is an anchor the inlined graph is isomorphic to the plain one.
//
//  2. Hoisted / StableBetween: a local variable that is defined once, before
//     its use, stands for its defining expression as long as what that
//     expression reads is not stored in between (hoisted loop invariants,
//     introduced temporaries).

// ---------------------------------------------------------------- inlining

// InlSite is one call that was replaced by the body of its callee.
type InlSite struct {
	Call   *ast.CallExpr
	At     *Node          // node of the inlined graph that holds the call
	In     *Func          // declared function whose body holds the call
	Helper *Func          // declared helper (nil for a local closure)
	Lit    *ast.FuncLit   // local closure (nil for a declared helper)
	Body   *ast.BlockStmt // body that was spliced in
}

// Inlined is a function together with its inlined CFG.
type Inlined struct {
	F     *Func
	G     *Graph
	Roots []ast.Node // body of F followed by the bodies spliced in (for syntactic scans)
	Sites []InlSite
}

// AllCalls lists the calls matched by m in the function and in every body that
// was spliced into it (see core.AllCalls).
func (in *Inlined) AllCalls(m Matcher) []*ast.CallExpr {
	var out []*ast.CallExpr
	seen := map[*ast.CallExpr]bool{}
	for _, r := range in.Roots {
		for _, c := range AllCalls(in.G.Info, r, m) {
			if !seen[c] {
				seen[c] = true
				out = append(out, c)
			}
		}
	}
	return out
}

// Helpers lists the distinct declared helpers that were spliced in.
func (in *Inlined) Helpers() []*Func {
	var out []*Func
	seen := map[*Func]bool{}
	for _, s := range in.Sites {
		if s.Helper != nil && !seen[s.Helper] {
			seen[s.Helper] = true
			out = append(out, s.Helper)
		}
	}
	return out
}

// Inline builds the CFG of f with same-package helpers spliced in (two levels).
// A call is inlined when
//   - it is not matched by anchors, its callee is a declared function of the
//     same package with a body (or a local variable bound exactly once to a
//     function literal), is not f itself and has no defer statement;
//   - it is the only such call in its CFG node, the node is a plain assignment,
//     expression statement, var spec or a `return h(…)` forwarding all results,
//     and no other call in the node is matched by anchors (argument evaluation
//     order relative to the callee body is then irrelevant to the rule set).
//
// Control flow: the predecessors of the call node enter the callee; callee exits
// continue at the call node (which stands for the assignment of the results).
// When the node is `err := h(…)` directly followed by the nil test of err, callee
// returns that are provably failing continue on the failure edge of that test
// only. For `return h(…)` the callee's returns become exits of the function.
func (f *Func) Inline(anchors Matcher) *Inlined {
	in := &Inlined{F: f}
	if f == nil || f.Decl.Body == nil {
		return in
	}
	in.Roots = []ast.Node{f.Decl.Body}
	in.G = inlineGraph(in, f, f.Graph(), f.Decl.Body, anchors, 2, map[*Func]bool{f: true})
	return in
}

func copyGraph(g *Graph) *Graph {
	ng := &Graph{Prog: g.Prog, Info: g.Info, Fn: g.Fn, Body: g.Body, Sig: g.Sig}
	m := map[*Node]*Node{}
	for _, n := range g.Nodes {
		c := &Node{ID: len(ng.Nodes), N: n.N, Block: n.Block, Kind: n.Kind}
		m[n] = c
		ng.Nodes = append(ng.Nodes, c)
	}
	for _, n := range g.Nodes {
		for _, e := range n.Succ {
			ne := &Edge{From: m[e.From], To: m[e.To], Cond: e.Cond, Branch: e.Branch, Tag: e.Tag}
			ne.From.Succ = append(ne.From.Succ, ne)
			ne.To.Pred = append(ne.To.Pred, ne)
		}
	}
	ng.Entry = m[g.Entry]
	for _, x := range g.Exits {
		ng.Exits = append(ng.Exits, m[x])
	}
	return ng
}

func hasTopLevelDefer(body *ast.BlockStmt) bool {
	found := false
	ast.Inspect(body, func(n ast.Node) bool {
		switch n.(type) {
		case *ast.FuncLit:
			return false
		case *ast.DeferStmt:
			found = true
		}
		return !found
	})
	return found
}

type inlCand struct {
	call   *ast.CallExpr
	helper *Func
	lit    *ast.FuncLit
}

// inlineGraph returns a fresh copy of g (the graph of `body`, which belongs to the
// declared function owner) with helper calls spliced in.
func inlineGraph(in *Inlined, owner *Func, g *Graph, body *ast.BlockStmt, anchors Matcher, depth int, stack map[*Func]bool) *Graph {
	ng := copyGraph(g)
	ng.Fn = in.F
	if depth <= 0 {
		return ng
	}
	info := ng.Info
	nodes := append([]*Node(nil), ng.Nodes...)
	for _, n := range nodes {
		if n.N == nil {
			continue
		}
		var theCall *ast.CallExpr
		tail := false
		switch s := n.N.(type) {
		case *ast.AssignStmt:
			if len(s.Rhs) != 1 {
				continue
			}
			theCall, _ = ast.Unparen(s.Rhs[0]).(*ast.CallExpr)
		case *ast.ExprStmt:
			theCall, _ = ast.Unparen(s.X).(*ast.CallExpr)
		case *ast.ValueSpec:
			if len(s.Values) != 1 {
				continue
			}
			theCall, _ = ast.Unparen(s.Values[0]).(*ast.CallExpr)
		case *ast.ReturnStmt:
			if len(s.Results) != 1 || len(n.Succ) != 0 {
				continue
			}
			theCall, _ = ast.Unparen(s.Results[0]).(*ast.CallExpr)
			tail = true
		default:
			continue
		}
		if theCall == nil || (anchors != nil && anchors(info, theCall)) {
			continue
		}
		// every other call evaluated in the node must be irrelevant to the rule set
		clean := true
		Walk(n.N, WalkOpts{}, func(x ast.Node) bool {
			if c, ok := x.(*ast.CallExpr); ok && c != theCall && anchors != nil && anchors(info, c) {
				clean = false
			}
			return true
		})
		if !clean {
			continue
		}
		cand := inlCand{call: theCall}
		var cbody *ast.BlockStmt
		var cg *Graph
		var csig *types.Signature
		if fn := Callee(info, theCall); fn != nil {
			if fn.Pkg() == nil || owner.Obj.Pkg() == nil || fn.Pkg() != owner.Obj.Pkg() {
				continue
			}
			h := ng.Prog.FuncOf(fn)
			if h == nil || h.Decl.Body == nil || stack[h] || h.Pkg != owner.Pkg {
				continue
			}
			if hasTopLevelDefer(h.Decl.Body) {
				continue
			}
			cand.helper = h
			cbody = h.Decl.Body
			csig, _ = h.Obj.Type().(*types.Signature)
			if csig == nil || (tail && (ng.Sig == nil || csig.Results().Len() != ng.Sig.Results().Len())) {
				continue
			}
			stack[h] = true
			in.Roots = append(in.Roots, cbody)
			cg = inlineGraph(in, h, h.Graph(), cbody, anchors, depth-1, stack)
			delete(stack, h)
		} else if id, ok := ast.Unparen(theCall.Fun).(*ast.Ident); ok {
			v, isVar := ObjOf(info, id).(*types.Var)
			if !isVar || v.IsField() || v.Pkg() == nil || v.Parent() == v.Pkg().Scope() {
				continue
			}
			lit := LocalLit(info, body, v)
			if lit == nil || hasTopLevelDefer(lit.Body) {
				continue
			}
			// the literal must be defined outside the spliced position (no self call)
			if lit.Pos() <= theCall.Pos() && theCall.End() <= lit.End() {
				continue
			}
			cand.lit = lit
			cbody = lit.Body
			csig, _ = info.TypeOf(lit).(*types.Signature)
			if csig == nil || (tail && (ng.Sig == nil || csig.Results().Len() != ng.Sig.Results().Len())) {
				continue
			}
			in.Roots = append(in.Roots, cbody)
			cg = inlineGraph(in, owner, owner.LitGraph(lit), cbody, anchors, depth-1, stack)
		} else {
			continue
		}
		if cg == nil || cg.Entry == nil || csig == nil {
			continue
		}
		// correlation of failing callee returns with the caller's nil test
		var fail *Edge
		cidx := errResultIndex(csig)
		if !tail && cidx >= 0 {
			if fe, _, ok := ng.ErrEdges(n); ok && len(n.Succ) == 1 && n.Succ[0].To == fe.From {
				if v := ng.errVarAssigned(n); v != nil && lhsIndexOf(info, n.N, v) == cidx {
					fail = fe
				}
			}
		}
		failing := map[*Node]bool{}
		if fail != nil {
			for _, x := range cg.Exits {
				if rs, ok := x.N.(*ast.ReturnStmt); ok && x.Kind == KReturn && cg.provablyFailing(x, rs, cidx) {
					failing[x] = true
				}
			}
		}
		// absorb the callee nodes
		for _, cn := range cg.Nodes {
			cn.ID = len(ng.Nodes)
			ng.Nodes = append(ng.Nodes, cn)
		}
		link := func(a, b *Node) *Edge {
			e := &Edge{From: a, To: b}
			a.Succ = append(a.Succ, e)
			b.Pred = append(b.Pred, e)
			return e
		}
		if tail {
			// n (argument evaluation) → callee; callee exits are exits of the function
			link(n, cg.Entry)
			n.Kind = KNormal
			var ex []*Node
			for _, x := range ng.Exits {
				if x != n {
					ex = append(ex, x)
				}
			}
			ng.Exits = append(ex, cg.Exits...)
		} else {
			for _, e := range n.Pred {
				e.To = cg.Entry
				cg.Entry.Pred = append(cg.Entry.Pred, e)
			}
			n.Pred = nil
			if ng.Entry == n {
				ng.Entry = cg.Entry
			}
			for _, x := range cg.Exits {
				if x.Kind == KPanic {
					ng.Exits = append(ng.Exits, x)
					continue
				}
				if failing[x] {
					e := link(x, fail.To)
					e.Cond, e.Branch = fail.Cond, fail.Branch
					x.Kind = KNormal
					continue
				}
				link(x, n)
				x.Kind = KNormal
			}
		}
		in.Sites = append(in.Sites, InlSite{Call: theCall, At: n, In: owner, Helper: cand.helper, Lit: cand.lit, Body: cbody})
	}
	return ng
}

// lhsIndexOf: position of variable v among the targets of the assignment / var spec.
func lhsIndexOf(info *types.Info, n ast.Node, v types.Object) int {
	switch s := n.(type) {
	case *ast.AssignStmt:
		for i, l := range s.Lhs {
			if id, ok := l.(*ast.Ident); ok && id.Name != "_" && ObjOf(info, id) == v {
				return i
			}
		}
	case *ast.ValueSpec:
		for i, id := range s.Names {
			if info.Defs[id] == v {
				return i
			}
		}
	}
	return -1
}

// RuleMustPassG is RuleMustPass on a given graph of f.
func RuleMustPassG(r *Report, f *Func, g *Graph, rule, what string, gate Matcher, deferOK bool) bool {
	if f == nil || g == nil {
		return false
	}
	pred := g.CallingDeep(gate)
	if deferOK {
		pred = AnyOf(pred, g.Deferring(gate))
	}
	return RuleMustPassN(r, f, g, rule, what, pred, nil)
}

// ErrorsUsedInl is ErrorsUsed over the function and the helpers spliced into it:
// every call of class d, wherever it now lives, and every call of a spliced
// helper that contains such calls and returns an error.
func ErrorsUsedInl(in *Inlined, d Matcher, allowDefer bool) (us []ErrUse, nClass int) {
	via := map[*ast.CallExpr]bool{}
	for _, s := range in.Sites {
		if len(AllCalls(in.G.Info, s.Body, d)) > 0 {
			via[s.Call] = true
		}
	}
	m := func(info *types.Info, c *ast.CallExpr) bool { return d(info, c) || via[c] }
	fns := append([]*Func{in.F}, in.Helpers()...)
	for _, fn := range fns {
		for _, u := range ErrorsUsed(fn, m, allowDefer) {
			us = append(us, u)
			if d(u.G.Info, u.Call) {
				nClass++
			}
		}
	}
	return us, nClass
}

// RuleErrorsUsedInl is RuleErrorsUsed on an inlined function; min counts the calls
// of class d only (in the function or in spliced helpers).
func RuleErrorsUsedInl(r *Report, in *Inlined, rule string, dName string, d Matcher, allowDefer bool, min int) bool {
	f := in.F
	if f == nil {
		return false
	}
	us, n := ErrorsUsedInl(in, d, allowDefer)
	if n < min {
		r.Bad(rule, f.String(), dName+":count", f.Pos(), fmt.Sprintf("found %d call(s) of %s, confirmed by reading: >= %d — the rule would pass vacuously", n, dName, min))
		return false
	}
	ok := true
	for _, u := range us {
		cn := FName(Callee(u.G.Info, u.Call))
		if cn == "" {
			cn = ExprStr(u.Call.Fun)
		}
		if !u.OK {
			r.Bad(rule, f.String(), cn, f.Prog.Pos(u.Call.Pos()), "error of "+cn+": "+u.Why)
			ok = false
		}
	}
	if ok {
		r.Ok(rule, f.String(), f.Pos(), fmt.Sprintf("%d call(s) of %s, every error result is propagated or tested", n, dName))
	}
	return ok
}

// ---------------------------------------------------------------- hoisted values

// Hoisted resolves an identifier used at e (its use position) that denotes a
// local variable standing for a hoisted value: the variable has exactly one
// definition in the function (a 1:1 `v := rhs`, `v = rhs` or `var v = rhs`), its
// address is never taken, and the defining node dominates the node of the use.
// It returns the defining expression and the two nodes.
func (g *Graph) Hoisted(e ast.Expr) (rhs ast.Expr, def, use *Node, ok bool) {
	id, isID := ast.Unparen(e).(*ast.Ident)
	if !isID || g.Body == nil {
		return nil, nil, nil, false
	}
	v, isVar := ObjOf(g.Info, id).(*types.Var)
	if !isVar || v.IsField() || v.Pkg() == nil || v.Parent() == nil || v.Parent() == v.Pkg().Scope() {
		return nil, nil, nil, false
	}
	// declared inside this body (not a parameter / captured variable)
	if v.Pos() < g.Body.Pos() || v.Pos() >= g.Body.End() {
		return nil, nil, nil, false
	}
	d, single := SingleDef(g.Info, g.Body, v)
	if !single || d.Rhs == nil || d.Index != -1 || d.Range != nil {
		return nil, nil, nil, false
	}
	addr := false
	ast.Inspect(g.Body, func(n ast.Node) bool {
		if u, ok := n.(*ast.UnaryExpr); ok && u.Op == token.AND && ObjOf(g.Info, u.X) == types.Object(v) {
			addr = true
		}
		return !addr
	})
	if addr {
		return nil, nil, nil, false
	}
	def, use = g.NodeOf(d.Stmt), g.NodeOf(id)
	if def == nil || use == nil || def == use {
		return nil, nil, nil, false
	}
	if g.ReachFromEntry(func(n *Node) bool { return n == def }, nil)[use] {
		return nil, nil, nil, false // the use is reachable without passing the definition
	}
	return d.Rhs, def, use, true
}

// StableBetween reports that no node selected by store lies on a path from def
// to use (def excluded): what was read at def still has that value at use.
func (g *Graph) StableBetween(def, use *Node, store NodePred) bool {
	if def == nil || use == nil {
		return false
	}
	from := g.Reach(After(def, nil), nil, nil)
	for s := range from {
		if !store(s) {
			continue
		}
		if g.Reach(After(s, nil), nil, nil)[use] {
			return false
		}
	}
	return true
}

// ArgOf follows parameters of spliced helpers back to the call site: if e denotes
// a parameter of a helper (or closure) spliced into the function, the argument
// expression of the (only) spliced call is returned, repeatedly; otherwise e.
func (in *Inlined) ArgOf(e ast.Expr) ast.Expr {
	for i := 0; i < 3; i++ {
		id, ok := ast.Unparen(e).(*ast.Ident)
		if !ok {
			return e
		}
		v, ok := ObjOf(in.G.Info, id).(*types.Var)
		if !ok {
			return e
		}
		var arg ast.Expr
		hits := 0
		for _, s := range in.Sites {
			var sig *types.Signature
			if s.Helper != nil {
				sig, _ = s.Helper.Obj.Type().(*types.Signature)
			} else if s.Lit != nil {
				sig, _ = in.G.Info.TypeOf(s.Lit).(*types.Signature)
			}
			if sig == nil || sig.Variadic() || sig.Params().Len() != len(s.Call.Args) {
				continue
			}
			for k := 0; k < sig.Params().Len(); k++ {
				if sig.Params().At(k) == v {
					arg = s.Call.Args[k]
					hits++
				}
			}
		}
		if hits != 1 {
			return e
		}
		// the parameter must not be reassigned in the helper
		reassigned := false
		for _, r := range in.Roots {
			if len(DefsOf(in.G.Info, r, v)) > 0 {
				reassigned = true
			}
		}
		if reassigned {
			return e
		}
		e = arg
	}
	return e
}

// ---------------------------------------------------------------- lockset: extracted helpers

// InferCallerHolds extends a lock table for helpers that are not named in it: an
// unexported method of a guarded type that accesses guarded state of its receiver
// without the lock, takes no lock itself, is only ever called (never used as a
// method value) and has at least one call site in the package is treated as a
// caller-holds function — with the weakest mode ('R', else 'W') that makes its
// own body clean. The obligation moves to its call sites, where the ordinary
// caller-holds check applies, so a statement run extracted from a locked region
// into a new method is judged exactly like the inline code, and a call from an
// unlocked context is still reported (at the call). The names added are returned.
func InferCallerHolds(p *Prog, rules *LockRules) (*LockRules, []string) {
	pk := p.Pkg(rules.Pkg)
	if pk == nil {
		return rules, nil
	}
	out := *rules
	out.CallerHolds = map[string]map[string]byte{}
	for k, v := range rules.CallerHolds {
		out.CallerHolds[k] = v
	}
	locksOf := map[string][]string{}
	for _, gd := range rules.Guards {
		locksOf[gd.Type] = append(locksOf[gd.Type], gd.Locks...)
	}
	// static call sites / other references per method
	calls, other := map[*types.Func]int{}, map[*types.Func]int{}
	for _, f := range p.Funcs(rules.Pkg) {
		if f.Decl.Body == nil {
			continue
		}
		info := f.Info()
		callFun := map[*ast.SelectorExpr]bool{}
		ast.Inspect(f.Decl.Body, func(n ast.Node) bool {
			switch x := n.(type) {
			case *ast.CallExpr:
				if se, ok := ast.Unparen(x.Fun).(*ast.SelectorExpr); ok {
					callFun[se] = true
				}
			case *ast.SelectorExpr:
				if fn, ok := info.Uses[x.Sel].(*types.Func); ok {
					if callFun[x] {
						calls[fn.Origin()]++
					} else {
						other[fn.Origin()]++
					}
				}
			}
			return true
		})
	}
	lockOps := CallTo("sync.Mutex.Lock", "sync.RWMutex.Lock", "sync.RWMutex.RLock", "sync.Mutex.TryLock", "sync.RWMutex.TryLock", "sync.RWMutex.TryRLock")
	candidate := func(f *Func) (typ string, ok bool) {
		if f == nil || f.Decl.Recv == nil || f.Decl.Body == nil || ast.IsExported(f.Decl.Name.Name) {
			return "", false
		}
		if _, has := out.CallerHolds[f.Name]; has {
			return "", false
		}
		if _, ex := rules.ExemptFunc[f.Name]; ex {
			return "", false
		}
		typ = recvTypeName(f.Decl.Recv.List[0].Type)
		if len(locksOf[typ]) == 0 || recvName(f.Decl) == "" {
			return "", false
		}
		if calls[f.Obj] == 0 || other[f.Obj] != 0 {
			return "", false
		}
		if len(AllCalls(f.Info(), f.Decl.Body, lockOps)) > 0 {
			return "", false
		}
		return typ, true
	}
	onReceiver := func(v LockViolation) bool {
		rn := recvName(v.Func.Decl)
		return rn != "" && len(v.Need) > len(rn) && v.Need[:len(rn)+1] == rn+"."
	}
	var added []string
	mode := map[string]byte{}
	for round := 0; round < 6; round++ {
		a := &LockAnalysis{Prog: p, Rules: &out}
		a.Run()
		changed := false
		for _, v := range a.Violations {
			if !onReceiver(v) {
				continue
			}
			if m, inferred := mode[v.Func.Name]; inferred {
				needsW := v.Access == "write" || (v.Access == "call" && len(v.Need) > 2 && v.Need[len(v.Need)-2:] == ":W")
				if m == 'R' && needsW {
					mode[v.Func.Name] = 'W'
					for _, lk := range locksOf[recvTypeName(v.Func.Decl.Recv.List[0].Type)] {
						out.CallerHolds[v.Func.Name][lk] = 'W'
					}
					changed = true
				}
				continue
			}
			typ, ok := candidate(v.Func)
			if !ok {
				continue
			}
			mode[v.Func.Name] = 'R'
			h := map[string]byte{}
			for _, lk := range locksOf[typ] {
				h[lk] = 'R'
			}
			out.CallerHolds[v.Func.Name] = h
			added = append(added, v.Func.Name)
			changed = true
		}
		if !changed {
			break
		}
	}
	if len(added) == 0 {
		return rules, nil
	}
	return &out, added
}

// ErrEdgesFwd is ErrEdges that also understands an error forwarded by
// `return call(…)`: inside a spliced helper the value continues at the spliced
// call site, whose nil test is returned; when the return leaves the function
// itself, exit is true (nothing of the function runs after a failure).
func (g *Graph) ErrEdgesFwd(n *Node) (fail, succ *Edge, ok, exit bool) {
	if fail, succ, ok = g.ErrEdges(n); ok {
		return fail, succ, true, false
	}
	rs, isRet := n.N.(*ast.ReturnStmt)
	if !isRet || len(rs.Results) == 0 {
		return nil, nil, false, false
	}
	c, isCall := ast.Unparen(rs.Results[len(rs.Results)-1]).(*ast.CallExpr)
	if !isCall {
		return nil, nil, false, false
	}
	if idx, _ := returnsError(g.Info, c); idx < 0 {
		return nil, nil, false, false
	}
	switch len(n.Succ) {
	case 0:
		return nil, nil, true, true
	case 1:
		next := n.Succ[0].To
		if next.N != nil && next != n {
			if fail, succ, ok = g.ErrEdges(next); ok {
				return fail, succ, true, false
			}
		}
	}
	return nil, nil, false, false
}
