// Package core holds the loader and the generic analyses ("engines") that the
// per-property rules in package rules are built from.
package core

import (
	"fmt"
	"go/ast"
	"go/token"
	"go/types"
	"os"
	"path/filepath"
	"sort"
	"strings"
	"time"

	"golang.org/x/tools/go/packages"
)

// Mod is the module path of the repository under analysis.
const Mod = "github.com/influxdata/influxdb/v2"

// RepoDir returns the tree that is analysed: $VERIF_REPO or /repo.
func RepoDir() string {
	if d := os.Getenv("VERIF_REPO"); d != "" {
		return d
	}
	return "/repo"
}

// Prog is the loaded, type-checked program.
type Prog struct {
	Fset     *token.FileSet
	Roots    []*packages.Package
	All      map[string]*packages.Package // by import path
	Repo     string
	LoadSecs float64
	GOOS     string
	Overlay  map[string][]byte // file contents that replace the ones on disk (seeded changes)

	funcs map[string]map[string]*Func // pkg path -> "T.M"|"F" -> Func
	byObj map[*types.Func]*Func
}

// LoadOpts configures Load.
type LoadOpts struct {
	Patterns []string          // e.g. "./tsdb/engine/tsm1"
	Overlay  map[string][]byte // absolute file name -> replacement content (mutants)
	GOOS     string            // "" = host
	MinRoots int
}

func goEnv(goos string) []string {
	var env []string
	for _, kv := range os.Environ() {
		k := kv[:strings.IndexByte(kv+"=", '=')]
		switch k {
		case "GOWORK", "GOFLAGS", "GOPROXY", "GOSUMDB", "GOTOOLCHAIN", "PATH", "GOOS", "GOARCH":
			continue
		}
		env = append(env, kv)
	}
	path := os.Getenv("PATH")
	if _, err := os.Stat("/opt/veriftools/go1.26.8/bin/go"); err == nil && !strings.HasPrefix(path, "/opt/veriftools/go1.26.8/bin:") {
		path = "/opt/veriftools/go1.26.8/bin:" + path
	}
	os.Setenv("PATH", path) // go/packages resolves the go command through this process's PATH
	env = append(env, "PATH="+path, "GOTOOLCHAIN=local", "GOFLAGS=-mod=mod", "GOPROXY=off",
		"GOSUMDB=off", "GOWORK=off")
	if goos != "" {
		env = append(env, "GOOS="+goos, "CGO_ENABLED=0")
	}
	return env
}

// Load parses and type-checks the requested packages and all their
// dependencies from source. Any error outside flux/libflux (which needs a C
// library that does not exist offline) is fatal: an unanalysable tree must
// fail the check, not pass it.
func Load(o LoadOpts) (*Prog, error) {
	t0 := time.Now()
	repo := RepoDir()
	fset := token.NewFileSet()
	cfg := &packages.Config{
		Mode: packages.NeedName | packages.NeedFiles | packages.NeedCompiledGoFiles |
			packages.NeedImports | packages.NeedDeps | packages.NeedTypes |
			packages.NeedSyntax | packages.NeedTypesInfo | packages.NeedTypesSizes | packages.NeedModule,
		Dir:     repo,
		Env:     goEnv(o.GOOS),
		Fset:    fset,
		Overlay: o.Overlay,
		Tests:   false,
	}
	roots, err := packages.Load(cfg, o.Patterns...)
	if err != nil {
		return nil, fmt.Errorf("packages.Load: %w", err)
	}
	if len(roots) == 0 || len(roots) < o.MinRoots {
		return nil, fmt.Errorf("loaded %d root packages for %v, want >= %d", len(roots), o.Patterns, max(1, o.MinRoots))
	}
	p := &Prog{Fset: fset, Roots: roots, All: map[string]*packages.Package{}, Repo: repo, GOOS: o.GOOS, Overlay: o.Overlay}
	var bad []string
	packages.Visit(roots, nil, func(pk *packages.Package) {
		p.All[pk.PkgPath] = pk
		if len(pk.Errors) > 0 {
			if strings.Contains(pk.PkgPath, "flux/libflux") {
				return
			}
			// under GOOS=windows without cgo, a few third-party cgo-only packages
			// are empty; only module packages are required to be clean there.
			if o.GOOS != "" && !strings.HasPrefix(pk.PkgPath, Mod) {
				return
			}
			for _, e := range pk.Errors {
				bad = append(bad, pk.PkgPath+": "+e.Error())
			}
		}
	})
	if len(bad) > 0 {
		sort.Strings(bad)
		if len(bad) > 8 {
			bad = append(bad[:8], fmt.Sprintf("… %d more", len(bad)-8))
		}
		return nil, fmt.Errorf("type-check/load errors (tree not analysable):\n  %s", strings.Join(bad, "\n  "))
	}
	for _, r := range roots {
		if r.Types == nil || r.TypesInfo == nil || len(r.Syntax) == 0 {
			return nil, fmt.Errorf("package %s has no syntax/types", r.PkgPath)
		}
	}
	p.LoadSecs = time.Since(t0).Seconds()
	return p, nil
}

// Source returns the analysed contents of a source file: the overlay's version
// when the file is overlaid (seeded change applied in memory), else the file on disk.
func (p *Prog) Source(name string) ([]byte, error) {
	if b, ok := p.Overlay[name]; ok {
		return b, nil
	}
	return os.ReadFile(name)
}

// Pkg returns the package with the given module-relative path ("tsdb/engine/tsm1")
// or full import path ("os").
func (p *Prog) Pkg(path string) *packages.Package {
	if pk := p.All[Mod+"/"+path]; pk != nil {
		return pk
	}
	if path == "" {
		return p.All[Mod]
	}
	return p.All[path]
}

// ModPkgs returns all loaded packages of the module with syntax, sorted.
func (p *Prog) ModPkgs() []*packages.Package {
	var out []*packages.Package
	for path, pk := range p.All {
		if strings.HasPrefix(path, Mod) && len(pk.Syntax) > 0 {
			out = append(out, pk)
		}
	}
	sort.Slice(out, func(i, j int) bool { return out[i].PkgPath < out[j].PkgPath })
	return out
}

// Short strips the module prefix from an import path.
func Short(path string) string {
	if path == Mod {
		return "."
	}
	return strings.TrimPrefix(path, Mod+"/")
}

// Pos renders a position relative to the repository root.
func (p *Prog) Pos(pos token.Pos) string {
	if !pos.IsValid() {
		return "-"
	}
	ps := p.Fset.Position(pos)
	rel, err := filepath.Rel(p.Repo, ps.Filename)
	if err != nil || strings.HasPrefix(rel, "..") {
		rel = ps.Filename
	}
	return fmt.Sprintf("%s:%d", rel, ps.Line)
}

// Func is a source function (declaration) of the module.
type Func struct {
	Prog *Prog
	Pkg  *packages.Package
	Decl *ast.FuncDecl
	Obj  *types.Func
	Name string // "T.M" or "F"
	g    *Graph
}

func (f *Func) Info() *types.Info { return f.Pkg.TypesInfo }
func (f *Func) String() string    { return Short(f.Pkg.PkgPath) + "." + f.Name }
func (f *Func) Pos() string       { return f.Prog.Pos(f.Decl.Pos()) }

func recvTypeName(e ast.Expr) string {
	for {
		switch t := e.(type) {
		case *ast.StarExpr:
			e = t.X
		case *ast.ParenExpr:
			e = t.X
		case *ast.IndexExpr:
			e = t.X
		case *ast.IndexListExpr:
			e = t.X
		case *ast.Ident:
			return t.Name
		default:
			return "?"
		}
	}
}

func (p *Prog) index(pk *packages.Package) map[string]*Func {
	if p.funcs == nil {
		p.funcs = map[string]map[string]*Func{}
		p.byObj = map[*types.Func]*Func{}
	}
	if m, ok := p.funcs[pk.PkgPath]; ok {
		return m
	}
	m := map[string]*Func{}
	for _, f := range pk.Syntax {
		for _, d := range f.Decls {
			fd, ok := d.(*ast.FuncDecl)
			if !ok {
				continue
			}
			name := fd.Name.Name
			if fd.Recv != nil && len(fd.Recv.List) == 1 {
				name = recvTypeName(fd.Recv.List[0].Type) + "." + name
			}
			obj, _ := pk.TypesInfo.Defs[fd.Name].(*types.Func)
			fn := &Func{Prog: p, Pkg: pk, Decl: fd, Obj: obj, Name: name}
			if name == "init" || name == "_" {
				continue
			}
			m[name] = fn
			if obj != nil {
				p.byObj[obj] = fn
			}
		}
	}
	p.funcs[pk.PkgPath] = m
	return m
}

// Func looks a function up by package and name ("Cache.WriteMulti", "NewCache").
// nil if it does not exist (callers turn that into an unresolved-anchor failure).
func (p *Prog) Func(pkg, name string) *Func {
	pk := p.Pkg(pkg)
	if pk == nil {
		return nil
	}
	return p.index(pk)[name]
}

// Funcs returns every function of a package, sorted by name.
func (p *Prog) Funcs(pkg string) []*Func {
	pk := p.Pkg(pkg)
	if pk == nil {
		return nil
	}
	m := p.index(pk)
	out := make([]*Func, 0, len(m))
	for _, f := range m {
		out = append(out, f)
	}
	sort.Slice(out, func(i, j int) bool { return out[i].Name < out[j].Name })
	return out
}

// FuncOf maps a types.Func of the module back to its declaration (nil if
// the package was not loaded with syntax or the function has no body here).
func (p *Prog) FuncOf(obj *types.Func) *Func {
	if obj == nil || obj.Pkg() == nil {
		return nil
	}
	obj = obj.Origin()
	pk := p.All[obj.Pkg().Path()]
	if pk == nil || len(pk.Syntax) == 0 {
		return nil
	}
	p.index(pk)
	return p.byObj[obj]
}

// File returns the repo-relative name of the file holding pos.
func (p *Prog) File(pos token.Pos) string {
	ps := p.Fset.Position(pos)
	rel, err := filepath.Rel(p.Repo, ps.Filename)
	if err != nil {
		return ps.Filename
	}
	return rel
}
