package core

// Helpers added by n1 (narrow structural clauses of the InfluxQL function /
// SELECT properties C23 and C22). Everything is decided on resolved structure:
// struct fields (types.Var identity), callees, constants and CFG edges.

import (
	"go/ast"
	"go/constant"
	"go/token"
	"go/types"
	"sort"
)

// ---------------------------------------------------------------- field paths

// N1Path recognises a selector chain x.f1.f2… whose FIELD list equals fields
// exactly (parentheses and derefs ignored); the root may be any variable. With
// no fields it recognises nothing. Matching by field identity (not by root
// object) keeps the recogniser valid inside helpers that were spliced in by
// (*Func).Inline, where the receiver is a different object.
func N1Path(info *types.Info, fields ...*types.Var) func(ast.Expr) bool {
	return func(e ast.Expr) bool {
		if len(fields) == 0 || e == nil {
			return false
		}
		_, path, ok := X1FieldPath(info, ast.Unparen(e))
		if !ok || len(path) != len(fields) {
			return false
		}
		for i := range path {
			if path[i] == nil || path[i] != fields[i] {
				return false
			}
		}
		return true
	}
}

// N1PathConv is N1Path seen through type conversions: float64(x.f) ≙ x.f.
func N1PathConv(info *types.Info, fields ...*types.Var) func(ast.Expr) bool {
	is := N1Path(info, fields...)
	return func(e ast.Expr) bool { return e != nil && is(StripConv(info, e)) }
}

// N1FieldOfType returns the field called name of the struct type of v (through
// one pointer); nil when absent.
func N1FieldOfType(t types.Type, name string) *types.Var {
	if t == nil {
		return nil
	}
	if p, ok := t.Underlying().(*types.Pointer); ok {
		t = p.Elem()
	}
	st, ok := t.Underlying().(*types.Struct)
	if !ok {
		return nil
	}
	for i := 0; i < st.NumFields(); i++ {
		if st.Field(i).Name() == name {
			return st.Field(i)
		}
	}
	return nil
}

// N1DerefOfType recognises `*x` where x is a plain variable whose type is a
// pointer to the named type elem (the point handed to an aggregator).
func N1DerefOfType(info *types.Info, elem types.Type) func(ast.Expr) bool {
	return func(e ast.Expr) bool {
		st, ok := ast.Unparen(e).(*ast.StarExpr)
		if !ok {
			return false
		}
		id, ok := ast.Unparen(st.X).(*ast.Ident)
		if !ok {
			return false
		}
		v, ok := ObjOf(info, id).(*types.Var)
		if !ok || v.IsField() {
			return false
		}
		p, ok := v.Type().Underlying().(*types.Pointer)
		return ok && types.Identical(p.Elem(), elem)
	}
}

// ---------------------------------------------------------------- assignments as nodes

// N1Assign selects nodes that are an assignment (tok; token.ILLEGAL = any)
// with some target recognised by lhs and the matching right-hand side
// recognised by rhs (nil = any).
func (g *Graph) N1Assign(tok token.Token, lhs, rhs func(ast.Expr) bool) NodePred {
	return func(n *Node) bool {
		as, ok := n.N.(*ast.AssignStmt)
		if !ok || (tok != token.ILLEGAL && as.Tok != tok) {
			return false
		}
		for i, l := range as.Lhs {
			if _, isLocal := ast.Unparen(l).(*ast.Ident); isLocal || !lhs(ast.Unparen(l)) {
				continue
			}
			if rhs == nil {
				return true
			}
			if len(as.Lhs) == len(as.Rhs) && rhs(ast.Unparen(as.Rhs[i])) {
				return true
			}
		}
		return false
	}
}

// N1Stores selects nodes that write the location recognised by lhs in any
// way: assignment (any operator), ++/--.
func (g *Graph) N1Stores(lhs func(ast.Expr) bool) NodePred {
	return func(n *Node) bool {
		switch s := n.N.(type) {
		case *ast.AssignStmt:
			for _, l := range s.Lhs {
				if _, isLocal := ast.Unparen(l).(*ast.Ident); !isLocal && lhs(ast.Unparen(l)) {
					return true
				}
			}
		case *ast.IncDecStmt:
			if _, isLocal := ast.Unparen(s.X).(*ast.Ident); isLocal {
				return false
			}
			return lhs(ast.Unparen(s.X))
		}
		return false
	}
}

// N1Incr selects nodes that add one to the location recognised by lhs
// (`x++`, `x += 1`).
func (g *Graph) N1Incr(lhs func(ast.Expr) bool) NodePred {
	return func(n *Node) bool {
		switch s := n.N.(type) {
		case *ast.IncDecStmt:
			_, isLocal := ast.Unparen(s.X).(*ast.Ident)
			return !isLocal && s.Tok == token.INC && lhs(ast.Unparen(s.X))
		case *ast.AssignStmt:
			if _, isLocal := ast.Unparen(s.Lhs[0]).(*ast.Ident); isLocal {
				return false
			}
			return s.Tok == token.ADD_ASSIGN && len(s.Lhs) == 1 && len(s.Rhs) == 1 && lhs(ast.Unparen(s.Lhs[0])) && X1IsConstInt(g.Info, s.Rhs[0], 1)
		}
		return false
	}
}

// N1ExitsWithout lists the non-panic exits reachable from the entry without
// entering a node selected by gate and without following an edge selected by
// exempt: the exits that "miss" the gate.
func (g *Graph) N1ExitsWithout(gate NodePred, exempt EdgePred) []*Node {
	reach := g.ReachFromEntry(gate, exempt)
	var out []*Node
	for _, x := range g.Exits {
		if reach[x] && x.Kind != KPanic && !(gate != nil && gate(x)) {
			out = append(out, x)
		}
	}
	sort.Slice(out, func(i, j int) bool { return out[i].ID < out[j].ID })
	return out
}

// N1ReachableWithout reports whether some node selected by target is reachable
// from the entry without following an edge selected by guard (and without
// entering a node selected by stop); it returns the first such node.
func (g *Graph) N1ReachableWithout(target NodePred, stop NodePred, guard EdgePred) *Node {
	reach := g.ReachFromEntry(stop, guard)
	var hit *Node
	for _, n := range g.Nodes {
		if reach[n] && n.N != nil && target(n) && (hit == nil || n.ID < hit.ID) {
			hit = n
		}
	}
	return hit
}

// N1Between reports whether a node selected by mid is reachable from the
// successors of a node of from before a node selected by to is entered.
func (g *Graph) N1Between(from []*Node, to NodePred, mid NodePred) *Node {
	reach := g.Reach(X1SuccsOf(from), to, nil)
	for _, n := range g.Nodes {
		if reach[n] && n.N != nil && mid(n) {
			return n
		}
	}
	return nil
}

// N1Containing selects nodes whose statement/condition contains an expression
// accepted by is (function literals are not entered).
func (g *Graph) N1Containing(is func(ast.Expr) bool) NodePred {
	return func(n *Node) bool {
		if n.N == nil {
			return false
		}
		found := false
		Walk(n.N, WalkOpts{}, func(x ast.Node) bool {
			if e, ok := x.(ast.Expr); ok && !found && is(e) {
				found = true
			}
			return !found
		})
		return found
	}
}

// N1NonEmptySliceLit recognises a composite literal of a slice type whose
// element type satisfies elem and that has at least one element.
func N1NonEmptySliceLit(info *types.Info, elem func(types.Type) bool) func(ast.Expr) bool {
	return func(e ast.Expr) bool {
		cl, ok := e.(*ast.CompositeLit)
		if !ok || len(cl.Elts) == 0 {
			return false
		}
		sl, ok := info.TypeOf(cl).Underlying().(*types.Slice)
		return ok && elem(sl.Elem())
	}
}

// N1KeyValue returns the value given to field in the struct composite literal
// cl (keyed form only); nil when the key is absent.
func N1KeyValue(info *types.Info, cl *ast.CompositeLit, field *types.Var) ast.Expr {
	for _, el := range cl.Elts {
		kv, ok := el.(*ast.KeyValueExpr)
		if !ok {
			continue
		}
		if id, ok := kv.Key.(*ast.Ident); ok && info.Uses[id] == types.Object(field) {
			return kv.Value
		}
	}
	return nil
}

// N1ResolveIn follows single-definition locals like ResolveLocal, trying every
// root (a function body and the helper bodies spliced into it).
func N1ResolveIn(info *types.Info, roots []ast.Node, e ast.Expr) ast.Expr {
	e = ast.Unparen(e)
	for i := 0; i < 4; i++ {
		next := e
		for _, r := range roots {
			if x := ResolveLocal(info, r, e); x != e {
				next = x
				break
			}
		}
		if next == e {
			return e
		}
		e = ast.Unparen(next)
	}
	return e
}

// ---------------------------------------------------------------- temporaries

// N1Resolver follows single-definition local variables of any function of the
// package back to their defining expression (`t := r.curr.Time` … `Time: t`),
// so that a rule sees the same structure whether or not a temporary was
// introduced. The enclosing function body is found from the variable's position.
type N1Resolver struct {
	info   *types.Info
	bodies []*ast.BlockStmt
}

// NewN1Resolver indexes the function bodies of the given files.
func NewN1Resolver(info *types.Info, files []*ast.File) *N1Resolver {
	r := &N1Resolver{info: info}
	for _, f := range files {
		for _, d := range f.Decls {
			if fd, ok := d.(*ast.FuncDecl); ok && fd.Body != nil {
				r.bodies = append(r.bodies, fd.Body)
			}
		}
	}
	return r
}

// Resolve returns the defining expression of e when e is an identifier of a
// local variable with exactly one 1:1 definition (repeatedly), else e.
func (r *N1Resolver) Resolve(e ast.Expr) ast.Expr {
	e = ast.Unparen(e)
	for i := 0; i < 4; i++ {
		id, ok := e.(*ast.Ident)
		if !ok {
			return e
		}
		v, ok := ObjOf(r.info, id).(*types.Var)
		if !ok || v.IsField() {
			return e
		}
		var body *ast.BlockStmt
		for _, b := range r.bodies {
			if b.Pos() <= v.Pos() && v.Pos() < b.End() {
				body = b
				break
			}
		}
		if body == nil {
			return e
		}
		x := ResolveLocal(r.info, body, e)
		if x == e {
			return e
		}
		e = ast.Unparen(x)
	}
	return e
}

// FactEdge is X1FactEdge that additionally looks through boolean temporaries:
// on an edge that knows `full` (a single-definition local) to be true/false the
// facts of its defining condition are known as well.
func (r *N1Resolver) FactEdge(p X1FactPred) EdgePred {
	var holds func(f X1Fact, depth int) bool
	holds = func(f X1Fact, depth int) bool {
		if x1FactHolds(f, p) {
			return true
		}
		if depth >= 3 {
			return false
		}
		id, ok := ast.Unparen(f.E).(*ast.Ident)
		if !ok {
			return false
		}
		def := r.Resolve(id)
		if def == ast.Expr(id) {
			return false
		}
		for _, g := range X1EdgeFacts(&Edge{Cond: def, Branch: f.True}) {
			if holds(g, depth+1) {
				return true
			}
		}
		return false
	}
	return func(e *Edge) bool {
		for _, f := range X1EdgeFacts(e) {
			if holds(f, 0) {
				return true
			}
		}
		return false
	}
}

// ---------------------------------------------------------------- decision tables of literals

// N1EvalLitOn evaluates a function literal (declared inside owner) on model m
// with its parameters bound to args, like EvalOn does for declared functions.
func N1EvalLitOn(p *Prog, owner *Func, lit *ast.FuncLit, m DModel, args []DVal, opaque map[string]string) (DResult, string) {
	d := &DEval{Prog: p, Model: m, Opaque: opaque}
	env := map[types.Object]dval{}
	i := 0
	if lit.Type.Params != nil {
		for _, fd := range lit.Type.Params.List {
			for _, nm := range fd.Names {
				if i < len(args) {
					env[owner.Info().Defs[nm]] = args[i]
				}
				i++
			}
			if len(fd.Names) == 0 {
				i++
			}
		}
	}
	r := d.block(owner, lit.Body.List, env)
	if d.Undecided != "" {
		return DResult{}, d.Undecided
	}
	if r.panicked {
		return DResult{Panicked: true}, ""
	}
	if !r.returned || len(r.vals) != 1 {
		return DResult{}, "function literal does not return a single value on this row"
	}
	return DResult{Value: d.scal(r.vals[0])}, d.Undecided
}

// ---------------------------------------------------------------- switch tables

// N1StringCases collects, for every `switch <tag>` statement in body whose tag
// is recognised by isTag, the string constants of its case lists.
func N1StringCases(info *types.Info, body ast.Node, isTag func(ast.Expr) bool) (names map[string]bool, nSwitch int) {
	names = map[string]bool{}
	ast.Inspect(body, func(n ast.Node) bool {
		sw, ok := n.(*ast.SwitchStmt)
		if !ok || sw.Tag == nil || !isTag(ast.Unparen(sw.Tag)) {
			return true
		}
		nSwitch++
		for _, cl := range sw.Body.List {
			for _, e := range cl.(*ast.CaseClause).List {
				if v := ConstVal(info, e); v != nil && v.Kind() == constant.String {
					names[constant.StringVal(v)] = true
				}
			}
		}
		return true
	})
	return names, nSwitch
}

// N1TagEdge selects the case edges of tag switches (tag recognised by isTag)
// on which the tag equals the string constant name.
func N1TagEdge(info *types.Info, isTag func(ast.Expr) bool, name string) EdgePred {
	return func(e *Edge) bool {
		if e.Tag == nil || !e.Branch || !isTag(ast.Unparen(e.Tag)) {
			return false
		}
		v := ConstVal(info, e.Cond)
		return v != nil && v.Kind() == constant.String && constant.StringVal(v) == name
	}
}
