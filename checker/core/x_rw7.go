package core

import (
	"go/ast"
	"go/token"
	"go/types"

	"golang.org/x/tools/go/cfg"
)

// Helpers added for the C29 / C30 / C44 rule sets (gates, reaching
// assignments, loop heads, parameter roles).

// Gate is the nil-test that follows a call whose error result decides whether
// execution may continue (an authorization check, a uniqueness check, a
// password comparison, …).
type Gate struct {
	Call *Node // node that performs the call and stores its error
	Test *Node // condition node testing that error against nil
	Fail *Edge // out-edge of Test on which the error is non-nil
	Succ *Edge // out-edge of Test on which the error is nil
}

// ErrTransformer describes a call that maps an error to an error and is known
// (verified separately) to return non-nil whenever its error argument is
// non-nil. It reports the index of that argument.
type ErrTransformer func(info *types.Info, call *ast.CallExpr) (errArg int, ok bool)

// GateOf finds the nil-test of the error produced at node n. The error
// variable is followed along the straight-line successor chain; it may be
// passed through calls accepted by tr (`if err := wrap(a, p, err); err != nil`).
// ok=false when the error is dropped, overwritten, or not tested before the
// control flow branches.
func (g *Graph) GateOf(n *Node, tr ErrTransformer) (*Gate, bool) {
	v := g.errVarAssigned(n)
	if v == nil {
		return nil, false
	}
	cur := n
	for steps := 0; steps < 12; steps++ {
		if cur != n {
			if len(cur.Succ) == 2 && cur.Succ[0].Cond != nil {
				gt := &Gate{Call: n, Test: cur}
				for _, e := range cur.Succ {
					if g.failEdgeOn(e, v) {
						gt.Fail = e
					} else {
						gt.Succ = e
					}
				}
				if gt.Fail != nil && gt.Succ != nil {
					return gt, true
				}
				return nil, false
			}
			if cur.N != nil {
				// transformer: e2 := T(…, v, …)
				if nv := g.transformed(cur, v, tr); nv != nil {
					v = nv
				} else if _, wr := nodeReads(g.Info, cur.N, v); wr {
					return nil, false // overwritten before being tested
				}
			}
		}
		if len(cur.Succ) != 1 {
			return nil, false
		}
		cur = cur.Succ[0].To
	}
	return nil, false
}

func (g *Graph) transformed(n *Node, v types.Object, tr ErrTransformer) types.Object {
	if tr == nil {
		return nil
	}
	as, ok := n.N.(*ast.AssignStmt)
	if !ok || len(as.Rhs) != 1 {
		return nil
	}
	c, ok := ast.Unparen(as.Rhs[0]).(*ast.CallExpr)
	if !ok {
		return nil
	}
	idx, ok := tr(g.Info, c)
	if !ok || idx >= len(c.Args) || ObjOf(g.Info, c.Args[idx]) != v {
		return nil
	}
	return g.errVarAssigned(n)
}

// WithoutEdges builds an EdgePred selecting exactly the given edges.
func WithoutEdges(es []*Edge) EdgePred {
	set := map[*Edge]bool{}
	for _, e := range es {
		if e != nil {
			set[e] = true
		}
	}
	return func(e *Edge) bool { return set[e] }
}

// OrEdges combines edge predicates.
func OrEdges(ps ...EdgePred) EdgePred {
	return func(e *Edge) bool {
		for _, p := range ps {
			if p != nil && p(e) {
				return true
			}
		}
		return false
	}
}

// RangeHead returns the loop-head node of a range statement (the synthetic
// node that branches into the body or out of the loop).
func (g *Graph) RangeHead(rs *ast.RangeStmt) *Node {
	for _, n := range g.Nodes {
		if n.Block != nil && n.Block.Kind == cfg.KindRangeLoop && n.Block.Stmt == ast.Stmt(rs) && n.N == nil {
			return n
		}
	}
	// the loop block may hold no synthetic node if it was merged; fall back to
	// the first node of the block
	for _, n := range g.Nodes {
		if n.Block != nil && n.Block.Kind == cfg.KindRangeLoop && n.Block.Stmt == ast.Stmt(rs) {
			return n
		}
	}
	return nil
}

// RangeStmts lists the range statements of the graph's body (not descending
// into function literals), in source order.
func (g *Graph) RangeStmts() []*ast.RangeStmt {
	var out []*ast.RangeStmt
	ast.Inspect(g.Body, func(n ast.Node) bool {
		switch x := n.(type) {
		case *ast.FuncLit:
			return false
		case *ast.RangeStmt:
			out = append(out, x)
		}
		return true
	})
	return out
}

// Param returns the i-th parameter object of the function declaration.
func (f *Func) Param(i int) *types.Var {
	sig, _ := f.Obj.Type().(*types.Signature)
	if sig == nil || i < 0 || i >= sig.Params().Len() {
		return nil
	}
	return sig.Params().At(i)
}

// ParamNamed returns the parameter with the given name (nil if none).
func (f *Func) ParamNamed(name string) *types.Var {
	sig, _ := f.Obj.Type().(*types.Signature)
	if sig == nil {
		return nil
	}
	for i := 0; i < sig.Params().Len(); i++ {
		if sig.Params().At(i).Name() == name {
			return sig.Params().At(i)
		}
	}
	return nil
}

// Assignment is one definition of a variable inside a function body.
type Assignment struct {
	Stmt ast.Node // *ast.AssignStmt or *ast.ValueSpec
	Rhs  ast.Expr // the expression assigned (the call for tuple assignments)
	Idx  int      // position of the variable on the left-hand side
	Op   token.Token
}

// AssignmentsTo lists every assignment to obj in body (including function
// literals). Range-clause definitions and inc/dec are reported with Rhs=nil.
func AssignmentsTo(info *types.Info, body ast.Node, obj types.Object) []Assignment {
	var out []Assignment
	if obj == nil || body == nil {
		return nil
	}
	ast.Inspect(body, func(n ast.Node) bool {
		switch s := n.(type) {
		case *ast.AssignStmt:
			for i, l := range s.Lhs {
				if ObjOf(info, l) != obj {
					continue
				}
				a := Assignment{Stmt: s, Idx: i, Op: s.Tok}
				if len(s.Rhs) == len(s.Lhs) {
					a.Rhs = s.Rhs[i]
				} else if len(s.Rhs) == 1 {
					a.Rhs = s.Rhs[0]
				}
				out = append(out, a)
			}
		case *ast.ValueSpec:
			for i, nm := range s.Names {
				if info.Defs[nm] != obj {
					continue
				}
				a := Assignment{Stmt: s, Idx: i, Op: token.DEFINE}
				if len(s.Values) == len(s.Names) {
					a.Rhs = s.Values[i]
				} else if len(s.Values) == 1 {
					a.Rhs = s.Values[0]
				}
				out = append(out, a)
			}
		case *ast.RangeStmt:
			if (s.Key != nil && ObjOf(info, s.Key) == obj) || (s.Value != nil && ObjOf(info, s.Value) == obj) {
				out = append(out, Assignment{Stmt: s, Op: s.Tok})
			}
		case *ast.IncDecStmt:
			if ObjOf(info, s.X) == obj {
				out = append(out, Assignment{Stmt: s, Op: s.Tok})
			}
		}
		return true
	})
	return out
}

// SoleCall returns the call expression that is the only definition of obj in
// body (`v, err := f(…)`), or nil when obj has several definitions or is
// defined by something other than a call.
func SoleCall(info *types.Info, body ast.Node, obj types.Object) *ast.CallExpr {
	as := AssignmentsTo(info, body, obj)
	if len(as) != 1 || as[0].Rhs == nil {
		return nil
	}
	c, _ := ast.Unparen(as[0].Rhs).(*ast.CallExpr)
	return c
}

// Mentions reports whether expression e refers to obj.
func Mentions(info *types.Info, e ast.Node, obj types.Object) bool {
	found := false
	if e == nil || obj == nil {
		return false
	}
	ast.Inspect(e, func(n ast.Node) bool {
		if id, ok := n.(*ast.Ident); ok && (info.Uses[id] == obj || info.Defs[id] == obj) {
			found = true
		}
		return !found
	})
	return found
}

// IsConversion reports whether call is a type conversion T(x) and returns x.
func IsConversion(info *types.Info, call *ast.CallExpr) (ast.Expr, bool) {
	if len(call.Args) != 1 {
		return nil, false
	}
	if tv, ok := info.Types[call.Fun]; ok && tv.IsType() {
		return call.Args[0], true
	}
	return nil, false
}

// PkgVar resolves an expression to the package-level variable it names.
func PkgVar(info *types.Info, e ast.Expr) *types.Var {
	var id *ast.Ident
	switch x := ast.Unparen(e).(type) {
	case *ast.Ident:
		id = x
	case *ast.SelectorExpr:
		id = x.Sel
	default:
		return nil
	}
	v, ok := info.Uses[id].(*types.Var)
	if !ok || v.Pkg() == nil || v.Parent() != v.Pkg().Scope() {
		return nil
	}
	return v
}

// ConstOf resolves an expression to the named constant it denotes.
func ConstOf(info *types.Info, e ast.Expr) *types.Const {
	switch x := ast.Unparen(e).(type) {
	case *ast.Ident:
		c, _ := info.Uses[x].(*types.Const)
		return c
	case *ast.SelectorExpr:
		c, _ := info.Uses[x.Sel].(*types.Const)
		return c
	}
	return nil
}

// RecvCall splits a method call x.M(args) into its receiver expression and
// resolved callee.
func RecvCall(info *types.Info, call *ast.CallExpr) (recv ast.Expr, callee *types.Func) {
	se, ok := ast.Unparen(call.Fun).(*ast.SelectorExpr)
	if !ok {
		return nil, nil
	}
	callee = Callee(info, call)
	if callee == nil {
		return nil, nil
	}
	if sig, _ := callee.Type().(*types.Signature); sig == nil || sig.Recv() == nil {
		return nil, nil
	}
	return se.X, callee
}

// NamedOf strips pointers and returns the named type (nil otherwise).
func NamedOf(t types.Type) *types.Named {
	if t == nil {
		return nil
	}
	if p, ok := t.(*types.Pointer); ok {
		t = p.Elem()
	}
	n, _ := types.Unalias(t).(*types.Named)
	return n
}

// ErrVarOf returns the error variable defined/assigned by the statement in n
// (nil when the node assigns no error variable).
func (g *Graph) ErrVarOf(n *Node) types.Object {
	if n == nil || n.N == nil {
		return nil
	}
	return g.errVarAssigned(n)
}

// LeafEval gives the truth value of an atomic condition when it is known.
type LeafEval func(e ast.Expr) (val, known bool)

// EvalCond evaluates a condition in three-valued logic: &&, || and ! are
// interpreted, every other expression is handed to leaf. (go/cfg keeps a
// compound condition as one node, so this is where it is taken apart.)
func EvalCond(cond ast.Expr, leaf LeafEval) (val, known bool) {
	switch e := ast.Unparen(cond).(type) {
	case *ast.UnaryExpr:
		if e.Op == token.NOT {
			v, k := EvalCond(e.X, leaf)
			return !v, k
		}
	case *ast.BinaryExpr:
		switch e.Op {
		case token.LAND:
			a, ka := EvalCond(e.X, leaf)
			b, kb := EvalCond(e.Y, leaf)
			if (ka && !a) || (kb && !b) {
				return false, true
			}
			if ka && kb {
				return true, true
			}
			return false, false
		case token.LOR:
			a, ka := EvalCond(e.X, leaf)
			b, kb := EvalCond(e.Y, leaf)
			if (ka && a) || (kb && b) {
				return true, true
			}
			if ka && kb {
				return false, true
			}
			return false, false
		}
	}
	return leaf(ast.Unparen(cond))
}

// ReachUnder is Reach under a set of facts: at every condition node whose
// value EvalCond determines from leaf, only the selected branch is followed;
// both branches otherwise. Nodes selected by stop are recorded as reached but
// not left. The caller is responsible for stopping where a fact may be
// invalidated (reassignment of a variable the facts talk about).
func (g *Graph) ReachUnder(start []*Node, stop NodePred, leaf LeafEval) map[*Node]bool {
	seen := map[*Node]bool{}
	var walk func(n *Node)
	walk = func(n *Node) {
		if n == nil || seen[n] {
			return
		}
		seen[n] = true
		if stop != nil && stop(n) {
			return
		}
		if len(n.Succ) == 2 && n.Succ[0].Cond != nil && n.Succ[0].Tag == nil {
			if v, known := EvalCond(n.Succ[0].Cond, leaf); known {
				for _, e := range n.Succ {
					if e.Branch == v {
						walk(e.To)
					}
				}
				return
			}
		}
		for _, e := range n.Succ {
			walk(e.To)
		}
	}
	for _, s := range start {
		walk(s)
	}
	return seen
}

// Implied enumerates the atomic facts that hold whenever cond evaluates to
// branch: both conjuncts of a true &&, both disjuncts of a false ||, through !.
func Implied(cond ast.Expr, branch bool, visit func(leaf ast.Expr, val bool)) {
	switch e := ast.Unparen(cond).(type) {
	case *ast.UnaryExpr:
		if e.Op == token.NOT {
			Implied(e.X, !branch, visit)
			return
		}
	case *ast.BinaryExpr:
		if (e.Op == token.LAND && branch) || (e.Op == token.LOR && !branch) {
			Implied(e.X, branch, visit)
			Implied(e.Y, branch, visit)
			return
		}
		if e.Op == token.LAND || e.Op == token.LOR {
			return
		}
	}
	visit(ast.Unparen(cond), branch)
}

// AlwaysNonNil reports whether the module function fn provably returns a
// non-nil value in its last result: every return statement yields a composite
// literal or its address there (error constructors such as
// `func XError(n string) *errors.Error { return &errors.Error{…} }`).
func (p *Prog) AlwaysNonNil(fn *types.Func) bool {
	f := p.FuncOf(fn)
	if f == nil || f.Decl.Body == nil {
		return false
	}
	sig, _ := fn.Type().(*types.Signature)
	if sig == nil || sig.Results().Len() == 0 {
		return false
	}
	last := sig.Results().Len() - 1
	ok, n := true, 0
	ast.Inspect(f.Decl.Body, func(x ast.Node) bool {
		if _, isLit := x.(*ast.FuncLit); isLit {
			return false
		}
		rs, isRet := x.(*ast.ReturnStmt)
		if !isRet {
			return true
		}
		n++
		if len(rs.Results) != sig.Results().Len() {
			ok = false
			return true
		}
		e := ast.Unparen(rs.Results[last])
		if u, isU := e.(*ast.UnaryExpr); isU && u.Op == token.AND {
			e = ast.Unparen(u.X)
		}
		if _, isCL := e.(*ast.CompositeLit); !isCL {
			ok = false
		}
		return true
	})
	return ok && n > 0
}

var nonNilVarCache = map[*types.Var]bool{}

// NonNilPkgVar reports whether the package-level variable v provably holds a
// non-nil value: its declaration initialises it with a composite literal (or
// its address) or errors.New/fmt.Errorf, and no statement of its package
// assigns to it.
func (p *Prog) NonNilPkgVar(v *types.Var) bool {
	if v == nil || v.Pkg() == nil || v.Parent() != v.Pkg().Scope() {
		return false
	}
	if r, ok := nonNilVarCache[v]; ok {
		return r
	}
	pk := p.All[v.Pkg().Path()]
	res := false
	if pk != nil && len(pk.Syntax) > 0 {
		init, assigned := false, false
		for _, file := range pk.Syntax {
			ast.Inspect(file, func(n ast.Node) bool {
				switch x := n.(type) {
				case *ast.ValueSpec:
					for i, nm := range x.Names {
						if pk.TypesInfo.Defs[nm] != types.Object(v) || len(x.Values) != len(x.Names) {
							continue
						}
						e := ast.Unparen(x.Values[i])
						if u, ok := e.(*ast.UnaryExpr); ok && u.Op == token.AND {
							e = ast.Unparen(u.X)
						}
						switch y := e.(type) {
						case *ast.CompositeLit:
							init = true
						case *ast.CallExpr:
							switch FName(Callee(pk.TypesInfo, y)) {
							case "errors.New", "fmt.Errorf":
								init = true
							}
						}
					}
				case *ast.AssignStmt:
					for _, l := range x.Lhs {
						if ObjOf(pk.TypesInfo, l) == types.Object(v) {
							assigned = true
						}
					}
				}
				return true
			})
		}
		res = init && !assigned
	}
	nonNilVarCache[v] = res
	return res
}

// provablyNonNilErr: expression e is a non-nil error on every execution.
func (g *Graph) provablyNonNilErr(e ast.Expr) bool {
	e = ast.Unparen(e)
	switch x := e.(type) {
	case *ast.Ident, *ast.SelectorExpr:
		if v := PkgVar(g.Info, x); v != nil {
			return g.Prog.NonNilPkgVar(v)
		}
	case *ast.CallExpr:
		callee := Callee(g.Info, x)
		if g.Prog.AlwaysNonNil(callee) {
			return true
		}
		if FName(callee) == "errors.Join" {
			for _, a := range x.Args {
				if g.provablyNonNilErr(a) {
					return true
				}
			}
		}
	}
	return false
}

// SuccessExitsX is SuccessExits minus the returns whose error operand is
// provably non-nil for a reason SuccessExits does not know: a call of a module
// function that AlwaysNonNil, a package-level error value (NonNilPkgVar), or
// errors.Join of such a value.
func (g *Graph) SuccessExitsX() []*Node {
	idx := errResultIndex(g.Sig)
	var out []*Node
	for _, x := range g.SuccessExits() {
		if rs, ok := x.N.(*ast.ReturnStmt); ok && idx >= 0 && len(rs.Results) == g.Sig.Results().Len() {
			if g.provablyNonNilErr(rs.Results[idx]) {
				continue
			}
		}
		out = append(out, x)
	}
	return out
}

// MustPassX is MustPass over SuccessExitsX.
func (g *Graph) MustPassX(gate NodePred, exempt EdgePred) []*Node {
	r := g.ReachFromEntry(gate, exempt)
	var bad []*Node
	for _, x := range g.SuccessExitsX() {
		if r[x] {
			bad = append(bad, x)
		}
	}
	return bad
}
