package core

// FailEdgesOf returns the edges on which the error assigned by node n is known
// non-nil (plain `err != nil`, the false branch of `err == nil`, compound and
// negated tests), reachable before that variable is assigned again.
func FailEdgesOf(g *Graph, n *Node) []*Edge {
	v := g.errVarAssigned(n)
	if v == nil {
		return nil
	}
	return g.failEdgesM1(n, v)
}
