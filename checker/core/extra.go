package core

import (
	"fmt"
	"go/ast"
	"go/token"
	"go/types"
)

// RuleAtomicOnly: every access to the listed fields of pkg.typ (anywhere in the
// package) is the address operand of a sync/atomic call. Composite-literal
// initialisation is allowed (object not shared yet).
func RuleAtomicOnly(r *Report, p *Prog, pkg, typ string, fields []string, min int) {
	const rule = "atomic-only"
	pk := p.Pkg(pkg)
	if pk == nil {
		r.Bad("anchor", pkg, "unresolved", "-", "package not loaded")
		return
	}
	want := map[*types.Var]bool{}
	for _, f := range fields {
		v := LookupField(pk.Types, typ, f)
		if v == nil {
			r.Bad("anchor", pkg+"."+typ+"."+f, "unresolved", "-", "field does not exist")
			continue
		}
		want[v] = true
	}
	n, bad := 0, 0
	for _, f := range p.Funcs(pkg) {
		if f.Decl.Body == nil {
			continue
		}
		info := f.Info()
		// selectors that are &x.f arguments of sync/atomic calls
		okSel := map[*ast.SelectorExpr]bool{}
		ast.Inspect(f.Decl.Body, func(x ast.Node) bool {
			c, ok := x.(*ast.CallExpr)
			if !ok {
				return true
			}
			fn := Callee(info, c)
			if fn == nil || fn.Pkg() == nil || fn.Pkg().Path() != "sync/atomic" {
				return true
			}
			for _, a := range c.Args {
				if u, ok := ast.Unparen(a).(*ast.UnaryExpr); ok && u.Op == token.AND {
					if se, ok := ast.Unparen(u.X).(*ast.SelectorExpr); ok {
						okSel[se] = true
					}
				}
			}
			return true
		})
		ast.Inspect(f.Decl.Body, func(x ast.Node) bool {
			se, ok := x.(*ast.SelectorExpr)
			if !ok {
				return true
			}
			v := FieldOf(info, se)
			if !want[v] {
				return true
			}
			n++
			if !okSel[se] {
				bad++
				r.Saw(f)
				r.Bad(rule, f.String(), typ+"."+v.Name(), p.Pos(se.Pos()), "field is accessed directly; it must only be touched through sync/atomic (readers run without the lock)")
			}
			return true
		})
	}
	if n < min {
		r.Bad(rule, pkg+"."+typ, "accesses:count", "-", fmt.Sprintf("%d accesses found, expected >= %d", n, min))
		return
	}
	if bad == 0 {
		r.Ok(rule, pkg+"."+typ, "-", fmt.Sprintf("%d accesses of %v, all through sync/atomic", n, fields))
	}
}

// RuleRecheckUnderLock: get-or-create on a guarded map. Every insertion
// `x.m[k] = v` in f must be preceded, inside the same critical section (on every
// path from the write-lock acquisition to the insertion), by a lookup `x.m[…]`:
// a miss observed before the lock was taken (or under a read lock that was
// released) is stale, and inserting on it overwrites a concurrent creator's entry.
func RuleRecheckUnderLock(r *Report, f *Func, rule string, mapField *types.Var) bool {
	if f == nil {
		return false
	}
	g := f.Graph()
	info := g.Info
	isInsert := func(n *Node) bool {
		as, ok := n.N.(*ast.AssignStmt)
		if !ok {
			return false
		}
		for _, l := range as.Lhs {
			if ix, ok := ast.Unparen(l).(*ast.IndexExpr); ok && FieldOf(info, ix.X) == mapField {
				return true
			}
		}
		return false
	}
	isLookup := func(n *Node) bool {
		if n.N == nil || isInsert(n) {
			return false
		}
		found := false
		Walk(n.N, WalkOpts{}, func(x ast.Node) bool {
			if ix, ok := x.(*ast.IndexExpr); ok && FieldOf(info, ix.X) == mapField {
				found = true
			}
			return true
		})
		return found
	}
	isWLock := func(n *Node) bool {
		if n.N == nil {
			return false
		}
		if _, isDefer := n.N.(*ast.DeferStmt); isDefer {
			return false
		}
		hit := false
		Walk(n.N, WalkOpts{}, func(x ast.Node) bool {
			if c, ok := x.(*ast.CallExpr); ok {
				if _, op, ok := lockOp(info, c); ok && op == "Lock" {
					hit = true
				}
			}
			return true
		})
		return hit
	}
	inserts := g.Select(isInsert)
	locks := g.Select(isWLock)
	if len(inserts) == 0 {
		r.Bad(rule, f.String(), "insert:absent", f.Pos(), "no insertion into "+mapField.Name()+" found")
		return false
	}
	if len(locks) == 0 {
		r.Bad(rule, f.String(), "lock:absent", f.Pos(), "no write-lock acquisition found")
		return false
	}
	ok := true
	for _, lk := range locks {
		reach := g.Reach(After(lk, nil), isLookup, nil)
		for _, ins := range inserts {
			if reach[ins] {
				ok = false
				r.Bad(rule, f.String(), mapField.Name()+":insert-without-recheck", g.Line(ins),
					"an entry is inserted on a path from the write-lock acquisition ("+g.Line(lk)+") that contains no lookup of the map: a concurrent creator's entry would be overwritten")
			}
		}
	}
	if ok {
		r.Ok(rule, f.String(), g.Line(inserts[0]), fmt.Sprintf("%d insertion(s), each re-checks the map under the write lock", len(inserts)))
	}
	return ok
}

// EnclosingGuard returns the conditional edges e such that target is reachable
// from e.To but not from the entry once e is removed (e "controls" target).
func (g *Graph) EnclosingGuards(target *Node) []*Edge {
	var out []*Edge
	for _, n := range g.Nodes {
		for _, e := range n.Succ {
			if e.Cond == nil {
				continue
			}
			ee := e
			if g.ReachFromEntry(nil, func(x *Edge) bool { return x == ee })[target] {
				continue
			}
			out = append(out, e)
		}
	}
	return out
}

// Sibling returns the other out-edge of e's condition node.
func (e *Edge) Sibling() *Edge {
	for _, o := range e.From.Succ {
		if o != e {
			return o
		}
	}
	return nil
}

// LoopHeadOf returns the synthetic range/for loop head node that n's cycle
// passes through (nil if n is not inside a loop).
func (g *Graph) OnCycle(n *Node) bool {
	return g.Reach(After(n, nil), nil, nil)[n]
}
