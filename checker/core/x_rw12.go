package core

// Helpers added by rw12 (C06 candidate completeness, C08 tombstone batches,
// C14 series-set exclusivity, C17 sorted-before-positional-use). Nothing here
// looks at source text; positions are used only to relate CFG nodes to the
// syntactic region (loop body, function literal) they belong to.

import (
	"go/ast"
	"go/token"
	"go/types"
	"sort"

	"golang.org/x/tools/go/cfg"
)

// IterEscape12 is one way in which an iteration of a loop can end without
// passing an accumulate node and without crossing an exempt edge.
type IterEscape12 struct {
	Via  *Node  // last body node on the escaping path
	Kind string // "next" (next iteration), "leave" (break/goto out of the loop), "return" (function exit inside the body)
}

// IterEscapes12 analyses one iteration of loop statement `loop`: starting at
// the first node of the body, which paths reach the next iteration, leave the
// loop or return, without entering a node selected by acc and without following
// an edge selected by exempt? ok=false if the loop is not in the graph.
func (g *Graph) IterEscapes12(loop ast.Stmt, acc NodePred, exempt EdgePred) (out []IterEscape12, ok bool) {
	body := LoopBody(loop)
	_, entry, _ := g.LoopNodes(loop)
	if body == nil || entry == nil {
		return nil, false
	}
	if acc != nil && acc(entry) {
		return nil, true
	}
	reach := g.Reach([]*Node{entry}, acc, exempt)
	inBody := func(n *Node) bool { return n == entry || InRegion(n, body) }
	isNext := func(m *Node) bool {
		if m == entry {
			return true
		}
		if m.Block == nil || m.Block.Stmt != ast.Node(loop) {
			return false
		}
		switch m.Block.Kind {
		case cfg.KindForLoop, cfg.KindForPost, cfg.KindRangeLoop:
			return true
		}
		return false
	}
	var ns []*Node
	for n := range reach {
		if inBody(n) {
			ns = append(ns, n)
		}
	}
	sort.Slice(ns, func(i, j int) bool { return ns[i].ID < ns[j].ID })
	for _, n := range ns {
		if len(n.Succ) == 0 && n.Kind != KPanic {
			out = append(out, IterEscape12{n, "return"})
			continue
		}
		for _, e := range n.Succ {
			if exempt != nil && exempt(e) {
				continue
			}
			m := e.To
			if acc != nil && acc(m) {
				continue
			}
			switch {
			case isNext(m):
				out = append(out, IterEscape12{n, "next"})
			case !inBody(m):
				out = append(out, IterEscape12{n, "leave"})
			}
		}
	}
	return out, true
}

// InnermostLoop12 returns the innermost for/range statement of root (function
// literals are not entered) whose body contains node n; nil if there is none.
func InnermostLoop12(root ast.Node, n *Node) ast.Stmt {
	var best ast.Stmt
	ast.Inspect(root, func(x ast.Node) bool {
		switch l := x.(type) {
		case *ast.FuncLit:
			return false
		case *ast.ForStmt:
			if InRegion(n, l.Body) {
				best = l
			}
		case *ast.RangeStmt:
			if InRegion(n, l.Body) {
				best = l
			}
		}
		return true
	})
	return best
}

// AllFacts12 selects the conditional edges on which every one of the given
// facts is established (Establishes semantics for && / || / !).
func AllFacts12(facts ...CondFact) EdgePred {
	return func(e *Edge) bool {
		if e.Cond == nil || e.Tag != nil {
			return false
		}
		for _, f := range facts {
			if !Establishes(e.Cond, e.Branch, f) {
				return false
			}
		}
		return len(facts) > 0
	}
}

// CmpFact12: the atom (with its truth value) is a comparison `L op R` accepted
// by test; the comparison is offered in both operand orders.
func CmpFact12(test func(l ast.Expr, op token.Token, r ast.Expr) bool) CondFact {
	return func(a ast.Expr, v bool) bool {
		c, ok := CmpOf8(Fact8{X: ast.Unparen(a), Val: v})
		if !ok {
			return false
		}
		return test(c.L, c.Op, c.R) || test(c.R, swapOp8(c.Op), c.L)
	}
}

// OutermostLit12 returns the outermost function literal inside root that
// contains position pos (nil if pos is not inside a literal).
func OutermostLit12(root ast.Node, pos token.Pos) *ast.FuncLit {
	var out *ast.FuncLit
	ast.Inspect(root, func(x ast.Node) bool {
		if out != nil {
			return false
		}
		if l, ok := x.(*ast.FuncLit); ok && l.Pos() <= pos && pos < l.End() {
			out = l
			return false
		}
		return true
	})
	return out
}

// HomeNode12 maps an AST node of the function body to the node of graph g (the
// function's own graph) in which it is evaluated: the node containing it, or —
// when it lies inside a function literal — the node in which the outermost
// enclosing literal is created (a literal handed to a callee runs no earlier
// than that).
func (g *Graph) HomeNode12(a ast.Node) *Node {
	if lit := OutermostLit12(g.Body, a.Pos()); lit != nil {
		return g.NodeOf(lit)
	}
	return g.NodeOf(a)
}

// IsVarOrField12 accepts expressions denoting the local variable / parameter obj
// or (when field is non-nil) a selection of that field.
func IsVarOrField12(info *types.Info, obj types.Object, field *types.Var) func(ast.Expr) bool {
	return func(e ast.Expr) bool {
		e = ast.Unparen(e)
		if obj != nil && ObjOf(info, e) == obj {
			return true
		}
		return field != nil && FieldOf(info, e) == field
	}
}

// MethodCallOn12 returns the receiver expression of a method call matched by m
// (nil otherwise).
func MethodCallOn12(info *types.Info, c *ast.CallExpr, m Matcher) ast.Expr {
	if c == nil || !m(info, c) {
		return nil
	}
	if se, ok := ast.Unparen(c.Fun).(*ast.SelectorExpr); ok {
		return ast.Unparen(se.X)
	}
	return nil
}
