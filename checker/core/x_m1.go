package core

import (
	"go/ast"
	"go/types"
	"sort"
)

// Helpers added by the m1 strengthening pass (C02, C03).

// LitSwallow is a failure swallowed inside a function literal of a function.
type LitSwallow struct {
	Lit  *ast.FuncLit
	G    *Graph
	Call *ast.CallExpr
	Exit *Node
}

// ErrLits returns the function literals nested in f (at any depth) that have an
// error result, each with its own graph. Literals without an error result report
// failures through a side channel and are out of scope, like in FailuresSwallowed.
func (f *Func) ErrLits() []*Graph {
	var out []*Graph
	if f == nil || f.Decl == nil || f.Decl.Body == nil {
		return nil
	}
	ast.Inspect(f.Decl.Body, func(n ast.Node) bool {
		if fl, ok := n.(*ast.FuncLit); ok {
			sig, _ := f.Pkg.TypesInfo.TypeOf(fl).(*types.Signature)
			if errResultIndex(sig) >= 0 {
				out = append(out, f.LitGraph(fl))
			}
		}
		return true
	})
	return out
}

// FailuresSwallowedG is FailuresSwallowed for an arbitrary graph of f (the
// function's own graph or the graph of one of its literals): the number of calls
// of class d whose error is tested or forwarded, and the failure edges from which
// an exit is reachable on which the graph's function reports success.
func FailuresSwallowedG(g *Graph, d Matcher) (int, []Swallow) {
	return failuresSwallowedM1(g, d, true, true)
}

// FailuresSwallowedNeg covers the call sites that FailuresSwallowed leaves out
// because the test of the error is not the plain `err != nil` directly after the
// call: `!(err != nil)`, `err != nil && …`, a test behind an unrelated condition.
// The failure branches are the edges on which the error variable is known non-nil
// (by any conjunct, through negation), reachable from the call before the
// variable is assigned again.
func FailuresSwallowedNeg(g *Graph, d Matcher) (int, []Swallow) {
	return failuresSwallowedM1(g, d, false, true)
}

// failEdgesM1: the edges reachable from n, before v is assigned again, on which v
// is known to be non-nil.
func (g *Graph) failEdgesM1(n *Node, v types.Object) []*Edge {
	if v == nil {
		return nil
	}
	isFail := X1NilEdge(g.Info, X1IsObj(g.Info, v), false)
	var out []*Edge
	seen := map[*Node]bool{}
	var walk func(m *Node)
	walk = func(m *Node) {
		if seen[m] {
			return
		}
		seen[m] = true
		for _, e := range m.Succ {
			if isFail(e) {
				out = append(out, e)
				continue // behind the failure branch the plain walk takes over
			}
			if e.To != n && g.AssigningObj(v)(e.To) {
				continue
			}
			walk(e.To)
		}
	}
	walk(n)
	sort.Slice(out, func(i, j int) bool { return out[i].To.ID < out[j].To.ID })
	return out
}

func failuresSwallowedM1(g *Graph, d Matcher, plain, fallback bool) (int, []Swallow) {
	if g == nil || errResultIndex(g.Sig) < 0 {
		return 0, nil
	}
	sites := 0
	var out []Swallow
	var errVars []types.Object
	ast.Inspect(g.Body, func(y ast.Node) bool {
		if id, ok := y.(*ast.Ident); ok {
			if o := g.Info.Defs[id]; o != nil && IsErrorType(o.Type()) {
				if _, isVar := o.(*types.Var); isVar {
					errVars = append(errVars, o)
				}
			}
		}
		return true
	})
	// named results of the literal are declared in its type, outside the body
	for i := 0; i < g.Sig.Results().Len(); i++ {
		if v := g.Sig.Results().At(i); v.Name() != "" && IsErrorType(v.Type()) {
			errVars = append(errVars, v)
		}
	}
	for _, c := range g.directCalls(d) {
		if idx, _ := returnsError(g.Info, c); idx < 0 {
			continue
		}
		nd := g.NodeOf(c)
		if nd == nil {
			continue
		}
		if rs, ok := nd.N.(*ast.ReturnStmt); ok {
			fwd := false
			for _, e := range rs.Results {
				if ast.Unparen(e) == ast.Expr(c) {
					fwd = true
				}
			}
			if fwd {
				if plain {
					sites++
				}
				continue
			}
		}
		v := g.errVarAssigned(nd)
		var fails []*Edge
		if fail, _, ok := g.ErrEdges(nd); ok {
			if !plain {
				continue
			}
			fails = []*Edge{fail}
		} else if fallback {
			fails = g.failEdgesM1(nd, v)
		}
		if len(fails) == 0 {
			continue
		}
		sites++
		type state struct {
			n *Node
			k string
		}
		seen := map[state]bool{}
		bad := map[*Node]bool{}
		budget := 40000
		var visit func(n *Node, s nnSet)
		visit = func(n *Node, s nnSet) {
			st := state{n, s.key()}
			if seen[st] || budget <= 0 {
				return
			}
			budget--
			seen[st] = true
			if len(n.Succ) == 0 {
				if !g.exitFails(n, s) {
					bad[n] = true
				}
				return
			}
			s2 := g.nnStep(n, s)
			for _, e := range n.Succ {
				if g.classifies(e, s2) {
					continue // recognised as one specific error class: a decision, not a swallow
				}
				if s3 := g.nnEdge(e, s2); s3 != nil {
					visit(e.To, s3)
				}
			}
		}
		init := nnSet{v: true}
		for _, o := range errVars {
			if o != v && g.onlyViaFail(nd, o) {
				init[o] = true
			}
		}
		for _, fail := range fails {
			if s0 := g.nnEdge(fail, init); s0 != nil {
				visit(fail.To, s0)
			}
		}
		var xs []*Node
		for x := range bad {
			xs = append(xs, x)
		}
		sort.Slice(xs, func(i, j int) bool { return xs[i].ID < xs[j].ID })
		for _, x := range xs {
			out = append(out, Swallow{Call: c, Exit: x})
		}
	}
	return sites, out
}

// FailuresSwallowedLits applies FailuresSwallowedG to every error-returning
// function literal of f.
func FailuresSwallowedLits(f *Func, d Matcher) (int, []LitSwallow) {
	sites := 0
	var out []LitSwallow
	for _, g := range f.ErrLits() {
		n, sw := FailuresSwallowedG(g, d)
		sites += n
		for _, s := range sw {
			out = append(out, LitSwallow{G: g, Call: s.Call, Exit: s.Exit})
		}
	}
	return sites, out
}

// CallingDirect selects the nodes of g that themselves evaluate a call matched by
// m, not descending into any function literal (not even one invoked in place:
// that literal has its own graph).
func (g *Graph) CallingDirect(m Matcher) NodePred {
	return func(n *Node) bool {
		if n.N == nil {
			return false
		}
		if _, isDefer := n.N.(*ast.DeferStmt); isDefer {
			return false
		}
		if _, isGo := n.N.(*ast.GoStmt); isGo {
			return false
		}
		hit := false
		ast.Inspect(n.N, func(x ast.Node) bool {
			switch c := x.(type) {
			case *ast.FuncLit:
				return false
			case *ast.CallExpr:
				if m(g.Info, c) {
					hit = true
				}
			}
			return !hit
		})
		return hit
	}
}

// ConstResultExits returns the return exits of g whose i-th result is the boolean
// constant val.
func (g *Graph) ConstBoolExits(i int, val bool) []*Node {
	var out []*Node
	for _, x := range g.Exits {
		rs, ok := x.N.(*ast.ReturnStmt)
		if !ok || i >= len(rs.Results) {
			continue
		}
		if X1IsConstBool(g.Info, rs.Results[i], val) {
			out = append(out, x)
		}
	}
	return out
}
