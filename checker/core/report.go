package core

import (
	"encoding/json"
	"fmt"
	"os"
	"path/filepath"
	"sort"
	"strings"
	"time"
)

// Status of one obligation.
type Status string

const (
	OK        Status = "OK"
	Violation Status = "VIOLATION"
	Known     Status = "KNOWN-FINDING"
	Info      Status = "INFO"
)

// Obligation is one decided rule instance.
type Obligation struct {
	Rule      string `json:"rule"`      // rule name, e.g. "sync-before-ack"
	Construct string `json:"construct"` // resolved construct, e.g. "tsm1.WAL.writeToLog"
	Key       string `json:"key"`       // rule:construct[:detail] — stable id, never a line
	Pos       string `json:"pos"`
	Status    Status `json:"status"`
	Detail    string `json:"detail,omitempty"`
}

// Report collects the obligations of one property run.
type Report struct {
	Property string
	Tier     string
	Obs      []Obligation
	Notes    []string
	Funcs    map[string]bool // functions analysed
	FuncObjs map[*Func]bool  // the same, as declarations (fault enumeration)
	Pkgs     map[string]bool
	start    time.Time
	Mutants  []MutantResult
}

// MutantResult is one row of the seeded-fault kill matrix (thorough tier).
type MutantResult struct {
	Name   string `json:"name"`
	Killed bool   `json:"killed"`
	By     string `json:"by,omitempty"`
	Note   string `json:"note,omitempty"`
}

func NewReport(prop, tier string) *Report {
	return &Report{Property: prop, Tier: tier, Funcs: map[string]bool{}, FuncObjs: map[*Func]bool{}, Pkgs: map[string]bool{}, start: time.Now()}
}

func mkKey(rule, construct, detail string) string {
	k := rule + ":" + construct
	if detail != "" {
		k += ":" + detail
	}
	return k
}

// Ok records a discharged obligation.
func (r *Report) Ok(rule, construct, pos, detail string) {
	r.Obs = append(r.Obs, Obligation{Rule: rule, Construct: construct, Key: mkKey(rule, construct, ""), Pos: pos, Status: OK, Detail: detail})
}

// Bad records a violated obligation. what is the short stable name of the
// offending construct (a callee, field, case, …) and becomes part of the key.
func (r *Report) Bad(rule, construct, what, pos, detail string) {
	r.Obs = append(r.Obs, Obligation{Rule: rule, Construct: construct, Key: mkKey(rule, construct, what), Pos: pos, Status: Violation, Detail: detail})
}

// Check records OK or a violation depending on cond.
func (r *Report) Check(cond bool, rule, construct, what, pos, detail string) bool {
	if cond {
		r.Ok(rule, construct, pos, detail)
	} else {
		r.Bad(rule, construct, what, pos, detail)
	}
	return cond
}

// Note records free-text information for the evidence file.
func (r *Report) Note(format string, a ...any) { r.Notes = append(r.Notes, fmt.Sprintf(format, a...)) }

// Saw records that a function was analysed.
func (r *Report) Saw(f *Func) {
	if f != nil {
		r.Funcs[f.String()] = true
		r.FuncObjs[f] = true
		r.Pkgs[Short(f.Pkg.PkgPath)] = true
	}
}

// Need resolves an anchored function; a missing anchor is a violation
// ("unresolved-anchor"): the rule table no longer describes the tree.
func (r *Report) Need(p *Prog, pkg, name string) *Func {
	f := p.Func(pkg, name)
	if f == nil || f.Decl.Body == nil {
		r.Bad("anchor", pkg+"."+name, "unresolved", "-", "anchored function not found in the current tree; the rule instance cannot be evaluated")
		return nil
	}
	r.Saw(f)
	return f
}

// Finding is one entry of known_findings.json.
type Finding struct {
	Property string `json:"property"`
	Status   string `json:"status"` // "known" | "fixed"
	Key      string `json:"key"`
	What     string `json:"what"`
	Commit   string `json:"commit,omitempty"`
}

// VerifDir is /verif (or $VERIF_DIR).
func VerifDir() string {
	if d := os.Getenv("VERIF_DIR"); d != "" {
		return d
	}
	return "/verif"
}

func loadFindings() ([]Finding, error) {
	b, err := os.ReadFile(filepath.Join(VerifDir(), "known_findings.json"))
	if err != nil {
		if os.IsNotExist(err) {
			return nil, nil
		}
		return nil, err
	}
	var fs []Finding
	if err := json.Unmarshal(b, &fs); err != nil {
		return nil, fmt.Errorf("known_findings.json: %w", err)
	}
	return fs, nil
}

// Finish applies the known-findings file, prints the verdict lines, writes the
// evidence file and returns the process exit code.
func (r *Report) Finish(level string, explanation string, assumptions []string, extra map[string]any) int {
	fs, ferr := loadFindings()
	if ferr != nil {
		r.Bad("framework", "known_findings.json", "unreadable", "-", ferr.Error())
	}
	known := map[string]Finding{}
	for _, f := range fs {
		if f.Property == r.Property && f.Status == "known" {
			known[f.Key] = f
		}
	}
	nviol, nknown, nok := 0, 0, 0
	matched := map[string]bool{}
	for i := range r.Obs {
		o := &r.Obs[i]
		if o.Status == Violation {
			if f, ok := known[o.Key]; ok {
				o.Status = Known
				matched[o.Key] = true
				_ = f
			}
		}
		switch o.Status {
		case Violation:
			nviol++
		case Known:
			nknown++
		case OK:
			nok++
		}
	}
	// a known finding that the rules no longer report is stale: say so (not an alarm).
	for k, f := range known {
		if !matched[k] {
			r.Note("known finding %q is no longer reported by its rule (%s)", k, f.What)
		}
	}
	sort.SliceStable(r.Obs, func(i, j int) bool {
		a, b := r.Obs[i], r.Obs[j]
		if a.Status != b.Status {
			return rank(a.Status) < rank(b.Status)
		}
		return false
	})
	verbose := os.Getenv("VERIF_VERBOSE") != ""
	for _, o := range r.Obs {
		switch o.Status {
		case Violation:
			fmt.Printf("FAIL  %-28s %-50s %s  %s\n", o.Rule, o.Construct, o.Pos, o.Detail)
		case Known:
			fmt.Printf("KNOWN-FINDING: property=%s %s at %s — %s\n", r.Property, o.Key, o.Pos, known[o.Key].What)
		default:
			if verbose {
				fmt.Printf("%-5s %-28s %-50s %s  %s\n", o.Status, o.Rule, o.Construct, o.Pos, o.Detail)
			}
		}
	}
	evdir := filepath.Join(VerifDir(), "evidence")
	os.MkdirAll(evdir, 0o755)
	replay := ""
	if nviol > 0 {
		rp := filepath.Join(evdir, r.Property+".violations.json")
		var vs []Obligation
		for _, o := range r.Obs {
			if o.Status == Violation {
				vs = append(vs, o)
			}
		}
		b, _ := json.MarshalIndent(vs, "", " ")
		os.WriteFile(rp, b, 0o644)
		replay = rp
	} else {
		os.Remove(filepath.Join(evdir, r.Property+".violations.json"))
	}
	// evidence
	samples := []any{}
	for i, o := range r.Obs {
		if o.Status == Violation || o.Status == Known || i < 12 {
			samples = append(samples, o)
		}
		if len(samples) >= 40 {
			break
		}
	}
	rules := map[string]int{}
	for _, o := range r.Obs {
		rules[o.Rule]++
	}
	var fnames []string
	for f := range r.Funcs {
		fnames = append(fnames, f)
	}
	sort.Strings(fnames)
	var pk []string
	for p := range r.Pkgs {
		pk = append(pk, p)
	}
	sort.Strings(pk)
	cov := map[string]any{
		"explanation":        explanation,
		"obligations":        len(r.Obs),
		"discharged":         nok,
		"known_findings":     nknown,
		"rules":              rules,
		"samples":            samples,
		"functions_analysed": fnames,
		"packages":           pk,
		"notes":              r.Notes,
		"checker_cmd":        "bin/verifcheck -p " + r.Property + " -tier " + r.Tier,
		"trusted_base":       []string{"go/types, go/cfg (x/tools v0.50.0)", "rule instance tables in /verif/checker/rules", "the reading of the anchored code that produced them"},
	}
	if len(r.Mutants) > 0 {
		cov["seeded_fault_matrix"] = r.Mutants
	}
	for k, v := range extra {
		cov[k] = v
	}
	seed := 0
	fmt.Sscanf(os.Getenv("VERIF_SEED"), "%d", &seed)
	ev := map[string]any{
		"property_id": r.Property,
		"tier":        r.Tier,
		"seed":        seed,
		"level":       level,
		"coverage":    cov,
		"assumptions": assumptions,
		"wall_s":      time.Since(r.start).Seconds(),
		"violations":  nviol,
	}
	b, _ := json.MarshalIndent(ev, "", " ")
	if err := os.WriteFile(filepath.Join(evdir, r.Property+".json"), b, 0o644); err != nil {
		fmt.Println("cannot write evidence:", err)
		return 1
	}
	fmt.Printf("%s tier=%s obligations=%d discharged=%d known=%d violations=%d functions=%d wall=%.1fs\n",
		r.Property, r.Tier, len(r.Obs), nok, nknown, nviol, len(r.Funcs), time.Since(r.start).Seconds())
	if nviol > 0 {
		fmt.Printf("VIOLATION property=%s replay=%s\n", r.Property, replay)
		return 1
	}
	return 0
}

func rank(s Status) int {
	switch s {
	case Violation:
		return 0
	case Known:
		return 1
	case OK:
		return 2
	}
	return 3
}

// Violations returns the keys of the violated obligations (before known-finding matching).
func (r *Report) Violations() []string {
	var out []string
	for _, o := range r.Obs {
		if o.Status == Violation {
			out = append(out, o.Key)
		}
	}
	return out
}

// NewViolations returns "key @pos" of violated obligations that are not listed
// as known findings.
func (r *Report) NewViolations() []string {
	fs, _ := loadFindings()
	known := map[string]bool{}
	for _, f := range fs {
		if f.Property == r.Property && f.Status == "known" {
			known[f.Key] = true
		}
	}
	var out []string
	for _, o := range r.Obs {
		if o.Status == Violation && !known[o.Key] {
			out = append(out, o.Key+" @"+o.Pos)
		}
	}
	return out
}

// Join is strings.Join for brevity in rules.
func Join(xs []string) string { return strings.Join(xs, ", ") }
