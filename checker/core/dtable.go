package core

import (
	"fmt"
	"go/ast"
	"go/token"
	"go/types"
	"sort"
	"strings"
)

// E9 — finite decision tables.
//
// For a loop-free function that touches its inputs only through ==, != and nil
// tests (plus && || ! and early returns), the result is a function of the truth
// values of finitely many atomic comparisons. The rows of that table are
// generated from a finite universe of abstract inputs that realises every
// equality pattern among the compared terms (k distinct symbols per compared
// domain, nil for pointers); the function's AST is evaluated *abstractly* on each
// row by the small interpreter below (no code of the repository is executed) and
// the result is compared with a specification predicate written from the
// property statement. Any construct outside the fragment (loops, calls that are
// not inlinable or known to be effect-free, arithmetic) makes the obligation
// UNDECIDED, which fails the check.

// DModel assigns abstract values to leaf access paths, e.g.
// "G.Resource.Type" -> "instance", "G.Resource.OrgID" -> "nil" | "ptr",
// "*G.Resource.OrgID" -> "o1".
type DModel map[string]string

type dval struct {
	scalar bool
	s      string // scalar symbol, or access path
}

// DEval is the abstract interpreter.
type DEval struct {
	Prog   *Prog
	Model  DModel
	Consts map[types.Object]string // named constants -> symbol
	// EffectFree: callee name patterns whose calls are ignored as statements.
	EffectFree []string
	// Opaque: callee name -> model path; the call's result is a table input.
	Opaque    map[string]string
	depth     int
	Undecided string
}

func atoiSym(s string) (int, bool) {
	s = strings.TrimPrefix(s, "const:")
	s = strings.TrimPrefix(s, "lit:")
	n, neg, any := 0, false, false
	for i, c := range s {
		if i == 0 && c == '-' {
			neg = true
			continue
		}
		if c < '0' || c > '9' {
			return 0, false
		}
		n = n*10 + int(c-'0')
		any = true
	}
	if neg {
		n = -n
	}
	return n, any
}

type dret struct {
	returned bool
	vals     []dval
	panicked bool
}

func (d *DEval) undecided(format string, a ...any) {
	if d.Undecided == "" {
		d.Undecided = fmt.Sprintf(format, a...)
	}
}

// CallFunc evaluates f with its receiver/parameters bound to the given roots
// (root name per parameter in order: receiver first when present).
func (d *DEval) CallFunc(f *Func, args []dval) dret {
	if d.depth > 4 {
		d.undecided("inlining depth exceeded at %s", f)
		return dret{}
	}
	d.depth++
	defer func() { d.depth-- }()
	env := map[types.Object]dval{}
	i := 0
	bind := func(fl *ast.FieldList) {
		if fl == nil {
			return
		}
		for _, fd := range fl.List {
			for _, nm := range fd.Names {
				if i < len(args) {
					env[f.Info().Defs[nm]] = args[i]
				}
				i++
			}
			if len(fd.Names) == 0 {
				i++
			}
		}
	}
	bind(f.Decl.Recv)
	bind(f.Decl.Type.Params)
	r := d.block(f, f.Decl.Body.List, env)
	return r
}

func (d *DEval) block(f *Func, list []ast.Stmt, env map[types.Object]dval) dret {
	for _, s := range list {
		r := d.stmt(f, s, env)
		if r.returned || r.panicked || d.Undecided != "" {
			return r
		}
	}
	return dret{}
}

func (d *DEval) stmt(f *Func, s ast.Stmt, env map[types.Object]dval) dret {
	info := f.Info()
	switch st := s.(type) {
	case *ast.BlockStmt:
		return d.block(f, st.List, env)
	case *ast.ReturnStmt:
		var vs []dval
		for _, e := range st.Results {
			v, p := d.expr(f, e, env)
			if p {
				return dret{panicked: true}
			}
			vs = append(vs, v)
		}
		return dret{returned: true, vals: vs}
	case *ast.IfStmt:
		if st.Init != nil {
			if r := d.stmt(f, st.Init, env); r.returned || r.panicked {
				return r
			}
		}
		c, p := d.expr(f, st.Cond, env)
		if p {
			return dret{panicked: true}
		}
		if d.Undecided != "" {
			return dret{}
		}
		if d.scal(c) == "true" {
			return d.block(f, st.Body.List, env)
		}
		if st.Else != nil {
			return d.stmt(f, st.Else, env)
		}
		return dret{}
	case *ast.AssignStmt:
		if len(st.Lhs) != len(st.Rhs) {
			// v, ok := opaque() with the opaque entry "pathA,pathB"
			if c, ok := st.Rhs[0].(*ast.CallExpr); ok && len(st.Rhs) == 1 {
				if paths, ok := d.Opaque[FName(Callee(info, c))]; ok {
					ps := strings.Split(paths, ",")
					if len(ps) == len(st.Lhs) {
						for i, l := range st.Lhs {
							if id, ok := l.(*ast.Ident); ok && id.Name != "_" {
								if o := ObjOf(info, id); o != nil {
									env[o] = dval{s: ps[i]}
								}
							}
						}
						return dret{}
					}
				}
			}
			d.undecided("tuple assignment at %s", d.Prog.Pos(st.Pos()))
			return dret{}
		}
		for i, l := range st.Lhs {
			id, ok := l.(*ast.Ident)
			if !ok {
				d.undecided("assignment to non-local at %s", d.Prog.Pos(st.Pos()))
				return dret{}
			}
			v, p := d.expr(f, st.Rhs[i], env)
			if p {
				return dret{panicked: true}
			}
			if o := ObjOf(info, id); o != nil {
				env[o] = v
			}
		}
		return dret{}
	case *ast.DeclStmt:
		gd, _ := st.Decl.(*ast.GenDecl)
		if gd != nil && gd.Tok == token.VAR {
			for _, sp := range gd.Specs {
				vs := sp.(*ast.ValueSpec)
				for i, nm := range vs.Names {
					if i < len(vs.Values) {
						v, p := d.expr(f, vs.Values[i], env)
						if p {
							return dret{panicked: true}
						}
						env[info.Defs[nm]] = v
					} else {
						env[info.Defs[nm]] = dval{scalar: true, s: "zero"}
					}
				}
			}
		}
		return dret{}
	case *ast.ExprStmt:
		if c, ok := st.X.(*ast.CallExpr); ok {
			n := FName(Callee(info, c))
			for _, p := range d.EffectFree {
				if Glob(p, n) {
					// arguments may still dereference: evaluate them for panics
					for _, a := range c.Args {
						if _, pn := d.expr(f, a, env); pn {
							return dret{panicked: true}
						}
					}
					return dret{}
				}
			}
			d.undecided("call of %s as a statement at %s is outside the decidable fragment", n, d.Prog.Pos(st.Pos()))
			return dret{}
		}
	case *ast.SwitchStmt:
		if st.Init != nil {
			if r := d.stmt(f, st.Init, env); r.returned || r.panicked {
				return r
			}
		}
		var tag dval
		hasTag := st.Tag != nil
		if hasTag {
			var p bool
			tag, p = d.expr(f, st.Tag, env)
			if p {
				return dret{panicked: true}
			}
		}
		var def *ast.CaseClause
		for _, cl := range st.Body.List {
			cc := cl.(*ast.CaseClause)
			if cc.List == nil {
				def = cc
				continue
			}
			for _, e := range cc.List {
				v, p := d.expr(f, e, env)
				if p {
					return dret{panicked: true}
				}
				hit := false
				if hasTag {
					hit = d.equal(tag, v)
				} else {
					hit = d.scal(v) == "true"
				}
				if hit {
					return d.caseBody(f, cc, env)
				}
			}
		}
		if def != nil {
			return d.caseBody(f, def, env)
		}
		return dret{}
	case *ast.EmptyStmt:
		return dret{}
	}
	d.undecided("statement %T at %s is outside the decidable fragment", s, d.Prog.Pos(s.Pos()))
	return dret{}
}

func (d *DEval) caseBody(f *Func, cc *ast.CaseClause, env map[types.Object]dval) dret {
	for _, s := range cc.Body {
		if b, ok := s.(*ast.BranchStmt); ok {
			if b.Tok == token.BREAK {
				return dret{}
			}
			d.undecided("%s in switch at %s", b.Tok, d.Prog.Pos(b.Pos()))
			return dret{}
		}
		r := d.stmt(f, s, env)
		if r.returned || r.panicked || d.Undecided != "" {
			return r
		}
	}
	return dret{}
}

func (d *DEval) lookup(path string) (string, bool) {
	v, ok := d.Model[path]
	return v, ok
}

func (d *DEval) equal(a, b dval) bool {
	x, y := d.scal(a), d.scal(b)
	if m, ok := atoiSym(x); ok {
		if n, ok := atoiSym(y); ok {
			return m == n // integer literals, constants and numeric symbols compare by value
		}
	}
	return x == y
}

// scal resolves a value to its scalar symbol.
func (d *DEval) scal(v dval) string {
	if v.scalar {
		return v.s
	}
	if s, ok := d.lookup(v.s); ok {
		return s
	}
	d.undecided("the model has no value for %s (term outside the declared input space)", v.s)
	return "?"
}

func boolVal(b bool) dval {
	if b {
		return dval{scalar: true, s: "true"}
	}
	return dval{scalar: true, s: "false"}
}

// expr evaluates an expression; the second result reports a nil dereference.
func (d *DEval) expr(f *Func, e ast.Expr, env map[types.Object]dval) (dval, bool) {
	info := f.Info()
	switch x := ast.Unparen(e).(type) {
	case *ast.BasicLit:
		if x.Kind == token.INT {
			return dval{scalar: true, s: x.Value}, false
		}
		return dval{scalar: true, s: "lit:" + x.Value}, false
	case *ast.Ident:
		switch x.Name {
		case "true", "false":
			if _, isConst := info.Uses[x].(*types.Const); isConst {
				return dval{scalar: true, s: x.Name}, false
			}
		case "nil":
			return dval{scalar: true, s: "nil"}, false
		}
		o := info.Uses[x]
		if o == nil {
			o = info.Defs[x]
		}
		if v, ok := env[o]; ok {
			return v, false
		}
		if s, ok := d.Consts[o]; ok {
			return dval{scalar: true, s: s}, false
		}
		if c, ok := o.(*types.Const); ok {
			return dval{scalar: true, s: "const:" + c.Val().ExactString()}, false
		}
		d.undecided("identifier %s at %s is not an input, local or constant", x.Name, d.Prog.Pos(x.Pos()))
		return dval{}, false
	case *ast.SelectorExpr:
		if o, ok := info.Uses[x.Sel].(*types.Const); ok {
			if s, ok := d.Consts[o]; ok {
				return dval{scalar: true, s: s}, false
			}
			return dval{scalar: true, s: "const:" + o.Val().ExactString()}, false
		}
		base, p := d.expr(f, x.X, env)
		if p {
			return dval{}, true
		}
		if base.scalar {
			d.undecided("field of a scalar at %s", d.Prog.Pos(x.Pos()))
			return dval{}, false
		}
		// implicit dereference through a pointer-typed base
		if _, isPtr := info.TypeOf(x.X).Underlying().(*types.Pointer); isPtr {
			if s, _ := d.lookup(base.s); s == "nil" {
				return dval{}, true
			}
			return dval{s: "*" + base.s + "." + x.Sel.Name}, false
		}
		return dval{s: base.s + "." + x.Sel.Name}, false
	case *ast.StarExpr:
		v, p := d.expr(f, x.X, env)
		if p {
			return dval{}, true
		}
		if v.scalar {
			d.undecided("dereference of a scalar at %s", d.Prog.Pos(x.Pos()))
			return dval{}, false
		}
		if s, _ := d.lookup(v.s); s == "nil" {
			return dval{}, true
		}
		return dval{s: "*" + v.s}, false
	case *ast.UnaryExpr:
		if x.Op == token.NOT {
			v, p := d.expr(f, x.X, env)
			return boolVal(d.scal(v) != "true"), p
		}
	case *ast.BinaryExpr:
		switch x.Op {
		case token.LAND:
			l, p := d.expr(f, x.X, env)
			if p {
				return dval{}, true
			}
			if d.scal(l) != "true" {
				return boolVal(false), false
			}
			r, p := d.expr(f, x.Y, env)
			return boolVal(d.scal(r) == "true"), p
		case token.LOR:
			l, p := d.expr(f, x.X, env)
			if p {
				return dval{}, true
			}
			if d.scal(l) == "true" {
				return boolVal(true), false
			}
			r, p := d.expr(f, x.Y, env)
			return boolVal(d.scal(r) == "true"), p
		case token.LSS, token.LEQ, token.GTR, token.GEQ:
			// order comparisons: both sides must resolve to small integers of the
			// abstract universe (values touched only through comparisons: a finite
			// set of orderings)
			l, p := d.expr(f, x.X, env)
			if p {
				return dval{}, true
			}
			r, p := d.expr(f, x.Y, env)
			if p {
				return dval{}, true
			}
			a, okA := atoiSym(d.scal(l))
			b, okB := atoiSym(d.scal(r))
			if !okA || !okB {
				d.undecided("order comparison of non-numeric abstract values at %s", d.Prog.Pos(x.Pos()))
				return dval{}, false
			}
			switch x.Op {
			case token.LSS:
				return boolVal(a < b), false
			case token.LEQ:
				return boolVal(a <= b), false
			case token.GTR:
				return boolVal(a > b), false
			default:
				return boolVal(a >= b), false
			}
		case token.EQL, token.NEQ:
			l, p := d.expr(f, x.X, env)
			if p {
				return dval{}, true
			}
			r, p := d.expr(f, x.Y, env)
			if p {
				return dval{}, true
			}
			eq := d.equal(l, r)
			// pointer compared with nil: "ptr" != "nil"
			return boolVal(eq == (x.Op == token.EQL)), false
		}
	case *ast.IndexExpr:
		base, p := d.expr(f, x.X, env)
		if p {
			return dval{}, true
		}
		idx, p := d.expr(f, x.Index, env)
		if p {
			return dval{}, true
		}
		if base.scalar {
			d.undecided("index of a scalar at %s", d.Prog.Pos(x.Pos()))
			return dval{}, false
		}
		return dval{s: base.s + "[" + d.scal(idx) + "]"}, false
	case *ast.CallExpr:
		// len(x) of an input is itself an input: "len(<path>)"
		if Builtin("len")(info, x) && len(x.Args) == 1 {
			v, p := d.expr(f, x.Args[0], env)
			if p {
				return dval{}, true
			}
			if !v.scalar {
				return dval{s: "len(" + v.s + ")"}, false
			}
		}
		fn := Callee(info, x)
		// opaque functions: their result is an input of the table
		if path, ok := d.Opaque[FName(fn)]; ok {
			// "name()" = the result depends on the receiver: one input per receiver path
			if strings.HasSuffix(path, "()") {
				if se, isSel := ast.Unparen(x.Fun).(*ast.SelectorExpr); isSel {
					rv, p := d.expr(f, se.X, env)
					if p {
						return dval{}, true
					}
					return dval{s: strings.TrimSuffix(path, "()") + "(" + rv.s + ")"}, false
				}
			}
			return dval{s: path}, false
		}
		callee := d.Prog.FuncOf(fn)
		if callee != nil && callee.Decl.Body != nil {
			var args []dval
			if se, ok := ast.Unparen(x.Fun).(*ast.SelectorExpr); ok && callee.Decl.Recv != nil {
				v, p := d.expr(f, se.X, env)
				if p {
					return dval{}, true
				}
				args = append(args, v)
			}
			for _, a := range x.Args {
				v, p := d.expr(f, a, env)
				if p {
					return dval{}, true
				}
				args = append(args, v)
			}
			r := d.CallFunc(callee, args)
			if r.panicked {
				return dval{}, true
			}
			if len(r.vals) == 1 {
				return r.vals[0], false
			}
			d.undecided("call of %s at %s does not yield a single value", callee, d.Prog.Pos(x.Pos()))
			return dval{}, false
		}
		d.undecided("call of %s at %s cannot be inlined", FName(fn), d.Prog.Pos(x.Pos()))
		return dval{}, false
	}
	d.undecided("expression %s at %s is outside the decidable fragment", Trim(ExprStr(e), 60), d.Prog.Pos(e.Pos()))
	return dval{}, false
}

// Path builds an input value rooted at the given access path.
func Path(p string) dval { return dval{s: p} }

// Sym builds a scalar input value.
func Sym(s string) dval { return dval{scalar: true, s: s} }

// DDomain describes one leaf of the input space: its path and candidate symbols.
// Pointer leaves list "nil" and "ptr"; their pointee is a separate leaf "*path"
// that only matters when the pointer is "ptr".
type DDomain struct {
	Path   string
	Values []string
}

// EnumModels enumerates the cartesian product of the domains. Pointee leaves of
// nil pointers are fixed to their first value (irrelevant), which removes
// duplicate rows.
func EnumModels(doms []DDomain, visit func(DModel)) int {
	n := 0
	m := DModel{}
	var rec func(i int)
	rec = func(i int) {
		if i == len(doms) {
			n++
			visit(m)
			return
		}
		d := doms[i]
		vals := d.Values
		if strings.HasPrefix(d.Path, "*") && m[d.Path[1:]] == "nil" {
			vals = vals[:1]
		}
		for _, v := range vals {
			m[d.Path] = v
			rec(i + 1)
		}
		delete(m, d.Path)
	}
	rec(0)
	return n
}

// String renders a model compactly (sorted).
func (m DModel) String() string {
	var ks []string
	for k := range m {
		ks = append(ks, k)
	}
	sort.Strings(ks)
	var b strings.Builder
	for _, k := range ks {
		fmt.Fprintf(&b, "%s=%s ", k, m[k])
	}
	return strings.TrimSpace(b.String())
}

// Result of evaluating a function on one model.
type DResult struct {
	Value    string // scalar symbol of the single result ("true"/"false"/…)
	Panicked bool
}

// EvalOn evaluates f on model m with the given argument roots.
func EvalOn(p *Prog, f *Func, m DModel, args []dval, consts map[types.Object]string, effectFree []string) (DResult, string) {
	return EvalOnX(p, f, m, args, consts, effectFree, nil)
}

// EvalExprOn evaluates a single expression of f (e.g. the condition guarding an
// effect) with the given variables bound to abstract values.
func EvalExprOn(p *Prog, f *Func, e ast.Expr, m DModel, bind map[types.Object]DVal, consts map[types.Object]string, opaque map[string]string) (DResult, string) {
	d := &DEval{Prog: p, Model: m, Consts: consts, Opaque: opaque}
	env := map[types.Object]dval{}
	for o, v := range bind {
		env[o] = v
	}
	v, panicked := d.expr(f, e, env)
	if d.Undecided != "" {
		return DResult{}, d.Undecided
	}
	if panicked {
		return DResult{Panicked: true}, ""
	}
	return DResult{Value: d.scal(v)}, d.Undecided
}

// EvalOnX is EvalOn with opaque callees (callee name -> model path of its result).
func EvalOnX(p *Prog, f *Func, m DModel, args []dval, consts map[types.Object]string, effectFree []string, opaque map[string]string) (DResult, string) {
	d := &DEval{Prog: p, Model: m, Consts: consts, EffectFree: effectFree, Opaque: opaque}
	r := d.CallFunc(f, args)
	if d.Undecided != "" {
		return DResult{}, d.Undecided
	}
	if r.panicked {
		return DResult{Panicked: true}, ""
	}
	if !r.returned || len(r.vals) != 1 {
		return DResult{}, "function does not return a single value on this row"
	}
	return DResult{Value: d.scal(r.vals[0])}, d.Undecided
}

// DVal is the exported name of an abstract value (for rule files).
type DVal = dval
