package core

// Helpers added for the C01/C03/C04 rule sets (rw1). Everything here is decided
// on resolved structure: objects, fields, callees, CFG edges.

import (
	"bytes"
	"fmt"
	"go/ast"
	"go/constant"
	"go/printer"
	"go/token"
	"go/types"
	"regexp"
	"sort"
	"strings"

	"golang.org/x/tools/go/cfg"
)

// ---------------------------------------------------------------- expressions

// X1RootObj strips selectors, indexing, slicing, derefs, address-of, parens and
// type assertions and returns the object of the root identifier (nil if the
// root is not an identifier, e.g. a call).
func X1RootObj(info *types.Info, e ast.Expr) types.Object {
	for {
		switch t := e.(type) {
		case *ast.ParenExpr:
			e = t.X
		case *ast.SelectorExpr:
			// a qualified identifier pkg.X has no root variable
			if id, ok := t.X.(*ast.Ident); ok {
				if _, isPkg := info.Uses[id].(*types.PkgName); isPkg {
					return info.Uses[t.Sel]
				}
			}
			e = t.X
		case *ast.IndexExpr:
			e = t.X
		case *ast.SliceExpr:
			e = t.X
		case *ast.StarExpr:
			e = t.X
		case *ast.TypeAssertExpr:
			e = t.X
		case *ast.UnaryExpr:
			if t.Op != token.AND {
				return nil
			}
			e = t.X
		case *ast.Ident:
			return ObjOf(info, t)
		default:
			return nil
		}
	}
}

// X1FieldPath resolves x.f.g (parens/derefs ignored) into its root object and the
// chain of struct fields selected from it. ok=false if e is not such a chain.
func X1FieldPath(info *types.Info, e ast.Expr) (root types.Object, path []*types.Var, ok bool) {
	for {
		switch t := e.(type) {
		case *ast.ParenExpr:
			e = t.X
			continue
		case *ast.StarExpr:
			e = t.X
			continue
		case *ast.SelectorExpr:
			f := FieldOf(info, t)
			if f == nil {
				return nil, nil, false
			}
			path = append([]*types.Var{f}, path...)
			e = t.X
			continue
		case *ast.Ident:
			o := ObjOf(info, t)
			if o == nil {
				return nil, nil, false
			}
			return o, path, true
		}
		return nil, nil, false
	}
}

// X1PathString renders a field chain as "a.b".
func X1PathString(path []*types.Var) string {
	var s []string
	for _, f := range path {
		s = append(s, f.Name())
	}
	return strings.Join(s, ".")
}

// X1MentionsField reports whether a selection of the given field occurs in n.
func X1MentionsField(info *types.Info, n ast.Node, field *types.Var) bool {
	found := false
	if n == nil || field == nil {
		return false
	}
	ast.Inspect(n, func(x ast.Node) bool {
		if se, ok := x.(*ast.SelectorExpr); ok && FieldOf(info, se) == field {
			found = true
		}
		return !found
	})
	return found
}

// X1MentionsObj reports whether an identifier denoting obj occurs in n.
func X1MentionsObj(info *types.Info, n ast.Node, obj types.Object) bool {
	found := false
	if n == nil || obj == nil {
		return false
	}
	ast.Inspect(n, func(x ast.Node) bool {
		if id, ok := x.(*ast.Ident); ok && (info.Uses[id] == obj || info.Defs[id] == obj) {
			found = true
		}
		return !found
	})
	return found
}

// X1IsConstBool reports whether e is the constant val.
func X1IsConstBool(info *types.Info, e ast.Expr, val bool) bool {
	tv, ok := info.Types[e]
	if !ok || tv.Value == nil || tv.Value.Kind() != constant.Bool {
		return false
	}
	return constant.BoolVal(tv.Value) == val
}

// X1IsConstInt reports whether e is the integer constant v.
func X1IsConstInt(info *types.Info, e ast.Expr, v int64) bool {
	tv, ok := info.Types[e]
	if !ok || tv.Value == nil {
		return false
	}
	i, exact := constant.Int64Val(constant.ToInt(tv.Value))
	return exact && i == v
}

// Param returns the i-th parameter object of f (nil if out of range).
func (f *Func) X1Param(i int) *types.Var {
	sig, _ := f.Obj.Type().(*types.Signature)
	if sig == nil || i < 0 || i >= sig.Params().Len() {
		return nil
	}
	return sig.Params().At(i)
}

// Result returns the i-th result object of f.
func (f *Func) X1Result(i int) *types.Var {
	sig, _ := f.Obj.Type().(*types.Signature)
	if sig == nil || i < 0 || i >= sig.Results().Len() {
		return nil
	}
	return sig.Results().At(i)
}

// Recv returns the receiver object of f.
func (f *Func) X1Recv() *types.Var {
	sig, _ := f.Obj.Type().(*types.Signature)
	if sig == nil {
		return nil
	}
	return sig.Recv()
}

// X1Assignment is one place where a local variable receives a value.
type X1Assignment struct {
	Stmt ast.Node      // *ast.AssignStmt, *ast.ValueSpec, *ast.RangeStmt, *ast.IncDecStmt
	Rhs  ast.Expr      // the matching right-hand side; nil for tuple assignments, range and inc/dec
	Call *ast.CallExpr // for tuple assignment from one call: the call
	Idx  int           // position of the variable on the left-hand side
}

// X1AssignmentsTo lists every assignment to the local variable obj in body
// (definitions, plain and op-assignments, inc/dec, range clauses, var specs with
// values). A `var x T` without value is not listed (zero value).
func X1AssignmentsTo(info *types.Info, body ast.Node, obj types.Object) []X1Assignment {
	var out []X1Assignment
	if obj == nil {
		return nil
	}
	ast.Inspect(body, func(n ast.Node) bool {
		switch s := n.(type) {
		case *ast.AssignStmt:
			for i, l := range s.Lhs {
				if ObjOf(info, l) != obj {
					continue
				}
				a := X1Assignment{Stmt: s, Idx: i}
				if len(s.Lhs) == len(s.Rhs) {
					a.Rhs = s.Rhs[i]
				} else if len(s.Rhs) == 1 {
					a.Call, _ = ast.Unparen(s.Rhs[0]).(*ast.CallExpr)
				}
				out = append(out, a)
			}
		case *ast.ValueSpec:
			for i, nm := range s.Names {
				if info.Defs[nm] != obj || len(s.Values) == 0 {
					continue
				}
				a := X1Assignment{Stmt: s, Idx: i}
				if len(s.Values) == len(s.Names) {
					a.Rhs = s.Values[i]
				} else if len(s.Values) == 1 {
					a.Call, _ = ast.Unparen(s.Values[0]).(*ast.CallExpr)
				}
				out = append(out, a)
			}
		case *ast.IncDecStmt:
			if ObjOf(info, s.X) == obj {
				out = append(out, X1Assignment{Stmt: s})
			}
		case *ast.RangeStmt:
			if s.Key != nil && ObjOf(info, s.Key) == obj {
				out = append(out, X1Assignment{Stmt: s, Idx: 0})
			}
			if s.Value != nil && ObjOf(info, s.Value) == obj {
				out = append(out, X1Assignment{Stmt: s, Idx: 1})
			}
		}
		return true
	})
	return out
}

// X1OnlyFromCall reports whether every assignment to obj in body takes result idx
// of a call of class m (at least one assignment). Returns the calls.
func X1OnlyFromCall(info *types.Info, body ast.Node, obj types.Object, m Matcher, idx int) ([]*ast.CallExpr, bool) {
	as := X1AssignmentsTo(info, body, obj)
	if len(as) == 0 {
		return nil, false
	}
	var calls []*ast.CallExpr
	for _, a := range as {
		var c *ast.CallExpr
		switch {
		case a.Call != nil && a.Idx == idx:
			c = a.Call
		case a.Rhs != nil && idx == 0:
			c, _ = ast.Unparen(a.Rhs).(*ast.CallExpr)
		}
		if c == nil || !m(info, c) {
			return nil, false
		}
		calls = append(calls, c)
	}
	return calls, true
}

// ---------------------------------------------------------------- node predicates

// StoresToObj selects nodes that assign to the local variable obj.
func (g *Graph) X1StoresToObj(obj types.Object) NodePred {
	return func(n *Node) bool {
		if n.N == nil || obj == nil {
			return false
		}
		found := false
		Walk(n.N, WalkOpts{}, func(x ast.Node) bool {
			switch s := x.(type) {
			case *ast.AssignStmt:
				for _, l := range s.Lhs {
					if ObjOf(g.Info, l) == obj {
						found = true
					}
				}
			case *ast.IncDecStmt:
				if ObjOf(g.Info, s.X) == obj {
					found = true
				}
			}
			return true
		})
		return found
	}
}

// CallingWith selects nodes containing (evaluated in place) a call of class m
// that additionally satisfies ok.
func (g *Graph) X1CallingWith(m Matcher, ok func(c *ast.CallExpr) bool) NodePred {
	return func(n *Node) bool {
		if n.N == nil {
			return false
		}
		for _, c := range CallsIn(g.Info, n.N, m, WalkOpts{}) {
			if ok(c) {
				return true
			}
		}
		return false
	}
}

// x1RangeStmts maps the X expression of every range statement in body to the statement.
func x1RangeStmts(body ast.Node) map[ast.Expr]*ast.RangeStmt {
	out := map[ast.Expr]*ast.RangeStmt{}
	ast.Inspect(body, func(n ast.Node) bool {
		if rs, ok := n.(*ast.RangeStmt); ok {
			out[rs.X] = rs
		}
		return true
	})
	return out
}

// Ranging selects the node that evaluates the operand of a `for … range X`
// statement for which sel(rangeStmt) holds. Every execution of the loop (also a
// loop over zero elements) passes this node.
func (g *Graph) X1Ranging(sel func(rs *ast.RangeStmt) bool) NodePred {
	rs := x1RangeStmts(g.Body)
	return func(n *Node) bool {
		e, ok := n.N.(ast.Expr)
		if !ok {
			return false
		}
		st := rs[e]
		return st != nil && sel(st)
	}
}

// X1IsExit reports whether n is an exit node of its graph.
func X1IsExit(n *Node) bool { return len(n.Succ) == 0 }

// X1ExitsIn returns the exit nodes inside a reach set that are not panics.
func X1ExitsIn(reach map[*Node]bool) []*Node {
	var out []*Node
	for n := range reach {
		if X1IsExit(n) && n.Kind != KPanic {
			out = append(out, n)
		}
	}
	sort.Slice(out, func(i, j int) bool { return out[i].ID < out[j].ID })
	return out
}

// X1Succs returns the successor nodes of n.
func X1Succs(n *Node) []*Node { return After(n, nil) }

// X1SuccsOf returns the successors of all the given nodes.
func X1SuccsOf(ns []*Node) []*Node {
	var out []*Node
	for _, n := range ns {
		out = append(out, X1Succs(n)...)
	}
	return out
}

// IsSuccessExit reports whether x is one of g's success exits.
func (g *Graph) X1IsSuccessExit(x *Node) bool {
	for _, s := range g.X1SuccessExitsX() {
		if s == x {
			return true
		}
	}
	return false
}

// ---------------------------------------------------------------- edge predicates

// X1OrEdges combines edge predicates.
func X1OrEdges(ps ...EdgePred) EdgePred {
	return func(e *Edge) bool {
		for _, p := range ps {
			if p != nil && p(e) {
				return true
			}
		}
		return false
	}
}

// X1Fact is a boolean sub-expression of a branch condition together with the truth
// value it is known to have on an edge.
type X1Fact struct {
	E    ast.Expr
	True bool
}

// X1EdgeFacts decomposes the condition of a conditional edge into the atomic facts
// that hold on it. go/cfg does not split && / ||, so `a && b` taken as true
// yields {a, b} true, `a || b` taken as false yields {a, b} false, `!a` flips; a
// disjunction known true (or a conjunction known false) is kept whole.
func X1EdgeFacts(e *Edge) []X1Fact {
	if e.Cond == nil || e.Tag != nil {
		return nil
	}
	var out []X1Fact
	var walk func(x ast.Expr, truth bool)
	walk = func(x ast.Expr, truth bool) {
		x = ast.Unparen(x)
		switch t := x.(type) {
		case *ast.UnaryExpr:
			if t.Op == token.NOT {
				walk(t.X, !truth)
				return
			}
		case *ast.BinaryExpr:
			if (t.Op == token.LAND && truth) || (t.Op == token.LOR && !truth) {
				walk(t.X, truth)
				walk(t.Y, truth)
				return
			}
		}
		out = append(out, X1Fact{x, truth})
	}
	walk(e.Cond, e.Branch)
	return out
}

// X1FactPred is a property of one fact.
type X1FactPred func(X1Fact) bool

// X1AnyFact is the disjunction of fact predicates.
func X1AnyFact(ps ...X1FactPred) X1FactPred {
	return func(f X1Fact) bool {
		for _, p := range ps {
			if p != nil && p(f) {
				return true
			}
		}
		return false
	}
}

// x1FactHolds: p is established by fact f — directly, or f is a disjunction known
// true (conjunction known false) every alternative of which establishes p.
func x1FactHolds(f X1Fact, p X1FactPred) bool {
	if p(f) {
		return true
	}
	x := ast.Unparen(f.E)
	if u, ok := x.(*ast.UnaryExpr); ok && u.Op == token.NOT {
		return x1FactHolds(X1Fact{ast.Unparen(u.X), !f.True}, p)
	}
	be, ok := x.(*ast.BinaryExpr)
	if !ok {
		return false
	}
	if (be.Op == token.LOR && f.True) || (be.Op == token.LAND && !f.True) {
		return x1FactHolds(X1Fact{ast.Unparen(be.X), f.True}, p) && x1FactHolds(X1Fact{ast.Unparen(be.Y), f.True}, p)
	}
	return false
}

// X1FactEdge selects edges on which p is established: by one of the edge's facts,
// or by every alternative of a disjunctive fact (`a || b` taken as true selects
// the edge when both a and b establish p).
func X1FactEdge(p X1FactPred) EdgePred {
	return func(e *Edge) bool {
		for _, f := range X1EdgeFacts(e) {
			if x1FactHolds(f, p) {
				return true
			}
		}
		return false
	}
}

// X1BoolFact: the boolean expression recognised by is has value val.
func X1BoolFact(is func(ast.Expr) bool, val bool) X1FactPred {
	return func(f X1Fact) bool { return f.True == val && is(f.E) }
}

// X1BoolEdge selects the edges on which the boolean expression recognised by is
// (e.g. a local flag, a field) is known to equal val.
func X1BoolEdge(is func(ast.Expr) bool, val bool) EdgePred { return X1FactEdge(X1BoolFact(is, val)) }

// X1IsObj returns a recogniser for identifiers denoting obj.
func X1IsObj(info *types.Info, obj types.Object) func(ast.Expr) bool {
	return func(e ast.Expr) bool { return obj != nil && ObjOf(info, e) == obj }
}

// X1IsField returns a recogniser for selections of field.
func X1IsField(info *types.Info, field *types.Var) func(ast.Expr) bool {
	return func(e ast.Expr) bool { return field != nil && FieldOf(info, e) == field }
}

// X1Rel is a comparison relation.
type X1Rel int

const (
	X1LT X1Rel = iota
	X1LE
	X1EQ
	X1NE
	X1GE
	X1GT
)

func x1RelOf(op token.Token) (X1Rel, bool) {
	switch op {
	case token.LSS:
		return X1LT, true
	case token.LEQ:
		return X1LE, true
	case token.EQL:
		return X1EQ, true
	case token.NEQ:
		return X1NE, true
	case token.GEQ:
		return X1GE, true
	case token.GTR:
		return X1GT, true
	}
	return 0, false
}

func (r X1Rel) x1Negate() X1Rel { return [...]X1Rel{X1GE, X1GT, X1NE, X1EQ, X1LT, X1LE}[r] }
func (r X1Rel) x1Flip() X1Rel   { return [...]X1Rel{X1GT, X1GE, X1EQ, X1NE, X1LE, X1LT}[r] }

// implies: "x r y" implies "x want y".
func (r X1Rel) x1Implies(want X1Rel) bool {
	if r == want {
		return true
	}
	switch want {
	case X1LE:
		return r == X1LT || r == X1EQ
	case X1GE:
		return r == X1GT || r == X1EQ
	case X1NE:
		return r == X1LT || r == X1GT
	}
	return false
}

// X1CmpEdge selects the edges on which "X want Y" is established by a comparison
// condition, where X and Y are recognised by isX / isY (either operand order,
// either branch: `x <= y` true, `y < x` false, …).
func X1CmpEdge(isX, isY func(ast.Expr) bool, want X1Rel) EdgePred {
	return X1FactEdge(X1CmpFact(isX, isY, want))
}

// X1CmpFact is the fact-level form of X1CmpEdge.
func X1CmpFact(isX, isY func(ast.Expr) bool, want X1Rel) X1FactPred {
	return func(f X1Fact) bool {
		be, ok := f.E.(*ast.BinaryExpr)
		if !ok {
			return false
		}
		r, ok := x1RelOf(be.Op)
		if !ok {
			return false
		}
		if !f.True {
			r = r.x1Negate()
		}
		x, y := ast.Unparen(be.X), ast.Unparen(be.Y)
		if isX(x) && isY(y) {
			return r.x1Implies(want)
		}
		if isX(y) && isY(x) {
			return r.x1Flip().x1Implies(want)
		}
		return false
	}
}

// X1CmpAtom decodes a comparison expression into "X rel Y" (as written, true branch).
func X1CmpAtom(e ast.Expr) (x, y ast.Expr, r X1Rel, ok bool) {
	be, isBin := ast.Unparen(e).(*ast.BinaryExpr)
	if !isBin {
		return nil, nil, 0, false
	}
	r, ok = x1RelOf(be.Op)
	return ast.Unparen(be.X), ast.Unparen(be.Y), r, ok
}

// X1AtomHolds: the comparison expression e (taken as true) establishes "X want Y".
func X1AtomHolds(e ast.Expr, isX, isY func(ast.Expr) bool, want X1Rel) bool {
	x, y, r, ok := X1CmpAtom(e)
	if !ok {
		return false
	}
	if isX(x) && isY(y) {
		return r.x1Implies(want)
	}
	if isX(y) && isY(x) {
		return r.x1Flip().x1Implies(want)
	}
	return false
}

// X1Conjuncts splits a && b && c into its operands; ok=false if the expression
// contains a top-level || (or a negated group).
func X1Conjuncts(e ast.Expr) (atoms []ast.Expr, ok bool) {
	e = ast.Unparen(e)
	if be, isBin := e.(*ast.BinaryExpr); isBin {
		switch be.Op {
		case token.LAND:
			l, ok1 := X1Conjuncts(be.X)
			r, ok2 := X1Conjuncts(be.Y)
			return append(l, r...), ok1 && ok2
		case token.LOR:
			return nil, false
		}
	}
	return []ast.Expr{e}, true
}

// X1IsLenOf recognises len(x) where x is recognised by is.
func X1IsLenOf(info *types.Info, is func(ast.Expr) bool) func(ast.Expr) bool {
	return func(e ast.Expr) bool {
		c, ok := ast.Unparen(e).(*ast.CallExpr)
		return ok && Builtin("len")(info, c) && len(c.Args) == 1 && is(ast.Unparen(c.Args[0]))
	}
}

// X1IsIntConst recognises the integer constant v.
func X1IsIntConst(info *types.Info, v int64) func(ast.Expr) bool {
	return func(e ast.Expr) bool { return X1IsConstInt(info, e, v) }
}

// X1LenZeroEdge selects edges on which len(x)==0 is established (zero=true) or
// refuted (zero=false), x recognised by is.
func X1LenZeroEdge(info *types.Info, is func(ast.Expr) bool, zero bool) EdgePred {
	return X1FactEdge(X1LenZeroFact(info, is, zero))
}

// X1LenZeroFact is the fact-level form of X1LenZeroEdge.
func X1LenZeroFact(info *types.Info, is func(ast.Expr) bool, zero bool) X1FactPred {
	l, z := X1IsLenOf(info, is), X1IsIntConst(info, 0)
	if zero {
		return X1AnyFact(X1CmpFact(l, z, X1EQ), X1CmpFact(l, z, X1LE))
	}
	return X1AnyFact(X1CmpFact(l, z, X1GT), X1CmpFact(l, z, X1NE))
}

// X1NilEdge selects the edges on which the expression recognised by is is nil
// (isNil=true) or non-nil.
func X1NilEdge(info *types.Info, is func(ast.Expr) bool, isNil bool) EdgePred {
	return X1FactEdge(X1NilFact(info, is, isNil))
}

// X1NilFact is the fact-level form of X1NilEdge.
func X1NilFact(info *types.Info, is func(ast.Expr) bool, isNil bool) X1FactPred {
	return func(f X1Fact) bool {
		x, nonNilOnTrue, ok := NilTest(info, f.E)
		if !ok || !is(x) {
			return false
		}
		nonNil := f.True == nonNilOnTrue
		return nonNil != isNil
	}
}

// X1SamePath returns a recogniser for expressions denoting the same root object
// and field chain as ref (e.g. `res.err`).
func X1SamePath(info *types.Info, ref ast.Expr) func(ast.Expr) bool {
	r0, p0, ok0 := X1FieldPath(info, ref)
	return func(e ast.Expr) bool {
		r1, p1, ok1 := X1FieldPath(info, e)
		if !ok0 || !ok1 || r0 != r1 || len(p0) != len(p1) {
			return false
		}
		for i := range p0 {
			if p0[i] != p1[i] {
				return false
			}
		}
		return true
	}
}

// SuccessExitsX refines SuccessExits: a return whose error operand is a field
// selection x.f that is only reachable through the non-nil branch of a test of
// the same x.f is failing as well.
func (g *Graph) X1SuccessExitsX() []*Node {
	idx := errResultIndex(g.Sig)
	var out []*Node
	for _, x := range g.SuccessExits() {
		rs, ok := x.N.(*ast.ReturnStmt)
		if ok && idx >= 0 && len(rs.Results) == g.Sig.Results().Len() {
			if se, isSel := ast.Unparen(rs.Results[idx]).(*ast.SelectorExpr); isSel && FieldOf(g.Info, se) != nil {
				if !g.ReachFromEntry(nil, X1NilEdge(g.Info, X1SamePath(g.Info, se), false))[x] {
					continue
				}
			}
		}
		out = append(out, x)
	}
	return out
}

// ---------------------------------------------------------------- once-flag gating

// OnceGate decides "node X is only reachable after gate", in the presence of the
// idiom
//
//	if !done { gate(); …; done = true }
//
// where done is a local boolean that starts false and is only ever set to the
// constant true at places that are themselves behind the gate. Edges on which
// the flag is known to be true then imply that the gate was passed. It returns
// the reach set "nodes reachable from entry without having passed the gate";
// ok=false (with a reason) when the flag does not satisfy the obligations.
func (g *Graph) X1OnceGate(gate NodePred, flag types.Object) (ungated map[*Node]bool, ok bool, why string) {
	if flag == nil {
		return g.ReachFromEntry(gate, nil), true, ""
	}
	v, isVar := flag.(*types.Var)
	if !isVar || !types.Identical(v.Type().Underlying(), types.Typ[types.Bool]) {
		return nil, false, "flag is not a boolean variable"
	}
	// initial value false: declared by `var x bool` (no value) or with constant false
	for _, a := range X1AssignmentsTo(g.Info, g.Body, flag) {
		switch {
		case a.Rhs != nil && X1IsConstBool(g.Info, a.Rhs, true):
		case a.Rhs != nil && X1IsConstBool(g.Info, a.Rhs, false):
			// only legal as the defining assignment
			as, isAssign := a.Stmt.(*ast.AssignStmt)
			_, isSpec := a.Stmt.(*ast.ValueSpec)
			if !(isSpec || (isAssign && as.Tok == token.DEFINE)) {
				return nil, false, "flag is reset to false at " + g.Prog.Pos(a.Stmt.Pos())
			}
		default:
			return nil, false, "flag is assigned a non-constant at " + g.Prog.Pos(a.Stmt.Pos())
		}
	}
	// the flag must not escape (address taken / captured by a literal that writes it)
	escaped := false
	ast.Inspect(g.Body, func(n ast.Node) bool {
		if u, ok := n.(*ast.UnaryExpr); ok && u.Op == token.AND && ObjOf(g.Info, u.X) == flag {
			escaped = true
		}
		return true
	})
	if escaped {
		return nil, false, "address of the flag is taken"
	}
	flagTrue := X1BoolEdge(X1IsObj(g.Info, flag), true)
	ungated = g.ReachFromEntry(gate, flagTrue)
	setTrue := func(n *Node) bool {
		if as, ok := n.N.(*ast.AssignStmt); ok {
			for i, l := range as.Lhs {
				if ObjOf(g.Info, l) == flag && i < len(as.Rhs) && X1IsConstBool(g.Info, as.Rhs[i], true) {
					return true
				}
			}
		}
		return false
	}
	sets := g.Select(setTrue)
	if len(sets) == 0 {
		return nil, false, "flag is never set"
	}
	for _, s := range sets {
		if ungated[s] {
			return nil, false, "flag is set to true at " + g.Line(s) + " on a path that did not pass the gate"
		}
	}
	return ungated, true, ""
}

// ---------------------------------------------------------------- E6 sibling uniformity

var (
	x1ReUpperTok = regexp.MustCompile(`Float64|Float|Integer|Unsigned|String|Boolean`)
	x1ReLowerTok = regexp.MustCompile(`float64|int64|uint64|string|bool(ean)?|float|integer|unsigned`)
	// zero literals of the value types (`return tsdb.EOF, 0` / `""` / `false`)
	x1ReZeroLit = regexp.MustCompile("\\b0\\b|\"\"|\\bfalse\\b")
)

// X1NormalizedBody renders the body of f with comments dropped, layout
// canonicalised by go/printer and the value-type tokens abstracted, so that the
// instantiations of one template for the five field types compare equal.
func X1NormalizedBody(f *Func) string {
	var buf bytes.Buffer
	cfgp := printer.Config{Mode: printer.RawFormat, Tabwidth: 1}
	// print signature (without receiver name differences) and body
	fd := *f.Decl
	fd.Doc = nil
	cfgp.Fprint(&buf, token.NewFileSet(), &fd)
	s := buf.String()
	s = x1ReUpperTok.ReplaceAllString(s, "T")
	s = x1ReLowerTok.ReplaceAllString(s, "t")
	s = x1ReZeroLit.ReplaceAllString(s, "Z")
	var lines []string
	for _, l := range strings.Split(s, "\n") {
		l = strings.Join(strings.Fields(l), " ")
		if l != "" {
			lines = append(lines, l)
		}
	}
	return strings.Join(lines, "\n")
}

// x1FirstDiff returns the first differing line pair of two normalised bodies.
func x1FirstDiff(a, b string) (string, string) {
	la, lb := strings.Split(a, "\n"), strings.Split(b, "\n")
	for i := 0; i < len(la) || i < len(lb); i++ {
		var x, y string
		if i < len(la) {
			x = la[i]
		}
		if i < len(lb) {
			y = lb[i]
		}
		if x != y {
			return x, y
		}
	}
	return "", ""
}

// X1RuleSiblings checks that the functions of one template family are identical
// after normalisation. The reference is the body shared by the majority; every
// sibling that differs is reported by name unless listed in exceptions
// (sibling name -> reason). group names the family in the obligation key.
func X1RuleSiblings(r *Report, rule, group string, fs []*Func, min int, exceptions map[string]string) bool {
	if len(fs) < min {
		r.Bad(rule, group, "count", "-", fmt.Sprintf("found %d sibling(s), confirmed by reading: >= %d", len(fs), min))
		return false
	}
	norm := map[*Func]string{}
	count := map[string]int{}
	for _, f := range fs {
		n := X1NormalizedBody(f)
		norm[f] = n
		count[n]++
	}
	best, bestN := "", -1
	for _, f := range fs { // deterministic: first sibling wins ties
		if c := count[norm[f]]; c > bestN {
			best, bestN = norm[f], c
		}
	}
	ok := true
	for _, f := range fs {
		if norm[f] == best {
			continue
		}
		if why, ex := exceptions[f.Name]; ex {
			r.Note("%s: sibling %s differs from the family (accepted: %s)", group, f.Name, why)
			continue
		}
		x, y := x1FirstDiff(best, norm[f])
		r.Bad(rule, group, f.Name, f.Pos(), fmt.Sprintf("differs from its %d sibling(s) after abstracting the value type: family has %q, %s has %q", bestN, Trim(x, 90), f.Name, Trim(y, 90)))
		ok = false
	}
	if ok {
		r.Ok(rule, group, fs[0].Pos(), fmt.Sprintf("%d instantiations identical after abstracting the value type", len(fs)))
	}
	return ok
}

// X1IsEmptyThen reports whether n is the synthetic node of an if-then block that
// holds no statement node (e.g. only a continue/break) and returns the if.
func X1IsEmptyThen(n *Node) (*ast.IfStmt, bool) {
	if n.N != nil || n.Block == nil || n.Block.Kind != cfg.KindIfThen {
		return nil, false
	}
	is, ok := n.Block.Stmt.(*ast.IfStmt)
	return is, ok
}
