package core

import (
	"go/ast"
	"go/constant"
	"go/token"
	"go/types"
)

// Helpers added by rw14 (C35 HyperLogLog, C36 index / id-set structures).

// BackReach14 walks the CFG backwards from target without crossing an edge
// selected by stop. The result holds every node from which target can be reached
// through non-stop edges only (target itself included). "target is freshly
// guarded by stop" ⇔ the set holds neither the entry nor a node that invalidates
// the guard.
func (g *Graph) BackReach14(target *Node, stop EdgePred) map[*Node]bool {
	seen := map[*Node]bool{target: true}
	stack := []*Node{target}
	for len(stack) > 0 {
		n := stack[len(stack)-1]
		stack = stack[:len(stack)-1]
		for _, e := range n.Pred {
			if stop != nil && stop(e) {
				continue
			}
			if !seen[e.From] {
				seen[e.From] = true
				stack = append(stack, e.From)
			}
		}
	}
	return seen
}

// DefinesAny14 reports whether node n (re)defines one of the given local
// variables: assignment, :=, ++/--, or the head of a range statement whose
// key/value is one of them.
func (g *Graph) DefinesAny14(n *Node, objs map[types.Object]bool) bool {
	if len(objs) == 0 {
		return false
	}
	if n.N == nil {
		for _, rs := range g.RangeStmts() {
			if g.RangeHead(rs) == n {
				for _, kv := range []ast.Expr{rs.Key, rs.Value} {
					if kv != nil && objs[ObjOf(g.Info, kv)] {
						return true
					}
				}
			}
		}
		return false
	}
	found := false
	Walk(n.N, WalkOpts{}, func(x ast.Node) bool {
		switch s := x.(type) {
		case *ast.AssignStmt:
			for _, l := range s.Lhs {
				if id, ok := ast.Unparen(l).(*ast.Ident); ok && objs[ObjOf(g.Info, id)] {
					found = true
				}
			}
		case *ast.IncDecStmt:
			if id, ok := ast.Unparen(s.X).(*ast.Ident); ok && objs[ObjOf(g.Info, id)] {
				found = true
			}
		case *ast.RangeStmt:
			for _, kv := range []ast.Expr{s.Key, s.Value} {
				if kv != nil && objs[ObjOf(g.Info, kv)] {
					found = true
				}
			}
		}
		return true
	})
	return found
}

// LocalsIn14 collects the local variables (not fields, not package-level
// objects) mentioned in e.
func LocalsIn14(info *types.Info, e ast.Node) map[types.Object]bool {
	out := map[types.Object]bool{}
	ast.Inspect(e, func(n ast.Node) bool {
		id, ok := n.(*ast.Ident)
		if !ok {
			return true
		}
		v, ok := info.Uses[id].(*types.Var)
		if !ok || v.IsField() || v.Pkg() == nil || v.Parent() == v.Pkg().Scope() {
			return true
		}
		out[v] = true
		return true
	})
	return out
}

// Alpha14 decides whether two expressions of (possibly) two different functions
// are the same computation up to a renaming of local variables. Fields, methods,
// functions, constants and package-level variables must be the identical
// objects; a local of the left function corresponds to exactly one local of the
// right function (the correspondence is built up across calls to Eq, so several
// expression pairs are compared under ONE consistent renaming). Pre-seed Bind to
// fix the correspondence of parameters.
type Alpha14 struct {
	A, B *types.Info
	Bind map[types.Object]types.Object // left local -> right local
	rev  map[types.Object]types.Object
}

// NewAlpha14 creates a comparison between expressions typed by a and b.
func NewAlpha14(a, b *types.Info) *Alpha14 {
	return &Alpha14{A: a, B: b, Bind: map[types.Object]types.Object{}, rev: map[types.Object]types.Object{}}
}

// Tie fixes the correspondence x (left) <-> y (right); false if it contradicts
// an earlier one.
func (al *Alpha14) Tie(x, y types.Object) bool {
	if x == nil || y == nil {
		return false
	}
	if o, ok := al.Bind[x]; ok {
		return o == y
	}
	if o, ok := al.rev[y]; ok {
		return o == x
	}
	al.Bind[x], al.rev[y] = y, x
	return true
}

func isLocal14(o types.Object) bool {
	v, ok := o.(*types.Var)
	return ok && !v.IsField() && v.Pkg() != nil && v.Parent() != v.Pkg().Scope()
}

// Eq compares one pair of expressions.
func (al *Alpha14) Eq(a, b ast.Expr) bool {
	if a == nil || b == nil {
		return a == nil && b == nil
	}
	a, b = ast.Unparen(a), ast.Unparen(b)
	va, vb := ConstVal(al.A, a), ConstVal(al.B, b)
	if va != nil || vb != nil {
		return va != nil && vb != nil && va.Kind() == vb.Kind() && constant.Compare(va, token.EQL, vb)
	}
	switch x := a.(type) {
	case *ast.Ident:
		y, ok := b.(*ast.Ident)
		if !ok {
			return false
		}
		ox, oy := ObjOf(al.A, x), ObjOf(al.B, y)
		if ox == nil || oy == nil {
			return false
		}
		if isLocal14(ox) || isLocal14(oy) {
			return isLocal14(ox) && isLocal14(oy) && al.Tie(ox, oy)
		}
		return ox == oy
	case *ast.SelectorExpr:
		y, ok := b.(*ast.SelectorExpr)
		if !ok {
			return false
		}
		ox, oy := al.A.Uses[x.Sel], al.B.Uses[y.Sel]
		if ox == nil || ox != oy {
			return false
		}
		if _, isPkg := ObjOf(al.A, x.X).(*types.PkgName); isPkg {
			return true
		}
		return al.Eq(x.X, y.X)
	case *ast.CallExpr:
		y, ok := b.(*ast.CallExpr)
		if !ok || len(x.Args) != len(y.Args) || x.Ellipsis.IsValid() != y.Ellipsis.IsValid() {
			return false
		}
		tx, ty := al.A.Types[x.Fun], al.B.Types[y.Fun]
		if tx.IsType() || ty.IsType() {
			if !(tx.IsType() && ty.IsType() && types.Identical(tx.Type, ty.Type)) {
				return false
			}
		} else if tx.IsBuiltin() || ty.IsBuiltin() {
			if !(tx.IsBuiltin() && ty.IsBuiltin() && ExprStr(x.Fun) == ExprStr(y.Fun)) {
				return false
			}
		} else if !al.Eq(x.Fun, y.Fun) {
			return false
		}
		for i := range x.Args {
			if !al.Eq(x.Args[i], y.Args[i]) {
				return false
			}
		}
		return true
	case *ast.StarExpr:
		y, ok := b.(*ast.StarExpr)
		return ok && al.Eq(x.X, y.X)
	case *ast.UnaryExpr:
		y, ok := b.(*ast.UnaryExpr)
		return ok && x.Op == y.Op && al.Eq(x.X, y.X)
	case *ast.BinaryExpr:
		y, ok := b.(*ast.BinaryExpr)
		return ok && x.Op == y.Op && al.Eq(x.X, y.X) && al.Eq(x.Y, y.Y)
	case *ast.IndexExpr:
		y, ok := b.(*ast.IndexExpr)
		return ok && al.Eq(x.X, y.X) && al.Eq(x.Index, y.Index)
	case *ast.SliceExpr:
		y, ok := b.(*ast.SliceExpr)
		return ok && al.Eq(x.X, y.X) && al.Eq(x.Low, y.Low) && al.Eq(x.High, y.High) && al.Eq(x.Max, y.Max)
	}
	return false
}

// AssignedExprs14 returns the right-hand sides of every 1:1 assignment
// (`=`, `:=`) to the local variable obj inside root, in source order; opaque is
// true if obj is also defined some other way (tuple assignment, op=, ++, range).
func AssignedExprs14(info *types.Info, root ast.Node, obj types.Object) (rhs []ast.Expr, opaque bool) {
	for _, d := range DefsOf(info, root, obj) {
		if d.Rhs == nil || d.Range != nil || d.Index >= 0 {
			opaque = true
			continue
		}
		rhs = append(rhs, d.Rhs)
	}
	return
}
