package core

// Helpers added by the m2 strengthening pass (C05, C06, C09). Nothing here looks
// at source text or positions other than for reporting.

import (
	"go/ast"
	"go/token"
	"go/types"
)

// OnlyThroughM2 reports whether target can be reached from the start nodes
// (the function entry when start is nil) only over an edge selected by gate:
// with the gate edges removed, target is unreachable. stop optionally removes
// nodes as well (e.g. the loop head, to stay inside one iteration).
func (g *Graph) OnlyThroughM2(start []*Node, target *Node, gate EdgePred, stop NodePred) bool {
	if start == nil {
		start = []*Node{g.Entry}
	}
	for _, s := range start {
		if s == target {
			return false
		}
	}
	return !g.Reach(start, stop, gate)[target]
}

// NormalExitM2 returns a normally returning exit (return / fall-off, not a
// panic) contained in reach, nil if there is none.
func NormalExitM2(g *Graph, reach map[*Node]bool) *Node {
	var best *Node
	for _, x := range g.Exits {
		if reach[x] && x.Kind != KPanic && (best == nil || x.ID < best.ID) {
			best = x
		}
	}
	return best
}

// CmpEdgeM2 selects the edges that establish a comparison `l op r` accepted by
// test (offered in both operand orders, operator negated on false branches,
// conjunct/disjunct decomposition as in Establishes).
func CmpEdgeM2(test func(l ast.Expr, op token.Token, r ast.Expr) bool) EdgePred {
	return EdgeEstablishing(CmpFact12(test))
}

// MentionsOutsideLenM2 reports whether expression e uses the variable obj other
// than as the operand of len()/cap(): the value of obj itself flows into e.
func MentionsOutsideLenM2(info *types.Info, e ast.Node, obj types.Object) bool {
	found := false
	ast.Inspect(e, func(x ast.Node) bool {
		if found {
			return false
		}
		if c, ok := x.(*ast.CallExpr); ok && (Builtin("len")(info, c) || Builtin("cap")(info, c)) {
			return false
		}
		if id, ok := x.(*ast.Ident); ok && obj != nil && info.Uses[id] == obj {
			found = true
		}
		return true
	})
	return found
}

// DerivedFromM2 computes the set of local variables of body whose value derives
// (through plain assignments / definitions, transitively) from an expression
// accepted by seed. The returned predicate accepts an expression that is
// accepted by seed somewhere inside it or mentions such a variable.
func DerivedFromM2(info *types.Info, body ast.Node, seed func(ast.Expr) bool) func(ast.Expr) bool {
	vars := map[types.Object]bool{}
	has := func(e ast.Expr) bool {
		hit := false
		ast.Inspect(e, func(x ast.Node) bool {
			if hit {
				return false
			}
			if ex, ok := x.(ast.Expr); ok {
				if seed(ex) {
					hit = true
					return false
				}
				if id, ok := ex.(*ast.Ident); ok && vars[info.Uses[id]] {
					hit = true
				}
			}
			return true
		})
		return hit
	}
	for changed := true; changed; {
		changed = false
		ast.Inspect(body, func(n ast.Node) bool {
			as, ok := n.(*ast.AssignStmt)
			if !ok {
				return true
			}
			for i, l := range as.Lhs {
				var rhs ast.Expr
				switch {
				case len(as.Rhs) == len(as.Lhs):
					rhs = as.Rhs[i]
				case len(as.Rhs) == 1:
					rhs = as.Rhs[0]
				}
				o, isVar := ObjOf(info, l).(*types.Var)
				if rhs == nil || !isVar || o.IsField() || vars[o] {
					continue
				}
				if has(rhs) {
					vars[o] = true
					changed = true
				}
			}
			return true
		})
	}
	return func(e ast.Expr) bool { return e != nil && has(e) }
}

// TempsM2 lets a fact see through boolean temporaries: an atom that is a local
// variable with exactly one definition `v := <condition>` establishes the fact
// when that condition, with the atom's truth value, does (Establishes semantics).
func TempsM2(info *types.Info, body ast.Node, fact CondFact) CondFact {
	var wrapped CondFact
	depth := 0
	wrapped = func(a ast.Expr, v bool) bool {
		if fact(a, v) {
			return true
		}
		o, ok := ObjOf(info, a).(*types.Var)
		if !ok || o.IsField() || depth > 3 {
			return false
		}
		if b, isBasic := o.Type().Underlying().(*types.Basic); !isBasic || b.Kind() != types.Bool {
			return false
		}
		d, ok := SingleDef(info, body, o)
		if !ok || d.Rhs == nil || d.Index != -1 || d.Range != nil {
			return false
		}
		depth++
		defer func() { depth-- }()
		return Establishes(d.Rhs, v, wrapped)
	}
	return wrapped
}

// RecvOfCallM2 returns the receiver expression of a method call (nil otherwise).
func RecvOfCallM2(c *ast.CallExpr) ast.Expr {
	if se, ok := ast.Unparen(c.Fun).(*ast.SelectorExpr); ok {
		return ast.Unparen(se.X)
	}
	return nil
}

// ---------------------------------------------------------------- flag-aware reachability

// FlagsM2 returns the local boolean variables of g's body that are only ever
// assigned boolean constants (`keep := true … keep = false`, `var skip bool`).
func (g *Graph) FlagsM2() map[types.Object]bool {
	out := map[types.Object]bool{}
	bad := map[types.Object]bool{}
	note := func(o types.Object, rhs ast.Expr) {
		v, ok := o.(*types.Var)
		if !ok || v.IsField() {
			return
		}
		b, isBasic := v.Type().Underlying().(*types.Basic)
		if !isBasic || b.Kind() != types.Bool {
			return
		}
		if rhs == nil || X1IsConstBool(g.Info, rhs, true) || X1IsConstBool(g.Info, rhs, false) {
			out[o] = true
		} else {
			bad[o] = true
		}
	}
	ast.Inspect(g.Body, func(n ast.Node) bool {
		switch s := n.(type) {
		case *ast.AssignStmt:
			for i, l := range s.Lhs {
				o := ObjOf(g.Info, l)
				if o == nil {
					continue
				}
				if len(s.Lhs) == len(s.Rhs) && (s.Tok == token.ASSIGN || s.Tok == token.DEFINE) {
					note(o, s.Rhs[i])
				} else {
					bad[o] = true
				}
			}
		case *ast.ValueSpec:
			for i, nm := range s.Names {
				o := g.Info.Defs[nm]
				if o == nil {
					continue
				}
				switch {
				case len(s.Values) == 0:
					note(o, nil)
				case len(s.Values) == len(s.Names):
					note(o, s.Values[i])
				default:
					bad[o] = true
				}
			}
		case *ast.RangeStmt:
			for _, e := range []ast.Expr{s.Key, s.Value} {
				if e != nil {
					if o := ObjOf(g.Info, e); o != nil {
						bad[o] = true
					}
				}
			}
		case *ast.UnaryExpr:
			if s.Op == token.AND { // address taken
				if o := ObjOf(g.Info, s.X); o != nil {
					bad[o] = true
				}
			}
		}
		return true
	})
	for o := range bad {
		delete(out, o)
	}
	return out
}

// flagAssignsM2 lists the (flag, value) constant assignments made by node n.
func (g *Graph) flagAssignsM2(n *Node, flags map[types.Object]bool) map[types.Object]bool {
	if n.N == nil {
		return nil
	}
	var out map[types.Object]bool
	set := func(o types.Object, v bool) {
		if out == nil {
			out = map[types.Object]bool{}
		}
		out[o] = v
	}
	spec := func(vs *ast.ValueSpec) {
		for i, nm := range vs.Names {
			o := g.Info.Defs[nm]
			if o == nil || !flags[o] {
				continue
			}
			if len(vs.Values) == len(vs.Names) {
				set(o, X1IsConstBool(g.Info, vs.Values[i], true))
			} else {
				set(o, false)
			}
		}
	}
	switch s := n.N.(type) {
	case *ast.AssignStmt:
		if len(s.Lhs) == len(s.Rhs) {
			for i, l := range s.Lhs {
				if o := ObjOf(g.Info, l); o != nil && flags[o] {
					set(o, X1IsConstBool(g.Info, s.Rhs[i], true))
				}
			}
		}
	case *ast.DeclStmt:
		if gd, ok := s.Decl.(*ast.GenDecl); ok {
			for _, sp := range gd.Specs {
				if vs, ok := sp.(*ast.ValueSpec); ok {
					spec(vs)
				}
			}
		}
	case *ast.ValueSpec: // go/cfg emits one node per var spec
		spec(s)
	}
	return out
}

// FlagReachM2 is Reach that additionally tracks the values of the flag
// variables of g (FlagsM2): a conditional edge that establishes `flag == b` is
// not followed in a state in which the flag is known to be !b. It removes the
// infeasible paths of the `keep := true; for … { if match { keep = false } }; if
// keep { … }` idiom without looking at how the idiom is written.
func (g *Graph) FlagReachM2(start []*Node, stopNode NodePred, stopEdge EdgePred) map[*Node]bool {
	flags := g.FlagsM2()
	var order []types.Object
	for o := range flags {
		order = append(order, o)
	}
	// deterministic order by position
	for i := range order {
		for j := i + 1; j < len(order); j++ {
			if order[j].Pos() < order[i].Pos() {
				order[i], order[j] = order[j], order[i]
			}
		}
	}
	idx := map[types.Object]int{}
	for i, o := range order {
		idx[o] = i
	}
	type st struct {
		n *Node
		k string
	}
	key := func(vals []int8) string {
		b := make([]byte, len(vals))
		for i, v := range vals {
			b[i] = byte('0' + v)
		}
		return string(b)
	}
	seen := map[st]bool{}
	reach := map[*Node]bool{}
	type item struct {
		n    *Node
		vals []int8
	}
	var stack []item
	push := func(n *Node, vals []int8) {
		if n == nil || (stopNode != nil && stopNode(n)) {
			return
		}
		vals = append([]int8{}, vals...)
		for o, v := range g.flagAssignsM2(n, flags) {
			if v {
				vals[idx[o]] = 1
			} else {
				vals[idx[o]] = 2
			}
		}
		s := st{n, key(vals)}
		if seen[s] {
			return
		}
		seen[s] = true
		reach[n] = true
		stack = append(stack, item{n, vals})
	}
	for _, s := range start {
		push(s, make([]int8, len(order)))
	}
	for len(stack) > 0 {
		it := stack[len(stack)-1]
		stack = stack[:len(stack)-1]
		for _, e := range it.n.Succ {
			if stopEdge != nil && stopEdge(e) {
				continue
			}
			vals := append([]int8{}, it.vals...)
			feasible := true
			for _, f := range EdgeFacts(e) {
				o := ObjOf(g.Info, f.Cond)
				if o == nil || !flags[o] {
					continue
				}
				want := int8(2)
				if f.Truth {
					want = 1
				}
				if cur := vals[idx[o]]; cur != 0 && cur != want {
					feasible = false
					break
				}
				vals[idx[o]] = want
			}
			if feasible {
				push(e.To, vals)
			}
		}
	}
	return reach
}

// ---------------------------------------------------------------- lock balance with deferred helpers

// LockBalanceM2 is LockBalance5 that also accepts a release registered as
// `defer helper()` where helper is a same-package function / local closure whose
// body releases the mutex (FileStore: `f.wlock(); defer f.wunlock()`).
func (g *Graph) LockBalanceM2(mu *types.Var) (sites int, out []LockImbalance5) {
	if mu == nil {
		return 0, nil
	}
	bodyOf := g.SamePkgBodies5()
	wrapper := isLockWrapper5(g.Info, g.Body, mu)
	deferredHelper := func(n *Node, mode byte) bool {
		d, ok := n.N.(*ast.DeferStmt)
		if !ok {
			return false
		}
		body := bodyOf(d.Call)
		if body == nil {
			return false
		}
		hit := false
		lockOpsIn5(g.Info, body, mu, func(op string) {
			if (mode == 'W' && op == "Unlock") || (mode == 'R' && op == "RUnlock") {
				hit = true
			}
		}, nil)
		return hit
	}
	for _, n := range g.Nodes {
		acq, _ := mutexOps5(g.Info, n, mu, bodyOf)
		if acq == 0 {
			continue
		}
		sites++
		released := func(x *Node) bool {
			_, rel := mutexOps5(g.Info, x, mu, bodyOf)
			return rel == acq
		}
		start := After(n, nil)
		for x := range g.Reach(start, released, nil) {
			if a2, _ := mutexOps5(g.Info, x, mu, bodyOf); a2 != 0 && (a2 == 'W' || acq == 'W') {
				out = append(out, LockImbalance5{n, "re-acquired", x})
				break
			}
		}
		if wrapper {
			continue
		}
		relOrDefer := func(x *Node) bool {
			return released(x) || deferredRelease5(g.Info, x, mu, acq) || deferredHelper(x, acq)
		}
		if len(n.Succ) == 0 && n.Kind != KPanic {
			out = append(out, LockImbalance5{n, "held-at-exit", n})
			continue
		}
		for x := range g.Reach(start, relOrDefer, nil) {
			if len(x.Succ) == 0 && x.Kind != KPanic {
				out = append(out, LockImbalance5{n, "held-at-exit", x})
				break
			}
		}
	}
	return
}

// ---------------------------------------------------------------- justified paths

// EstablishesAnyM2 reports whether taking `branch` of cond guarantees that all
// facts of at least ONE alternative hold. Unlike Establishes it decides a
// disjunctive goal: the true branch of `a || b` is fine when each disjunct
// establishes some alternative; boolean temporaries with a single definition
// are seen through.
func EstablishesAnyM2(info *types.Info, body ast.Node, cond ast.Expr, branch bool, alts [][]CondFact) bool {
	return establishesAnyM2(info, body, cond, branch, alts, 0)
}

func establishesAnyM2(info *types.Info, body ast.Node, cond ast.Expr, branch bool, alts [][]CondFact, depth int) bool {
	cond = ast.Unparen(cond)
	switch c := cond.(type) {
	case *ast.UnaryExpr:
		if c.Op == token.NOT {
			return establishesAnyM2(info, body, c.X, !branch, alts, depth)
		}
	case *ast.BinaryExpr:
		if (c.Op == token.LOR && branch) || (c.Op == token.LAND && !branch) {
			return establishesAnyM2(info, body, c.X, branch, alts, depth) && establishesAnyM2(info, body, c.Y, branch, alts, depth)
		}
	case *ast.Ident:
		if o, ok := ObjOf(info, c).(*types.Var); ok && !o.IsField() && depth < 4 {
			if d, ok := SingleDef(info, body, o); ok && d.Rhs != nil && d.Index == -1 && d.Range == nil {
				if b, isBasic := o.Type().Underlying().(*types.Basic); isBasic && b.Kind() == types.Bool {
					if establishesAnyM2(info, body, d.Rhs, branch, alts, depth+1) {
						return true
					}
				}
			}
		}
	}
	for _, alt := range alts {
		all := len(alt) > 0
		for _, f := range alt {
			if !Establishes(cond, branch, TempsM2(info, body, f)) {
				all = false
				break
			}
		}
		if all {
			return true
		}
	}
	return false
}

// UnjustifiedM2 looks for a path from start to a node selected by target (not
// entering stop nodes) that is not justified by any alternative: for every
// alternative at least one of its facts is established by no edge of the path,
// and no edge of the path establishes a whole alternative by itself. Facts of
// one alternative may be established on different edges (nested ifs). It
// returns a reached target node, nil if every path is justified.
func (g *Graph) UnjustifiedM2(info *types.Info, body ast.Node, start []*Node, target, stop NodePred, alts [][]CondFact) *Node {
	local := func(e *Edge) bool {
		return e.Cond != nil && e.Tag == nil && EstablishesAnyM2(info, body, e.Cond, e.Branch, alts)
	}
	preds := make([][]EdgePred, len(alts))
	for i, alt := range alts {
		for _, f := range alt {
			preds[i] = append(preds[i], EdgeEstablishing(TempsM2(info, body, f)))
		}
	}
	idx := make([]int, len(alts))
	for {
		chosen := []EdgePred{local}
		for i := range alts {
			if len(preds[i]) > 0 {
				chosen = append(chosen, preds[i][idx[i]])
			}
		}
		reach := g.Reach(start, stop, AnyEdge(chosen...))
		var hit *Node
		for n := range reach {
			if target(n) && (hit == nil || n.ID < hit.ID) {
				hit = n
			}
		}
		if hit != nil {
			return hit
		}
		// next combination
		k := 0
		for k < len(alts) {
			idx[k]++
			if idx[k] < len(preds[k]) {
				break
			}
			idx[k] = 0
			k++
		}
		if k == len(alts) {
			return nil
		}
	}
}
