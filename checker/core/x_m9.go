package core

import (
	"go/ast"
	"go/types"
)

// M9ResolveCond sees through single-definition temporaries in a branch
// condition atom: an identifier is replaced by its defining expression
// (`empty := len(x) == 0; if empty`), and the operands of a comparison are
// resolved the same way (`n := len(x); if n < 1`). The result may be a freshly
// built BinaryExpr whose operands are original (type-checked) nodes.
func M9ResolveCond(info *types.Info, root ast.Node, c ast.Expr) ast.Expr {
	c = ResolveLocal(info, root, c)
	if be, ok := ast.Unparen(c).(*ast.BinaryExpr); ok {
		x, y := ResolveLocal(info, root, be.X), ResolveLocal(info, root, be.Y)
		if x != ast.Unparen(be.X) || y != ast.Unparen(be.Y) {
			return &ast.BinaryExpr{X: x, OpPos: be.OpPos, Op: be.Op, Y: y}
		}
	}
	return c
}

// M9EmptyEdge selects the conditional edges on which the expression accepted by
// isX is known to be empty (empty=true) or non-empty, looking through
// single-definition temporaries.
func M9EmptyEdge(info *types.Info, root ast.Node, isX func(ast.Expr) bool, empty bool) EdgePred {
	return AtomEdge(func(c ast.Expr, val bool) bool {
		x, br, ok := EmptyOn(info, M9ResolveCond(info, root, c))
		return ok && (val == br) == empty && isX(x)
	})
}

// M9ResolvedFact lifts a fact predicate so that it also holds for an atom that
// is a single-definition temporary of an expression satisfying it.
func M9ResolvedFact(info *types.Info, root ast.Node, p X1FactPred) X1FactPred {
	return func(f X1Fact) bool {
		if p(f) {
			return true
		}
		r := M9ResolveCond(info, root, f.E)
		if r == f.E {
			return false
		}
		// the defining expression may itself be a conjunction / disjunction / negation
		for _, sub := range X1EdgeFacts(&Edge{Cond: r, Branch: f.True}) {
			if x1FactHolds(sub, p) {
				return true
			}
		}
		return false
	}
}
