package core

import (
	"fmt"
	"go/ast"
	"go/constant"
	"go/token"
	"go/types"
)

// Helpers added for the C31/C32/C33/C34/C42 rule sets (rw8).
//
// go/cfg keeps a whole condition expression (`a && !b`) in one node. The
// helpers below decompose the condition of an edge into the atomic facts that
// are certainly established when that edge is taken, so that rules can say
// "X is only reachable where atom A is true" without matching expression text.

// Fact8 is an atomic (not &&, ||, !) boolean expression together with the truth
// value it certainly has on some edge.
type Fact8 struct {
	X   ast.Expr
	Val bool
}

// EdgeFacts8 returns the atomic facts established by taking edge e:
// `a && b` taken true gives a=true and b=true, `a || b` taken false gives
// a=false and b=false, `!a` flips. Tag-switch edges carry no facts here (see
// TagEdge8).
func EdgeFacts8(e *Edge) []Fact8 {
	if e == nil || e.Cond == nil || e.Tag != nil {
		return nil
	}
	var out []Fact8
	var walk func(c ast.Expr, v bool)
	walk = func(c ast.Expr, v bool) {
		c = ast.Unparen(c)
		switch x := c.(type) {
		case *ast.UnaryExpr:
			if x.Op == token.NOT {
				walk(x.X, !v)
				return
			}
		case *ast.BinaryExpr:
			switch x.Op {
			case token.LAND:
				if v {
					walk(x.X, true)
					walk(x.Y, true)
				}
				return
			case token.LOR:
				if !v {
					walk(x.X, false)
					walk(x.Y, false)
				}
				return
			}
		}
		out = append(out, Fact8{c, v})
	}
	walk(e.Cond, e.Branch)
	return out
}

// FactEdge8 selects the edges that establish at least one fact accepted by test.
func FactEdge8(test func(x ast.Expr, val bool) bool) EdgePred {
	return func(e *Edge) bool {
		for _, f := range EdgeFacts8(e) {
			if test(f.X, f.Val) {
				return true
			}
		}
		return false
	}
}

// OrEdge8 combines edge predicates.
func OrEdge8(ps ...EdgePred) EdgePred {
	return func(e *Edge) bool {
		for _, p := range ps {
			if p != nil && p(e) {
				return true
			}
		}
		return false
	}
}

// CallFactEdge8 selects edges on which a call matched by m (the atom is exactly
// that call expression) has truth value val.
func (g *Graph) CallFactEdge8(m Matcher, val bool) EdgePred {
	return FactEdge8(func(x ast.Expr, v bool) bool {
		c, ok := x.(*ast.CallExpr)
		return ok && v == val && m(g.Info, c)
	})
}

// NilFactEdge8 selects edges on which the expression accepted by sel is known to
// be nil (isNil=true) or non-nil (isNil=false).
func (g *Graph) NilFactEdge8(sel func(x ast.Expr) bool, isNil bool) EdgePred {
	return FactEdge8(func(x ast.Expr, v bool) bool {
		y, nonNilOnTrue, ok := NilTest(g.Info, x)
		if !ok || !sel(y) {
			return false
		}
		nonNil := v == nonNilOnTrue
		return nonNil == !isNil
	})
}

// Cmp8 is a normalised comparison fact `L op R` that holds on an edge.
type Cmp8 struct {
	L  ast.Expr
	Op token.Token
	R  ast.Expr
}

func negOp8(op token.Token) token.Token {
	switch op {
	case token.EQL:
		return token.NEQ
	case token.NEQ:
		return token.EQL
	case token.LSS:
		return token.GEQ
	case token.GEQ:
		return token.LSS
	case token.GTR:
		return token.LEQ
	case token.LEQ:
		return token.GTR
	}
	return token.ILLEGAL
}

func swapOp8(op token.Token) token.Token {
	switch op {
	case token.LSS:
		return token.GTR
	case token.GTR:
		return token.LSS
	case token.LEQ:
		return token.GEQ
	case token.GEQ:
		return token.LEQ
	}
	return op
}

// CmpOf8 decodes a fact into the comparison that holds (negating the operator
// for a false fact). ok=false if the atom is not a comparison.
func CmpOf8(f Fact8) (Cmp8, bool) {
	be, ok := f.X.(*ast.BinaryExpr)
	if !ok {
		return Cmp8{}, false
	}
	op := be.Op
	switch op {
	case token.EQL, token.NEQ, token.LSS, token.GTR, token.LEQ, token.GEQ:
	default:
		return Cmp8{}, false
	}
	if !f.Val {
		op = negOp8(op)
	}
	return Cmp8{ast.Unparen(be.X), op, ast.Unparen(be.Y)}, true
}

// CmpFactEdge8 selects edges establishing a comparison accepted by test; the
// comparison is offered in both operand orders.
func CmpFactEdge8(test func(c Cmp8) bool) EdgePred {
	return FactEdge8(func(x ast.Expr, v bool) bool {
		c, ok := CmpOf8(Fact8{x, v})
		if !ok {
			return false
		}
		return test(c) || test(Cmp8{c.R, swapOp8(c.Op), c.L})
	})
}

// TagEdge8 selects tag-switch case edges (tag == case expression) accepted by test.
func TagEdge8(test func(tag, caseExpr ast.Expr) bool) EdgePred {
	return func(e *Edge) bool {
		return e.Tag != nil && e.Cond != nil && e.Branch && test(e.Tag, e.Cond)
	}
}

// Bypassing8 returns the target nodes that are reachable from the entry without
// taking any gate edge.
func (g *Graph) Bypassing8(targets []*Node, gate EdgePred) []*Node {
	reach := g.ReachFromEntry(nil, gate)
	var bad []*Node
	for _, t := range targets {
		if reach[t] {
			bad = append(bad, t)
		}
	}
	return bad
}

// HasEdge8 reports whether some edge of g satisfies p.
func (g *Graph) HasEdge8(p EdgePred) bool {
	for _, n := range g.Nodes {
		for _, e := range n.Succ {
			if p(e) {
				return true
			}
		}
	}
	return false
}

// RuleOnlyVia8 checks "every node selected by targets is reachable only through
// an edge selected by gate". It fails when fewer than min targets exist or when
// no gate edge exists at all (anti-vacuity).
func RuleOnlyVia8(r *Report, f *Func, g *Graph, rule, what, gateName string, targets NodePred, gate EdgePred, min int) bool {
	ts := g.Select(targets)
	if len(ts) < min {
		r.Bad(rule, f.String(), what+":absent", f.Pos(), fmt.Sprintf("found %d site(s) of %s, confirmed by reading: >= %d", len(ts), what, min))
		return false
	}
	if !g.HasEdge8(gate) {
		r.Bad(rule, f.String(), what+":gate-absent", f.Pos(), "no branch establishing "+gateName+" exists in the function")
		return false
	}
	bad := g.Bypassing8(ts, gate)
	if len(bad) > 0 {
		r.Bad(rule, f.String(), what, g.Line(bad[0]), fmt.Sprintf("%s is reachable without %s (%d of %d site(s))", what, gateName, len(bad), len(ts)))
		return false
	}
	r.Ok(rule, f.String(), g.Line(ts[0]), fmt.Sprintf("%s (%d site(s)) only reachable where %s", what, len(ts), gateName))
	return true
}

// SuccessExitPred8 selects the success exits of g.
func (g *Graph) SuccessExitPred8() NodePred {
	set := map[*Node]bool{}
	for _, x := range g.SuccessExits() {
		set[x] = true
	}
	return func(n *Node) bool { return set[n] }
}

// MethodOnField8 matches calls `<expr>.<field>.<method>(…)` where field is the
// given struct field and the method's canonical name matches one of names.
func MethodOnField8(field *types.Var, names ...string) Matcher {
	m := CallTo(names...)
	return func(info *types.Info, c *ast.CallExpr) bool {
		if field == nil || !m(info, c) {
			return false
		}
		se, ok := ast.Unparen(c.Fun).(*ast.SelectorExpr)
		return ok && FieldOf(info, se.X) == field
	}
}

// IntConst8 returns the integer constant value of e (ok=false if e is not an
// integer constant).
func IntConst8(info *types.Info, e ast.Expr) (constant.Value, bool) {
	tv, ok := info.Types[e]
	if !ok || tv.Value == nil {
		return nil, false
	}
	v := constant.ToInt(tv.Value)
	if v.Kind() != constant.Int {
		return nil, false
	}
	return v, true
}

// IsConstBool8 reports whether e is the constant boolean val.
func IsConstBool8(info *types.Info, e ast.Expr, val bool) bool {
	tv, ok := info.Types[e]
	if !ok || tv.Value == nil || tv.Value.Kind() != constant.Bool {
		return false
	}
	return constant.BoolVal(tv.Value) == val
}

// AssignsTo8 returns, for local variable v, every right-hand side assigned to it
// anywhere in body (define, assign, var spec). For a tuple assignment
// `a, v := f()` the call is returned with the result index; single is false then.
type AssignSite8 struct {
	Stmt  ast.Node
	Rhs   ast.Expr // the expression (for tuple assignment: the call)
	Index int      // result index for tuple assignment, -1 otherwise
	Op    token.Token
}

func AssignsTo8(info *types.Info, body ast.Node, v types.Object) []AssignSite8 {
	var out []AssignSite8
	ast.Inspect(body, func(n ast.Node) bool {
		switch s := n.(type) {
		case *ast.AssignStmt:
			for i, l := range s.Lhs {
				if ObjOf(info, l) != v {
					continue
				}
				switch {
				case len(s.Lhs) == len(s.Rhs):
					out = append(out, AssignSite8{s, s.Rhs[i], -1, s.Tok})
				case len(s.Rhs) == 1:
					out = append(out, AssignSite8{s, s.Rhs[0], i, s.Tok})
				}
			}
		case *ast.ValueSpec:
			for i, nm := range s.Names {
				if info.Defs[nm] != v {
					continue
				}
				switch {
				case len(s.Values) == 0:
					out = append(out, AssignSite8{s, nil, -1, token.DEFINE})
				case len(s.Values) == len(s.Names):
					out = append(out, AssignSite8{s, s.Values[i], -1, token.DEFINE})
				case len(s.Values) == 1:
					out = append(out, AssignSite8{s, s.Values[0], i, token.DEFINE})
				}
			}
		case *ast.IncDecStmt:
			if ObjOf(info, s.X) == v {
				out = append(out, AssignSite8{s, nil, -1, s.Tok})
			}
		case *ast.RangeStmt:
			if s.Key != nil && ObjOf(info, s.Key) == v || s.Value != nil && ObjOf(info, s.Value) == v {
				out = append(out, AssignSite8{s, s.X, -2, s.Tok})
			}
		}
		return true
	})
	return out
}

// NodesOf8 returns the graph nodes containing the given AST nodes.
func (g *Graph) NodesOf8(as ...ast.Node) []*Node {
	var out []*Node
	for _, a := range as {
		if n := g.NodeOf(a); n != nil {
			out = append(out, n)
		}
	}
	return out
}

// GraphOf8 returns the graph (the function's own or that of one of its
// literals) whose body directly contains pos — the innermost one.
func (f *Func) GraphOf8(pos token.Pos) *Graph {
	var best *Graph
	for _, g := range f.Graphs() {
		if g.Body.Pos() <= pos && pos < g.Body.End() {
			if best == nil || (g.Body.Pos() >= best.Body.Pos() && g.Body.End() <= best.Body.End()) {
				best = g
			}
		}
	}
	return best
}

// ImpliesEdge8 selects the edges on which test is guaranteed to hold for some
// atom whatever way the condition came to have its value: `a && b` taken false
// guarantees test only if it holds for a=false AND for b=false (either may be
// the reason), `a && b` taken true guarantees it if it holds for a=true OR
// b=true; dually for ||. This is FactEdge8 extended to disjunctive knowledge.
func ImpliesEdge8(test func(x ast.Expr, val bool) bool) EdgePred {
	var holds func(c ast.Expr, v bool) bool
	holds = func(c ast.Expr, v bool) bool {
		c = ast.Unparen(c)
		switch x := c.(type) {
		case *ast.UnaryExpr:
			if x.Op == token.NOT {
				return holds(x.X, !v)
			}
		case *ast.BinaryExpr:
			switch x.Op {
			case token.LAND:
				if v {
					return holds(x.X, true) || holds(x.Y, true)
				}
				return holds(x.X, false) && holds(x.Y, false)
			case token.LOR:
				if !v {
					return holds(x.X, false) || holds(x.Y, false)
				}
				return holds(x.X, true) && holds(x.Y, true)
			}
		}
		return test(c, v)
	}
	return func(e *Edge) bool {
		if e == nil || e.Cond == nil || e.Tag != nil {
			return false
		}
		return holds(e.Cond, e.Branch)
	}
}
