package core

import (
	"go/ast"
	"go/token"
	"go/types"
)

// Helpers added for the C13/C14 rule sets (rw4). Everything here is built on the
// existing engines; names carry an X4 prefix so that they cannot collide with
// helpers added by other rule authors.

// X4Held is the result of running the E2 lock-state dataflow over one function
// and all its nested function literals: for every CFG node the set of locks
// (access path -> 1 read | 2 write) held on EVERY path reaching the node.
type X4Held struct {
	Fn     *Func
	graphs []*Graph
	state  map[*Node]map[string]int8
	owner  map[*Node]*Graph
}

// X4LocksHeld computes the lock state of f. entry gives the locks the caller is
// known to hold (path -> 'R' | 'W'); function literals that run in place or are
// deferred start with the state of their enclosing node, `go` literals start empty
// (exactly what RuleLocks does).
func X4LocksHeld(p *Prog, f *Func, entry map[string]byte) *X4Held {
	h := &X4Held{Fn: f, state: map[*Node]map[string]int8{}, owner: map[*Node]*Graph{}}
	if f == nil || f.Decl.Body == nil {
		return h
	}
	a := &LockAnalysis{Prog: p, Rules: &LockRules{}}
	ent := lockState{}
	for k, m := range entry {
		if m == 'R' {
			ent[k] = 1
		} else {
			ent[k] = 2
		}
	}
	var walk func(g *Graph, ent lockState)
	walk = func(g *Graph, ent lockState) {
		h.graphs = append(h.graphs, g)
		in := a.flow(g, ent, nil)
		for _, n := range g.Nodes {
			st, ok := in[n]
			if !ok {
				continue
			}
			m := map[string]int8{}
			for k, v := range st {
				m[k] = v
			}
			h.state[n] = m
			h.owner[n] = g
			if n.N == nil {
				continue
			}
			var lits []*ast.FuncLit
			inspectNoLit(n.N, &lits, func(ast.Node) {})
			for _, fl := range lits {
				e := st.clone()
				if _, isGo := n.N.(*ast.GoStmt); isGo {
					e = lockState{}
				}
				walk(f.LitGraph(fl), e)
			}
		}
	}
	walk(f.Graph(), ent)
	return h
}

// At returns the locks held on every path when the statement containing the AST
// node x starts executing (innermost function literal). ok=false when x is not in
// reachable code.
func (h *X4Held) At(x ast.Node) (map[string]int8, bool) {
	var best *Node
	for n := range h.state {
		if n.N == nil || !(n.N.Pos() <= x.Pos() && x.End() <= n.N.End()) {
			continue
		}
		if best == nil || (n.N.End()-n.N.Pos()) < (best.N.End()-best.N.Pos()) {
			best = n
		}
	}
	if best == nil {
		return nil, false
	}
	return h.state[best], true
}

// X4Rel is a normalised order comparison "L op R".
type X4Rel struct {
	Op   token.Token // LSS, LEQ, GTR, GEQ, EQL, NEQ with L on the left
	L, R ast.Expr
}

// X4Cmp decodes a binary comparison whose two operands satisfy isL and isR (in
// either order) and returns it with the isL operand on the left.
func X4Cmp(cond ast.Expr, isL, isR func(ast.Expr) bool) (X4Rel, bool) {
	be, ok := ast.Unparen(cond).(*ast.BinaryExpr)
	if !ok {
		return X4Rel{}, false
	}
	switch be.Op {
	case token.LSS, token.LEQ, token.GTR, token.GEQ, token.EQL, token.NEQ:
	default:
		return X4Rel{}, false
	}
	x, y := ast.Unparen(be.X), ast.Unparen(be.Y)
	if isL(x) && isR(y) {
		return X4Rel{Op: be.Op, L: x, R: y}, true
	}
	if isL(y) && isR(x) {
		op := be.Op
		switch be.Op {
		case token.LSS:
			op = token.GTR
		case token.LEQ:
			op = token.GEQ
		case token.GTR:
			op = token.LSS
		case token.GEQ:
			op = token.LEQ
		}
		return X4Rel{Op: op, L: y, R: x}, true
	}
	return X4Rel{}, false
}

// On returns the relation between L and R that is established on the given branch
// of the condition (the negated operator on the false branch).
func (rel X4Rel) On(branch bool) token.Token {
	op := rel.Op
	if !branch {
		switch op {
		case token.LSS:
			op = token.GEQ
		case token.LEQ:
			op = token.GTR
		case token.GTR:
			op = token.LEQ
		case token.GEQ:
			op = token.LSS
		case token.EQL:
			op = token.NEQ
		case token.NEQ:
			op = token.EQL
		}
	}
	return op
}

// Holds reports whether relation `L want R` is implied on the branch `branch` of a
// condition that decoded to rel (want ∈ {GTR, GEQ, LSS, LEQ, EQL, NEQ}).
func (rel X4Rel) Holds(branch bool, want token.Token) bool {
	op := rel.On(branch)
	if op == want {
		return true
	}
	// strict implies non-strict
	switch {
	case op == token.GTR && want == token.GEQ, op == token.LSS && want == token.LEQ,
		op == token.EQL && (want == token.GEQ || want == token.LEQ),
		op == token.GTR && want == token.NEQ, op == token.LSS && want == token.NEQ:
		return true
	}
	return false
}

// X4IsField returns a predicate matching selector expressions that denote field v.
func X4IsField(info *types.Info, v *types.Var) func(ast.Expr) bool {
	return func(e ast.Expr) bool { return v != nil && FieldOf(info, e) == v }
}

// X4IsObj returns a predicate matching identifiers that denote object o.
func X4IsObj(info *types.Info, o types.Object) func(ast.Expr) bool {
	return func(e ast.Expr) bool { return o != nil && ObjOf(info, e) == o }
}

// X4Atom is an atomic condition together with the truth value it is known to have.
type X4Atom struct {
	E   ast.Expr
	Val bool
}

// X4Implied lists the atomic conditions whose truth value is fixed when the
// (possibly compound) condition cond evaluates to branch. go/cfg keeps `a && b`,
// `a || b` and `!a` as one condition node, so edges are decomposed here:
// (a && b)=true fixes a and b, (a || b)=false fixes a and b, !a flips. Nothing is
// derived from (a && b)=false or (a || b)=true.
func X4Implied(cond ast.Expr, branch bool) []X4Atom {
	switch c := ast.Unparen(cond).(type) {
	case *ast.UnaryExpr:
		if c.Op == token.NOT {
			return X4Implied(c.X, !branch)
		}
	case *ast.BinaryExpr:
		if (c.Op == token.LAND && branch) || (c.Op == token.LOR && !branch) {
			return append(X4Implied(c.X, branch), X4Implied(c.Y, branch)...)
		}
		if c.Op == token.LAND || c.Op == token.LOR {
			return nil
		}
	}
	return []X4Atom{{E: ast.Unparen(cond), Val: branch}}
}

// X4EdgeImplies selects conditional edges on which some atomic condition with a
// fixed truth value satisfies test.
func X4EdgeImplies(test func(atom ast.Expr, val bool) bool) EdgePred {
	return func(e *Edge) bool {
		if e.Cond == nil || e.Tag != nil {
			return false
		}
		for _, a := range X4Implied(e.Cond, e.Branch) {
			if test(a.E, a.Val) {
				return true
			}
		}
		return false
	}
}

// X4CallCond selects the edges on which a call of class m, used as a boolean
// condition, is known to have returned `result`.
func X4CallCond(info *types.Info, m Matcher, result bool) EdgePred {
	return X4EdgeImplies(func(a ast.Expr, v bool) bool {
		c, ok := a.(*ast.CallExpr)
		return ok && v == result && m(info, c)
	})
}

// X4CmpEdge selects the edges on which `L want R` is known to hold, L and R being
// recognised by isL / isR. exact requires the established relation to be exactly
// `want` (so `>` does not count as `>=`).
func X4CmpEdge(isL, isR func(ast.Expr) bool, want token.Token, exact bool) EdgePred {
	return X4EdgeImplies(func(a ast.Expr, v bool) bool {
		rel, ok := X4Cmp(a, isL, isR)
		if !ok {
			return false
		}
		if exact {
			return rel.On(v) == want
		}
		return rel.Holds(v, want)
	})
}

// X4NilEdge selects the edges on which an expression recognised by isX is known to
// be nil (isNil=true) or non-nil (isNil=false).
func X4NilEdge(info *types.Info, isX func(ast.Expr) bool, isNil bool) EdgePred {
	return X4EdgeImplies(func(a ast.Expr, v bool) bool {
		x, nonNilOnTrue, ok := NilTest(info, a)
		if !ok || !isX(x) {
			return false
		}
		return (v == nonNilOnTrue) != isNil
	})
}

// X4OnlyVia reports the target nodes that can be reached WITHOUT taking a gate
// edge / passing a gate node, both from the function entry and again from the
// successors of any target (so, inside a loop, every iteration has to pass the gate
// anew). An empty result means "target only through gate".
func (g *Graph) X4OnlyVia(targets []*Node, gateNode NodePred, gateEdge EdgePred) []*Node {
	isT := map[*Node]bool{}
	for _, t := range targets {
		isT[t] = true
	}
	bad := map[*Node]bool{}
	r := g.ReachFromEntry(gateNode, gateEdge)
	for _, t := range targets {
		if r[t] {
			bad[t] = true
		}
	}
	for _, t := range targets {
		var starts []*Node
		for _, e := range t.Succ {
			if gateEdge != nil && gateEdge(e) {
				continue
			}
			starts = append(starts, e.To)
		}
		r := g.Reach(starts, gateNode, gateEdge)
		for _, u := range targets {
			if r[u] {
				bad[u] = true
			}
		}
	}
	var out []*Node
	for _, t := range targets {
		if bad[t] {
			out = append(out, t)
		}
	}
	return out
}

// X4PrecedeG is RulePrecede on an explicit graph (function literal).
func X4PrecedeG(r *Report, g *Graph, f *Func, rule, aName string, a Matcher, bName string, b Matcher) bool {
	return rulePrecedeG(r, g, f, rule, aName, a, bName, b)
}

// X4OrderG is RuleOrder on an explicit graph.
func X4OrderG(r *Report, g *Graph, f *Func, rule string, names []string, ms []Matcher) bool {
	ok := true
	for i := 0; i+1 < len(ms); i++ {
		if !rulePrecedeG(r, g, f, rule, names[i], ms[i], names[i+1], ms[i+1]) {
			ok = false
		}
	}
	return ok
}

// X4LitWith returns the first function literal in f whose body contains a call of
// class m (nil if none).
func X4LitWith(f *Func, m Matcher) *ast.FuncLit {
	var lit *ast.FuncLit
	ast.Inspect(f.Decl.Body, func(n ast.Node) bool {
		if fl, ok := n.(*ast.FuncLit); ok && lit == nil {
			if len(AllCalls(f.Info(), fl.Body, m)) > 0 {
				lit = fl
			}
		}
		return true
	})
	return lit
}

// X4ConstObj resolves an expression to the declared constant it names (nil if it
// is not a plain reference to a constant).
func X4ConstObj(info *types.Info, e ast.Expr) *types.Const {
	switch x := ast.Unparen(e).(type) {
	case *ast.Ident:
		c, _ := info.Uses[x].(*types.Const)
		return c
	case *ast.SelectorExpr:
		c, _ := info.Uses[x.Sel].(*types.Const)
		return c
	}
	return nil
}

// X4Mentions reports whether expression e contains an identifier denoting o.
func X4Mentions(info *types.Info, e ast.Node, o types.Object) bool {
	found := false
	ast.Inspect(e, func(n ast.Node) bool {
		if id, ok := n.(*ast.Ident); ok && o != nil && (info.Uses[id] == o || info.Defs[id] == o) {
			found = true
		}
		return true
	})
	return found
}

// X4MentionsField reports whether e contains a selector denoting field v.
func X4MentionsField(info *types.Info, e ast.Node, v *types.Var) bool {
	found := false
	ast.Inspect(e, func(n ast.Node) bool {
		if se, ok := n.(*ast.SelectorExpr); ok && v != nil && FieldOf(info, se) == v {
			found = true
		}
		return true
	})
	return found
}
