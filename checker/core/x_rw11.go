package core

// Helpers added for the C38 / C39 rule sets (rw11).
//
//   - X11Locks: the E2 lock-state flow of lockset.go with one refinement: a
//     function literal that is invoked in place (`func(){ mu.Lock(); defer
//     mu.Unlock(); … }()`) is analysed as a unit — its deferred unlocks run when
//     the literal returns — instead of being flattened into the enclosing
//     statement (which leaves the lock "held" after the literal). tsdb.Shard
//     and tsm1.Engine use that idiom, so both the guarded-by check of their
//     tables (RuleLocksP) and the lock-order graph (X11LockOrder) are built on
//     this flow. Everything else (lock recognition by type, wrapper summaries,
//     must-hold meet, deferred unlocks keep the lock to the exit) is unchanged.
//   - X11LockOrder: lock classes (struct type + mutex field), the edges
//     "class B acquired while class A is held" and re-acquisitions of a held
//     lock, intra-procedurally from the lock state at every Lock/RLock and
//     inter-procedurally through the set of locks a callee may acquire
//     (transitively, static callees plus implementers of interfaces declared in
//     the analysed packages).

import (
	"fmt"
	"go/ast"
	"go/token"
	"go/types"
	"sort"
	"strings"
	"time"

	"golang.org/x/tools/go/cfg"
)

// ---------------------------------------------------------------- precise flow

type x11Sum struct {
	acquire lockState
	release map[string]bool
	cls     map[string]string
	ls      *LockSummary // recv/params carrier for substFor
}

type x11Ctx struct {
	cls map[string]string // lock path -> lock class, in the terms of the function being walked
}

// X11Locks is the refined lock-state engine.
type X11Locks struct {
	Prog    *Prog
	sums    map[*types.Func]*x11Sum
	busy    map[*types.Func]bool
	lits    map[*ast.FuncLit]*Graph
	classes map[types.Object]string
	la      LockAnalysis
}

// NewX11Locks returns an engine for p.
func NewX11Locks(p *Prog) *X11Locks {
	return &X11Locks{Prog: p, sums: map[*types.Func]*x11Sum{}, busy: map[*types.Func]bool{}, lits: map[*ast.FuncLit]*Graph{},
		classes: map[types.Object]string{}, la: LockAnalysis{Prog: p, Rules: &LockRules{}}}
}

func (a *X11Locks) litGraph(f *Func, fl *ast.FuncLit) *Graph {
	if g, ok := a.lits[fl]; ok {
		return g
	}
	g := f.LitGraph(fl)
	a.lits[fl] = g
	return g
}

func x11TypeName(t types.Type) string {
	if pt, ok := t.(*types.Pointer); ok {
		t = pt.Elem()
	}
	if nt, ok := t.(*types.Named); ok {
		pk := ""
		if nt.Obj().Pkg() != nil {
			pk = Short(nt.Obj().Pkg().Path()) + "."
		}
		return pk + nt.Obj().Name()
	}
	return ""
}

// class names the lock denoted by the mutex expression of a lock operation:
// "<pkg>.<Struct>.<field>" for a struct field, "var <pkg>.<name>" for a
// package-level mutex, "<pkg>.<Type>.(embedded)" for an embedded mutex and
// "local <func>.<name>" otherwise. Identity is by the resolved object.
func (a *X11Locks) class(g *Graph, mutex ast.Expr) string {
	info := g.Info
	e := ast.Unparen(mutex)
	if u, ok := e.(*ast.UnaryExpr); ok && u.Op == token.AND {
		e = ast.Unparen(u.X)
	}
	if se, ok := e.(*ast.SelectorExpr); ok {
		if fv := FieldOf(info, se); fv != nil {
			if n, ok := a.classes[fv]; ok {
				return n
			}
			owner := x11TypeName(info.TypeOf(se.X))
			if owner == "" {
				owner = "?"
			}
			n := owner + "." + fv.Name()
			a.classes[fv] = n
			return n
		}
		if v, ok := info.Uses[se.Sel].(*types.Var); ok && v.Pkg() != nil && v.Parent() == v.Pkg().Scope() {
			n := "var " + Short(v.Pkg().Path()) + "." + v.Name()
			a.classes[v] = n
			return n
		}
	}
	if o := ObjOf(info, e); o != nil {
		if n, ok := a.classes[o]; ok {
			return n
		}
		var n string
		if v, ok := o.(*types.Var); ok && v.Pkg() != nil && v.Parent() == v.Pkg().Scope() {
			n = "var " + Short(v.Pkg().Path()) + "." + v.Name()
		} else if tn := x11TypeName(o.Type()); tn != "" && !strings.HasPrefix(tn, "sync.") {
			n = tn + ".(embedded)"
		} else {
			fn := ""
			if g.Fn != nil {
				fn = g.Fn.String()
			}
			n = "local " + fn + "." + o.Name()
		}
		a.classes[o] = n
		return n
	}
	if tn := x11TypeName(info.TypeOf(e)); tn != "" && !strings.HasPrefix(tn, "sync.") {
		return tn + ".(embedded)"
	}
	return "expr " + ExprStr(e)
}

// x11Obs receives every call evaluated while a function is walked.
type x11Obs struct {
	call func(g *Graph, n *Node, c *ast.CallExpr, st lockState, kind string, ctx *x11Ctx)
	node func(g *Graph, n *Node, st lockState)
}

type x11Pending struct {
	fl    *ast.FuncLit
	entry lockState
}

// eval applies, in place, the lock effects of the calls evaluated by x.
func (a *X11Locks) eval(g *Graph, n *Node, x ast.Node, st lockState, released map[string]bool, ctx *x11Ctx, obs *x11Obs, pend *[]x11Pending) {
	ast.Inspect(x, func(m ast.Node) bool {
		switch c := m.(type) {
		case *ast.FuncLit:
			if pend != nil {
				*pend = append(*pend, x11Pending{c, st.clone()})
			}
			return false
		case *ast.CallExpr:
			if fl, ok := ast.Unparen(c.Fun).(*ast.FuncLit); ok {
				for _, arg := range c.Args {
					a.eval(g, n, arg, st, released, ctx, obs, pend)
				}
				lg := a.litGraph(g.Fn, fl)
				in := a.flow(lg, st, released, ctx)
				if obs != nil {
					a.walkGraph(lg, in, ctx, obs)
				}
				if out, ok := a.exitState(lg, in, released, ctx); ok {
					for k := range st {
						delete(st, k)
					}
					for k, v := range out {
						st[k] = v
					}
				}
				return false
			}
			if obs != nil && obs.call != nil {
				obs.call(g, n, c, st, "", ctx)
			}
			a.applyCall(g, c, st, released, ctx)
			return true
		}
		return true
	})
}

// applyCall applies one (non-literal) call: a lock operation or a summarised callee.
func (a *X11Locks) applyCall(g *Graph, c *ast.CallExpr, st lockState, released map[string]bool, ctx *x11Ctx) {
	if path, op, ok := lockOp(g.Info, c); ok {
		switch op {
		case "Lock":
			st[path] = 2
			ctx.cls[path] = a.class(g, ast.Unparen(c.Fun).(*ast.SelectorExpr).X)
		case "RLock":
			if st[path] < 1 {
				st[path] = 1
			}
			ctx.cls[path] = a.class(g, ast.Unparen(c.Fun).(*ast.SelectorExpr).X)
		case "Unlock", "RUnlock":
			if _, held := st[path]; !held && released != nil {
				released[path] = true
			}
			delete(st, path)
		}
		return
	}
	fn := Callee(g.Info, c)
	if fn == nil {
		return
	}
	callee := a.Prog.FuncOf(fn)
	if callee == nil || g.Fn == nil || callee.Pkg != g.Fn.Pkg {
		return
	}
	sum := a.summary(callee)
	if sum == nil || (len(sum.acquire) == 0 && len(sum.release) == 0) {
		return
	}
	subst := a.la.substFor(g.Info, c, sum.ls)
	for p, m := range sum.acquire {
		q := subst(p)
		st[q] = m
		ctx.cls[q] = sum.cls[p]
	}
	for p := range sum.release {
		q := subst(p)
		if _, held := st[q]; !held && released != nil {
			released[q] = true
		}
		delete(st, q)
	}
}

// transfer applies node n to st. Deferred and go'd calls have no effect here.
func (a *X11Locks) transfer(g *Graph, n *Node, st lockState, released map[string]bool, ctx *x11Ctx) {
	if n.N == nil {
		return
	}
	switch n.N.(type) {
	case *ast.DeferStmt, *ast.GoStmt:
		return
	}
	a.eval(g, n, n.N, st, released, ctx, nil, nil)
}

func (a *X11Locks) flow(g *Graph, entry lockState, released map[string]bool, ctx *x11Ctx) map[*Node]lockState {
	in := map[*Node]lockState{}
	if g.Entry == nil {
		return in
	}
	in[g.Entry] = entry.clone()
	work := []*Node{g.Entry}
	for len(work) > 0 {
		n := work[len(work)-1]
		work = work[:len(work)-1]
		out := in[n].clone()
		a.transfer(g, n, out, released, ctx)
		for _, e := range n.Succ {
			old, seen := in[e.To]
			var nw lockState
			if !seen {
				nw = out.clone()
			} else {
				nw = meet(old, out)
			}
			if !seen || !eqState(old, nw) {
				in[e.To] = nw
				work = append(work, e.To)
			}
		}
	}
	return in
}

// heldAtExits: locks held at every normal exit before the deferred calls run.
func (a *X11Locks) heldAtExits(g *Graph, in map[*Node]lockState, ctx *x11Ctx) lockState {
	var acc lockState
	first := true
	for _, x := range g.Exits {
		if x.Kind == KPanic {
			continue
		}
		st, ok := in[x]
		if !ok {
			continue
		}
		out := st.clone()
		a.transfer(g, x, out, nil, ctx)
		if first {
			acc, first = out, false
		} else {
			acc = meet(acc, out)
		}
	}
	if acc == nil {
		acc = lockState{}
	}
	return acc
}

// exitState: locks held when the function (literal) has returned normally.
func (a *X11Locks) exitState(g *Graph, in map[*Node]lockState, released map[string]bool, ctx *x11Ctx) (lockState, bool) {
	var acc lockState
	first := true
	for _, x := range g.Exits {
		if x.Kind == KPanic {
			continue
		}
		st, ok := in[x]
		if !ok {
			continue
		}
		out := st.clone()
		a.transfer(g, x, out, released, ctx)
		a.applyDefers(g, in, out, released, ctx)
		if first {
			acc, first = out, false
		} else {
			acc = meet(acc, out)
		}
	}
	return acc, !first
}

func (a *X11Locks) applyDefers(g *Graph, in map[*Node]lockState, st lockState, released map[string]bool, ctx *x11Ctx) {
	for _, n := range g.Nodes {
		d, ok := n.N.(*ast.DeferStmt)
		if !ok {
			continue
		}
		if _, reachable := in[n]; !reachable {
			continue
		}
		apply := func(c *ast.CallExpr) {
			if path, op, ok := lockOp(g.Info, c); ok {
				if op == "Unlock" || op == "RUnlock" {
					delete(st, path)
				}
				return
			}
			if fn := Callee(g.Info, c); fn != nil {
				if callee := a.Prog.FuncOf(fn); callee != nil && g.Fn != nil && callee.Pkg == g.Fn.Pkg {
					if sum := a.summary(callee); sum != nil {
						subst := a.la.substFor(g.Info, c, sum.ls)
						for p := range sum.release {
							delete(st, subst(p))
						}
					}
				}
			}
		}
		apply(d.Call)
		if fl, ok := ast.Unparen(d.Call.Fun).(*ast.FuncLit); ok {
			for _, c := range AllCalls(g.Info, fl.Body, func(*types.Info, *ast.CallExpr) bool { return true }) {
				apply(c)
			}
		}
	}
}

func (a *X11Locks) summary(f *Func) *x11Sum {
	if s, ok := a.sums[f.Obj]; ok {
		return s
	}
	if a.busy[f.Obj] || f.Decl.Body == nil {
		return nil
	}
	a.busy[f.Obj] = true
	defer delete(a.busy, f.Obj)
	g := f.Graph()
	released := map[string]bool{}
	ctx := &x11Ctx{cls: map[string]string{}}
	in := a.flow(g, lockState{}, released, ctx)
	acc, _ := a.exitState(g, in, released, ctx)
	if acc == nil {
		acc = lockState{}
	}
	ls := &LockSummary{recv: recvName(f.Decl)}
	if f.Decl.Type.Params != nil {
		for _, fl := range f.Decl.Type.Params.List {
			for _, nm := range fl.Names {
				ls.params = append(ls.params, nm.Name)
			}
			if len(fl.Names) == 0 {
				ls.params = append(ls.params, "")
			}
		}
	}
	keep := func(p string) bool {
		head, _, _ := strings.Cut(p, ".")
		if head == "" {
			return false
		}
		if head == ls.recv {
			return true
		}
		for _, pn := range ls.params {
			if pn == head {
				return true
			}
		}
		return false
	}
	s := &x11Sum{acquire: lockState{}, release: map[string]bool{}, cls: map[string]string{}, ls: ls}
	for p, m := range acc {
		if keep(p) {
			s.acquire[p] = m
			s.cls[p] = ctx.cls[p]
		}
	}
	for p := range released {
		if keep(p) {
			s.release[p] = true
		}
	}
	a.sums[f.Obj] = s
	return s
}

// walkGraph visits every reachable node of g (and, recursively, of the function
// literals nested in it) with the locks held on every path.
func (a *X11Locks) walkGraph(g *Graph, in map[*Node]lockState, ctx *x11Ctx, obs *x11Obs) {
	var exitHeld lockState
	for _, n := range g.Nodes {
		st, ok := in[n]
		if !ok || n.N == nil {
			continue
		}
		if obs.node != nil {
			obs.node(g, n, st)
		}
		var pend []x11Pending
		switch s := n.N.(type) {
		case *ast.DeferStmt, *ast.GoStmt:
			var call *ast.CallExpr
			kind := "defer"
			if d, ok := s.(*ast.DeferStmt); ok {
				call = d.Call
			} else {
				call, kind = s.(*ast.GoStmt).Call, "go"
			}
			// operands are evaluated here
			cur := st.clone()
			for _, arg := range call.Args {
				if _, isLit := ast.Unparen(arg).(*ast.FuncLit); isLit {
					continue
				}
				a.eval(g, n, arg, cur, nil, ctx, obs, nil)
			}
			ent := lockState{}
			if kind == "defer" {
				if exitHeld == nil {
					exitHeld = a.heldAtExits(g, in, ctx)
				}
				ent = meet(st, exitHeld)
			}
			if fl, ok := ast.Unparen(call.Fun).(*ast.FuncLit); ok {
				pend = append(pend, x11Pending{fl, ent})
			} else if obs.call != nil {
				obs.call(g, n, call, ent, kind, ctx)
			}
			for _, arg := range call.Args {
				if fl, ok := ast.Unparen(arg).(*ast.FuncLit); ok {
					pend = append(pend, x11Pending{fl, ent})
				}
			}
		default:
			a.eval(g, n, n.N, st.clone(), nil, ctx, obs, &pend)
		}
		for _, pl := range pend {
			lg := a.litGraph(g.Fn, pl.fl)
			lin := a.flow(lg, pl.entry, nil, ctx)
			a.walkGraph(lg, lin, ctx, obs)
		}
	}
}

// X11Site is one call evaluated in a walked function.
type X11Site struct {
	Fn    *Func
	G     *Graph
	N     *Node
	Call  *ast.CallExpr
	Held  LockView
	Kind  string // "" evaluated in place, "defer" runs at exit, "go" runs in a new goroutine
	Paths []string
	cls   map[string]string
	st    lockState
}

// Class of a held lock path.
func (s *X11Site) Class(path string) string { return s.cls[path] }

// Walk runs the flow over f with the given entry state (path -> 1|2) and calls
// onNode for every reachable statement and onCall for every call.
func (a *X11Locks) Walk(f *Func, entry map[string]int8, onNode func(g *Graph, n *Node, held LockView), onCall func(s *X11Site)) {
	if f == nil || f.Decl.Body == nil {
		return
	}
	ctx := &x11Ctx{cls: map[string]string{}}
	ent := lockState{}
	for k, v := range entry {
		ent[k] = v
	}
	obs := &x11Obs{}
	if onNode != nil {
		obs.node = func(g *Graph, n *Node, st lockState) { onNode(g, n, LockView{st}) }
	}
	if onCall != nil {
		obs.call = func(g *Graph, n *Node, c *ast.CallExpr, st lockState, kind string, ctx *x11Ctx) {
			var ps []string
			for p := range st {
				ps = append(ps, p)
			}
			sort.Strings(ps)
			onCall(&X11Site{Fn: f, G: g, N: n, Call: c, Held: LockView{st.clone()}, Kind: kind, Paths: ps, cls: ctx.cls, st: st})
		}
	}
	g := f.Graph()
	in := a.flow(g, ent, nil, ctx)
	a.walkGraph(g, in, ctx, obs)
}

// RuleLocksP is RuleLocks on the refined flow (same tables, same report keys).
func RuleLocksP(r *Report, p *Prog, a *X11Locks, rules *LockRules, rule string, minAccesses int) {
	if ext, inferred := InferCallerHolds(p, rules); len(inferred) > 0 {
		rules = ext
		for _, name := range inferred {
			r.Note("%s: %s is not in the lock table; it touches guarded state of its receiver without locking and is only ever called, so it is checked as a caller-holds helper at its call sites", rule, name)
		}
	}
	pk := p.Pkg(rules.Pkg)
	if pk == nil {
		r.Bad("anchor", rules.Pkg, "unresolved", "-", "package not loaded")
		return
	}
	for _, gd := range rules.Guards {
		for _, fn := range append(append([]string{}, gd.Fields...), gd.Locks...) {
			if LookupField(pk.Types, gd.Type, fn) == nil {
				r.Bad("anchor", rules.Pkg+"."+gd.Type+"."+fn, "unresolved", "-", "field named in the lock table does not exist")
			}
		}
	}
	var names []string
	for name := range rules.CallerHolds {
		names = append(names, name)
	}
	for name := range rules.ExemptFunc {
		names = append(names, name)
	}
	sort.Strings(names)
	for _, name := range names {
		if f := p.Func(rules.Pkg, name); f == nil {
			r.Bad("anchor", rules.Pkg+"."+name, "unresolved", "-", "function named in the lock table does not exist")
		} else {
			r.Saw(f)
		}
	}
	usedExempt := map[string]bool{}
	guarded := map[*types.Var]guardInfo{}
	for i := range rules.Guards {
		gd := &rules.Guards[i]
		for _, fn := range gd.Fields {
			if v := LookupField(pk.Types, gd.Type, fn); v != nil {
				guarded[v] = guardInfo{gd, gd.Locks}
			}
		}
	}
	la := &LockAnalysis{Prog: p, Rules: rules}
	checked, callSites, nfuncs := 0, 0, 0
	var viol []LockViolation
	for _, f := range p.Funcs(rules.Pkg) {
		if f.Decl.Body == nil {
			continue
		}
		nfuncs++
		if _, ex := rules.ExemptFunc[f.Name]; ex {
			continue
		}
		entry := map[string]int8{}
		if held, ok := rules.CallerHolds[f.Name]; ok {
			rn := recvName(f.Decl)
			for lk, m := range held {
				md := int8(2)
				if m == 'R' {
					md = 1
				}
				entry[rn+"."+lk] = md
			}
		}
		locals := map[*Graph]map[types.Object]bool{}
		f := f
		a.Walk(f, entry, func(g *Graph, n *Node, held LockView) {
			st := held.st
			info := g.Info
			lc, ok := locals[g]
			if !ok {
				lc = constructedLocals(info, g.Body)
				locals[g] = lc
			}
			writes := writeTargets(n.N)
			var lits []*ast.FuncLit
			inspectNoLit(n.N, &lits, func(x ast.Node) {
				switch e := x.(type) {
				case *ast.SelectorExpr:
					fv := FieldOf(info, e)
					gi, ok := guarded[fv]
					if !ok {
						return
					}
					checked++
					base := la.lockBase(e.X)
					if id, isId := ast.Unparen(e.X).(*ast.Ident); isId && lc[ObjOf(info, id)] {
						return
					}
					isWrite := writes[e]
					key := f.Name + ":" + fv.Name()
					if _, ex := rules.ExemptAccess[key]; ex {
						usedExempt[key] = true
						return
					}
					ok = false
					if isWrite {
						ok = true
						for _, lk := range gi.locks {
							if st[base+"."+lk] != 2 {
								ok = false
							}
						}
					} else {
						for _, lk := range gi.locks {
							if st[base+"."+lk] >= 1 {
								ok = true
							}
						}
					}
					if !ok {
						acc := "read"
						if isWrite {
							acc = "write"
						}
						viol = append(viol, LockViolation{Func: f, What: gi.g.Type + "." + fv.Name(), Pos: e.Pos(),
							Need: base + ".{" + strings.Join(gi.locks, ",") + "}", Held: st.String(), Access: acc})
					}
				case *ast.CallExpr:
					callee := p.FuncOf(Callee(info, e))
					if callee == nil || callee.Pkg != f.Pkg {
						return
					}
					need, ok := rules.CallerHolds[callee.Name]
					if !ok {
						return
					}
					callSites++
					se, isSel := ast.Unparen(e.Fun).(*ast.SelectorExpr)
					if !isSel {
						return
					}
					base := ExprStr(se.X)
					if id, isId := ast.Unparen(se.X).(*ast.Ident); isId && lc[ObjOf(info, id)] {
						return
					}
					key := f.Name + ":" + callee.Name
					if _, ex := rules.ExemptAccess[key]; ex {
						usedExempt[key] = true
						return
					}
					var lks []string
					for lk := range need {
						lks = append(lks, lk)
					}
					sort.Strings(lks)
					for _, lk := range lks {
						m := need[lk]
						have := st[base+"."+lk]
						if (m == 'W' && have != 2) || (m == 'R' && have < 1) {
							viol = append(viol, LockViolation{Func: f, What: callee.Name, Pos: e.Pos(),
								Need: fmt.Sprintf("%s.%s:%c", base, lk, m), Held: st.String(), Access: "call"})
						}
					}
				}
			})
		}, nil)
	}
	seen := map[string]bool{}
	for _, v := range viol {
		key := v.Func.Name + ":" + v.What + ":" + v.Access
		if seen[key] {
			continue
		}
		seen[key] = true
		r.Saw(v.Func)
		r.Bad(rule, v.Func.String(), v.What+":"+v.Access, p.Pos(v.Pos),
			fmt.Sprintf("%s of %s needs %s, held on every path here: %s", v.Access, v.What, v.Need, v.Held))
	}
	var stale []string
	for k := range rules.ExemptAccess {
		if !usedExempt[k] {
			stale = append(stale, k)
		}
	}
	sort.Strings(stale)
	for _, k := range stale {
		r.Bad(rule, rules.Pkg, "stale-exception:"+k, "-", "the access exception "+k+" no longer matches any access (table must be re-confirmed)")
	}
	if checked < minAccesses {
		r.Bad(rule, rules.Pkg, "accesses:count", "-", fmt.Sprintf("only %d guarded accesses found, expected >= %d (rule would be vacuous)", checked, minAccesses))
	}
	r.Ok(rule, rules.Pkg, "-", fmt.Sprintf("%d functions, %d guarded accesses and %d caller-holds call sites examined, %d unprotected", nfuncs, checked, callSites, len(seen)))
}

// ---------------------------------------------------------------- lock order

// X11Acq is one lock a function may acquire (itself or through its callees).
type X11Acq struct {
	Class string
	Path  string // lock path in terms of the function's receiver/parameters ("" if not expressible)
	Op    string // Lock | RLock
	Fn    *Func  // function containing the Lock call
	Pos   token.Pos
	Via   string // call chain from the summarised function to Fn
}

// X11Edge: class To is acquired while class From is held.
type X11Edge struct {
	From, To string
	Holder   *Func     // function holding From
	Site     token.Pos // the Lock call, or the call through which To is acquired
	Acq      *Func     // function containing the Lock call of To
	AcqPos   token.Pos
	Via      string
	Count    int
}

// X11Reentry: a lock that is already held is acquired again.
type X11Reentry struct {
	Class    string
	Path     string
	HeldMode int8
	Op       string
	Holder   *Func
	Site     token.Pos
	Acq      *Func
	AcqPos   token.Pos
	Via      string
}

// X11Order is the result of the lock-order analysis.
type X11Order struct {
	Edges     map[[2]string]*X11Edge
	SelfEdges map[string]*X11Edge // same class, different lock object expression
	Reentries []X11Reentry
	Classes   map[string]int // class -> number of Lock/RLock sites
	LockSites int
	HeldCalls int // calls evaluated with at least one lock held
	Funcs     int
	acq       map[*Func]map[string]*X11Acq
	Timing    []string
}

type x11CallRec struct {
	call    *ast.CallExpr
	targets []*Func
}

// x11Targets resolves the functions a call may run: the static callee, or — for
// a method of an interface declared in one of pkgs — the methods of every named
// type of pkgs implementing it.
func x11Targets(p *Prog, info *types.Info, c *ast.CallExpr, inPkgs map[*types.Package]bool, named []*types.Named, cache map[string][]*Func) []*Func {
	fn := Callee(info, c)
	if fn == nil {
		return nil
	}
	sig, _ := fn.Type().(*types.Signature)
	if sig == nil {
		return nil
	}
	if sig.Recv() != nil {
		var recvT types.Type = sig.Recv().Type()
		if se, ok := ast.Unparen(c.Fun).(*ast.SelectorExpr); ok {
			if sel := info.Selections[se]; sel != nil {
				recvT = sel.Recv()
			}
		}
		if pt, ok := recvT.(*types.Pointer); ok {
			recvT = pt.Elem()
		}
		if iface, ok := recvT.Underlying().(*types.Interface); ok {
			nt, isNamed := recvT.(*types.Named)
			if !isNamed || nt.Obj().Pkg() == nil || !inPkgs[nt.Obj().Pkg()] {
				return nil
			}
			key := nt.Obj().Pkg().Path() + "." + nt.Obj().Name() + "." + fn.Name()
			if ts, ok := cache[key]; ok {
				return ts
			}
			var out []*Func
			for _, impl := range named {
				var t types.Type = impl
				if !types.Implements(t, iface) {
					t = types.NewPointer(impl)
					if !types.Implements(t, iface) {
						continue
					}
				}
				obj, _, _ := types.LookupFieldOrMethod(t, true, impl.Obj().Pkg(), fn.Name())
				if m, ok := obj.(*types.Func); ok {
					if f := p.FuncOf(m); f != nil && f.Decl.Body != nil {
						out = append(out, f)
					}
				}
			}
			cache[key] = out
			return out
		}
	}
	if fn.Pkg() == nil || !inPkgs[fn.Pkg()] {
		return nil
	}
	if f := p.FuncOf(fn); f != nil && f.Decl.Body != nil {
		return []*Func{f}
	}
	return nil
}

// X11LockOrder computes the lock-order graph of the given packages.
func X11LockOrder(p *Prog, a *X11Locks, pkgs []string) *X11Order {
	o := &X11Order{Edges: map[[2]string]*X11Edge{}, SelfEdges: map[string]*X11Edge{}, Classes: map[string]int{}, acq: map[*Func]map[string]*X11Acq{}}
	inPkgs := map[*types.Package]bool{}
	var named []*types.Named
	var funcs []*Func
	for _, pkg := range pkgs {
		pk := p.Pkg(pkg)
		if pk == nil {
			continue
		}
		inPkgs[pk.Types] = true
		sc := pk.Types.Scope()
		for _, nm := range sc.Names() {
			if tn, ok := sc.Lookup(nm).(*types.TypeName); ok && !tn.IsAlias() {
				if nt, ok := tn.Type().(*types.Named); ok && !types.IsInterface(nt) && nt.TypeParams().Len() == 0 {
					named = append(named, nt)
				}
			}
		}
		for _, f := range p.Funcs(pkg) {
			if f.Decl.Body != nil {
				funcs = append(funcs, f)
			}
		}
	}
	o.Funcs = len(funcs)
	cache := map[string][]*Func{}
	t0 := time.Now()
	lap := func(what string) {
		o.Timing = append(o.Timing, fmt.Sprintf("%s %.1fs", what, time.Since(t0).Seconds()))
		t0 = time.Now()
	}

	// (1) direct acquisitions and call lists (code running in a new goroutine excluded)
	direct := map[*Func][]*X11Acq{}
	calls := map[*Func][]x11CallRec{}
	for _, f := range funcs {
		info := f.Info()
		g := f.Graph()
		rooted := map[types.Object]bool{}
		if rv := f.X1Recv(); rv != nil {
			rooted[rv] = true
		}
		if sig, ok := f.Obj.Type().(*types.Signature); ok {
			for i := 0; i < sig.Params().Len(); i++ {
				rooted[sig.Params().At(i)] = true
			}
		}
		ast.Inspect(f.Decl.Body, func(n ast.Node) bool {
			switch c := n.(type) {
			case *ast.GoStmt:
				return false
			case *ast.CallExpr:
				if path, op, ok := lockOp(info, c); ok {
					if op == "Lock" || op == "RLock" {
						mx := ast.Unparen(c.Fun).(*ast.SelectorExpr).X
						cl := a.class(g, mx)
						o.Classes[cl]++
						o.LockSites++
						if ro := X1RootObj(info, mx); ro == nil || !rooted[ro] {
							path = ""
						}
						direct[f] = append(direct[f], &X11Acq{Class: cl, Path: path, Op: op, Fn: f, Pos: c.Pos()})
					}
					return true
				}
				if ts := x11Targets(p, info, c, inPkgs, named, cache); len(ts) > 0 {
					calls[f] = append(calls[f], x11CallRec{c, ts})
				}
			}
			return true
		})
	}
	// locks taken in goroutines started by f are still lock sites of the package
	for _, f := range funcs {
		info := f.Info()
		g := f.Graph()
		ast.Inspect(f.Decl.Body, func(n ast.Node) bool {
			gs, ok := n.(*ast.GoStmt)
			if !ok {
				return true
			}
			ast.Inspect(gs, func(m ast.Node) bool {
				if c, ok := m.(*ast.CallExpr); ok {
					if _, op, ok := lockOp(info, c); ok && (op == "Lock" || op == "RLock") {
						o.Classes[a.class(g, ast.Unparen(c.Fun).(*ast.SelectorExpr).X)]++
						o.LockSites++
					}
				}
				return true
			})
			return false
		})
	}

	lap("scan")
	// (2) may-acquire sets, transitively (fixpoint)
	key := func(q *X11Acq) string { return q.Class + "|" + q.Path }
	for _, f := range funcs {
		m := map[string]*X11Acq{}
		for _, q := range direct[f] {
			if _, ok := m[key(q)]; !ok {
				m[key(q)] = q
			}
		}
		o.acq[f] = m
	}
	carriers := map[*Func]*LockSummary{}
	carrier := func(callee *Func) *LockSummary {
		if ls, ok := carriers[callee]; ok {
			return ls
		}
		ls := &LockSummary{recv: recvName(callee.Decl)}
		if callee.Decl.Type.Params != nil {
			for _, fl := range callee.Decl.Type.Params.List {
				for _, nm := range fl.Names {
					ls.params = append(ls.params, nm.Name)
				}
				if len(fl.Names) == 0 {
					ls.params = append(ls.params, "")
				}
			}
		}
		carriers[callee] = ls
		return ls
	}
	type substKey struct {
		c *ast.CallExpr
		t *Func
	}
	substs := map[substKey]func(string) string{}
	substPath := func(f *Func, c *ast.CallExpr, callee *Func, path string) string {
		if path == "" {
			return ""
		}
		ls := carrier(callee)
		head, _, _ := strings.Cut(path, ".")
		if head == ls.recv {
			if _, ok := ast.Unparen(c.Fun).(*ast.SelectorExpr); !ok {
				return ""
			}
		}
		sf, ok := substs[substKey{c, callee}]
		if !ok {
			sf = a.la.substFor(f.Info(), c, ls)
			substs[substKey{c, callee}] = sf
		}
		q := sf(path)
		// bound the path language (recursive callees would otherwise grow it
		// without limit): at most three selections and no calls/indexing
		if strings.Count(q, ".") > 3 || strings.ContainsAny(q, "()[] ") {
			return ""
		}
		return q
	}
	// names a path of f must start with to be meaningful to f's callers
	rootNames := map[*Func]map[string]bool{}
	for _, f := range funcs {
		m := map[string]bool{}
		if rn := recvName(f.Decl); rn != "" && rn != "_" {
			m[rn] = true
		}
		for _, pn := range carrier(f).params {
			if pn != "" && pn != "_" {
				m[pn] = true
			}
		}
		rootNames[f] = m
	}
	type callerRec struct {
		f    *Func
		call *ast.CallExpr
	}
	callers := map[*Func][]callerRec{}
	for _, f := range funcs {
		for _, cr := range calls[f] {
			for _, t := range cr.targets {
				callers[t] = append(callers[t], callerRec{f, cr.call})
			}
		}
	}
	work := append([]*Func{}, funcs...)
	queued := map[*Func]bool{}
	for _, f := range funcs {
		queued[f] = true
	}
	pops := 0
	defer func() {
		tot, mx := 0, 0
		var mf *Func
		for f, m := range o.acq {
			tot += len(m)
			if len(m) > mx {
				mx, mf = len(m), f
			}
		}
		o.Timing = append(o.Timing, fmt.Sprintf("pops=%d totalAcq=%d max=%d (%v)", pops, tot, mx, mf))
	}()
	for len(work) > 0 {
		t := work[0]
		work = work[1:]
		queued[t] = false
		pops++
		if len(o.acq[t]) == 0 {
			continue
		}
		var ks []string
		for k := range o.acq[t] {
			ks = append(ks, k)
		}
		sort.Strings(ks)
		for _, cr := range callers[t] {
			f := cr.f
			changed := false
			for _, k := range ks {
				q := o.acq[t][k]
				np := substPath(f, cr.call, t, q.Path)
				if np != "" {
					head, _, _ := strings.Cut(np, ".")
					if !rootNames[f][head] {
						np = ""
					}
				}
				nk := q.Class + "|" + np
				if _, ok := o.acq[f][nk]; ok {
					continue
				}
				nq := &X11Acq{Class: q.Class, Path: np, Op: q.Op, Fn: q.Fn, Pos: q.Pos, Via: t.String()}
				if q.Via != "" {
					nq.Via = t.String() + " > " + q.Via
				}
				o.acq[f][nk] = nq
				changed = true
			}
			if changed && !queued[f] {
				queued[f] = true
				work = append(work, f)
			}
		}
	}

	lap("fixpoint")
	// (3) edges
	addEdge := func(from, to string, e *X11Edge) {
		if from == "" || to == "" {
			return
		}
		if from == to {
			if _, ok := o.SelfEdges[from]; !ok {
				o.SelfEdges[from] = e
			}
			return
		}
		k := [2]string{from, to}
		if old, ok := o.Edges[k]; ok {
			old.Count++
			return
		}
		e.From, e.To, e.Count = from, to, 1
		o.Edges[k] = e
	}
	for _, f := range funcs {
		f := f
		a.Walk(f, nil, nil, func(s *X11Site) {
			if s.Kind == "go" || len(s.Paths) == 0 {
				return
			}
			info := s.G.Info
			if path, op, ok := lockOp(info, s.Call); ok {
				if op != "Lock" && op != "RLock" {
					return
				}
				o.HeldCalls++
				cl := a.class(s.G, ast.Unparen(s.Call.Fun).(*ast.SelectorExpr).X)
				for _, q := range s.Paths {
					if q == path {
						o.Reentries = append(o.Reentries, X11Reentry{Class: cl, Path: path, HeldMode: s.st[q], Op: op, Holder: f, Site: s.Call.Pos(), Acq: f, AcqPos: s.Call.Pos()})
						continue
					}
					addEdge(s.Class(q), cl, &X11Edge{Holder: f, Site: s.Call.Pos(), Acq: f, AcqPos: s.Call.Pos()})
				}
				return
			}
			ts := x11Targets(p, info, s.Call, inPkgs, named, cache)
			if len(ts) == 0 {
				return
			}
			o.HeldCalls++
			for _, t := range ts {
				var ks []string
				for k := range o.acq[t] {
					ks = append(ks, k)
				}
				sort.Strings(ks)
				for _, k := range ks {
					q := o.acq[t][k]
					np := substPath(f, s.Call, t, q.Path)
					via := t.String()
					if q.Via != "" {
						via += " > " + q.Via
					}
					for _, h := range s.Paths {
						if np != "" && np == h {
							o.Reentries = append(o.Reentries, X11Reentry{Class: q.Class, Path: h, HeldMode: s.st[h], Op: q.Op, Holder: f, Site: s.Call.Pos(), Acq: q.Fn, AcqPos: q.Pos, Via: via})
							continue
						}
						addEdge(s.Class(h), q.Class, &X11Edge{Holder: f, Site: s.Call.Pos(), Acq: q.Fn, AcqPos: q.Pos, Via: via})
					}
				}
			}
		})
	}
	lap("edges")
	return o
}

// MayAcquire lists the lock classes f may acquire (sorted, with witnesses).
func (o *X11Order) MayAcquire(f *Func) []*X11Acq {
	var ks []string
	for k := range o.acq[f] {
		ks = append(ks, k)
	}
	sort.Strings(ks)
	var out []*X11Acq
	for _, k := range ks {
		out = append(out, o.acq[f][k])
	}
	return out
}

// SortedEdges returns the edges ordered by (From, To).
func (o *X11Order) SortedEdges() []*X11Edge {
	var out []*X11Edge
	for _, e := range o.Edges {
		out = append(out, e)
	}
	sort.Slice(out, func(i, j int) bool {
		if out[i].From != out[j].From {
			return out[i].From < out[j].From
		}
		return out[i].To < out[j].To
	})
	return out
}

// Cycles returns the strongly connected components with more than one class.
func (o *X11Order) Cycles() [][]string {
	adj := map[string][]string{}
	nodes := map[string]bool{}
	for _, e := range o.SortedEdges() {
		adj[e.From] = append(adj[e.From], e.To)
		nodes[e.From], nodes[e.To] = true, true
	}
	var order []string
	for n := range nodes {
		order = append(order, n)
	}
	sort.Strings(order)
	index := map[string]int{}
	low := map[string]int{}
	on := map[string]bool{}
	var stack []string
	var out [][]string
	idx := 0
	var strong func(v string)
	strong = func(v string) {
		idx++
		index[v], low[v] = idx, idx
		stack = append(stack, v)
		on[v] = true
		for _, w := range adj[v] {
			if index[w] == 0 {
				strong(w)
				if low[w] < low[v] {
					low[v] = low[w]
				}
			} else if on[w] && index[w] < low[v] {
				low[v] = index[w]
			}
		}
		if low[v] == index[v] {
			var comp []string
			for {
				w := stack[len(stack)-1]
				stack = stack[:len(stack)-1]
				on[w] = false
				comp = append(comp, w)
				if w == v {
					break
				}
			}
			if len(comp) > 1 {
				sort.Strings(comp)
				out = append(out, comp)
			}
		}
	}
	for _, n := range order {
		if index[n] == 0 {
			strong(n)
		}
	}
	sort.Slice(out, func(i, j int) bool { return strings.Join(out[i], "|") < strings.Join(out[j], "|") })
	return out
}

// ---------------------------------------------------------------- loops

// X11IterSkips analyses one iteration of loop statement s (for / range): which
// body nodes can hand over to the next iteration without having passed a node
// selected by acc, when the edges selected by exempt are not followed? ok=false
// when the loop is not in the graph. (Paths that leave the loop are not skips.)
func (g *Graph) X11IterSkips(s ast.Stmt, acc NodePred, exempt EdgePred) (skips []*Node, ok bool) {
	body := LoopBody(s)
	entry := g.LoopEntry(s)
	if body == nil || entry == nil {
		return nil, false
	}
	if acc(entry) {
		return nil, true
	}
	r1 := g.Reach([]*Node{entry}, acc, exempt)
	isNext := func(m *Node) bool {
		if m == entry {
			return true
		}
		if m.Block == nil || m.Block.Stmt != ast.Node(s) {
			return false
		}
		switch m.Block.Kind {
		case cfg.KindForLoop, cfg.KindForPost, cfg.KindRangeLoop:
			return true
		}
		return false
	}
	for _, n := range g.Nodes {
		if !r1[n] || !(n == entry || InRegion(n, body)) {
			continue
		}
		for _, e := range n.Succ {
			if exempt != nil && exempt(e) {
				continue
			}
			if isNext(e.To) && !acc(e.To) {
				skips = append(skips, n)
				break
			}
		}
	}
	return skips, true
}

// X11LoopOver returns the range statements in body whose operand satisfies is.
func X11LoopOver(body ast.Node, is func(ast.Expr) bool) []*ast.RangeStmt {
	var out []*ast.RangeStmt
	ast.Inspect(body, func(n ast.Node) bool {
		if rs, ok := n.(*ast.RangeStmt); ok && is(ast.Unparen(rs.X)) {
			out = append(out, rs)
		}
		return true
	})
	return out
}
