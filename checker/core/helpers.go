package core

import (
	"fmt"
	"go/ast"
	"go/types"
	"sort"
	"strings"
)

// Graphs returns the CFG of the function followed by the CFGs of all function
// literals nested in it (each literal is its own unit for path rules).
func (f *Func) Graphs() []*Graph {
	if f.Decl.Body == nil {
		return nil
	}
	out := []*Graph{f.Graph()}
	ast.Inspect(f.Decl.Body, func(n ast.Node) bool {
		if fl, ok := n.(*ast.FuncLit); ok {
			out = append(out, f.LitGraph(fl))
		}
		return true
	})
	return out
}

// directCalls lists the calls that belong to graph g itself: calls in its nodes,
// not descending into any function literal (those have their own graph).
func (g *Graph) directCalls(m Matcher) []*ast.CallExpr {
	var out []*ast.CallExpr
	for _, n := range g.Nodes {
		if n.N == nil {
			continue
		}
		ast.Inspect(n.N, func(x ast.Node) bool {
			switch c := x.(type) {
			case *ast.FuncLit:
				return false
			case *ast.CallExpr:
				if m(g.Info, c) {
					out = append(out, c)
				}
			}
			return true
		})
	}
	return out
}

// ---------------------------------------------------------------- E1 helpers

// MustPass: every success exit of g is reached only through a node selected by
// gate. Returns the offending exits.
func (g *Graph) MustPass(gate NodePred, extraStopEdge EdgePred) []*Node {
	r := g.ReachFromEntry(func(n *Node) bool {
		return gate(n)
	}, extraStopEdge)
	var bad []*Node
	for _, x := range g.SuccessExits() {
		if r[x] { // reached without passing a gate; note: a gate node that is itself the exit is not in r
			bad = append(bad, x)
		}
	}
	return bad
}

// RuleMustPass checks "every success exit of f passes a call of class gate".
// A `defer` of such a call counts (it runs at every later exit) when deferOK.
func RuleMustPass(r *Report, f *Func, rule, what string, gate Matcher, deferOK bool) bool {
	if f == nil {
		return false
	}
	g := f.Graph()
	pred := g.CallingDeep(gate)
	if deferOK {
		pred = AnyOf(pred, g.Deferring(gate))
	}
	return RuleMustPassN(r, f, g, rule, what, pred, nil)
}

// RuleMustPassN is the general form: pred selects the gate nodes in graph g
// (the function's own graph or one of its literals); paths through an edge
// selected by exempt are not required to pass the gate.
func RuleMustPassN(r *Report, f *Func, g *Graph, rule, what string, pred NodePred, exempt EdgePred) bool {
	if len(g.Select(pred)) == 0 {
		r.Bad(rule, f.String(), what+":absent", f.Pos(), "no "+what+" in the function at all")
		return false
	}
	bad := g.MustPass(pred, exempt)
	if len(bad) > 0 {
		var ls []string
		for _, b := range bad {
			ls = append(ls, g.Line(b))
		}
		r.Bad(rule, f.String(), what, ls[0], fmt.Sprintf("success exit(s) at %s reachable without passing %s", Join(ls), what))
		return false
	}
	r.Ok(rule, f.String(), f.Pos(), fmt.Sprintf("all %d success exits pass %s", len(g.SuccessExits()), what))
	return true
}

// Assigning selects nodes that store to the given struct field (x.f = …,
// x.f op= …, x.f++, x.f[i] = …).
func (g *Graph) Assigning(field *types.Var) NodePred {
	return func(n *Node) bool {
		if n.N == nil || field == nil {
			return false
		}
		found := false
		Walk(n.N, WalkOpts{}, func(x ast.Node) bool {
			switch s := x.(type) {
			case *ast.AssignStmt:
				for _, l := range s.Lhs {
					if FieldOf(g.Info, lhsBase(l)) == field {
						found = true
					}
				}
			case *ast.IncDecStmt:
				if FieldOf(g.Info, lhsBase(s.X)) == field {
					found = true
				}
			}
			return true
		})
		return found
	}
}

// lhsBase strips index/star/paren from an assignment target: x.f[i] -> x.f.
func lhsBase(e ast.Expr) ast.Expr {
	for {
		switch t := e.(type) {
		case *ast.ParenExpr:
			e = t.X
		case *ast.IndexExpr:
			e = t.X
		case *ast.StarExpr:
			e = t.X
		default:
			return e
		}
	}
}

// CondEdge selects the out-edge of a condition whose source text (normalised by
// types.ExprString) satisfies test and whose branch value is branch.
func CondEdge(test func(cond ast.Expr) bool, branch bool) EdgePred {
	return func(e *Edge) bool {
		return e.Cond != nil && e.Tag == nil && e.Branch == branch && test(e.Cond)
	}
}

// RulePrecede checks "every call of class B in f is reached only after a call of
// class A" (A dominates B). It also requires that B occurs at least once.
func RulePrecede(r *Report, f *Func, rule string, aName string, a Matcher, bName string, b Matcher) bool {
	if f == nil {
		return false
	}
	g := f.Graph()
	return rulePrecedeG(r, g, f, rule, aName, a, bName, b)
}

func rulePrecedeG(r *Report, g *Graph, f *Func, rule string, aName string, a Matcher, bName string, b Matcher) bool {
	pa, pb := g.CallingDeep(a), g.Calling(b)
	bs := g.Select(pb)
	construct := f.String()
	if len(bs) == 0 {
		r.Bad(rule, construct, bName+":absent", f.Pos(), "no call of "+bName)
		return false
	}
	if len(g.Select(pa)) == 0 {
		r.Bad(rule, construct, aName+":absent", f.Pos(), "no call of "+aName)
		return false
	}
	reach := g.ReachFromEntry(pa, nil)
	ok := true
	for _, n := range bs {
		if reach[n] {
			r.Bad(rule, construct, aName+"<"+bName, g.Line(n), fmt.Sprintf("%s reachable without a preceding %s", bName, aName))
			ok = false
		}
	}
	if ok {
		r.Ok(rule, construct, g.Line(bs[0]), fmt.Sprintf("%s precedes every %s (%d site(s))", aName, bName, len(bs)))
	}
	return ok
}

// RuleOrder checks a chain A1 ≺ A2 ≺ … (each dominating the next).
func RuleOrder(r *Report, f *Func, rule string, names []string, ms []Matcher) bool {
	ok := true
	for i := 0; i+1 < len(ms); i++ {
		if !RulePrecede(r, f, rule, names[i], ms[i], names[i+1], ms[i+1]) {
			ok = false
		}
	}
	return ok
}

// RuleNotAfterFailure checks "on no path that leaves call A through its failure
// branch is a call of class B executed" (forbidden-after).
func RuleNotAfterFailure(r *Report, f *Func, rule string, aName string, a Matcher, bName string, b Matcher) bool {
	if f == nil {
		return false
	}
	g := f.Graph()
	as := g.Select(g.Calling(a))
	if len(as) == 0 {
		r.Bad(rule, f.String(), aName+":absent", f.Pos(), "no call of "+aName)
		return false
	}
	ok := true
	found := 0
	for _, n := range as {
		fail, _, has := g.ErrEdges(n)
		if !has {
			continue
		}
		found++
		reach := g.Reach([]*Node{fail.To}, nil, nil)
		for _, bn := range g.Select(g.Calling(b)) {
			if reach[bn] {
				r.Bad(rule, f.String(), bName+"-after-failed-"+aName, g.Line(bn), fmt.Sprintf("%s is reachable from the failure branch of %s (%s)", bName, aName, g.Line(n)))
				ok = false
			}
		}
	}
	if found == 0 {
		r.Bad(rule, f.String(), aName+":unchecked", g.Line(as[0]), "the error of "+aName+" is not tested by a following `!= nil` branch")
		return false
	}
	if ok {
		r.Ok(rule, f.String(), g.Line(as[0]), fmt.Sprintf("no %s on the failure branch of %s", bName, aName))
	}
	return ok
}

// ---------------------------------------------------------------- E5 error discipline

func returnsError(info *types.Info, call *ast.CallExpr) (idx, n int) {
	t := info.TypeOf(call)
	switch tt := t.(type) {
	case *types.Tuple:
		for i := tt.Len() - 1; i >= 0; i-- {
			if IsErrorType(tt.At(i).Type()) {
				return i, tt.Len()
			}
		}
		return -1, tt.Len()
	default:
		if IsErrorType(t) {
			return 0, 1
		}
	}
	return -1, 1
}

// ErrUse describes how the error result of a call is treated.
type ErrUse struct {
	Call *ast.CallExpr
	G    *Graph
	OK   bool
	Why  string
}

// ErrorsUsed analyses every call of class d in f (and its function literals):
// the error result must be returned, passed on as an argument, or assigned to a
// variable that is read on every path before it is overwritten or the function
// exits. allowDefer accepts `defer x.Close()`-style drops.
func ErrorsUsed(f *Func, d Matcher, allowDefer bool) []ErrUse {
	var out []ErrUse
	for _, g := range f.Graphs() {
		for _, c := range g.directCalls(d) {
			idx, n := returnsError(g.Info, c)
			if idx < 0 {
				continue
			}
			u := ErrUse{Call: c, G: g}
			u.OK, u.Why = g.errUsed(c, idx, n, allowDefer)
			out = append(out, u)
		}
	}
	return out
}

func (g *Graph) errUsed(c *ast.CallExpr, idx, n int, allowDefer bool) (bool, string) {
	nd := g.NodeOf(c)
	if nd == nil {
		return false, "call site not found in CFG (dead code?)"
	}
	// find the direct parent usage inside the node
	var parent ast.Node
	var path []ast.Node
	ast.Inspect(nd.N, func(x ast.Node) bool {
		if x == nil {
			path = path[:len(path)-1]
			return false
		}
		if x == ast.Node(c) && len(path) > 0 {
			parent = path[len(path)-1]
			for i := len(path) - 1; i >= 0; i-- {
				if _, ok := path[i].(*ast.ParenExpr); !ok {
					parent = path[i]
					break
				}
			}
		}
		path = append(path, x)
		return true
	})
	if nd.N == ast.Node(c) {
		// the call itself is a condition/tag expression node – its value is consumed
		return true, "value consumed"
	}
	switch p := parent.(type) {
	case *ast.ExprStmt:
		return false, "result discarded (bare call)"
	case *ast.DeferStmt:
		if allowDefer {
			return true, "deferred (accepted idiom)"
		}
		return false, "result discarded (deferred call)"
	case *ast.GoStmt:
		return false, "result discarded (go statement)"
	case *ast.ReturnStmt:
		return true, "returned"
	case *ast.CallExpr:
		return true, "passed to " + ExprStr(p.Fun)
	case *ast.BinaryExpr, *ast.UnaryExpr, *ast.KeyValueExpr, *ast.CompositeLit, *ast.SendStmt, *ast.IfStmt, *ast.SwitchStmt:
		return true, "value consumed"
	case *ast.ValueSpec:
		if n == 1 && len(p.Names) >= 1 {
			return g.varUsedAfter(nd, g.Info.Defs[p.Names[len(p.Names)-1]])
		}
		if len(p.Names) == n {
			if p.Names[idx].Name == "_" {
				return false, "error assigned to _"
			}
			return g.varUsedAfter(nd, g.Info.Defs[p.Names[idx]])
		}
	case *ast.AssignStmt:
		var lhs ast.Expr
		if len(p.Lhs) == n && len(p.Rhs) == 1 {
			lhs = p.Lhs[idx]
		} else if len(p.Lhs) == len(p.Rhs) {
			for i, rh := range p.Rhs {
				if ast.Unparen(rh) == ast.Expr(c) {
					lhs = p.Lhs[i]
				}
			}
		}
		if lhs == nil {
			return false, "unrecognised assignment form"
		}
		if id, ok := lhs.(*ast.Ident); ok {
			if id.Name == "_" {
				return false, "error assigned to _"
			}
			return g.varUsedAfter(nd, ObjOf(g.Info, id))
		}
		return true, "stored to " + ExprStr(lhs)
	}
	return true, "value consumed"
}

func nodeReads(info *types.Info, n ast.Node, v types.Object) (reads, writes bool) {
	lhs := map[*ast.Ident]bool{}
	switch s := n.(type) {
	case *ast.AssignStmt:
		for _, l := range s.Lhs {
			if id, ok := l.(*ast.Ident); ok {
				lhs[id] = true
			}
		}
	}
	ast.Inspect(n, func(x ast.Node) bool {
		id, ok := x.(*ast.Ident)
		if !ok {
			return true
		}
		if info.Uses[id] == v || info.Defs[id] == v {
			if lhs[id] {
				writes = true
			} else {
				reads = true
			}
		}
		return true
	})
	return
}

// varUsedAfter: on every path from node nd, variable v is read before it is
// overwritten or the function exits (named results count as read by return).
func (g *Graph) varUsedAfter(nd *Node, v types.Object) (bool, string) {
	if v == nil {
		return false, "unresolved variable"
	}
	named := false
	if g.Sig != nil {
		for i := 0; i < g.Sig.Results().Len(); i++ {
			if g.Sig.Results().At(i) == v {
				named = true
			}
		}
	}
	// a variable captured from an enclosing function is observable after this
	// literal returns; treat reaching an exit as a use in that case.
	captured := v.Pos() < g.Body.Pos() || v.Pos() > g.Body.End()
	seen := map[*Node]bool{}
	var bad string
	var visit func(n *Node)
	visit = func(n *Node) {
		if seen[n] || bad != "" {
			return
		}
		seen[n] = true
		if n.N != nil {
			rd, wr := nodeReads(g.Info, n.N, v)
			// closures referencing v (e.g. deferred func reading err) count as reads
			if rd {
				return
			}
			if wr {
				bad = "overwritten at " + g.Line(n) + " before being read"
				return
			}
		}
		if len(n.Succ) == 0 {
			if n.Kind == KPanic || named || captured {
				return
			}
			if rs, ok := n.N.(*ast.ReturnStmt); ok && len(rs.Results) == 0 && named {
				return
			}
			bad = "function exits at " + g.Line(n) + " without reading it"
			return
		}
		for _, e := range n.Succ {
			visit(e.To)
		}
	}
	for _, e := range nd.Succ {
		visit(e.To)
	}
	if bad != "" {
		return false, "error stored in " + v.Name() + " but " + bad
	}
	return true, "assigned to " + v.Name() + " and read on every path"
}

// RuleErrorsUsed reports every call of class d in f whose error is dropped.
// min is the number of such calls confirmed by reading (a lower bound).
func RuleErrorsUsed(r *Report, f *Func, rule string, dName string, d Matcher, allowDefer bool, min int) bool {
	if f == nil {
		return false
	}
	us := ErrorsUsed(f, d, allowDefer)
	if len(us) < min {
		r.Bad(rule, f.String(), dName+":count", f.Pos(), fmt.Sprintf("found %d call(s) of %s, confirmed by reading: >= %d — the rule would pass vacuously", len(us), dName, min))
		return false
	}
	ok := true
	for _, u := range us {
		cn := FName(Callee(u.G.Info, u.Call))
		if !u.OK {
			r.Bad(rule, f.String(), cn, f.Prog.Pos(u.Call.Pos()), "error of "+cn+": "+u.Why)
			ok = false
		}
	}
	if ok {
		r.Ok(rule, f.String(), f.Pos(), fmt.Sprintf("%d call(s) of %s, every error result is propagated or tested", len(us), dName))
	}
	return ok
}

// ---------------------------------------------------------------- misc

// CalleeNames lists the distinct callee names in f (incl. literals), sorted.
func CalleeNames(f *Func) []string {
	set := map[string]bool{}
	for _, c := range AllCalls(f.Info(), f.Decl.Body, func(*types.Info, *ast.CallExpr) bool { return true }) {
		if n := FName(Callee(f.Info(), c)); n != "" {
			set[n] = true
		}
	}
	var out []string
	for n := range set {
		out = append(out, n)
	}
	sort.Strings(out)
	return out
}

// HasCall reports whether f (anywhere, incl. literals and defers) calls class m.
func HasCall(f *Func, m Matcher) bool {
	return len(AllCalls(f.Info(), f.Decl.Body, m)) > 0
}

// RuleHasCall: f must contain a call of class m somewhere.
func RuleHasCall(r *Report, f *Func, rule, what string, m Matcher) bool {
	if f == nil {
		return false
	}
	return r.Check(HasCall(f, m), rule, f.String(), what+":absent", f.Pos(), "calls "+what)
}

// Trim shortens a string for messages.
func Trim(s string, n int) string {
	s = strings.Join(strings.Fields(s), " ")
	if len(s) > n {
		return s[:n] + "…"
	}
	return s
}
