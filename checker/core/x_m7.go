package core

// Helpers added by m7 (survivor-driven strengthening of C26 / C38 / C39).

import (
	"go/ast"
	"go/token"
	"go/types"
	"strings"
)

// CallValM7 names a boolean call class together with the result that counts.
type CallValM7 struct {
	M   Matcher
	Val bool
}

// JustifiedM7 decides whether a conditional edge is taken only for one of a
// fixed list of reasons:
//   - a call of class Calls[i].M returned Calls[i].Val,
//   - a call of class FailOf failed (the `!= nil` edge that follows it), or
//   - a boolean predicate — a function of the same package or a local closure —
//     returned the value V, and inside that predicate every exit that can yield V
//     is itself reached only for one of these reasons (two levels deep). A
//     `return <cond>` yields V exactly when cond == V, so it is accepted when
//     cond == V establishes one of the reasons (e.g. `return err == nil` after
//     the FailOf call yields false only when the call failed).
//
// This lets "the loop skips an element only because …" rules be stated once and
// hold through helper extraction / local predicates.
type JustifiedM7 struct {
	P      *Prog
	Calls  []CallValM7
	FailOf Matcher
}

// Edge returns the edge predicate for graph g (of function owner or of a literal in it).
func (j *JustifiedM7) Edge(g *Graph) EdgePred { return j.edge(g, 2) }

func (j *JustifiedM7) edge(g *Graph, depth int) EdgePred {
	fails := map[*Edge]bool{}
	if j.FailOf != nil {
		for _, n := range g.Select(g.Calling(j.FailOf)) {
			if fail, _, ok := g.ErrEdges(n); ok {
				fails[fail] = true
			}
		}
	}
	fact := j.fact(g, depth, nil)
	return func(e *Edge) bool {
		if fails[e] {
			return true
		}
		return e.Cond != nil && e.Tag == nil && Establishes(e.Cond, e.Branch, fact)
	}
}

// fact: atom == val is one of the reasons. failVars: error variables known to
// hold the result of a FailOf call at the point of evaluation.
func (j *JustifiedM7) fact(g *Graph, depth int, failVars map[types.Object]bool) CondFact {
	info := g.Info
	var self CondFact
	self = func(atom ast.Expr, val bool) bool {
		atom = ast.Unparen(atom)
		if _, isIdent := atom.(*ast.Ident); isIdent && g.Fn != nil && g.Fn.Decl.Body != nil { // single-definition boolean temporaries
			if r := ast.Unparen(ResolveLocal(info, g.Fn.Decl.Body, atom)); r != atom {
				return Establishes(r, val, self)
			}
		}
		if x, nonNilOnTrue, ok := NilTest(info, atom); ok && failVars != nil {
			if o := ObjOf(info, x); o != nil && failVars[o] && val == nonNilOnTrue {
				return true
			}
		}
		c, ok := atom.(*ast.CallExpr)
		if !ok {
			return false
		}
		for _, cv := range j.Calls {
			if cv.M(info, c) && cv.Val == val {
				return true
			}
		}
		if depth <= 0 {
			return false
		}
		hg := j.predicateGraph(g, c)
		if hg == nil {
			return false
		}
		return j.yieldsOnlyJustified(hg, val, depth-1)
	}
	return self
}

// predicateGraph: the graph of the boolean predicate called by c (same-package
// function or local closure bound once), nil otherwise.
func (j *JustifiedM7) predicateGraph(g *Graph, c *ast.CallExpr) *Graph {
	isBoolSig := func(sig *types.Signature) bool {
		if sig == nil || sig.Results().Len() != 1 {
			return false
		}
		b, ok := sig.Results().At(0).Type().Underlying().(*types.Basic)
		return ok && b.Kind() == types.Bool
	}
	if fn := Callee(g.Info, c); fn != nil {
		f := j.P.FuncOf(fn)
		if f == nil || g.Fn == nil || f.Pkg != g.Fn.Pkg || f.Decl.Body == nil {
			return nil
		}
		hg := f.Graph()
		if hg == nil || !isBoolSig(hg.Sig) {
			return nil
		}
		return hg
	}
	if id, ok := ast.Unparen(c.Fun).(*ast.Ident); ok && g.Fn != nil && g.Fn.Decl.Body != nil {
		if v, isVar := ObjOf(g.Info, id).(*types.Var); isVar {
			if lit := LocalLit(g.Info, g.Fn.Decl.Body, v); lit != nil {
				hg := g.Fn.LitGraph(lit)
				if hg != nil && isBoolSig(hg.Sig) {
					return hg
				}
			}
		}
	}
	return nil
}

// yieldsOnlyJustified: every exit of the predicate graph hg that can yield val
// does so only for one of the reasons.
func (j *JustifiedM7) yieldsOnlyJustified(hg *Graph, val bool, depth int) bool {
	gate := j.edge(hg, depth)
	// error variables of FailOf calls, valid at an exit when no other assignment intervenes
	type fv struct {
		at  *Node
		obj types.Object
	}
	var fvs []fv
	if j.FailOf != nil {
		for _, n := range hg.Select(hg.Calling(j.FailOf)) {
			if o := hg.ErrVarOf(n); o != nil {
				fvs = append(fvs, fv{n, o})
			}
		}
	}
	some := false
	for _, x := range hg.Exits {
		rs, ok := x.N.(*ast.ReturnStmt)
		if !ok || len(rs.Results) != 1 {
			return false
		}
		some = true
		if v, isConst := ConstBool(hg.Info, rs.Results[0]); isConst {
			if v != val {
				continue
			}
			if !hg.OnlyVia(x, gate) {
				return false
			}
			continue
		}
		valid := map[types.Object]bool{}
		for _, f := range fvs {
			// every path from the entry to x passes the call, and the variable is not reassigned after it
			if !hg.OnlyViaNodes(x, func(n *Node) bool { return n == f.at }) {
				continue
			}
			if hg.Reach(After(f.at, nil), hg.AssigningObj(f.obj), nil)[x] && !hg.AssigningObj(f.obj)(x) {
				clean := true
				for n := range hg.Reach(After(f.at, nil), nil, nil) {
					if n != f.at && hg.AssigningObj(f.obj)(n) && hg.Reach(After(n, nil), nil, nil)[x] {
						clean = false
					}
				}
				if clean {
					valid[f.obj] = true
				}
			}
		}
		if Establishes(rs.Results[0], val, j.fact(hg, depth, valid)) {
			continue
		}
		if !hg.OnlyVia(x, gate) {
			return false
		}
	}
	return some
}

// ---------------------------------------------------------------- nil test polarity (m7)

// NilDerefM7 is a dereference of an expression on a path on which a branch
// condition established that the expression is nil.
type NilDerefM7 struct {
	G    *Graph
	Test *Node  // the condition node whose edge established `x == nil`
	At   *Node  // the dereferencing node
	Expr string // x
	How  string
}

type nilFlowM7 struct {
	p        *Prog
	calls    map[*types.Package]map[*types.Func]map[*types.Func]bool // same-package call graph
	mayWrite map[*types.Var]map[*types.Func]bool
}

// NilFlowM7 carries the per-program tables of the nil-test-polarity analysis
// (same-package call graphs, may-write sets). One instance per rule run; it is
// not shared between goroutines.
type NilFlowM7 = nilFlowM7

// NewNilFlowM7 creates the analysis state for program p.
func NewNilFlowM7(p *Prog) *NilFlowM7 {
	return &nilFlowM7{p: p, calls: map[*types.Package]map[*types.Func]map[*types.Func]bool{}, mayWrite: map[*types.Var]map[*types.Func]bool{}}
}

func (nf *nilFlowM7) graphOf(f *Func) map[*types.Func]map[*types.Func]bool {
	pk := f.Pkg.Types
	if cg := nf.calls[pk]; cg != nil {
		return cg
	}
	cg := map[*types.Func]map[*types.Func]bool{}
	for _, fn := range nf.p.Funcs(Short(f.Pkg.PkgPath)) {
		if fn.Decl == nil || fn.Decl.Body == nil || fn.Obj == nil {
			continue
		}
		out := map[*types.Func]bool{}
		info := fn.Info()
		ast.Inspect(fn.Decl.Body, func(n ast.Node) bool {
			if c, ok := n.(*ast.CallExpr); ok {
				if callee := Callee(info, c); callee != nil && callee.Pkg() == pk {
					out[callee.Origin()] = true
				}
			}
			return true
		})
		cg[fn.Obj.Origin()] = out
	}
	nf.calls[pk] = cg
	return cg
}

// writers: the functions of the field's package that may (transitively, through
// same-package static calls) store to field.
func (nf *nilFlowM7) writers(f *Func, field *types.Var) map[*types.Func]bool {
	if w := nf.mayWrite[field]; w != nil {
		return w
	}
	w := map[*types.Func]bool{}
	for _, fw := range FieldWriters(nf.p, Short(f.Pkg.PkgPath), field) {
		if fw.Func != nil && fw.Func.Obj != nil {
			w[fw.Func.Obj.Origin()] = true
		}
	}
	cg := nf.graphOf(f)
	for changed := true; changed; {
		changed = false
		for caller, callees := range cg {
			if w[caller] {
				continue
			}
			for c := range callees {
				if w[c] {
					w[caller] = true
					changed = true
					break
				}
			}
		}
	}
	nf.mayWrite[field] = w
	return w
}

// nilSafeMethodM7: a pointer-receiver method of the module that tests its
// receiver against nil (or never mentions it) tolerates a nil receiver.
func (p *Prog) nilSafeMethodM7(fn *types.Func) bool {
	if fn.Pkg() == nil || !(fn.Pkg().Path() == Mod || strings.HasPrefix(fn.Pkg().Path(), Mod+"/")) {
		return true // not a function of the module (e.g. *os.File methods validate their receiver in a helper): no claim
	}
	f := p.FuncOf(fn)
	if f == nil || f.Decl == nil || f.Decl.Body == nil || f.Decl.Recv == nil || len(f.Decl.Recv.List) == 0 || len(f.Decl.Recv.List[0].Names) == 0 {
		return true // unknown body: do not claim a dereference
	}
	recv := f.Info().Defs[f.Decl.Recv.List[0].Names[0]]
	if recv == nil {
		return true
	}
	safe, used := false, false
	ast.Inspect(f.Decl.Body, func(n ast.Node) bool {
		switch t := n.(type) {
		case *ast.BinaryExpr:
			if x, _, ok := NilTest(f.Info(), t); ok && ObjOf(f.Info(), x) == recv {
				safe = true
			}
		case *ast.Ident:
			if f.Info().Uses[t] == recv {
				used = true
			}
		}
		return true
	})
	return safe || !used
}

func nilableM7(t types.Type) bool {
	switch t.Underlying().(type) {
	case *types.Pointer, *types.Interface, *types.Signature, *types.Chan:
		return true
	}
	return false
}

// Derefs lists, for every graph of f, the dereferences of a local variable
// or field path x reachable from an edge that established x == nil without an
// intervening store to x (or, for a field path, a call that may store to the
// field), and without passing an edge that establishes x != nil. Dereferences:
// field selection through a pointer, *x, a method call on a nil interface, a call
// of a nil function value, and a call of a module method with pointer receiver
// that uses its receiver without testing it against nil. Operands guarded by a
// short-circuit test in the same expression (`x != nil && x.f`) do not count.
func (nf *nilFlowM7) Derefs(f *Func) []NilDerefM7 {
	if f == nil || f.Decl == nil || f.Decl.Body == nil {
		return nil
	}
	p := nf.p
	info := f.Info()
	// locals assigned or address-taken inside a function literal are not tracked
	unstable := map[types.Object]bool{}
	ast.Inspect(f.Decl.Body, func(n ast.Node) bool {
		fl, ok := n.(*ast.FuncLit)
		if !ok {
			return true
		}
		ast.Inspect(fl.Body, func(m ast.Node) bool {
			switch s := m.(type) {
			case *ast.AssignStmt:
				for _, l := range s.Lhs {
					if o := X1RootObj(info, l); o != nil {
						unstable[o] = true
					}
				}
			case *ast.UnaryExpr:
				if s.Op == token.AND {
					if o := X1RootObj(info, s.X); o != nil {
						unstable[o] = true
					}
				}
			case *ast.IncDecStmt:
				if o := X1RootObj(info, s.X); o != nil {
					unstable[o] = true
				}
			}
			return true
		})
		return true
	})
	// the communication statements of select clauses: a nil channel there is never ready, which is legitimate
	comm := map[ast.Node]bool{}
	ast.Inspect(f.Decl.Body, func(n ast.Node) bool {
		if cc, ok := n.(*ast.CommClause); ok && cc.Comm != nil {
			comm[cc.Comm] = true
		}
		return true
	})
	var out []NilDerefM7
	seen := map[[2]*Node]bool{}
	for _, g := range f.Graphs() {
		for _, n := range g.Nodes {
			for _, e := range n.Succ {
				for _, ft := range EdgeFacts(e) {
					x, nonNilOnTrue, ok := NilTest(info, ft.Cond)
					if !ok || ft.Truth == nonNilOnTrue {
						continue
					}
					x = ast.Unparen(x)
					tx := info.TypeOf(x)
					if tx == nil || !nilableM7(tx) {
						continue
					}
					root, path, ok := X1FieldPath(info, x)
					if !ok || root == nil || unstable[root] {
						continue
					}
					if v, isVar := root.(*types.Var); !isVar || v.IsField() || (v.Pkg() != nil && v.Parent() == v.Pkg().Scope()) {
						continue
					}
					if _, hasStar := x.(*ast.StarExpr); hasStar {
						continue
					}
					var writers map[*types.Func]bool
					if len(path) > 0 {
						last := path[len(path)-1]
						if last.Pkg() != f.Pkg.Types {
							continue // field of another package: its writers are not known here
						}
						writers = nf.writers(f, last)
					}
					isX := func(a ast.Expr) bool { return SameExpr(info, a, x) }
					// a node that may change x
					changes := func(m *Node) bool {
						if m.N == nil {
							return false
						}
						hit := false
						Walk(m.N, WalkOpts{}, func(y ast.Node) bool {
							switch s := y.(type) {
							case *ast.AssignStmt:
								for _, l := range s.Lhs {
									if isPrefixM7(info, l, x) {
										hit = true
									}
								}
							case *ast.IncDecStmt:
								if isPrefixM7(info, s.X, x) {
									hit = true
								}
							case *ast.RangeStmt:
								if (s.Key != nil && isPrefixM7(info, s.Key, x)) || (s.Value != nil && isPrefixM7(info, s.Value, x)) {
									hit = true
								}
							case *ast.UnaryExpr:
								if s.Op == token.AND && isPrefixM7(info, s.X, x) {
									hit = true
								}
							case *ast.CallExpr:
								if len(path) == 0 {
									return true
								}
								callee := Callee(info, s)
								if callee == nil {
									if _, conv := IsConversion(info, s); !conv {
										if id, isId := ast.Unparen(s.Fun).(*ast.Ident); !isId || info.Uses[id] == nil || info.Uses[id].Pkg() != nil {
											hit = true // call through a function value
										}
									}
									return true
								}
								if writers[callee.Origin()] {
									hit = true
								}
							}
							return true
						})
						return hit
					}
					nonNil := func(e2 *Edge) bool {
						for _, f2 := range EdgeFacts(e2) {
							if y, nn, ok := NilTest(info, f2.Cond); ok && isX(y) && f2.Truth == nn {
								return true
							}
						}
						return false
					}
					for m := range g.Reach([]*Node{e.To}, changes, nonNil) {
						if m.N == nil || comm[m.N] || seen[[2]*Node{n, m}] {
							continue
						}
						if how := p.derefInM7(info, m.N, x); how != "" {
							seen[[2]*Node{n, m}] = true
							out = append(out, NilDerefM7{G: g, Test: n, At: m, Expr: ExprStr(x), How: how})
						}
					}
				}
			}
		}
	}
	return out
}

// isPrefixM7: l denotes x or an object x is selected from (storing to it changes x).
func isPrefixM7(info *types.Info, l, x ast.Expr) bool {
	l = ast.Unparen(l)
	for cur := ast.Unparen(x); cur != nil; {
		if SameExpr(info, l, cur) {
			return true
		}
		switch t := cur.(type) {
		case *ast.SelectorExpr:
			cur = ast.Unparen(t.X)
		case *ast.StarExpr:
			cur = ast.Unparen(t.X)
		default:
			cur = nil
		}
	}
	return false
}

// derefInM7: how node root dereferences x when it is evaluated ("" if it does not).
func (p *Prog) derefInM7(info *types.Info, root ast.Node, x ast.Expr) string {
	isX := func(a ast.Expr) bool { return SameExpr(info, a, x) }
	nonNilFact := func(atom ast.Expr, val bool) bool {
		y, nn, ok := NilTest(info, atom)
		return ok && isX(y) && val == nn
	}
	how := ""
	var walk func(n ast.Node)
	walk = func(n ast.Node) {
		if n == nil || how != "" {
			return
		}
		switch t := n.(type) {
		case *ast.FuncLit, *ast.DeferStmt, *ast.GoStmt:
			return
		case *ast.BinaryExpr:
			if t.Op == token.LAND || t.Op == token.LOR {
				walk(t.X)
				if Establishes(t.X, t.Op == token.LAND, nonNilFact) {
					return // the right operand is evaluated only when x != nil
				}
				walk(t.Y)
				return
			}
		case *ast.StarExpr:
			if isX(t.X) {
				how = "*" + ExprStr(x)
				return
			}
		case *ast.CommClause:
			// a nil channel in a select case is never ready (a legitimate idiom): only the clause body counts
			for _, st := range t.Body {
				walk(st)
			}
			return
		case *ast.UnaryExpr:
			if t.Op == token.ARROW && isX(t.X) {
				how = "receive from the nil channel " + ExprStr(x) + " (blocks for ever)"
				return
			}
		case *ast.SendStmt:
			if isX(t.Chan) {
				how = "send on the nil channel " + ExprStr(x) + " (blocks for ever)"
				return
			}
		case *ast.CallExpr:
			if isX(t.Fun) {
				how = "call of the nil function value " + ExprStr(x)
				return
			}
			if Builtin("close")(info, t) && len(t.Args) == 1 && isX(t.Args[0]) {
				how = "close of the nil channel " + ExprStr(x)
				return
			}
			if se, ok := ast.Unparen(t.Fun).(*ast.SelectorExpr); ok && isX(se.X) {
				if callee := Callee(info, t); callee != nil {
					if _, isIface := info.TypeOf(se.X).Underlying().(*types.Interface); isIface {
						how = "method call " + ExprStr(t.Fun) + " on a nil interface"
						return
					}
					if sig, _ := callee.Type().(*types.Signature); sig != nil && sig.Recv() != nil {
						if _, ptrRecv := sig.Recv().Type().(*types.Pointer); !ptrRecv {
							how = "value-receiver method call " + ExprStr(t.Fun) + " through a nil pointer"
							return
						}
						if !p.nilSafeMethodM7(callee) {
							how = "method call " + ExprStr(t.Fun) + " (the method uses its receiver without a nil test)"
							return
						}
					}
					for _, a := range t.Args {
						walk(a)
					}
					return
				}
			}
		case *ast.SelectorExpr:
			if isX(t.X) && FieldOf(info, t) != nil {
				if _, isPtr := info.TypeOf(t.X).Underlying().(*types.Pointer); isPtr {
					how = "field access " + ExprStr(t)
					return
				}
			}
		}
		// generic descent
		ast.Inspect(n, func(c ast.Node) bool {
			if c == n {
				return true
			}
			if c != nil {
				walk(c)
			}
			return false
		})
	}
	walk(root)
	return how
}

// ---------------------------------------------------------------- unpaired releases (m7)

// UnpairedReleaseM7 is a release of mutex field mu that can be reached without
// the matching acquisition.
type UnpairedReleaseM7 struct {
	At       *Node
	Deferred bool
}

// isReleaseWrapperM7: every statement of the body is a Lock-family release call
// (a helper such as wunlock that hands the lock back for its caller).
func isReleaseWrapperM7(info *types.Info, body *ast.BlockStmt) bool {
	if body == nil || len(body.List) == 0 {
		return false
	}
	for _, s := range body.List {
		es, ok := s.(*ast.ExprStmt)
		if !ok {
			return false
		}
		c, ok := ast.Unparen(es.X).(*ast.CallExpr)
		if !ok {
			return false
		}
		_, op, ok := LockOpOn(info, c)
		if !ok || (op != "Unlock" && op != "RUnlock") {
			return false
		}
	}
	return true
}

// UnpairedReleasesM7 examines every release of mu in g (in place or registered
// with defer): the matching acquisition (Lock for Unlock, RLock for RUnlock)
// must have happened on every path from the entry of g. Unlocking a mutex that
// is not locked is a fatal runtime error. Not reported: release wrappers (body
// made of release calls only), and a temporary release — a function that is
// entered with the lock held releases it and re-acquires it on every path to a
// normal exit.
func (g *Graph) UnpairedReleasesM7(mu *types.Var) (sites int, out []UnpairedReleaseM7) {
	if mu == nil || isReleaseWrapperM7(g.Info, g.Body) {
		return 0, nil
	}
	bodyOf := g.SamePkgBodies5()
	for _, n := range g.Nodes {
		var mode byte
		deferred := false
		if _, rel := mutexOps5(g.Info, n, mu, bodyOf); rel != 0 {
			mode = rel
		} else if deferredReleaseM7(g.Info, n, mu, 'W', bodyOf) {
			mode, deferred = 'W', true
		} else if deferredReleaseM7(g.Info, n, mu, 'R', bodyOf) {
			mode, deferred = 'R', true
		}
		if mode == 0 {
			continue
		}
		sites++
		acquires := func(x *Node) bool {
			a, _ := mutexOps5(g.Info, x, mu, bodyOf)
			return a == mode
		}
		if acq, _ := mutexOps5(g.Info, n, mu, bodyOf); acq == mode {
			continue // lock and unlock in one statement (e.g. a balanced in-place literal)
		}
		if !g.ReachFromEntry(acquires, nil)[n] {
			continue
		}
		if !deferred {
			// temporary release: re-acquired before every normal exit
			temp := true
			for x := range g.Reach(After(n, nil), acquires, nil) {
				if len(x.Succ) == 0 && x.Kind != KPanic {
					temp = false
				}
			}
			if temp && len(n.Succ) > 0 {
				continue
			}
		}
		out = append(out, UnpairedReleaseM7{n, deferred})
	}
	return
}

// ---------------------------------------------------------------- lock balance with wrapper-aware defers (m7)

// deferredReleaseM7 is deferredRelease5 that also sees `defer f.wunlock()`: a
// deferred call of a same-package helper / local closure whose Lock-family
// operations on mu are releases of the wanted mode only.
func deferredReleaseM7(info *types.Info, n *Node, mu *types.Var, mode byte, bodyOf BodyOf5) bool {
	if deferredRelease5(info, n, mu, mode) {
		return true
	}
	d, ok := n.N.(*ast.DeferStmt)
	if !ok || bodyOf == nil {
		return false
	}
	found := false
	check := func(c *ast.CallExpr) {
		body := bodyOf(c)
		if body == nil {
			return
		}
		var ops []string
		lockOpsIn5(info, body, mu, func(op string) { ops = append(ops, op) }, nil)
		if len(ops) == 0 {
			return
		}
		for _, op := range ops {
			if !((mode == 'W' && op == "Unlock") || (mode == 'R' && op == "RUnlock")) {
				return
			}
		}
		found = true
	}
	check(d.Call)
	if fl, ok := ast.Unparen(d.Call.Fun).(*ast.FuncLit); ok {
		ast.Inspect(fl.Body, func(x ast.Node) bool {
			if c, ok := x.(*ast.CallExpr); ok {
				check(c)
			}
			return true
		})
	}
	return found
}

// returnsReleaserM7: the return statement hands the caller a function that
// releases mu (the method value X.mu.Unlock / RUnlock or a literal calling it).
func returnsReleaserM7(info *types.Info, x *Node, mu *types.Var) bool {
	rs, ok := x.N.(*ast.ReturnStmt)
	if !ok {
		return false
	}
	for _, res := range rs.Results {
		found := false
		ast.Inspect(res, func(y ast.Node) bool {
			se, ok := y.(*ast.SelectorExpr)
			if !ok {
				return true
			}
			if (se.Sel.Name == "Unlock" || se.Sel.Name == "RUnlock") && FieldOf(info, se.X) == mu {
				found = true
			}
			return true
		})
		if found {
			return true
		}
	}
	return false
}

// LockBalanceM7 is LockBalance5 with two refinements: a deferred call of a
// release wrapper (`defer f.wunlock()`) counts as the deferred release, and an
// exit that returns a releaser of the mutex (hand-over to the caller, e.g.
// `return f.refs.RUnlock`) is not an open critical section.
func (g *Graph) LockBalanceM7(mu *types.Var) (sites int, out []LockImbalance5) {
	if mu == nil {
		return 0, nil
	}
	bodyOf := g.SamePkgBodies5()
	for _, n := range g.Nodes {
		acq, _ := mutexOps5(g.Info, n, mu, bodyOf)
		if acq == 0 {
			continue
		}
		sites++
		released := func(x *Node) bool {
			_, rel := mutexOps5(g.Info, x, mu, bodyOf)
			return rel == acq || calleeReleasesM7(g.Info, x, mu, acq, bodyOf)
		}
		start := After(n, nil)
		for x := range g.Reach(start, released, nil) {
			if a2, _ := mutexOps5(g.Info, x, mu, bodyOf); a2 != 0 && (a2 == 'W' || acq == 'W') {
				out = append(out, LockImbalance5{n, "re-acquired", x})
				break
			}
		}
		relOrDefer := func(x *Node) bool { return released(x) || deferredReleaseM7(g.Info, x, mu, acq, bodyOf) }
		if len(n.Succ) == 0 && n.Kind != KPanic {
			out = append(out, LockImbalance5{n, "held-at-exit", n})
			continue
		}
		for x := range g.Reach(start, relOrDefer, nil) {
			if len(x.Succ) == 0 && x.Kind != KPanic && !returnsReleaserM7(g.Info, x, mu) {
				out = append(out, LockImbalance5{n, "held-at-exit", x})
				break
			}
		}
	}
	return
}

// calleeReleasesM7: node n calls (in place) a same-package helper / local
// closure that takes over the critical section: its body registers the release
// of mu with a top-level defer and acquires nothing itself
// (`mu.Lock(); finish()` with `finish := func() { defer mu.Unlock(); … }`).
func calleeReleasesM7(info *types.Info, n *Node, mu *types.Var, mode byte, bodyOf BodyOf5) bool {
	if n.N == nil || bodyOf == nil {
		return false
	}
	switch n.N.(type) {
	case *ast.DeferStmt, *ast.GoStmt:
		return false
	}
	found := false
	ast.Inspect(n.N, func(x ast.Node) bool {
		switch c := x.(type) {
		case *ast.FuncLit:
			return false
		case *ast.CallExpr:
			body := bodyOf(c)
			if body == nil {
				return true
			}
			acquires := false
			lockOpsIn5(info, body, mu, func(op string) {
				if op == "Lock" || op == "RLock" {
					acquires = true
				}
			}, nil)
			if acquires {
				return true
			}
			for _, st := range body.List {
				if d, ok := st.(*ast.DeferStmt); ok {
					ast.Inspect(d.Call, func(z ast.Node) bool {
						if cc, ok := z.(*ast.CallExpr); ok {
							if f, op, ok := LockOpOn(info, cc); ok && f == mu && ((mode == 'W' && op == "Unlock") || (mode == 'R' && op == "RUnlock")) {
								found = true
							}
						}
						return true
					})
				}
			}
		}
		return true
	})
	return found
}

// ---------------------------------------------------------------- facts through boolean temporaries (m7)

// FactEdgeM7 is X1FactEdge that also looks through a single-definition boolean
// temporary of body: with `fresh := l.size == 0; if fresh {…}` the true edge
// establishes what the true edge of `if l.size == 0` establishes.
func FactEdgeM7(info *types.Info, body ast.Node, p X1FactPred) EdgePred {
	var holds func(f X1Fact, depth int) bool
	holds = func(f X1Fact, depth int) bool {
		if x1FactHolds(f, p) {
			return true
		}
		if depth <= 0 || body == nil {
			return false
		}
		if _, isIdent := ast.Unparen(f.E).(*ast.Ident); !isIdent {
			return false
		}
		r := ast.Unparen(ResolveLocal(info, body, f.E))
		if r == ast.Unparen(f.E) {
			return false
		}
		for _, sub := range X1EdgeFacts(&Edge{Cond: r, Branch: f.True}) {
			if holds(sub, depth-1) {
				return true
			}
		}
		return false
	}
	return func(e *Edge) bool {
		for _, f := range X1EdgeFacts(e) {
			if holds(f, 2) {
				return true
			}
		}
		return false
	}
}
