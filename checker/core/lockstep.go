package core

import (
	"fmt"
	"go/ast"
	"go/token"
	"strings"
)

// E6b — lockstep of parallel arrays.
//
// The *Array types keep two parallel slices, Timestamps and Values. Every
// statement that reshapes or stores into one must have a twin, in the same order,
// that does the same to the other with identical index expressions; otherwise
// timestamps and values drift apart. For each function the sequence of statements
// touching only Timestamps and the sequence touching only Values are normalised
// (field name -> F, local aliases such as ts/vs -> L) and must be equal.

// RuleLockstep checks every function of the given file that touches both fields.
func RuleLockstep(r *Report, p *Prog, pkg, fileSuffix, fieldA, fieldB string, minFuncs int) {
	const rule = "parallel-array-lockstep"
	pk := p.Pkg(pkg)
	if pk == nil {
		r.Bad("anchor", pkg, "unresolved", "-", "package not loaded")
		return
	}
	var file *ast.File
	for _, f := range pk.Syntax {
		if strings.HasSuffix(p.Fset.Position(f.Pos()).Filename, fileSuffix) {
			file = f
		}
	}
	if file == nil {
		r.Bad("anchor", pkg+"/"+fileSuffix, "unresolved", "-", "file not found")
		return
	}
	tf := p.Fset.File(file.Pos())
	src, err := p.Source(tf.Name())
	if err != nil {
		r.Bad("anchor", pkg+"/"+fileSuffix, "unreadable", "-", err.Error())
		return
	}
	checked, stmts := 0, 0
	for _, d := range file.Decls {
		fd, ok := d.(*ast.FuncDecl)
		if !ok || fd.Body == nil {
			continue
		}
		// aliases: locals defined from an expression rooted at .fieldA / .fieldB
		alias := map[string]string{}
		rootField := func(e ast.Expr) string {
			for {
				switch x := e.(type) {
				case *ast.SliceExpr:
					e = x.X
				case *ast.IndexExpr:
					e = x.X
				case *ast.ParenExpr:
					e = x.X
				case *ast.SelectorExpr:
					if x.Sel.Name == fieldA || x.Sel.Name == fieldB {
						return x.Sel.Name
					}
					return ""
				default:
					return ""
				}
			}
		}
		ast.Inspect(fd.Body, func(n ast.Node) bool {
			if as, ok := n.(*ast.AssignStmt); ok && as.Tok == token.DEFINE && len(as.Lhs) == len(as.Rhs) {
				for i, l := range as.Lhs {
					if id, ok := l.(*ast.Ident); ok {
						if f := rootField(as.Rhs[i]); f != "" {
							alias[id.Name] = f
						}
					}
				}
			}
			return true
		})
		type item struct {
			text string
			pos  token.Pos
		}
		var seqA, seqB []item
		add := func(n ast.Node) {
			from, to := n.Pos(), n.End()
			// `n := copy(dst, src)` and `copy(dst, src)` are the same operation
			if as, ok := n.(*ast.AssignStmt); ok && len(as.Rhs) == 1 {
				if c, ok := as.Rhs[0].(*ast.CallExpr); ok {
					if id, ok := c.Fun.(*ast.Ident); ok && id.Name == "copy" {
						from, to = c.Pos(), c.End()
					}
				}
			}
			hasA, hasB := false, false
			var parts []string
			for _, t := range tokenize(p.Fset, src, tf, from, to) {
				lit := t.lit
				if t.tok != token.IDENT {
					if lit == "" {
						lit = t.tok.String()
					}
					parts = append(parts, lit)
					continue
				}
				switch {
				case lit == fieldA:
					hasA = true
					lit = "F"
				case lit == fieldB:
					hasB = true
					lit = "F"
				case alias[lit] == fieldA:
					hasA = true
					lit = "L"
				case alias[lit] == fieldB:
					hasB = true
					lit = "L"
				}
				parts = append(parts, lit)
			}
			txt := strings.Join(parts, " ")
			switch {
			case hasA && !hasB:
				seqA = append(seqA, item{txt, n.Pos()})
			case hasB && !hasA:
				seqB = append(seqB, item{txt, n.Pos()})
			}
		}
		ast.Inspect(fd.Body, func(n ast.Node) bool {
			switch s := n.(type) {
			case *ast.AssignStmt:
				add(s)
				return false
			case *ast.ExprStmt:
				add(s)
				return false
			case *ast.IncDecStmt:
				add(s)
				return false
			}
			return true
		})
		if len(seqA) == 0 || len(seqB) == 0 {
			both := fd.Recv != nil && len(fd.Recv.List) == 1 &&
				LookupField(pk.Types, recvTypeName(fd.Recv.List[0].Type), fieldA) != nil &&
				LookupField(pk.Types, recvTypeName(fd.Recv.List[0].Type), fieldB) != nil
			if both && (len(seqA) == 0) != (len(seqB) == 0) && len(seqA)+len(seqB) > 1 {
				// one side is manipulated and the other never: report
				name := funcKeyName(fd)
				r.Bad(rule, pkg+"."+name, "one-sided", p.Pos(fd.Pos()), fmt.Sprintf("%d statements on %s, %d on %s", len(seqA), fieldA, len(seqB), fieldB))
			}
			continue
		}
		checked++
		stmts += len(seqA)
		name := funcKeyName(fd)
		ok2 := len(seqA) == len(seqB)
		at := fd.Pos()
		detail := ""
		for i := 0; i < len(seqA) && i < len(seqB); i++ {
			if seqA[i].text != seqB[i].text {
				ok2 = false
				at = seqB[i].pos
				detail = fmt.Sprintf("`%s` vs `%s`", Trim(seqA[i].text, 70), Trim(seqB[i].text, 70))
				break
			}
		}
		if !ok2 {
			if detail == "" {
				detail = fmt.Sprintf("%d statements on %s but %d on %s", len(seqA), fieldA, len(seqB), fieldB)
			}
			r.Bad(rule, pkg+"."+name, "twin-mismatch", p.Pos(at), "operations on "+fieldA+" and "+fieldB+" are not twins: "+detail)
		}
	}
	if checked < minFuncs {
		r.Bad(rule, pkg+"/"+fileSuffix, "functions:count", "-", fmt.Sprintf("%d functions manipulate both %s and %s, expected >= %d", checked, fieldA, fieldB, minFuncs))
		return
	}
	r.Ok(rule, pkg+"/"+fileSuffix, "-", fmt.Sprintf("%d functions, %d statement pairs on %s/%s are exact twins", checked, stmts, fieldA, fieldB))
}
