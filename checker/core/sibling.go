package core

import (
	"go/types"
	"fmt"
	"go/ast"
	"go/scanner"
	"go/token"
	"sort"
	"strings"

	"golang.org/x/tools/go/packages"
)

// E6 — sibling uniformity of template instantiations.
//
// The *.gen.go files instantiate one algorithm per value type. Functions whose
// names differ only in the type token form a group; inside a group the token
// streams of the bodies must be equal up to the type tokens. The majority form is
// the reference; members that deviate are reported with the first differing token.
// A change applied consistently to every sibling (i.e. in the template) is
// invisible to this rule by construction.

// typeFamilies: the spellings of each value type, longest first.
var typeFamilies = [][]string{
	{"Float64", "Float", "float64", "float"},
	{"Integer", "Int64", "int64", "integer", "Int"},
	{"Unsigned", "Uint64", "uint64", "unsigned", "Uint"},
	{"String", "string"},
	{"Boolean", "Bool", "boolean", "bool"},
}

var allTypeTokens = func() []string {
	var out []string
	for _, f := range typeFamilies {
		out = append(out, f...)
	}
	sort.Slice(out, func(i, j int) bool { return len(out[i]) > len(out[j]) })
	return out
}()

// abstractIdent replaces every type token inside an identifier by a placeholder.
func abstractIdent(s string) string {
	var b strings.Builder
	for i := 0; i < len(s); {
		matched := false
		for _, t := range allTypeTokens {
			if strings.HasPrefix(s[i:], t) {
				// lower-case tokens only match whole identifiers or at a word boundary
				if t[0] >= 'a' && t[0] <= 'z' {
					end := i + len(t)
					boundary := end == len(s) || (s[end] >= 'A' && s[end] <= 'Z') || s[end] == '_' || s[end] == '.'
					startOK := i == 0 || s[i-1] == '.'
					if !startOK || !boundary {
						continue
					}
				}
				b.WriteString("Ŧ")
				i += len(t)
				matched = true
				break
			}
		}
		if !matched {
			b.WriteByte(s[i])
			i++
		}
	}
	return b.String()
}

// familyOf returns the index of the type family whose upper-case token occurs in name (-1 if none).
func familyOf(name string) int {
	best, bestLen := -1, 0
	for i, f := range typeFamilies {
		for _, t := range f {
			if len(t) <= bestLen {
				continue
			}
			if t[0] >= 'A' && t[0] <= 'Z' && strings.Contains(name, t) {
				best, bestLen = i, len(t)
			}
			// lower-case spelling at the start of the receiver or function name
			for _, part := range strings.Split(name, ".") {
				if strings.HasPrefix(part, t) && t[0] >= 'a' && len(part) > len(t) && part[len(t)] >= 'A' && part[len(t)] <= 'Z' {
					best, bestLen = i, len(t)
				}
			}
		}
	}
	return best
}

// abstractOwn replaces only the tokens of family fam inside an identifier.
func abstractOwn(s string, fam int) string {
	if fam < 0 {
		return s
	}
	toks := append([]string{}, typeFamilies[fam]...)
	sort.Slice(toks, func(i, j int) bool { return len(toks[i]) > len(toks[j]) })
	var b strings.Builder
	for i := 0; i < len(s); {
		matched := false
		for _, t := range toks {
			if strings.HasPrefix(s[i:], t) {
				if t[0] >= 'a' && t[0] <= 'z' {
					// a lower-case spelling only counts at the start of the identifier
					// and when followed by a word boundary (floatCursor, float64, "float")
					end := i + len(t)
					boundary := end == len(s) || (s[end] >= 'A' && s[end] <= 'Z') || s[end] == '_'
					if i != 0 || !boundary {
						continue
					}
				}
				b.WriteString("Ŧ")
				i += len(t)
				matched = true
				break
			}
		}
		if !matched {
			b.WriteByte(s[i])
			i++
		}
	}
	return b.String()
}

func hasUpperOwn(s string, fam int) bool {
	if fam < 0 {
		return false
	}
	for _, t := range typeFamilies[fam] {
		if t[0] >= 'A' && t[0] <= 'Z' && strings.Contains(s, t) {
			return true
		}
	}
	return false
}

type sibTok struct {
	tok token.Token
	lit string
	pos token.Pos
}

func tokenize(fset *token.FileSet, src []byte, file *token.File, from, to token.Pos) []sibTok {
	var s scanner.Scanner
	start, end := file.Offset(from), file.Offset(to)
	// scan the slice with a private file so positions can be mapped back
	f2 := token.NewFileSet().AddFile(file.Name(), -1, end-start)
	s.Init(f2, src[start:end], nil, 0)
	var out []sibTok
	for {
		p, t, lit := s.Scan()
		if t == token.EOF {
			break
		}
		if t == token.SEMICOLON && lit == "\n" {
			continue
		}
		out = append(out, sibTok{t, lit, from + token.Pos(int(p)-f2.Base())})
	}
	return out
}

// Sibling is one member of a group.
type Sibling struct {
	Name string
	Decl *ast.FuncDecl
	toks []sibTok
	norm []string
	fam  int
}

// SiblingGroup is a set of functions that instantiate the same template function.
type SiblingGroup struct {
	Key     string
	Members []*Sibling
}

// SiblingDiff describes a member deviating from the majority form of its group.
type SiblingDiff struct {
	Group  string
	Member string
	Ref    string
	Pos    token.Pos
	Got    string
	Want   string
}

func funcKeyName(fd *ast.FuncDecl) string {
	n := fd.Name.Name
	if fd.Recv != nil && len(fd.Recv.List) == 1 {
		n = recvTypeName(fd.Recv.List[0].Type) + "." + n
	}
	return n
}

// SiblingGroups groups the functions of one source file.
func SiblingGroups(p *Prog, pk *packages.Package, fileSuffix string) ([]*SiblingGroup, error) {
	var file *ast.File
	for _, f := range pk.Syntax {
		if strings.HasSuffix(p.Fset.Position(f.Pos()).Filename, fileSuffix) {
			file = f
		}
	}
	if file == nil {
		return nil, fmt.Errorf("file %s not found in %s", fileSuffix, pk.PkgPath)
	}
	tf := p.Fset.File(file.Pos())
	src, err := p.Source(tf.Name())
	if err != nil {
		return nil, err
	}
	groups := map[string]*SiblingGroup{}
	var order []string
	for _, d := range file.Decls {
		fd, ok := d.(*ast.FuncDecl)
		if !ok || fd.Body == nil {
			continue
		}
		name := funcKeyName(fd)
		key := abstractIdent(name)
		if key == name {
			continue // no type token in the name: not a template instance
		}
		s := &Sibling{Name: name, Decl: fd, fam: familyOf(name)}
		s.toks = tokenize(p.Fset, src, tf, fd.Type.Pos(), fd.Body.End())
		for _, t := range s.toks {
			switch t.tok {
			case token.IDENT:
				s.norm = append(s.norm, abstractIdent(t.lit))
			case token.INT, token.FLOAT, token.STRING, token.CHAR, token.IMAG:
				s.norm = append(s.norm, t.lit)
			default:
				s.norm = append(s.norm, t.tok.String())
			}
		}
		g := groups[key]
		if g == nil {
			g = &SiblingGroup{Key: key}
			groups[key] = g
			order = append(order, key)
		}
		g.Members = append(g.Members, s)
	}
	var out []*SiblingGroup
	for _, k := range order {
		if len(groups[k].Members) >= 2 {
			out = append(out, groups[k])
		}
	}
	return out, nil
}

// tokEq: do token i of member m and token j of reference r correspond?
func tokEq(m *Sibling, i int, r *Sibling, j int) bool {
	a, b := m.toks[i], r.toks[j]
	if isZeroLit(a, m.fam) && isZeroLit(b, r.fam) {
		return true // the zero value of the respective value type: 0 / "" / false
	}
	if a.tok != b.tok {
		return false
	}
	if a.tok == token.STRING {
		// "float" / "integer" inside messages and metric names
		return a.lit == b.lit || abstractOwn(strings.Trim(a.lit, "\"`"), m.fam) == abstractOwn(strings.Trim(b.lit, "\"`"), r.fam)
	}
	if a.tok != token.IDENT {
		return a.lit == b.lit
	}
	if a.lit == b.lit {
		// literally equal is fine unless the reference token names the reference's
		// own value type (then the member is using another type's function)
		return m.fam == r.fam || !hasUpperOwn(b.lit, r.fam)
	}
	return abstractOwn(a.lit, m.fam) == abstractOwn(b.lit, r.fam)
}

// isZeroLit: token is the zero literal of value-type family fam.
func isZeroLit(t sibTok, fam int) bool {
	switch fam {
	case 0, 1, 2:
		return (t.tok == token.INT && t.lit == "0") || (t.tok == token.FLOAT && (t.lit == "0.0" || t.lit == "0."))
	case 3:
		return t.tok == token.STRING && (t.lit == `""` || t.lit == "``")
	case 4:
		return t.tok == token.IDENT && t.lit == "false"
	}
	return false
}

func firstDiff(m, r *Sibling) int {
	i := 0
	for i < len(m.toks) && i < len(r.toks) && tokEq(m, i, r, i) {
		i++
	}
	if i == len(m.toks) && i == len(r.toks) {
		return -1
	}
	return i
}

// Compare returns the members deviating from the reference member (the Float
// instantiation when there is one: its type tokens collide least with ordinary
// identifiers such as string keys, bool flags and int64 timestamps). When every
// other member deviates from the reference, the reference itself is reported.
func (g *SiblingGroup) Compare() []SiblingDiff {
	ref := g.Members[0]
	for _, m := range g.Members {
		if m.fam == 0 {
			ref = m
			break
		}
	}
	var out []SiblingDiff
	others := 0
	for _, m := range g.Members {
		if m == ref {
			continue
		}
		others++
		i := firstDiff(m, ref)
		if i < 0 {
			continue
		}
		d := SiblingDiff{Group: g.Key, Member: m.Name, Ref: ref.Name}
		if i < len(m.toks) {
			d.Pos = m.toks[i].pos
			d.Got = ctx(m, i)
		} else {
			d.Pos = m.Decl.End()
			d.Got = "<end>"
		}
		if i < len(ref.toks) {
			d.Want = ctx(ref, i)
		} else {
			d.Want = "<end>"
		}
		out = append(out, d)
	}
	if others >= 2 && len(out) == others {
		// everybody disagrees with the reference: blame the reference
		alt := g.Members[0]
		if alt == ref {
			alt = g.Members[1]
		}
		agree := true
		for _, m := range g.Members {
			if m != ref && m != alt && firstDiff(m, alt) >= 0 {
				agree = false
			}
		}
		if agree {
			i := firstDiff(ref, alt)
			d := SiblingDiff{Group: g.Key, Member: ref.Name, Ref: alt.Name, Pos: ref.Decl.Pos()}
			if i >= 0 && i < len(ref.toks) {
				d.Pos, d.Got = ref.toks[i].pos, ctx(ref, i)
			}
			if i >= 0 && i < len(alt.toks) {
				d.Want = ctx(alt, i)
			}
			return []SiblingDiff{d}
		}
	}
	return out
}

func ctx(s *Sibling, i int) string {
	var parts []string
	for j := i; j < len(s.toks) && j < i+6; j++ {
		if s.toks[j].lit != "" {
			parts = append(parts, s.toks[j].lit)
		} else {
			parts = append(parts, s.toks[j].tok.String())
		}
	}
	return strings.Join(parts, " ")
}

// RuleSiblings compares all groups of one generated file. except maps
// "member function name" -> reason for siblings that legitimately differ
// (discovered on today's tree, each confirmed by reading).
func RuleSiblings(r *Report, p *Prog, pkg, fileSuffix string, except map[string]string, minGroups int) {
	const rule = "sibling-uniformity"
	pk := p.Pkg(pkg)
	if pk == nil {
		r.Bad("anchor", pkg, "unresolved", "-", "package not loaded")
		return
	}
	groups, err := SiblingGroups(p, pk, fileSuffix)
	if err != nil {
		r.Bad("anchor", pkg+"/"+fileSuffix, "unresolved", "-", err.Error())
		return
	}
	if len(groups) < minGroups {
		r.Bad(rule, pkg+"/"+fileSuffix, "groups:count", "-", fmt.Sprintf("%d sibling groups found, expected >= %d", len(groups), minGroups))
	}
	members, bad, skipped := 0, 0, 0
	for _, g := range groups {
		// drop excepted members before comparing
		var keep []*Sibling
		for _, m := range g.Members {
			if _, ex := except[m.Name]; ex {
				skipped++
				continue
			}
			keep = append(keep, m)
			if fo, ok := pk.TypesInfo.Defs[m.Decl.Name].(*types.Func); ok {
				r.Saw(p.FuncOf(fo))
			}
		}
		g2 := &SiblingGroup{Key: g.Key, Members: keep}
		members += len(keep)
		if len(keep) < 2 {
			continue
		}
		for _, d := range g2.Compare() {
			bad++
			r.Bad(rule, pkg+"."+d.Member, "differs-from-"+d.Ref, p.Pos(d.Pos),
				fmt.Sprintf("instantiation deviates from its siblings (reference %s): here `%s`, siblings `%s`", d.Ref, Trim(d.Got, 60), Trim(d.Want, 60)))
		}
	}
	if bad == 0 {
		r.Ok(rule, pkg+"/"+fileSuffix, "-", fmt.Sprintf("%d groups, %d member functions pairwise equal up to the value-type tokens (%d excepted)", len(groups), members, skipped))
	}
}
