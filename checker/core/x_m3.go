package core

import (
	"go/ast"
	"go/token"
	"go/types"

	"golang.org/x/tools/go/cfg"
)

// Helpers added by m3 (C10 / C19 / C40 strengthening).

// EqEvalM3 gives the truth value of `a == b` when it is known on the abstract
// row that is being evaluated.
type EqEvalM3 func(a, b ast.Expr) (eq, known bool)

// LeafWithEqM3 lifts an equality oracle to a LeafEval: atoms `a == b` / `a != b`
// are answered by eq, everything else by leaf (which may be nil).
func LeafWithEqM3(leaf LeafEval, eq EqEvalM3) LeafEval {
	return func(e ast.Expr) (bool, bool) {
		if be, ok := ast.Unparen(e).(*ast.BinaryExpr); ok && eq != nil && (be.Op == token.EQL || be.Op == token.NEQ) {
			if v, known := eq(be.X, be.Y); known {
				return v == (be.Op == token.EQL), true
			}
		}
		if leaf != nil {
			return leaf(e)
		}
		return false, false
	}
}

// ReachUnderM3 is ReachUnder that also decides the case edges of tag switches
// (`switch tag { case c: }` compares tag == c) with the equality oracle.
func (g *Graph) ReachUnderM3(start []*Node, stop NodePred, leaf LeafEval, eq EqEvalM3) map[*Node]bool {
	full := LeafWithEqM3(leaf, eq)
	seen := map[*Node]bool{}
	var walk func(n *Node)
	walk = func(n *Node) {
		if n == nil || seen[n] {
			return
		}
		seen[n] = true
		if stop != nil && stop(n) {
			return
		}
		if len(n.Succ) == 2 && n.Succ[0].Cond != nil {
			var v, known bool
			if t := n.Succ[0].Tag; t != nil {
				if eq != nil {
					v, known = eq(t, n.Succ[0].Cond)
				}
			} else {
				v, known = EvalCond(n.Succ[0].Cond, full)
			}
			if known {
				for _, e := range n.Succ {
					if e.Branch == v {
						walk(e.To)
					}
				}
				return
			}
		}
		for _, e := range n.Succ {
			walk(e.To)
		}
	}
	for _, s := range start {
		walk(s)
	}
	return seen
}

// ExitsInM3 lists the exit nodes (no successor, not a panic) of a reach set.
func ExitsInM3(reach map[*Node]bool) []*Node {
	var out []*Node
	for n := range reach {
		if len(n.Succ) == 0 && n.Kind != KPanic {
			out = append(out, n)
		}
	}
	// deterministic order
	for i := 1; i < len(out); i++ {
		for j := i; j > 0 && out[j].ID < out[j-1].ID; j-- {
			out[j], out[j-1] = out[j-1], out[j]
		}
	}
	return out
}

// LoopEarlyExitsM3 returns the nodes of an iteration of loop statement s (a
// *ast.ForStmt or *ast.RangeStmt of g) from which the loop is left without
// going back to its head: `break`, `goto` out of the loop, a labelled
// break/continue of an enclosing loop. Returns (and panics) inside the body are
// not early exits. Edges selected by exempt are not followed (e.g. the edge on
// which the iterator reports exhaustion in a `for { if !it.Next() { break } }`
// form). ok is false when the loop is not found in g.
func (g *Graph) LoopEarlyExitsM3(s ast.Stmt, exempt EdgePred) (out []*Node, ok bool) {
	body := LoopBody(s)
	if body == nil {
		return nil, false
	}
	inBody := func(n *Node) bool {
		if n.N != nil {
			return body.Pos() <= n.N.Pos() && n.N.Pos() < body.End()
		}
		if n.Block == nil || n.Block.Stmt == nil {
			return false
		}
		if n.Block.Stmt == s {
			return n.Block.Kind == cfg.KindRangeBody || n.Block.Kind == cfg.KindForBody
		}
		pos := n.Block.Stmt.Pos()
		return body.Pos() <= pos && pos < body.End()
	}
	headRegion := func(n *Node) bool {
		b := n.Block
		if b == nil || b.Stmt != s {
			return false
		}
		return b.Kind == cfg.KindForLoop || b.Kind == cfg.KindForPost || b.Kind == cfg.KindRangeLoop
	}
	var entry *Node
	for _, n := range g.Nodes {
		if n.Block != nil && n.Block.Stmt == s && (n.Block.Kind == cfg.KindRangeBody || n.Block.Kind == cfg.KindForBody) {
			entry = n
			break
		}
	}
	if entry == nil {
		return nil, false
	}
	reach := g.Reach([]*Node{entry}, func(n *Node) bool { return !inBody(n) }, exempt)
	seen := map[*Node]bool{}
	for _, n := range g.Nodes { // ordered
		if !reach[n] || !inBody(n) {
			continue
		}
		for _, e := range n.Succ {
			if exempt != nil && exempt(e) {
				continue
			}
			if inBody(e.To) || headRegion(e.To) || e.To == entry {
				continue
			}
			if !seen[n] {
				seen[n] = true
				out = append(out, n)
			}
		}
	}
	return out, true
}

// QtyAtomM3: atomic condition c, having truth value val, compares the
// non-negative integer quantity recognised by isQ with a constant such that the
// comparison holds for 0 and fails for 1 (zero == true: "the quantity is 0") or
// holds for 1 and fails for 0 (zero == false: "the quantity is >= 1").
func QtyAtomM3(info *types.Info, c ast.Expr, val bool, isQ func(ast.Expr) bool, zero bool) bool {
	be, ok := ast.Unparen(c).(*ast.BinaryExpr)
	if !ok {
		return false
	}
	var other ast.Expr
	qLeft := false
	switch {
	case isQ(be.X):
		other, qLeft = be.Y, true
	case isQ(be.Y):
		other = be.X
	default:
		return false
	}
	k, ok := ConstInt(info, other)
	if !ok {
		return false
	}
	eval := func(q int64) (bool, bool) {
		l, r := q, k
		if !qLeft {
			l, r = k, q
		}
		switch be.Op {
		case token.GTR:
			return l > r, true
		case token.GEQ:
			return l >= r, true
		case token.LSS:
			return l < r, true
		case token.LEQ:
			return l <= r, true
		case token.EQL:
			return l == r, true
		case token.NEQ:
			return l != r, true
		}
		return false, false
	}
	v0, ok0 := eval(0)
	v1, ok1 := eval(1)
	if !ok0 || !ok1 {
		return false
	}
	if zero {
		return v0 == val && v1 != val
	}
	return v1 == val && v0 != val
}

// EstablishesM3 is Establishes that also looks through boolean temporaries: an
// atom that is a local variable with a single 1:1 definition is replaced by its
// defining expression (`rejected := err != nil && err.Dropped > 0; if rejected`).
func EstablishesM3(info *types.Info, root ast.Node, cond ast.Expr, branch bool, fact CondFact) bool {
	return establishesM3(info, root, cond, branch, fact, 0)
}

func establishesM3(info *types.Info, root ast.Node, cond ast.Expr, branch bool, fact CondFact, depth int) bool {
	switch c := cond.(type) {
	case *ast.ParenExpr:
		return establishesM3(info, root, c.X, branch, fact, depth)
	case *ast.UnaryExpr:
		if c.Op == token.NOT {
			return establishesM3(info, root, c.X, !branch, fact, depth)
		}
	case *ast.BinaryExpr:
		switch c.Op {
		case token.LAND:
			if branch {
				return establishesM3(info, root, c.X, true, fact, depth) || establishesM3(info, root, c.Y, true, fact, depth)
			}
			return establishesM3(info, root, c.X, false, fact, depth) && establishesM3(info, root, c.Y, false, fact, depth)
		case token.LOR:
			if branch {
				return establishesM3(info, root, c.X, true, fact, depth) && establishesM3(info, root, c.Y, true, fact, depth)
			}
			return establishesM3(info, root, c.X, false, fact, depth) || establishesM3(info, root, c.Y, false, fact, depth)
		}
	}
	if fact(cond, branch) {
		return true
	}
	if _, isId := cond.(*ast.Ident); isId && depth < 4 {
		if x := ResolveLocal(info, root, cond); x != cond {
			if t := info.TypeOf(x); t != nil {
				if b, ok := t.Underlying().(*types.Basic); ok && b.Info()&types.IsBoolean != 0 {
					return establishesM3(info, root, x, branch, fact, depth+1)
				}
			}
		}
	}
	return false
}

// EdgeEstablishingM3 is EdgeEstablishing over EstablishesM3.
func EdgeEstablishingM3(info *types.Info, root ast.Node, fact CondFact) EdgePred {
	return func(e *Edge) bool {
		return e.Cond != nil && e.Tag == nil && EstablishesM3(info, root, e.Cond, e.Branch, fact)
	}
}

// LeafResolvingM3 wraps a leaf oracle (already combined with its equality
// oracle) so that a boolean temporary with a single definition is evaluated
// through its defining expression.
func LeafResolvingM3(info *types.Info, root ast.Node, leaf LeafEval) LeafEval {
	var self LeafEval
	depth := 0
	self = func(e ast.Expr) (bool, bool) {
		if v, known := leaf(e); known {
			return v, true
		}
		if _, isId := ast.Unparen(e).(*ast.Ident); isId && depth < 4 {
			if x := ResolveLocal(info, root, e); x != ast.Unparen(e) {
				if t := info.TypeOf(x); t != nil {
					if b, ok := t.Underlying().(*types.Basic); ok && b.Info()&types.IsBoolean != 0 {
						depth++
						v, known := EvalCond(x, self)
						depth--
						return v, known
					}
				}
			}
		}
		return false, false
	}
	return self
}
