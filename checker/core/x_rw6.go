package core

// Helpers added for the C24–C27 rule sets (task scheduler, coordinator,
// durable queue, replication). Everything here is decided on resolved
// structure (objects, fields, callees, constant values, CFG edges).

import (
	"fmt"
	"go/ast"
	"go/constant"
	"go/token"
	"go/types"
	"os"
	"strings"
)

// ---------------------------------------------------------------- expressions

// SameExpr reports whether a and b denote the same pure expression: identical
// objects for identifiers, identical fields/methods for selectors, identical
// callees and pairwise identical operands for calls, identical constant values
// for literals. Parentheses are ignored.
func SameExpr(info *types.Info, a, b ast.Expr) bool {
	a, b = ast.Unparen(a), ast.Unparen(b)
	if a == nil || b == nil {
		return a == b
	}
	if va, vb := ConstVal(info, a), ConstVal(info, b); va != nil || vb != nil {
		return va != nil && vb != nil && constant.Compare(va, token.EQL, vb)
	}
	switch x := a.(type) {
	case *ast.Ident:
		y, ok := b.(*ast.Ident)
		return ok && ObjOf(info, x) != nil && ObjOf(info, x) == ObjOf(info, y)
	case *ast.SelectorExpr:
		y, ok := b.(*ast.SelectorExpr)
		if !ok {
			return false
		}
		ox, oy := info.Uses[x.Sel], info.Uses[y.Sel]
		return ox != nil && ox == oy && SameExpr(info, x.X, y.X)
	case *ast.CallExpr:
		y, ok := b.(*ast.CallExpr)
		if !ok || len(x.Args) != len(y.Args) {
			return false
		}
		if !SameExpr(info, x.Fun, y.Fun) {
			return false
		}
		for i := range x.Args {
			if !SameExpr(info, x.Args[i], y.Args[i]) {
				return false
			}
		}
		return true
	case *ast.StarExpr:
		y, ok := b.(*ast.StarExpr)
		return ok && SameExpr(info, x.X, y.X)
	case *ast.UnaryExpr:
		y, ok := b.(*ast.UnaryExpr)
		return ok && x.Op == y.Op && SameExpr(info, x.X, y.X)
	case *ast.BinaryExpr:
		y, ok := b.(*ast.BinaryExpr)
		return ok && x.Op == y.Op && SameExpr(info, x.X, y.X) && SameExpr(info, x.Y, y.Y)
	case *ast.IndexExpr:
		y, ok := b.(*ast.IndexExpr)
		return ok && SameExpr(info, x.X, y.X) && SameExpr(info, x.Index, y.Index)
	}
	return false
}

// StripConv removes parentheses and type conversions T(x) around an expression.
func StripConv(info *types.Info, e ast.Expr) ast.Expr {
	for {
		e = ast.Unparen(e)
		c, ok := e.(*ast.CallExpr)
		if !ok || len(c.Args) != 1 {
			return e
		}
		if tv, ok := info.Types[c.Fun]; ok && tv.IsType() {
			e = c.Args[0]
			continue
		}
		return e
	}
}

// MentionsField reports whether expression e contains a selection of field fv.
func MentionsField(info *types.Info, e ast.Node, fv *types.Var) bool {
	found := false
	if fv == nil || e == nil {
		return false
	}
	ast.Inspect(e, func(n ast.Node) bool {
		if se, ok := n.(*ast.SelectorExpr); ok && FieldOf(info, se) == fv {
			found = true
		}
		return !found
	})
	return found
}

// MentionsObj reports whether e contains an identifier denoting obj.
func MentionsObj(info *types.Info, e ast.Node, obj types.Object) bool {
	found := false
	if obj == nil || e == nil {
		return false
	}
	ast.Inspect(e, func(n ast.Node) bool {
		if id, ok := n.(*ast.Ident); ok && (info.Uses[id] == obj || info.Defs[id] == obj) {
			found = true
		}
		return !found
	})
	return found
}

// MentionsCall reports whether e contains a call matched by m.
func MentionsCall(info *types.Info, e ast.Node, m Matcher) bool {
	return e != nil && len(AllCalls(info, e, m)) > 0
}

// ---------------------------------------------------------------- calls

// CallsField matches calls of a func-valued struct field (x.f(...)).
func CallsField(fv *types.Var) Matcher {
	return func(info *types.Info, c *ast.CallExpr) bool {
		return fv != nil && FieldOf(info, c.Fun) == fv
	}
}

// LocalLit resolves a local variable that is bound exactly once, to a function
// literal (v := func(){…}); nil otherwise.
func LocalLit(info *types.Info, body ast.Node, obj types.Object) *ast.FuncLit {
	var lit *ast.FuncLit
	n := 0
	if obj == nil {
		return nil
	}
	ast.Inspect(body, func(x ast.Node) bool {
		switch s := x.(type) {
		case *ast.AssignStmt:
			for i, l := range s.Lhs {
				if ObjOf(info, l) != obj {
					continue
				}
				n++
				if len(s.Lhs) == len(s.Rhs) {
					if fl, ok := ast.Unparen(s.Rhs[i]).(*ast.FuncLit); ok {
						lit = fl
					}
				}
			}
		case *ast.ValueSpec:
			for i, id := range s.Names {
				if info.Defs[id] != obj {
					continue
				}
				n++
				if i < len(s.Values) {
					if fl, ok := ast.Unparen(s.Values[i]).(*ast.FuncLit); ok {
						lit = fl
					}
				}
			}
		}
		return true
	})
	if n != 1 {
		return nil
	}
	return lit
}

// ThroughLocalLits widens m: it also matches a call v(...) of a local variable
// bound once to a function literal whose body contains a call matched by m.
func ThroughLocalLits(body ast.Node, m Matcher) Matcher {
	return func(info *types.Info, c *ast.CallExpr) bool {
		if m(info, c) {
			return true
		}
		id, ok := ast.Unparen(c.Fun).(*ast.Ident)
		if !ok {
			return false
		}
		if _, isVar := ObjOf(info, id).(*types.Var); !isVar {
			return false
		}
		lit := LocalLit(info, body, ObjOf(info, id))
		return lit != nil && len(AllCalls(info, lit.Body, m)) > 0
	}
}

// Assignments describes how a local variable is assigned inside a body.
type Assignments struct {
	N        int // number of assignments / definitions with a value
	FromCall int // of which: from a call matched by the matcher, at result index idx
}

// AssignedFrom counts the assignments of obj in body and how many of them take
// result number idx of a call matched by m (v, err := f() has idx 0 for v).
// For single-value assignments idx is ignored.
func AssignedFrom(info *types.Info, body ast.Node, obj types.Object, m Matcher, idx int) Assignments {
	var a Assignments
	if obj == nil {
		return a
	}
	fromCall := func(rhs ast.Expr) bool {
		c, ok := ast.Unparen(rhs).(*ast.CallExpr)
		return ok && m(info, c)
	}
	ast.Inspect(body, func(x ast.Node) bool {
		switch s := x.(type) {
		case *ast.AssignStmt:
			for i, l := range s.Lhs {
				if ObjOf(info, l) != obj {
					continue
				}
				a.N++
				switch {
				case len(s.Lhs) == len(s.Rhs):
					if fromCall(s.Rhs[i]) {
						a.FromCall++
					}
				case len(s.Rhs) == 1:
					if i == idx && fromCall(s.Rhs[0]) {
						a.FromCall++
					}
				}
			}
		case *ast.ValueSpec:
			for i, id := range s.Names {
				if info.Defs[id] != obj || len(s.Values) == 0 {
					continue
				}
				a.N++
				switch {
				case len(s.Names) == len(s.Values):
					if fromCall(s.Values[i]) {
						a.FromCall++
					}
				case len(s.Values) == 1:
					if i == idx && fromCall(s.Values[0]) {
						a.FromCall++
					}
				}
			}
		case *ast.RangeStmt:
			if ObjOf(info, s.Key) == obj || (s.Value != nil && ObjOf(info, s.Value) == obj) {
				a.N++
			}
		case *ast.IncDecStmt:
			if ObjOf(info, s.X) == obj {
				a.N++
			}
		}
		return true
	})
	return a
}

// OnlyFrom: obj is assigned at least once and every assignment takes result idx
// of a call matched by m.
func (a Assignments) OnlyFrom() bool { return a.N >= 1 && a.N == a.FromCall }

// ---------------------------------------------------------------- CFG

// OnlyVia reports whether node n is reachable from the entry of g only through
// an edge selected by gate (n is unreachable once those edges are removed).
func (g *Graph) OnlyVia(n *Node, gate EdgePred) bool {
	return !g.ReachFromEntry(nil, gate)[n]
}

// OnlyViaNodes: n is reachable from the entry only through a node selected by gate.
func (g *Graph) OnlyViaNodes(n *Node, gate NodePred) bool {
	if gate(n) {
		return true
	}
	return !g.ReachFromEntry(gate, nil)[n]
}

// Edges returns the edges of g selected by p.
func (g *Graph) Edges(p EdgePred) []*Edge {
	var out []*Edge
	for _, n := range g.Nodes {
		for _, e := range n.Succ {
			if p(e) {
				out = append(out, e)
			}
		}
	}
	return out
}

// ExitsFrom returns the exits reachable from the start nodes without entering a
// node selected by stop.
func (g *Graph) ExitsFrom(start []*Node, stop NodePred) []*Node {
	reach := g.Reach(start, stop, nil)
	var out []*Node
	for _, x := range g.Exits {
		if reach[x] {
			out = append(out, x)
		}
	}
	return out
}

// Fact is an atomic condition with the truth value an edge establishes for it.
type Fact struct {
	Cond  ast.Expr
	Truth bool
}

// EdgeFacts decomposes the condition of a (non-tag) conditional edge into the
// atomic facts that hold on it: the true branch of `a && b` establishes a and b,
// the false branch of `a || b` establishes !a and !b, `!a` flips. Nothing is
// concluded from the false branch of a conjunction or the true branch of a
// disjunction (go/cfg keeps short-circuit conditions as one node).
func EdgeFacts(e *Edge) []Fact {
	if e.Cond == nil || e.Tag != nil {
		return nil
	}
	var out []Fact
	var walk func(c ast.Expr, truth bool)
	walk = func(c ast.Expr, truth bool) {
		c = ast.Unparen(c)
		switch x := c.(type) {
		case *ast.UnaryExpr:
			if x.Op == token.NOT {
				walk(x.X, !truth)
				return
			}
		case *ast.BinaryExpr:
			if (x.Op == token.LAND && truth) || (x.Op == token.LOR && !truth) {
				walk(x.X, truth)
				walk(x.Y, truth)
				return
			}
			if x.Op == token.LAND || x.Op == token.LOR {
				return
			}
		}
		out = append(out, Fact{c, truth})
	}
	walk(e.Cond, e.Branch)
	return out
}

// NilEdge selects the out-edge of a nil test of variable obj on which obj is
// nil (isNil=true) or non-nil (isNil=false).
func (g *Graph) NilEdgeObj(obj types.Object, isNil bool) EdgePred {
	return func(e *Edge) bool {
		if obj == nil {
			return false
		}
		for _, f := range EdgeFacts(e) {
			x, nonNilOnTrue, ok := NilTest(g.Info, f.Cond)
			if ok && ObjOf(g.Info, x) == obj && (f.Truth == nonNilOnTrue) != isNil {
				return true
			}
		}
		return false
	}
}

// EqConstEdge selects edges on which `lhs == k` is established, where lhs is an
// expression selected by isLHS and k a constant with value val: the true branch
// of `lhs == k`, the false branch of `lhs != k`, or the matching case edge of
// `switch lhs { case k: }`.
func (g *Graph) EqConstEdge(isLHS func(ast.Expr) bool, val constant.Value) EdgePred {
	isK := func(e ast.Expr) bool {
		v := ConstVal(g.Info, e)
		return v != nil && v.Kind() == val.Kind() && constant.Compare(v, token.EQL, val)
	}
	return func(e *Edge) bool {
		if e.Cond == nil {
			return false
		}
		if e.Tag != nil {
			return e.Branch && isLHS(ast.Unparen(e.Tag)) && isK(e.Cond)
		}
		for _, f := range EdgeFacts(e) {
			be, ok := f.Cond.(*ast.BinaryExpr)
			if !ok || (be.Op != token.EQL && be.Op != token.NEQ) {
				continue
			}
			match := (isLHS(ast.Unparen(be.X)) && isK(be.Y)) || (isLHS(ast.Unparen(be.Y)) && isK(be.X))
			if match && f.Truth == (be.Op == token.EQL) {
				return true
			}
		}
		return false
	}
}

// Cmp is a normalised order comparison `L op R`.
type Cmp struct {
	L, R ast.Expr
	Op   token.Token // LSS, LEQ, GTR, GEQ
}

// CmpOf decodes an order comparison.
func CmpOf(cond ast.Expr) (Cmp, bool) {
	be, ok := ast.Unparen(cond).(*ast.BinaryExpr)
	if !ok {
		return Cmp{}, false
	}
	switch be.Op {
	case token.LSS, token.LEQ, token.GTR, token.GEQ:
		return Cmp{ast.Unparen(be.X), ast.Unparen(be.Y), be.Op}, true
	}
	return Cmp{}, false
}

// Flip returns the same comparison with the operands exchanged.
func (c Cmp) Flip() Cmp {
	op := c.Op
	switch c.Op {
	case token.LSS:
		op = token.GTR
	case token.LEQ:
		op = token.GEQ
	case token.GTR:
		op = token.LSS
	case token.GEQ:
		op = token.LEQ
	}
	return Cmp{c.R, c.L, op}
}

// ExceedsEdge selects the edges on which "big exceeds (or reaches) small" is
// established by an order comparison whose one operand satisfies isBig and the
// other isSmall: the true branch of big > small / big >= small / small < big /
// small <= big, the false branch of the opposite forms. within=true selects the
// complementary edges (big is within small).
func (g *Graph) ExceedsEdge(isBig, isSmall func(ast.Expr) bool, within bool) EdgePred {
	return func(e *Edge) bool {
		for _, f := range EdgeFacts(e) {
			c, ok := CmpOf(f.Cond)
			if !ok {
				continue
			}
			switch {
			case isBig(c.L) && isSmall(c.R):
			case isBig(c.R) && isSmall(c.L):
				c = c.Flip()
			default:
				continue
			}
			exceedsOnTrue := c.Op == token.GTR || c.Op == token.GEQ
			if (f.Truth == exceedsOnTrue) != within {
				return true
			}
		}
		return false
	}
}

// ---------------------------------------------------------------- locks

// HeldAtCalls runs the E2 lock flow over every function of rules.Pkg (entry
// states from CallerHolds; function literals see the state of their enclosing
// node, go statements start empty — as in the guarded-by check) and calls visit
// for every call matched by m with the locks held on every path at that call.
// ctor reports whether the identifier is a local still under construction.
func HeldAtCalls(p *Prog, rules *LockRules, m Matcher, visit func(f *Func, g *Graph, c *ast.CallExpr, held map[string]int8, ctor func(ast.Expr) bool)) {
	a := &LockAnalysis{Prog: p, Rules: rules}
	var walk func(f *Func, g *Graph, entry lockState)
	walk = func(f *Func, g *Graph, entry lockState) {
		in := a.flow(g, entry, nil)
		locals := constructedLocals(g.Info, g.Body)
		isCtor := func(e ast.Expr) bool {
			id, ok := ast.Unparen(e).(*ast.Ident)
			return ok && locals[ObjOf(g.Info, id)]
		}
		for _, n := range g.Nodes {
			if n.N == nil {
				continue
			}
			st, ok := in[n]
			if !ok {
				continue
			}
			var lits []*ast.FuncLit
			inspectNoLit(n.N, &lits, func(x ast.Node) {
				if c, ok := x.(*ast.CallExpr); ok && m(g.Info, c) {
					visit(f, g, c, map[string]int8(st), isCtor)
				}
			})
			for _, fl := range lits {
				ent := st.clone()
				if _, isGo := n.N.(*ast.GoStmt); isGo {
					ent = lockState{}
				}
				walk(f, f.LitGraph(fl), ent)
			}
		}
	}
	for _, f := range p.Funcs(rules.Pkg) {
		if f.Decl.Body == nil {
			continue
		}
		entry := lockState{}
		if held, ok := rules.CallerHolds[f.Name]; ok {
			rn := recvName(f.Decl)
			for lk, md := range held {
				v := int8(2)
				if md == 'R' {
					v = 1
				}
				entry[rn+"."+lk] = v
			}
		}
		walk(f, f.Graph(), entry)
	}
}

// ---------------------------------------------------------------- debugging

// DumpGraph prints the CFG when $VERIF_DUMP names the function (development aid).
func DumpGraph(name string, g *Graph) {
	if os.Getenv("VERIF_DUMP") == "" || !strings.Contains(name, os.Getenv("VERIF_DUMP")) {
		return
	}
	fmt.Printf("---- CFG %s\n", name)
	for _, n := range g.Nodes {
		s := "<join>"
		if n.N != nil {
			if e, ok := n.N.(ast.Expr); ok {
				s = "expr " + Trim(ExprStr(e), 60)
			} else {
				s = fmt.Sprintf("%T", n.N)
			}
		}
		fmt.Printf("%3d %-70s %s kind=%d ->", n.ID, s, g.Line(n), n.Kind)
		for _, e := range n.Succ {
			lbl := ""
			if e.Cond != nil {
				lbl = fmt.Sprintf("[%v", e.Branch)
				if e.Tag != nil {
					lbl += " tag"
				}
				lbl += "]"
			}
			fmt.Printf(" %d%s", e.To.ID, lbl)
		}
		fmt.Println()
	}
}
