package core

import (
	"go/ast"
	"go/constant"
	"go/types"
	"sort"
)

// E4 helpers — exhaustiveness and table agreement.

// ConstsOfType returns the package-level constants of the named type, by name.
func ConstsOfType(pk *types.Package, typeName string) map[string]*types.Const {
	out := map[string]*types.Const{}
	tn, _ := pk.Scope().Lookup(typeName).(*types.TypeName)
	if tn == nil {
		return out
	}
	for _, n := range pk.Scope().Names() {
		if c, ok := pk.Scope().Lookup(n).(*types.Const); ok && types.Identical(c.Type(), tn.Type()) {
			out[n] = c
		}
	}
	return out
}

// SwitchInfo describes one expression switch.
type SwitchInfo struct {
	Stmt       *ast.SwitchStmt
	Consts     map[string]bool // names of constants listed in case clauses
	Values     map[string]bool // exact constant values listed (for literal cases)
	HasDefault bool
}

// Switches returns the expression switches in body whose tag has the named type
// (typeName "" = all tag switches). Constant case labels are resolved by types.
func Switches(info *types.Info, body ast.Node, typeName string) []*SwitchInfo {
	var out []*SwitchInfo
	ast.Inspect(body, func(n ast.Node) bool {
		sw, ok := n.(*ast.SwitchStmt)
		if !ok || sw.Tag == nil {
			return true
		}
		if typeName != "" {
			t := info.TypeOf(sw.Tag)
			nt, _ := t.(*types.Named)
			if nt == nil || nt.Obj().Name() != typeName {
				return true
			}
		}
		si := &SwitchInfo{Stmt: sw, Consts: map[string]bool{}, Values: map[string]bool{}}
		for _, cl := range sw.Body.List {
			cc := cl.(*ast.CaseClause)
			if cc.List == nil {
				si.HasDefault = true
			}
			for _, e := range cc.List {
				switch x := ast.Unparen(e).(type) {
				case *ast.Ident:
					if c, ok := info.Uses[x].(*types.Const); ok {
						si.Consts[c.Name()] = true
					}
				case *ast.SelectorExpr:
					if c, ok := info.Uses[x.Sel].(*types.Const); ok {
						si.Consts[c.Name()] = true
					}
				}
				if tv, ok := info.Types[e]; ok && tv.Value != nil {
					si.Values[tv.Value.ExactString()] = true
				}
			}
		}
		out = append(out, si)
		return true
	})
	return out
}

// TypeSwitchArms returns the named types (pointer stripped) listed in the type
// switches of body, mapped to whether the arm has a non-empty body.
func TypeSwitchArms(info *types.Info, body ast.Node) map[string]bool {
	arms := map[string]bool{}
	ast.Inspect(body, func(n ast.Node) bool {
		ts, ok := n.(*ast.TypeSwitchStmt)
		if !ok {
			return true
		}
		for _, cl := range ts.Body.List {
			cc := cl.(*ast.CaseClause)
			for _, e := range cc.List {
				t := info.TypeOf(e)
				if pt, ok := t.(*types.Pointer); ok {
					t = pt.Elem()
				}
				if nt, ok := t.(*types.Named); ok {
					arms[nt.Obj().Name()] = arms[nt.Obj().Name()] || len(cc.Body) > 0
				}
			}
		}
		return true
	})
	return arms
}

// FieldsTouched returns the names of the fields of struct type st that are read
// and written (assigned, incl. composite-literal keys) anywhere in body.
func FieldsTouched(info *types.Info, body ast.Node, st *types.Struct) (reads, writes map[string]bool) {
	reads, writes = map[string]bool{}, map[string]bool{}
	own := map[*types.Var]bool{}
	for i := 0; i < st.NumFields(); i++ {
		own[st.Field(i)] = true
	}
	wr := map[*ast.SelectorExpr]bool{}
	ast.Inspect(body, func(n ast.Node) bool {
		switch s := n.(type) {
		case *ast.AssignStmt:
			for _, l := range s.Lhs {
				if se, ok := lhsBase(l).(*ast.SelectorExpr); ok {
					wr[se] = true
				}
			}
		case *ast.IncDecStmt:
			if se, ok := lhsBase(s.X).(*ast.SelectorExpr); ok {
				wr[se] = true
			}
		case *ast.KeyValueExpr:
			if id, ok := s.Key.(*ast.Ident); ok {
				if v, ok := info.Uses[id].(*types.Var); ok && own[v] {
					writes[v.Name()] = true
				}
			}
		}
		return true
	})
	ast.Inspect(body, func(n ast.Node) bool {
		if se, ok := n.(*ast.SelectorExpr); ok {
			if v := FieldOf(info, se); v != nil && own[v] {
				if wr[se] {
					writes[v.Name()] = true
				} else {
					reads[v.Name()] = true
				}
			}
		}
		return true
	})
	return
}

// StructOf looks a struct type up by name.
func StructOf(pk *types.Package, name string) *types.Struct {
	o := pk.Scope().Lookup(name)
	if o == nil {
		return nil
	}
	st, _ := o.Type().Underlying().(*types.Struct)
	return st
}

// FieldNames lists the field names of a struct, sorted; unexported protobuf
// bookkeeping fields (state, sizeCache, unknownFields) are skipped.
func FieldNames(st *types.Struct) []string {
	var out []string
	for i := 0; i < st.NumFields(); i++ {
		n := st.Field(i).Name()
		switch n {
		case "state", "sizeCache", "unknownFields", "XXX_unrecognized", "XXX_sizecache", "XXX_NoUnkeyedLiteral":
			continue
		}
		out = append(out, n)
	}
	sort.Strings(out)
	return out
}

// ConstVal evaluates a constant expression (nil if not constant).
func ConstVal(info *types.Info, e ast.Expr) constant.Value {
	if tv, ok := info.Types[e]; ok {
		return tv.Value
	}
	return nil
}

// Implementers returns the named non-interface types of pk that implement iface
// (by value or pointer receiver), sorted by name.
func Implementers(pk *types.Package, iface *types.Interface) []*types.Named {
	var out []*types.Named
	for _, n := range pk.Scope().Names() {
		tn, ok := pk.Scope().Lookup(n).(*types.TypeName)
		if !ok || tn.IsAlias() {
			continue
		}
		nt, ok := tn.Type().(*types.Named)
		if !ok || types.IsInterface(nt) {
			continue
		}
		if types.Implements(types.NewPointer(nt), iface) || types.Implements(nt, iface) {
			out = append(out, nt)
		}
	}
	return out
}
