package core

import (
	"go/ast"
	"go/token"
	"go/types"
	"strings"

	"golang.org/x/tools/go/cfg"
)

// NodeKind classifies graph nodes.
type NodeKind int

const (
	KNormal NodeKind = iota
	KReturn          // explicit return statement
	KFallOff         // end of function body reached (implicit return)
	KPanic           // call that never returns
)

// Node is one simple statement or condition expression of a function.
type Node struct {
	ID    int
	N     ast.Node // nil for synthetic join/loop nodes
	Block *cfg.Block
	Succ  []*Edge
	Pred  []*Edge
	Kind  NodeKind
}

// Edge is a control-flow edge; conditional edges carry their condition.
type Edge struct {
	From, To *Node
	Cond     ast.Expr // non-nil on the two out-edges of a condition
	Branch   bool     // value of Cond on this edge
	Tag      ast.Expr // for `switch tag { case Cond: }` edges: Branch means tag == Cond
}

// Graph is the statement-level control-flow graph of one function body.
type Graph struct {
	Prog  *Prog
	Info  *types.Info
	Fn    *Func // enclosing declaration
	Body  *ast.BlockStmt
	Sig   *types.Signature
	Nodes []*Node
	Entry *Node
	Exits []*Node
}

func isNoReturn(info *types.Info, call *ast.CallExpr) bool {
	if Builtin("panic")(info, call) {
		return true
	}
	n := FName(Callee(info, call))
	switch n {
	case "os.Exit", "log.Fatal", "log.Fatalf", "log.Fatalln", "log.Panic", "log.Panicf",
		"runtime.Goexit", "testing.common.Fatal", "testing.common.Fatalf", "testing.common.FailNow",
		"go.uber.org/zap.Logger.Fatal", "go.uber.org/zap.Logger.Panic":
		return true
	}
	return false
}

// Graph returns (building on first use) the CFG of the function.
func (f *Func) Graph() *Graph {
	if f.g == nil && f.Decl.Body != nil {
		sig, _ := f.Obj.Type().(*types.Signature)
		f.g = buildGraph(f.Prog, f.Pkg.TypesInfo, f, f.Decl.Body, sig)
	}
	return f.g
}

// LitGraph builds the CFG of a function literal inside f.
func (f *Func) LitGraph(lit *ast.FuncLit) *Graph {
	sig, _ := f.Pkg.TypesInfo.TypeOf(lit).(*types.Signature)
	return buildGraph(f.Prog, f.Pkg.TypesInfo, f, lit.Body, sig)
}

func buildGraph(p *Prog, info *types.Info, fn *Func, body *ast.BlockStmt, sig *types.Signature) *Graph {
	g := &Graph{Prog: p, Info: info, Fn: fn, Body: body, Sig: sig}
	c := cfg.New(body, func(call *ast.CallExpr) bool { return !isNoReturn(info, call) })
	// switch statements by case clause, to label tag==cond edges
	tagOf := map[*ast.CaseClause]ast.Expr{}
	ast.Inspect(body, func(n ast.Node) bool {
		if sw, ok := n.(*ast.SwitchStmt); ok && sw.Tag != nil {
			for _, cl := range sw.Body.List {
				tagOf[cl.(*ast.CaseClause)] = sw.Tag
			}
		}
		return true
	})
	first := map[*cfg.Block]*Node{}
	last := map[*cfg.Block]*Node{}
	newNode := func(b *cfg.Block, n ast.Node) *Node {
		nd := &Node{ID: len(g.Nodes), N: n, Block: b}
		g.Nodes = append(g.Nodes, nd)
		return nd
	}
	link := func(a, b *Node) *Edge {
		e := &Edge{From: a, To: b}
		a.Succ = append(a.Succ, e)
		b.Pred = append(b.Pred, e)
		return e
	}
	for _, b := range c.Blocks {
		if !b.Live {
			continue
		}
		if len(b.Nodes) == 0 {
			nd := newNode(b, nil)
			first[b], last[b] = nd, nd
			continue
		}
		var prev *Node
		for _, n := range b.Nodes {
			nd := newNode(b, n)
			if prev == nil {
				first[b] = nd
			} else {
				link(prev, nd)
			}
			prev = nd
		}
		last[b] = prev
	}
	for _, b := range c.Blocks {
		if !b.Live {
			continue
		}
		l := last[b]
		for i, s := range b.Succs {
			if !s.Live {
				continue
			}
			e := link(l, first[s])
			if len(b.Succs) == 2 {
				if ce, ok := l.N.(ast.Expr); ok && l.N != nil {
					e.Cond, e.Branch = ce, i == 0
					if b.Succs[0].Kind == cfg.KindSwitchCaseBody {
						if cc, ok := b.Succs[0].Stmt.(*ast.CaseClause); ok {
							// only a tag switch compares tag==cond; a tagless switch's
							// case expressions are plain conditions
							if t := tagOf[cc]; t != nil && caseHas(cc, ce) {
								e.Tag = t
							}
						}
					}
				}
			}
		}
		if len(b.Succs) == 0 {
			switch x := l.N.(type) {
			case *ast.ReturnStmt:
				l.Kind = KReturn
			case *ast.ExprStmt:
				if call, ok := x.X.(*ast.CallExpr); ok && isNoReturn(info, call) {
					l.Kind = KPanic
				} else {
					l.Kind = KFallOff
				}
			default:
				l.Kind = KFallOff
			}
			g.Exits = append(g.Exits, l)
		}
	}
	if len(c.Blocks) > 0 {
		g.Entry = first[c.Blocks[0]]
	}
	return g
}

func caseHas(cc *ast.CaseClause, e ast.Expr) bool {
	for _, x := range cc.List {
		if x == e {
			return true
		}
	}
	return false
}

// NodePred selects nodes, EdgePred selects edges.
type (
	NodePred func(*Node) bool
	EdgePred func(*Edge) bool
)

// Reach returns the set of nodes reachable from the start nodes without entering
// a node selected by stopNode and without following an edge selected by stopEdge.
// Start nodes selected by stopNode are not entered either.
func (g *Graph) Reach(start []*Node, stopNode NodePred, stopEdge EdgePred) map[*Node]bool {
	seen := map[*Node]bool{}
	var stack []*Node
	push := func(n *Node) {
		if n == nil || seen[n] || (stopNode != nil && stopNode(n)) {
			return
		}
		seen[n] = true
		stack = append(stack, n)
	}
	for _, s := range start {
		push(s)
	}
	for len(stack) > 0 {
		n := stack[len(stack)-1]
		stack = stack[:len(stack)-1]
		for _, e := range n.Succ {
			if stopEdge != nil && stopEdge(e) {
				continue
			}
			push(e.To)
		}
	}
	return seen
}

// ReachFromEntry is Reach from the function entry.
func (g *Graph) ReachFromEntry(stopNode NodePred, stopEdge EdgePred) map[*Node]bool {
	return g.Reach([]*Node{g.Entry}, stopNode, stopEdge)
}

// After returns the successor nodes of n (optionally only along selected edges).
func After(n *Node, sel EdgePred) []*Node {
	var out []*Node
	for _, e := range n.Succ {
		if sel == nil || sel(e) {
			out = append(out, e.To)
		}
	}
	return out
}

// Calling selects nodes that contain (evaluate in place) a call matched by m.
// Deferred and go'd calls do not count, calls in function literals that are
// invoked in place do.
func (g *Graph) Calling(m Matcher) NodePred {
	cache := map[*Node]int8{}
	return func(n *Node) bool {
		if n.N == nil {
			return false
		}
		if v, ok := cache[n]; ok {
			return v == 1
		}
		r := len(CallsIn(g.Info, n.N, m, WalkOpts{})) > 0
		if r {
			cache[n] = 1
		} else {
			cache[n] = 2
		}
		return r
	}
}

// CallingDeep is Calling plus wrapper summaries: a call of a same-module helper
// all of whose success exits pass a call of class m (depth <= 2) counts as a
// call of class m. Meant for must-pass / precede gates, so that extracting a few
// statements into a helper does not change the verdict.
func (g *Graph) CallingDeep(m Matcher) NodePred {
	cache := map[*Node]int8{}
	// wrapper summaries: a same-module helper all of whose success exits pass a
	// call of class m counts as a call of class m (bounded depth), so that
	// extracting a few statements into a helper does not change a verdict.
	wraps := map[*types.Func]int8{}
	var mustCall func(fn *types.Func, depth int) bool
	mustCall = func(fn *types.Func, depth int) bool {
		if fn == nil || depth <= 0 {
			return false
		}
		if v, ok := wraps[fn]; ok {
			return v == 1
		}
		wraps[fn] = 2 // cycle guard
		callee := g.Prog.FuncOf(fn)
		if callee == nil || callee.Decl.Body == nil || callee == g.Fn {
			return false
		}
		cg := callee.Graph()
		inner := func(x *Node) bool {
			if x.N == nil {
				return false
			}
			hit := false
			Walk(x.N, WalkOpts{}, func(y ast.Node) bool {
				if c, ok := y.(*ast.CallExpr); ok {
					if m(cg.Info, c) || mustCall(Callee(cg.Info, c), depth-1) {
						hit = true
					}
				}
				return true
			})
			return hit
		}
		if len(cg.Select(inner)) == 0 {
			return false
		}
		ok := len(cg.MustPass(inner, nil)) == 0 && len(cg.SuccessExits()) > 0
		if ok {
			wraps[fn] = 1
		}
		return ok
	}
	return func(n *Node) bool {
		if n.N == nil {
			return false
		}
		if v, ok := cache[n]; ok {
			return v == 1
		}
		r := len(CallsIn(g.Info, n.N, m, WalkOpts{})) > 0
		if !r {
			Walk(n.N, WalkOpts{}, func(y ast.Node) bool {
				if c, ok := y.(*ast.CallExpr); ok && !r {
					if fn := Callee(g.Info, c); fn != nil && fn.Pkg() != nil && strings.HasPrefix(fn.Pkg().Path(), Mod) && mustCall(fn, 2) {
						r = true
					}
				}
				return true
			})
		}
		if r {
			cache[n] = 1
		} else {
			cache[n] = 2
		}
		return r
	}
}

// Deferring selects defer statements whose deferred call (or the body of a
// deferred function literal) contains a call matched by m.
func (g *Graph) Deferring(m Matcher) NodePred {
	return func(n *Node) bool {
		d, ok := n.N.(*ast.DeferStmt)
		if !ok {
			return false
		}
		if m(g.Info, d.Call) {
			return true
		}
		if fl, ok := ast.Unparen(d.Call.Fun).(*ast.FuncLit); ok {
			return len(AllCalls(g.Info, fl.Body, m)) > 0
		}
		return false
	}
}

// AnyOf combines node predicates.
func AnyOf(ps ...NodePred) NodePred {
	return func(n *Node) bool {
		for _, p := range ps {
			if p != nil && p(n) {
				return true
			}
		}
		return false
	}
}

// Select returns the nodes satisfying p, in source order.
func (g *Graph) Select(p NodePred) []*Node {
	var out []*Node
	for _, n := range g.Nodes {
		if p(n) {
			out = append(out, n)
		}
	}
	return out
}

// errResultIndex returns the index of the last result of type error, or -1.
func errResultIndex(sig *types.Signature) int {
	if sig == nil {
		return -1
	}
	r := sig.Results()
	for i := r.Len() - 1; i >= 0; i-- {
		if IsErrorType(r.At(i).Type()) {
			return i
		}
	}
	return -1
}

// FailEdge reports whether e is the branch of an `x != nil` / `x == nil` test on
// which the error-typed x is non-nil.
func (g *Graph) FailEdge(e *Edge) bool {
	if e.Cond == nil || e.Tag != nil {
		return false
	}
	x, nonNilOnTrue, ok := NilTest(g.Info, e.Cond)
	if !ok || !IsErrorType(g.Info.TypeOf(x)) {
		return false
	}
	return e.Branch == nonNilOnTrue
}

// failEdgeOn: like FailEdge but for a specific variable.
func (g *Graph) failEdgeOn(e *Edge, obj types.Object) bool {
	if e.Cond == nil || e.Tag != nil {
		return false
	}
	x, nonNilOnTrue, ok := NilTest(g.Info, e.Cond)
	if !ok || ObjOf(g.Info, x) != obj {
		return false
	}
	return e.Branch == nonNilOnTrue
}

var errCtorNames = []string{"errors.New", "fmt.Errorf", "*errors.Wrap*", "*errors.WithStack", "*errors.Errorf",
	"*.New*Error*", "*.*Errorf", "kit/platform/errors.*", "*.Err*"}

// SuccessExits returns the exits on which the function may report success:
// fall-off-the-end exits, and returns whose error operand is not provably a
// non-nil error. A return is provably failing when its error operand is
//   - a variable v and the return is only reachable through the non-nil branch
//     of a `v != nil` test,
//   - an error constructor call / composite literal / sentinel Err* variable.
//
// Functions without an error result succeed on every non-panicking exit.
func (g *Graph) SuccessExits() []*Node {
	idx := errResultIndex(g.Sig)
	var out []*Node
	for _, x := range g.Exits {
		switch x.Kind {
		case KPanic:
			continue
		case KFallOff:
			out = append(out, x)
			continue
		}
		if idx < 0 {
			out = append(out, x)
			continue
		}
		rs := x.N.(*ast.ReturnStmt)
		if !g.provablyFailing(x, rs, idx) {
			out = append(out, x)
		}
	}
	return out
}

func (g *Graph) provablyFailing(x *Node, rs *ast.ReturnStmt, idx int) bool {
	var op ast.Expr
	switch {
	case len(rs.Results) == 0:
		// bare return with named results
		if g.Sig.Results().At(idx).Name() == "" {
			return false
		}
		return g.onlyViaFail(x, g.Sig.Results().At(idx))
	case len(rs.Results) == g.Sig.Results().Len():
		op = ast.Unparen(rs.Results[idx])
	default:
		return false // return f() forwarding a tuple
	}
	if IsNilIdent(g.Info, op) {
		return false
	}
	switch e := op.(type) {
	case *ast.Ident:
		obj := ObjOf(g.Info, e)
		if v, ok := obj.(*types.Var); ok {
			if v.Parent() != nil && v.Parent().Parent() == types.Universe && strings.HasPrefix(v.Name(), "Err") {
				return true // package-level sentinel
			}
			if v.Pkg() != nil && v.Parent() == v.Pkg().Scope() {
				return strings.HasPrefix(v.Name(), "Err") || strings.HasPrefix(v.Name(), "err")
			}
			return g.onlyViaFail(x, v)
		}
	case *ast.SelectorExpr:
		// pkg.ErrFoo
		if v, ok := g.Info.Uses[e.Sel].(*types.Var); ok && v.Pkg() != nil && v.Parent() == v.Pkg().Scope() {
			return strings.HasPrefix(v.Name(), "Err")
		}
	case *ast.UnaryExpr:
		if e.Op == token.AND {
			if _, ok := ast.Unparen(e.X).(*ast.CompositeLit); ok {
				return true
			}
		}
	case *ast.CompositeLit:
		return true
	case *ast.CallExpr:
		n := FName(Callee(g.Info, e))
		for _, p := range errCtorNames {
			if Glob(p, n) {
				return true
			}
		}
		// wrapper call taking a failing variable: f(err) under err != nil
		for _, a := range e.Args {
			if v, ok := ObjOf(g.Info, a).(*types.Var); ok && IsErrorType(v.Type()) && g.onlyViaFail(x, v) {
				return true
			}
		}
	}
	return false
}

// onlyViaFail: node x is unreachable from the entry once the non-nil branches of
// tests of v are removed.
func (g *Graph) onlyViaFail(x *Node, v types.Object) bool {
	r := g.ReachFromEntry(nil, func(e *Edge) bool { return g.failEdgeOn(e, v) })
	return !r[x]
}

// ErrEdges finds, for a node that assigns the error result of a call to a
// variable, the two edges of the first test of that variable against nil that
// follows on the straight-line path. ok=false when the pattern is not found.
func (g *Graph) ErrEdges(n *Node) (fail, succ *Edge, ok bool) {
	v := g.errVarAssigned(n)
	if v == nil {
		return nil, nil, false
	}
	cur := n
	for steps := 0; steps < 6; steps++ {
		if len(cur.Succ) == 2 && cur.Succ[0].Cond != nil && cur != n {
			for _, e := range cur.Succ {
				if g.failEdgeOn(e, v) {
					fail = e
				} else {
					succ = e
				}
			}
			if fail != nil {
				return fail, succ, true
			}
			return nil, nil, false
		}
		if len(cur.Succ) == 2 && cur == n {
			return nil, nil, false
		}
		if len(cur.Succ) != 1 {
			return nil, nil, false
		}
		cur = cur.Succ[0].To
	}
	return nil, nil, false
}

// errVarAssigned returns the error variable defined/assigned by the statement in n.
func (g *Graph) errVarAssigned(n *Node) types.Object {
	switch s := n.N.(type) {
	case *ast.AssignStmt:
		for i := len(s.Lhs) - 1; i >= 0; i-- {
			if id, ok := s.Lhs[i].(*ast.Ident); ok && id.Name != "_" {
				if o := ObjOf(g.Info, id); o != nil && IsErrorType(o.Type()) {
					return o
				}
			}
		}
	case *ast.ValueSpec:
		for i := len(s.Names) - 1; i >= 0; i-- {
			if o := g.Info.Defs[s.Names[i]]; o != nil && IsErrorType(o.Type()) {
				return o
			}
		}
	}
	return nil
}

// NodeOf returns the graph node that contains the given AST node (by position).
func (g *Graph) NodeOf(a ast.Node) *Node {
	for _, n := range g.Nodes {
		if n.N != nil && n.N.Pos() <= a.Pos() && a.End() <= n.N.End() {
			return n
		}
	}
	return nil
}

// Line renders the node position.
func (g *Graph) Line(n *Node) string {
	if n == nil {
		return "-"
	}
	if n.N == nil {
		if n.Block != nil && n.Block.Stmt != nil {
			return g.Prog.Pos(n.Block.Stmt.Pos())
		}
		return "-"
	}
	return g.Prog.Pos(n.N.Pos())
}

// ThenBody returns the body of the if statement whose then-branch starts at n
// (nil when n is not the first node of a then-block).
func ThenBody(n *Node) *ast.BlockStmt {
	if n == nil || n.Block == nil || n.Block.Kind != cfg.KindIfThen {
		return nil
	}
	if is, ok := n.Block.Stmt.(*ast.IfStmt); ok {
		return is.Body
	}
	return nil
}

// InRegion reports whether node n lies syntactically inside region.
func InRegion(n *Node, region ast.Node) bool {
	var pos token.Pos
	switch {
	case n.N != nil:
		pos = n.N.Pos()
	case n.Block != nil && n.Block.Stmt != nil:
		pos = n.Block.Stmt.Pos()
	default:
		return false
	}
	return region.Pos() <= pos && pos < region.End()
}
