package core

// Helpers added for the survivor-driven strengthening of C42, C15, C16, C18 (m11).
//
// Everything is decided on resolved objects, callees, types and CFG edges; a
// compound condition (`a || b`) is taken apart with ImpliesEdge8 / EvalCond.

import (
	"go/ast"
	"go/token"
	"go/types"

	"golang.org/x/tools/go/cfg"
)

// ---------------------------------------------------------------- small syntax helpers

// LoopStmtsM11 lists the for and range statements below body that belong to the
// same unit (function literals are not entered).
func LoopStmtsM11(body ast.Node) []ast.Stmt {
	var out []ast.Stmt
	ast.Inspect(body, func(n ast.Node) bool {
		switch s := n.(type) {
		case *ast.FuncLit:
			return false
		case *ast.ForStmt:
			out = append(out, s)
		case *ast.RangeStmt:
			out = append(out, s)
		}
		return true
	})
	return out
}

// InnermostLoopM11 returns the innermost of loops that contains pos (nil if none).
func InnermostLoopM11(loops []ast.Stmt, pos token.Pos) ast.Stmt {
	var best ast.Stmt
	for _, l := range loops {
		if l.Pos() <= pos && pos < l.End() {
			if best == nil || (best.Pos() <= l.Pos() && l.End() <= best.End()) {
				best = l
			}
		}
	}
	return best
}

// MentionsAnyM11 reports whether n mentions one of the objects (function literals are entered).
func MentionsAnyM11(info *types.Info, n ast.Node, set map[types.Object]bool) bool {
	if n == nil || len(set) == 0 {
		return false
	}
	found := false
	ast.Inspect(n, func(x ast.Node) bool {
		if found {
			return false
		}
		if id, ok := x.(*ast.Ident); ok {
			if o := info.Uses[id]; o != nil && set[o] {
				found = true
			}
		}
		return true
	})
	return found
}

// DerivedLocalsM11 closes seed under "assigned, inside region, from an
// expression that mentions a member": the loop element, what was looked up
// with it, what was parsed out of that, … (function literals are not entered).
func DerivedLocalsM11(info *types.Info, region ast.Node, seed map[types.Object]bool) map[types.Object]bool {
	out := map[types.Object]bool{}
	for o := range seed {
		if o != nil {
			out[o] = true
		}
	}
	add := func(lhs []ast.Expr, rhs []ast.Expr) bool {
		mention := false
		for _, r := range rhs {
			if MentionsAnyM11(info, r, out) {
				mention = true
			}
		}
		if !mention {
			return false
		}
		changed := false
		for _, l := range lhs {
			if o := ObjOf(info, l); o != nil && !out[o] {
				if v, ok := o.(*types.Var); ok && !v.IsField() {
					out[o] = true
					changed = true
				}
			}
		}
		return changed
	}
	for round := 0; round < 6; round++ {
		changed := false
		ast.Inspect(region, func(n ast.Node) bool {
			switch s := n.(type) {
			case *ast.FuncLit:
				return false
			case *ast.AssignStmt:
				if add(s.Lhs, s.Rhs) {
					changed = true
				}
			case *ast.RangeStmt:
				var lhs []ast.Expr
				if s.Key != nil {
					lhs = append(lhs, s.Key)
				}
				if s.Value != nil {
					lhs = append(lhs, s.Value)
				}
				if add(lhs, []ast.Expr{s.X}) {
					changed = true
				}
			case *ast.ValueSpec:
				var lhs []ast.Expr
				for _, id := range s.Names {
					lhs = append(lhs, id)
				}
				if add(lhs, s.Values) {
					changed = true
				}
			}
			return true
		})
		if !changed {
			break
		}
	}
	return out
}

// containsNodeM11: use lies syntactically inside root.
func containsNodeM11(root, use ast.Node) bool {
	return root != nil && use != nil && root.Pos() <= use.Pos() && use.End() <= root.End()
}

// GuardedWithinM11 reports whether, inside the single condition expression
// cond, the sub-expression use is only evaluated when fact has been established
// by short-circuit evaluation: it stands to the right of `G && …` where G=true
// establishes fact, or to the right of `G || …` where G=false does.
func GuardedWithinM11(cond ast.Expr, use ast.Node, fact CondFact) bool {
	cond = ast.Unparen(cond)
	switch x := cond.(type) {
	case *ast.UnaryExpr:
		if x.Op == token.NOT {
			return GuardedWithinM11(x.X, use, fact)
		}
	case *ast.BinaryExpr:
		if x.Op == token.LAND || x.Op == token.LOR {
			switch {
			case containsNodeM11(x.Y, use):
				if Establishes(x.X, x.Op == token.LAND, fact) {
					return true
				}
				return GuardedWithinM11(x.Y, use, fact)
			case containsNodeM11(x.X, use):
				return GuardedWithinM11(x.X, use, fact)
			}
		}
	}
	return false
}

// condOfNodeM11 returns the condition expression when n is a branching condition node.
func condOfNodeM11(n *Node) ast.Expr {
	if n == nil || len(n.Succ) != 2 || n.Succ[0].Cond == nil || n.Succ[0].Tag != nil {
		return nil
	}
	if e, ok := n.N.(ast.Expr); ok && e == n.Succ[0].Cond {
		return e
	}
	return nil
}

// ---------------------------------------------------------------- atomic facts

// ErrNonNilFactM11: the atom says that some error-typed variable is non-nil.
func ErrNonNilFactM11(info *types.Info) CondFact {
	return func(atom ast.Expr, val bool) bool {
		x, nonNilOnTrue, ok := NilTest(info, atom)
		if !ok || val != nonNilOnTrue {
			return false
		}
		return IsErrorType(info.TypeOf(x))
	}
}

// ObjNilFactM11: the atom says that variable obj is nil (isNil) / non-nil.
func ObjNilFactM11(info *types.Info, obj types.Object, isNil bool) CondFact {
	return func(atom ast.Expr, val bool) bool {
		x, nonNilOnTrue, ok := NilTest(info, atom)
		if !ok || obj == nil || ObjOf(info, x) != obj {
			return false
		}
		return (val == nonNilOnTrue) == !isNil
	}
}

// ZeroTestM11 decomposes an atom `X == 0`, `X != 0`, `X == nil`, `X != nil`
// (either operand order): X and whether the atom being true means "X is zero".
func ZeroTestM11(info *types.Info, atom ast.Expr) (x ast.Expr, zeroOnTrue bool, ok bool) {
	be, isBin := ast.Unparen(atom).(*ast.BinaryExpr)
	if !isBin || (be.Op != token.EQL && be.Op != token.NEQ) {
		return nil, false, false
	}
	isZero := func(e ast.Expr) bool {
		if IsNilIdent(info, e) {
			return true
		}
		v, isC := ConstInt(info, e)
		return isC && v == 0
	}
	switch {
	case isZero(be.Y):
		x = be.X
	case isZero(be.X):
		x = be.Y
	default:
		return nil, false, false
	}
	return ast.Unparen(x), be.Op == token.EQL, true
}

// ElemZeroFactM11: the atom says that an element variable (one of elems), or a
// field of it, is zero/nil (isZero) or not — the end-of-iteration sentinel of
// the Next() protocol (`e == nil`, `e.SeriesID == 0`).
func ElemZeroFactM11(info *types.Info, elems map[types.Object]bool, isZero bool) CondFact {
	return func(atom ast.Expr, val bool) bool {
		x, zeroOnTrue, ok := ZeroTestM11(info, atom)
		if !ok {
			return false
		}
		root := x
		if se, isSel := root.(*ast.SelectorExpr); isSel {
			root = ast.Unparen(se.X)
		}
		o := ObjOf(info, root)
		if o == nil || !elems[o] {
			return false
		}
		return (val == zeroOnTrue) == isZero
	}
}

// FactThroughTempsM11 extends fact to boolean temporaries: an atom that is a
// local bool with a single definition `done := e == nil` establishes what its
// defining expression establishes (two levels deep).
func FactThroughTempsM11(info *types.Info, body ast.Node, fact CondFact) CondFact {
	if fact == nil {
		return nil
	}
	depth := 0
	var f CondFact
	f = func(atom ast.Expr, val bool) bool {
		if fact(atom, val) {
			return true
		}
		if depth >= 2 || body == nil {
			return false
		}
		o, ok := ObjOf(info, ast.Unparen(atom)).(*types.Var)
		if !ok || o.IsField() {
			return false
		}
		if b, isB := o.Type().Underlying().(*types.Basic); !isB || b.Kind() != types.Bool {
			return false
		}
		d, single := SingleDef(info, body, o)
		if !single || d.Rhs == nil || d.Index != -1 {
			return false
		}
		depth++
		defer func() { depth-- }()
		return Establishes(d.Rhs, val, f)
	}
	return f
}

// ImpliesAnyM11 is ImpliesEdge8 over a union of facts.
func ImpliesAnyM11(facts ...CondFact) EdgePred {
	return ImpliesEdge8(func(x ast.Expr, val bool) bool {
		for _, f := range facts {
			if f != nil && f(x, val) {
				return true
			}
		}
		return false
	})
}

// ---------------------------------------------------------------- loops

// LoopEscapeM11 is one way control leaves a loop in the middle of an iteration.
type LoopEscapeM11 struct {
	From *Node // last node evaluated inside the loop
	To   *Node // first node outside the loop (break / goto); nil for Exit
	Exit *Node // return or fall-off exit inside the loop; nil for To
	Edge *Edge // the edge leaving the loop (nil for Exit)
}

func loopBlockKindM11(n *Node, loop ast.Stmt, kinds ...cfg.BlockKind) bool {
	if n == nil || n.Block == nil || n.Block.Stmt != loop {
		return false
	}
	for _, k := range kinds {
		if n.Block.Kind == k {
			return true
		}
	}
	return false
}

// LoopEscapesM11 starts an iteration at the first node of the loop body and
// lists how control can leave the loop before the iteration is over (before the
// loop header / post statement is reached again) without following an edge
// accepted by allowed: jumps to a node outside the loop (break, labelled
// continue of an outer loop) and function exits that are not panics. The
// exhaustion of a range loop and the false edge of a for condition are not
// escapes: they leave from the header, which ends the iteration.
func (g *Graph) LoopEscapesM11(loop ast.Stmt, allowed EdgePred) []LoopEscapeM11 {
	_, body, _ := g.LoopNodes(loop)
	if body == nil {
		return nil
	}
	isCtl := func(n *Node) bool {
		return loopBlockKindM11(n, loop, cfg.KindForLoop, cfg.KindRangeLoop, cfg.KindForPost)
	}
	outside := func(n *Node) bool {
		return loopBlockKindM11(n, loop, cfg.KindForDone, cfg.KindRangeDone) || !InRegion(n, loop)
	}
	var out []LoopEscapeM11
	seen := map[*Node]bool{}
	var walk func(n *Node)
	walk = func(n *Node) {
		if n == nil || seen[n] {
			return
		}
		seen[n] = true
		if len(n.Succ) == 0 {
			if n.Kind != KPanic {
				out = append(out, LoopEscapeM11{From: n, Exit: n})
			}
			return
		}
		for _, e := range n.Succ {
			if allowed != nil && allowed(e) {
				continue
			}
			switch {
			case outside(e.To):
				out = append(out, LoopEscapeM11{From: n, To: e.To, Edge: e})
			case isCtl(e.To):
				// iteration over
			default:
				walk(e.To)
			}
		}
	}
	walk(body)
	return out
}

// SelfFailingReturnM11: n is a return whose error operand is built on the spot
// (a call such as fmt.Errorf / ctx.Err(), a package-level error value) — it
// reports a failure whatever path led to it. `return …, err` with a local err
// and `return …, nil` are not self-failing.
func SelfFailingReturnM11(info *types.Info, sig *types.Signature, n *Node) bool {
	rs, ok := n.N.(*ast.ReturnStmt)
	if !ok || sig == nil || len(rs.Results) == 0 || len(rs.Results) != sig.Results().Len() {
		return false
	}
	last := ast.Unparen(rs.Results[len(rs.Results)-1])
	if !IsErrorType(sig.Results().At(sig.Results().Len() - 1).Type()) {
		return false
	}
	switch x := last.(type) {
	case *ast.Ident:
		if IsNilIdent(info, x) {
			return false
		}
		if v, ok := info.Uses[x].(*types.Var); ok && v.Pkg() != nil && v.Parent() == v.Pkg().Scope() {
			return true
		}
		return false
	case *ast.SelectorExpr:
		if v, ok := info.Uses[x.Sel].(*types.Var); ok && !v.IsField() {
			return true
		}
		return false
	case *ast.CallExpr:
		return true
	}
	return false
}

// ---------------------------------------------------------------- comma-ok

// CommaOkSiteM11 is a `v, ok := x.(T)` / `v, ok := m[k]` / `v, ok := <-c` definition.
type CommaOkSiteM11 struct {
	G    *Graph
	Node *Node
	V    types.Object
	Ok   types.Object
	Kind string
}

func commaOkSitesM11(g *Graph, extra Matcher) []CommaOkSiteM11 {
	var out []CommaOkSiteM11
	for _, n := range g.Nodes {
		as, ok := n.N.(*ast.AssignStmt)
		if !ok || len(as.Lhs) != 2 || len(as.Rhs) != 1 {
			continue
		}
		kind := ""
		switch x := ast.Unparen(as.Rhs[0]).(type) {
		case *ast.CallExpr:
			// a listed (value, valid bool) accessor
			if extra != nil && extra(g.Info, x) {
				if tv := g.Info.TypeOf(as.Lhs[1]); tv != nil {
					if b, isB := tv.Underlying().(*types.Basic); isB && b.Kind() == types.Bool {
						kind = "valid:" + FName(Callee(g.Info, x))
					}
				}
			}
		case *ast.TypeAssertExpr:
			if x.Type != nil {
				kind = "assert:" + types.ExprString(x.Type)
			}
		case *ast.IndexExpr:
			if t := g.Info.TypeOf(x.X); t != nil {
				if _, isMap := t.Underlying().(*types.Map); isMap {
					kind = "map-lookup"
				}
			}
		case *ast.UnaryExpr:
			if x.Op == token.ARROW {
				kind = "receive"
			}
		}
		if kind == "" {
			continue
		}
		v, okv := ObjOf(g.Info, as.Lhs[0]), ObjOf(g.Info, as.Lhs[1])
		if v == nil || okv == nil {
			continue
		}
		out = append(out, CommaOkSiteM11{G: g, Node: n, V: v, Ok: okv, Kind: kind})
	}
	return out
}

// readsOfM11 lists the identifiers in n (function literals not entered) that read obj.
func readsOfM11(info *types.Info, n ast.Node, obj types.Object) []*ast.Ident {
	var out []*ast.Ident
	ast.Inspect(n, func(x ast.Node) bool {
		switch y := x.(type) {
		case *ast.FuncLit:
			return false
		case *ast.Ident:
			if info.Uses[y] == obj {
				out = append(out, y)
			}
		}
		return true
	})
	return out
}

// RuleCommaOkM11 checks, in every unit of f, that the value of a comma-ok form
// is read only where ok is known to be true (on an edge establishing it, or to
// the right of `ok &&` / `!ok ||` in the same condition) unless the value has
// been assigned again. With ok false the value is the zero value: a nil
// pointer, index 0, an empty string — using it silently substitutes a wrong
// operand or dereferences nil. Returns the number of sites examined.
func RuleCommaOkM11(r *Report, f *Func, rule string) int { return RuleCommaOkXM11(r, f, rule, nil) }

// RuleCommaOkXM11 is RuleCommaOkM11 that also treats `v, ok := call()` as a
// comma-ok form for the listed (value, valid bool) accessors.
func RuleCommaOkXM11(r *Report, f *Func, rule string, extra Matcher) int {
	sites := 0
	for _, g := range f.Graphs() {
		info := g.Info
		for _, s := range commaOkSitesM11(g, extra) {
			sites++
			s := s
			okTrue := FactThroughTempsM11(info, g.Body, func(atom ast.Expr, val bool) bool { return val && ObjOf(info, atom) == s.Ok })
			// edges on ok only count while ok still belongs to this definition
			otherOkDef := func(n *Node) bool { return n != s.Node && g.AssigningObj(s.Ok)(n) }
			fresh := g.Reach(After(s.Node, nil), otherOkDef, nil)
			implies := ImpliesEdge8(okTrue)
			stopEdge := func(e *Edge) bool { return fresh[e.From] && implies(e) }
			reassign := func(n *Node) bool { return g.AssigningObj(s.V)(n) }
			reach := g.Reach(After(s.Node, nil), reassign, stopEdge)
			bad := ""
			for _, n := range g.Nodes {
				if !reach[n] || n.N == nil {
					continue
				}
				for _, id := range readsOfM11(info, n.N, s.V) {
					if c := condOfNodeM11(n); c != nil && fresh[n] && GuardedWithinM11(c, id, okTrue) {
						continue
					}
					if bad == "" {
						bad = g.Line(n)
					}
				}
			}
			construct := f.String()
			if bad != "" {
				r.Bad(rule, construct, "value-read-without-ok:"+s.Kind, bad, "the result of a comma-ok "+s.Kind+" is read on a path where ok may be false (zero value: nil pointer / index 0 / empty string)")
			} else {
				r.Ok(rule, construct, g.Line(s.Node), "comma-ok "+s.Kind+": value only read where ok is true")
			}
		}
	}
	return sites
}

// ---------------------------------------------------------------- error-or-done returns

// RuleErrEdgeReturnsM11 checks the compound error tests of f (`err != nil ||
// done`, `!(err == nil && more)` …): on the edge that is taken whenever err is
// non-nil, a return that follows without further branching must not report
// success with a literal nil error — the caller would take an incomplete result
// for a complete one. Plain `if err != nil` tests are left to the
// failure-propagates pass. Returns the number of compound error tests examined.
func RuleErrEdgeReturnsM11(r *Report, f *Func, rule string) int {
	sites := 0
	for _, g := range f.Graphs() {
		info := g.Info
		if g.Sig == nil || g.Sig.Results().Len() == 0 || !IsErrorType(g.Sig.Results().At(g.Sig.Results().Len()-1).Type()) {
			continue
		}
		for _, n := range g.Nodes {
			cond := condOfNodeM11(n)
			if cond == nil {
				continue
			}
			if _, _, plain := NilTest(info, cond); plain {
				continue
			}
			// the error variables tested in the condition
			errs := map[types.Object]bool{}
			for _, a := range Atoms(cond) {
				if x, _, ok := NilTest(info, a); ok && IsErrorType(info.TypeOf(x)) {
					if o := ObjOf(info, x); o != nil {
						errs[o] = true
					}
				}
			}
			for eo := range errs {
				eo := eo
				v, known := EvalCond(cond, func(a ast.Expr) (bool, bool) {
					x, nonNilOnTrue, ok := NilTest(info, a)
					if ok && ObjOf(info, x) == eo {
						return nonNilOnTrue, true // assume err != nil
					}
					return false, false
				})
				if !known {
					continue
				}
				sites++
				for _, e := range n.Succ {
					if e.Branch != v {
						continue
					}
					// follow straight-line code to a return
					cur := e.To
					for cur != nil && len(cur.Succ) == 1 && !g.AssigningObj(eo)(cur) {
						cur = cur.Succ[0].To
					}
					if cur == nil || len(cur.Succ) != 0 {
						continue
					}
					rs, ok := cur.N.(*ast.ReturnStmt)
					if !ok || len(rs.Results) == 0 {
						continue
					}
					last := rs.Results[len(rs.Results)-1]
					if IsNilIdent(info, last) {
						r.Bad(rule, f.String(), "error-edge-returns-nil", g.Line(cur), "this return is reached whenever "+eo.Name()+" != nil (compound test at "+g.Line(n)+") but reports success with a nil error: a failed step yields a silently incomplete result")
					} else {
						r.Ok(rule, f.String(), g.Line(cur), "the error edge of the compound test returns the error")
					}
				}
			}
		}
	}
	return sites
}

// ---------------------------------------------------------------- (nil, nil) producers

// MayReturnNilNilM11: fn has an exit `return nil, …, nil` (first result nil with
// a nil error): "nothing there" is reported as a nil value, not as an error.
func MayReturnNilNilM11(fn *Func) bool { return mayReturnNilM11(fn, 2) }

func mayReturnNilM11(fn *Func, depth int) bool {
	if fn == nil || fn.Decl == nil || fn.Decl.Body == nil {
		return false
	}
	// nilFirst: the first result operand is nil, or the single result of a
	// program function that may itself answer nil (Merge…Iterators(a...)).
	nilFirst := func(g *Graph, e ast.Expr) bool {
		if IsNilIdent(g.Info, e) {
			return true
		}
		if c, ok := ast.Unparen(e).(*ast.CallExpr); ok && depth > 0 {
			if callee := fn.Prog.FuncOf(Callee(g.Info, c)); callee != nil && callee != fn {
				if sig, ok := callee.Obj.Type().(*types.Signature); ok && sig.Results().Len() == 1 {
					return mayReturnNilM11(callee, depth-1)
				}
			}
		}
		return false
	}
	if g := fn.Graph(); g != nil && g.Sig != nil && g.Sig.Results().Len() >= 1 && nilableM11(g.Sig.Results().At(0).Type()) {
		n := g.Sig.Results().Len()
		if n == 1 || IsErrorType(g.Sig.Results().At(n-1).Type()) {
			for _, x := range g.Exits {
				rs, ok := x.N.(*ast.ReturnStmt)
				if !ok || len(rs.Results) != n {
					continue
				}
				if nilFirst(g, rs.Results[0]) && (n == 1 || IsNilIdent(g.Info, rs.Results[n-1])) {
					return true
				}
			}
		}
	}
	return false
}

func nilableM11(t types.Type) bool {
	if t == nil {
		return false
	}
	switch t.Underlying().(type) {
	case *types.Interface, *types.Pointer:
		return true
	}
	return false
}

// NilGuardFindingM11 is one method call / field selection on a possibly nil result.
type NilGuardFindingM11 struct {
	G      *Graph
	Def    *Node
	Use    *Node
	V      types.Object
	Callee string
}

// NilResultUsesM11 examines, in every unit of f, the variables v defined by
// `v, …, err := call(…)` where v is an interface or pointer and the call may
// answer (nil, nil) — the callee is a function of the program with such an
// exit, or v is compared with nil somewhere in the unit (the author expects
// nil). It returns the selections `v.m` (method calls, field reads, also in
// defer statements) that are reachable from the definition without an edge
// establishing v != nil; assignments `v = wrap(…v…)` keep the tracking alive,
// any other assignment of v ends it. sites = definitions examined.
func NilResultUsesM11(p *Prog, f *Func) (bad []NilGuardFindingM11, sites int) {
	for _, g := range f.Graphs() {
		info := g.Info
		// variables compared with nil in this unit
		tested := map[types.Object]bool{}
		for _, n := range g.Nodes {
			if c := condOfNodeM11(n); c != nil {
				for _, a := range Atoms(c) {
					if x, _, ok := NilTest(info, a); ok {
						if o := ObjOf(info, x); o != nil {
							tested[o] = true
						}
					}
				}
			}
		}
		for _, n := range g.Nodes {
			as, ok := n.N.(*ast.AssignStmt)
			if !ok || len(as.Rhs) != 1 || len(as.Lhs) < 1 {
				continue
			}
			c, ok := ast.Unparen(as.Rhs[0]).(*ast.CallExpr)
			if !ok {
				continue
			}
			if tv, isType := info.Types[c.Fun]; isType && tv.IsType() {
				continue // conversion
			}
			v := ObjOf(info, as.Lhs[0])
			if v == nil || !nilableM11(v.Type()) {
				continue
			}
			if len(as.Lhs) >= 2 && !IsErrorType(info.TypeOf(as.Lhs[len(as.Lhs)-1])) {
				continue
			}
			if MentionsAnyM11(info, c, map[types.Object]bool{v: true}) {
				continue // v = wrap(v): continuation of the earlier definition, not a new one
			}
			fn := Callee(info, c)
			if !(MayReturnNilNilM11(p.FuncOf(fn)) || tested[v]) {
				continue
			}
			sites++
			nonNil := FactThroughTempsM11(info, g.Body, ObjNilFactM11(info, v, false))
			kill := func(m *Node) bool {
				if m == n || !g.AssigningObj(v)(m) {
					return m == n
				}
				// v = wrap(v): still the same (possibly nil) thing
				if as2, ok := m.N.(*ast.AssignStmt); ok {
					for _, rh := range as2.Rhs {
						if MentionsAnyM11(info, rh, map[types.Object]bool{v: true}) {
							return false
						}
					}
				}
				return true
			}
			reach := g.Reach(After(n, nil), kill, ImpliesEdge8(nonNil))
			for _, m := range g.Nodes {
				if !reach[m] || m.N == nil {
					continue
				}
				var root ast.Node = m.N
				found := false
				ast.Inspect(root, func(x ast.Node) bool {
					if found {
						return false
					}
					switch y := x.(type) {
					case *ast.FuncLit:
						return false
					case *ast.SelectorExpr:
						if ObjOf(info, y.X) == v {
							if cnd := condOfNodeM11(m); cnd != nil && GuardedWithinM11(cnd, y, nonNil) {
								return true
							}
							found = true
						}
					case *ast.StarExpr:
						if ObjOf(info, y.X) == v {
							if cnd := condOfNodeM11(m); cnd != nil && GuardedWithinM11(cnd, y, nonNil) {
								return true
							}
							found = true
						}
					}
					return true
				})
				if found {
					bad = append(bad, NilGuardFindingM11{G: g, Def: n, Use: m, V: v, Callee: FName(fn)})
				}
			}
		}
	}
	return
}

// ---------------------------------------------------------------- the Next() protocol and complete enumeration

// IterLoopM11 describes one loop examined by RuleIterProtocolM11.
type IterLoopM11 struct {
	Loop       ast.Stmt
	Elems      map[types.Object]bool // element variables: results of X.Next() / range key and value
	NextNodes  []*Node               // the `e, err := X.Next()` nodes (empty for range loops)
	Collecting bool                  // the loop stores something derived from its element into a list/map/set
}

// nextAssignM11: n is `e, … := X.Next()`; returns e.
func nextAssignM11(info *types.Info, n ast.Node) types.Object {
	as, ok := n.(*ast.AssignStmt)
	if !ok || len(as.Rhs) != 1 || len(as.Lhs) < 1 {
		return nil
	}
	c, ok := ast.Unparen(as.Rhs[0]).(*ast.CallExpr)
	if !ok {
		return nil
	}
	se, ok := ast.Unparen(c.Fun).(*ast.SelectorExpr)
	if !ok || se.Sel.Name != "Next" || len(c.Args) != 0 {
		return nil
	}
	if fn := Callee(info, c); fn == nil || fn.Name() != "Next" {
		return nil
	}
	return ObjOf(info, as.Lhs[0])
}

// IterLoopsM11 finds the loops of a unit (graph g with body) that enumerate
// something: range loops, and condition-less `for` loops that fetch an element
// with X.Next(). Counted `for i := …; cond; post` loops are not examined.
func IterLoopsM11(g *Graph, body ast.Node) []*IterLoopM11 {
	info := g.Info
	loops := LoopStmtsM11(body)
	var out []*IterLoopM11
	for _, l := range loops {
		il := &IterLoopM11{Loop: l, Elems: map[types.Object]bool{}}
		switch s := l.(type) {
		case *ast.RangeStmt:
			if s.Key != nil {
				if o := ObjOf(info, s.Key); o != nil {
					il.Elems[o] = true
				}
			}
			if s.Value != nil {
				if o := ObjOf(info, s.Value); o != nil {
					il.Elems[o] = true
				}
			}
		case *ast.ForStmt:
			if s.Cond != nil {
				continue
			}
			for _, n := range g.Nodes {
				if n.N == nil || !InRegion(n, s.Body) || InnermostLoopM11(loops, n.N.Pos()) != l {
					continue
				}
				if e := nextAssignM11(info, n.N); e != nil {
					il.Elems[e] = true
					il.NextNodes = append(il.NextNodes, n)
				}
			}
			if len(il.NextNodes) == 0 {
				continue
			}
		}
		own := DerivedLocalsM11(info, l, il.Elems)
		ast.Inspect(l, func(n ast.Node) bool {
			switch s := n.(type) {
			case *ast.FuncLit:
				return false
			case *ast.AssignStmt:
				for i, lh := range s.Lhs {
					var rh ast.Expr
					if len(s.Lhs) == len(s.Rhs) {
						rh = s.Rhs[i]
					}
					if _, isIx := ast.Unparen(lh).(*ast.IndexExpr); isIx {
						if MentionsAnyM11(info, lh, own) || MentionsAnyM11(info, rh, own) {
							il.Collecting = true
						}
					}
					if c, ok := rh.(*ast.CallExpr); ok && Builtin("append")(info, c) {
						for _, a := range c.Args[1:] {
							if MentionsAnyM11(info, a, own) {
								il.Collecting = true
							}
						}
					}
				}
			}
			return true
		})
		out = append(out, il)
	}
	return out
}

// RuleIterProtocolM11 checks every enumerating loop of the unit (g, body):
//
//	(escape) an iteration is abandoned — break, return — only on an edge that
//	establishes the end sentinel of the element just fetched (e == nil,
//	e.SeriesID == 0), on an edge taken when an error is non-nil, at a return that
//	builds an error on the spot, or, for a loop that only searches (it stores
//	nothing derived from its element), on an edge accepted by gate (the positive
//	answer was found). A loop that collects must visit every element: leaving it
//	early silently drops the rest of the names.
//	(element-use) after `e, err := X.Next()` the element is read only where the
//	sentinel test said "not the end": otherwise the end marker is processed as
//	an element and the loop never ends, or an element is skipped.
//
// exempt returns a reason for a deliberate early exit ("" = none). Returns the
// number of loops examined.
func RuleIterProtocolM11(r *Report, f *Func, g *Graph, body ast.Node, rule, construct string, gate EdgePred, exempt func(il *IterLoopM11, esc LoopEscapeM11) string) int {
	info := g.Info
	errFact := FactThroughTempsM11(info, g.Body, ErrNonNilFactM11(info))
	n := 0
	for _, il := range IterLoopsM11(g, body) {
		n++
		il := il
		end := FactThroughTempsM11(info, g.Body, ElemZeroFactM11(info, il.Elems, true))
		if len(il.NextNodes) == 0 {
			end = nil
		}
		allowed := ImpliesAnyM11(errFact, end)
		if gate != nil && !il.Collecting {
			allowed = OrEdge8(allowed, gate)
		}
		kind := "search"
		if il.Collecting {
			kind = "collect"
		}
		bad := 0
		for _, esc := range g.LoopEscapesM11(il.Loop, allowed) {
			if esc.Exit != nil && SelfFailingReturnM11(info, g.Sig, esc.Exit) {
				continue
			}
			if exempt != nil {
				if why := exempt(il, esc); why != "" {
					r.Ok(rule, construct, g.Line(esc.From), "exception: "+why)
					continue
				}
			}
			bad++
			what := "early-exit:" + kind + "-loop"
			detail := "the loop is left in the middle of the enumeration on a path that neither saw the end of the iterator, nor an error"
			if !il.Collecting {
				detail += ", nor a positive answer"
			} else {
				detail += ": the remaining elements are silently dropped from the result"
			}
			r.Bad(rule, construct, what, g.Line(esc.From), detail)
		}
		// element-use
		for _, nn := range il.NextNodes {
			e := nextAssignM11(info, nn.N)
			one := map[types.Object]bool{e: true}
			more := FactThroughTempsM11(info, g.Body, ElemZeroFactM11(info, one, false))
			isEndTest := func(atom ast.Expr) bool {
				x, _, ok := ZeroTestM11(info, atom)
				if !ok {
					return false
				}
				if se, isSel := x.(*ast.SelectorExpr); isSel {
					x = ast.Unparen(se.X)
				}
				return ObjOf(info, x) == e
			}
			reach := g.Reach(After(nn, nil), g.AssigningObj(e), ImpliesEdge8(more))
			for _, m := range g.Nodes {
				if !reach[m] || m.N == nil || !InRegion(m, il.Loop) {
					continue
				}
				for _, id := range readsOfM11(info, m.N, e) {
					okRead := false
					// the read is the end test itself (also when its result is first named: `done := e == nil`)
					ast.Inspect(m.N, func(x ast.Node) bool {
						if be, isBin := x.(*ast.BinaryExpr); isBin && containsNodeM11(be, id) && isEndTest(be) {
							okRead = true
						}
						return !okRead
					})
					if c := condOfNodeM11(m); c != nil && !okRead && GuardedWithinM11(c, id, more) {
						okRead = true
					}
					if !okRead {
						bad++
						r.Bad(rule, construct, "element-read-before-end-test", g.Line(m), "the value returned by Next() is used on a path where it may be the end marker (nil / zero id): the end of the iteration is processed as an element")
						break
					}
				}
			}
		}
		if bad == 0 {
			r.Ok(rule, construct, g.Prog.Pos(il.Loop.Pos()), kind+" loop: left only at the end of the iteration, on an error, or (search) after a positive answer; element read only after the end test")
		}
	}
	return n
}
