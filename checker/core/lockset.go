package core

import (
	"fmt"
	"go/ast"
	"go/token"
	"go/types"
	"sort"
	"strings"
)

// E2 — lockset / guarded-by analysis.
//
// Locks are identified by access path text ("c.mu", "e.Cache.mu", "f.fastMu").
// A forward must-analysis over the statement CFG computes, for every node, the
// locks that are held on *every* path reaching it (meet = intersection, weaker
// mode wins). Lock/Unlock on sync.Mutex / sync.RWMutex are recognised through
// type information; calls of same-package functions are summarised (locks a
// callee returns holding / releases), so wrappers such as wlock/wunlock need no
// table entry.

// Guard ties the fields of one struct type to the lock field(s) protecting them.
type Guard struct {
	Type   string   // struct type name in Pkg
	Fields []string // guarded fields
	Locks  []string // lock field names; writes need ALL in write mode, reads need ANY (read or write mode)
}

// LockRules is the per-package instance table.
type LockRules struct {
	Pkg    string
	Guards []Guard
	// CallerHolds: function "T.m" -> locks (field names of its receiver type) the
	// caller must hold, with mode ('W' or 'R'). Checked at every call site.
	CallerHolds map[string]map[string]byte
	// ExemptFunc: function "T.m" -> reason its accesses are not checked
	// (e.g. runs before the object is shared).
	ExemptFunc map[string]string
	// ExemptAccess: "T.m:field" -> reason one access is accepted without the lock.
	ExemptAccess map[string]string
	// OwnedBy: field names whose value is an object owned by (and protected by the
	// lock of) the struct holding the field: an access B.<owned>.f is checked
	// against B's lock. Example: Cache.snapshot.
	OwnedBy []string
}

// lockBase maps the base expression of a guarded access to the expression whose
// lock protects it (stripping owned-object hops).
func (a *LockAnalysis) lockBase(e ast.Expr) string {
	for {
		se, ok := ast.Unparen(e).(*ast.SelectorExpr)
		if !ok {
			break
		}
		owned := false
		for _, o := range a.Rules.OwnedBy {
			if se.Sel.Name == o {
				owned = true
			}
		}
		if !owned {
			break
		}
		e = se.X
	}
	return ExprStr(e)
}

type lockState map[string]int8 // path -> 1 (read) | 2 (write)

func (s lockState) clone() lockState {
	o := make(lockState, len(s))
	for k, v := range s {
		o[k] = v
	}
	return o
}

func meet(a, b lockState) lockState {
	o := lockState{}
	for k, v := range a {
		if w, ok := b[k]; ok {
			if w < v {
				v = w
			}
			o[k] = v
		}
	}
	return o
}

func eqState(a, b lockState) bool {
	if len(a) != len(b) {
		return false
	}
	for k, v := range a {
		if b[k] != v {
			return false
		}
	}
	return true
}

func (s lockState) String() string {
	var ks []string
	for k, v := range s {
		m := "R"
		if v == 2 {
			m = "W"
		}
		ks = append(ks, k+":"+m)
	}
	sort.Strings(ks)
	return "{" + strings.Join(ks, " ") + "}"
}

// lockOp decodes a call X.Lock()/RLock()/Unlock()/RUnlock() on a sync mutex.
func lockOp(info *types.Info, c *ast.CallExpr) (path string, op string, ok bool) {
	fn := Callee(info, c)
	if fn == nil || fn.Pkg() == nil || fn.Pkg().Path() != "sync" {
		return "", "", false
	}
	n := FName(fn)
	switch n {
	case "sync.Mutex.Lock", "sync.RWMutex.Lock", "sync.Mutex.Unlock", "sync.RWMutex.Unlock",
		"sync.RWMutex.RLock", "sync.RWMutex.RUnlock":
	default:
		return "", "", false
	}
	se, isSel := ast.Unparen(c.Fun).(*ast.SelectorExpr)
	if !isSel {
		return "", "", false
	}
	return ExprStr(se.X), fn.Name(), true
}

// LockSummary is the net effect of a call on the lock state, in terms of the
// callee's receiver/parameter names.
type LockSummary struct {
	Acquire lockState       // held at every normal exit but not at entry
	Release map[string]bool // released although not acquired inside
	recv    string
	params  []string
}

// LockAnalysis runs E2 for one package.
type LockAnalysis struct {
	Prog  *Prog
	Rules *LockRules
	sums  map[*types.Func]*LockSummary
	busy  map[*types.Func]bool
	// results
	Checked    int // guarded accesses examined
	Funcs      int
	Violations []LockViolation
	CallSites  int // caller-holds call sites examined
}

// LockViolation is one unprotected access or call.
type LockViolation struct {
	Func   *Func
	What   string // "T.field" or callee
	Pos    token.Pos
	Need   string
	Held   string
	Access string // "read" | "write" | "call"
}

func recvName(fd *ast.FuncDecl) string {
	if fd.Recv != nil && len(fd.Recv.List) == 1 && len(fd.Recv.List[0].Names) == 1 {
		return fd.Recv.List[0].Names[0].Name
	}
	return ""
}

// transfer applies the lock operations of node n to st (in place).
func (a *LockAnalysis) transfer(g *Graph, n *Node, st lockState, released map[string]bool) {
	if n.N == nil {
		return
	}
	if _, isDefer := n.N.(*ast.DeferStmt); isDefer {
		return // deferred unlocks keep the lock until exit
	}
	if _, isGo := n.N.(*ast.GoStmt); isGo {
		return
	}
	Walk(n.N, WalkOpts{}, func(x ast.Node) bool {
		c, ok := x.(*ast.CallExpr)
		if !ok {
			return true
		}
		if path, op, ok := lockOp(g.Info, c); ok {
			switch op {
			case "Lock":
				st[path] = 2
			case "RLock":
				if st[path] < 1 {
					st[path] = 1
				}
			case "Unlock", "RUnlock":
				if _, held := st[path]; !held && released != nil {
					released[path] = true
				}
				delete(st, path)
			}
			return true
		}
		// same-module callee with a body: apply its summary
		fn := Callee(g.Info, c)
		if fn == nil {
			return true
		}
		callee := a.Prog.FuncOf(fn)
		if callee == nil || callee.Pkg != g.Fn.Pkg {
			return true
		}
		sum := a.summary(callee)
		if sum == nil || (len(sum.Acquire) == 0 && len(sum.Release) == 0) {
			return true
		}
		subst := a.substFor(g.Info, c, sum)
		for p, m := range sum.Acquire {
			st[subst(p)] = m
		}
		for p := range sum.Release {
			q := subst(p)
			if _, held := st[q]; !held && released != nil {
				released[q] = true
			}
			delete(st, q)
		}
		return true
	})
}

// substFor maps lock paths expressed over the callee's receiver/parameters to
// paths over the call site's argument expressions.
func (a *LockAnalysis) substFor(info *types.Info, c *ast.CallExpr, sum *LockSummary) func(string) string {
	repl := map[string]string{}
	if se, ok := ast.Unparen(c.Fun).(*ast.SelectorExpr); ok && sum.recv != "" {
		repl[sum.recv] = ExprStr(se.X)
	}
	for i, pn := range sum.params {
		if i < len(c.Args) && pn != "" {
			repl[pn] = ExprStr(c.Args[i])
		}
	}
	return func(p string) string {
		head, rest, _ := strings.Cut(p, ".")
		if r, ok := repl[head]; ok {
			if rest == "" {
				return r
			}
			return r + "." + rest
		}
		return p
	}
}

// flow computes the lock state at the entry of every node of g.
func (a *LockAnalysis) flow(g *Graph, entry lockState, released map[string]bool) map[*Node]lockState {
	in := map[*Node]lockState{}
	if g.Entry == nil {
		return in
	}
	in[g.Entry] = entry.clone()
	work := []*Node{g.Entry}
	for len(work) > 0 {
		n := work[len(work)-1]
		work = work[:len(work)-1]
		out := in[n].clone()
		a.transfer(g, n, out, released)
		for _, e := range n.Succ {
			old, seen := in[e.To]
			var nw lockState
			if !seen {
				nw = out.clone()
			} else {
				nw = meet(old, out)
			}
			if !seen || !eqState(old, nw) {
				in[e.To] = nw
				work = append(work, e.To)
			}
		}
	}
	return in
}

// summary computes the net lock effect of f (nil for recursive cycles).
func (a *LockAnalysis) summary(f *Func) *LockSummary {
	if a.sums == nil {
		a.sums = map[*types.Func]*LockSummary{}
		a.busy = map[*types.Func]bool{}
	}
	if s, ok := a.sums[f.Obj]; ok {
		return s
	}
	if a.busy[f.Obj] || f.Decl.Body == nil {
		return nil
	}
	a.busy[f.Obj] = true
	defer delete(a.busy, f.Obj)
	g := f.Graph()
	released := map[string]bool{}
	in := a.flow(g, lockState{}, released)
	var acc lockState
	first := true
	for _, x := range g.Exits {
		if x.Kind == KPanic {
			continue
		}
		st, ok := in[x]
		if !ok {
			continue
		}
		out := st.clone()
		a.transfer(g, x, out, released)
		// deferred unlocks run at exit
		a.applyDefers(g, out, released)
		if first {
			acc, first = out, false
		} else {
			acc = meet(acc, out)
		}
	}
	if acc == nil {
		acc = lockState{}
	}
	s := &LockSummary{Acquire: acc, Release: released, recv: recvName(f.Decl)}
	if f.Decl.Type.Params != nil {
		for _, fl := range f.Decl.Type.Params.List {
			for _, nm := range fl.Names {
				s.params = append(s.params, nm.Name)
			}
			if len(fl.Names) == 0 {
				s.params = append(s.params, "")
			}
		}
	}
	// only paths rooted at the receiver or a parameter are meaningful to callers
	keep := func(p string) bool {
		head, _, _ := strings.Cut(p, ".")
		if head == s.recv && head != "" {
			return true
		}
		for _, pn := range s.params {
			if pn == head && pn != "" {
				return true
			}
		}
		return false
	}
	for p := range s.Acquire {
		if !keep(p) {
			delete(s.Acquire, p)
		}
	}
	for p := range s.Release {
		if !keep(p) {
			delete(s.Release, p)
		}
	}
	a.sums[f.Obj] = s
	return s
}

// applyDefers releases, at function exit, the locks whose unlock was deferred.
func (a *LockAnalysis) applyDefers(g *Graph, st lockState, released map[string]bool) {
	for _, n := range g.Nodes {
		d, ok := n.N.(*ast.DeferStmt)
		if !ok {
			continue
		}
		apply := func(c *ast.CallExpr) {
			if path, op, ok := lockOp(g.Info, c); ok && (op == "Unlock" || op == "RUnlock") {
				delete(st, path)
				return
			}
			if fn := Callee(g.Info, c); fn != nil {
				if callee := a.Prog.FuncOf(fn); callee != nil && callee.Pkg == g.Fn.Pkg {
					if sum := a.summary(callee); sum != nil {
						subst := a.substFor(g.Info, c, sum)
						for p := range sum.Release {
							delete(st, subst(p))
						}
					}
				}
			}
		}
		apply(d.Call)
		if fl, ok := ast.Unparen(d.Call.Fun).(*ast.FuncLit); ok {
			for _, c := range AllCalls(g.Info, fl.Body, func(*types.Info, *ast.CallExpr) bool { return true }) {
				apply(c)
			}
		}
	}
}

type guardInfo struct {
	g     *Guard
	locks []string
}

// Run analyses every function of the package.
func (a *LockAnalysis) Run() {
	pk := a.Prog.Pkg(a.Rules.Pkg)
	if pk == nil {
		return
	}
	guarded := map[*types.Var]guardInfo{}
	for i := range a.Rules.Guards {
		gd := &a.Rules.Guards[i]
		for _, fn := range gd.Fields {
			if v := LookupField(pk.Types, gd.Type, fn); v != nil {
				guarded[v] = guardInfo{gd, gd.Locks}
			}
		}
	}
	for _, f := range a.Prog.Funcs(a.Rules.Pkg) {
		if f.Decl.Body == nil {
			continue
		}
		a.Funcs++
		if _, ex := a.Rules.ExemptFunc[f.Name]; ex {
			continue
		}
		entry := lockState{}
		if held, ok := a.Rules.CallerHolds[f.Name]; ok {
			rn := recvName(f.Decl)
			for lk, m := range held {
				md := int8(2)
				if m == 'R' {
					md = 1
				}
				entry[rn+"."+lk] = md
			}
		}
		a.checkGraph(f, f.Graph(), entry, guarded)
	}
}

func (a *LockAnalysis) checkGraph(f *Func, g *Graph, entry lockState, guarded map[*types.Var]guardInfo) {
	in := a.flow(g, entry, nil)
	info := g.Info
	locals := constructedLocals(info, g.Body)
	for _, n := range g.Nodes {
		if n.N == nil {
			continue
		}
		st, reachable := in[n]
		if !reachable {
			continue
		}
		writes := writeTargets(n.N)
		// field accesses directly in this node (not inside nested literals)
		var lits []*ast.FuncLit
		inspectNoLit(n.N, &lits, func(x ast.Node) {
			switch e := x.(type) {
			case *ast.SelectorExpr:
				fv := FieldOf(info, e)
				gi, ok := guarded[fv]
				if !ok {
					return
				}
				a.Checked++
				base := a.lockBase(e.X)
				if id, isId := ast.Unparen(e.X).(*ast.Ident); isId && locals[ObjOf(info, id)] {
					return // object under construction, not yet shared
				}
				isWrite := writes[e]
				key := f.Name + ":" + fv.Name()
				if _, ex := a.Rules.ExemptAccess[key]; ex {
					return
				}
				ok = false
				if isWrite {
					ok = true
					for _, lk := range gi.locks {
						if st[base+"."+lk] != 2 {
							ok = false
						}
					}
				} else {
					for _, lk := range gi.locks {
						if st[base+"."+lk] >= 1 {
							ok = true
						}
					}
				}
				if !ok {
					acc := "read"
					if isWrite {
						acc = "write"
					}
					a.Violations = append(a.Violations, LockViolation{Func: f, What: gi.g.Type + "." + fv.Name(), Pos: e.Pos(),
						Need: base + ".{" + strings.Join(gi.locks, ",") + "}", Held: st.String(), Access: acc})
				}
			case *ast.CallExpr:
				fn := Callee(info, e)
				callee := a.Prog.FuncOf(fn)
				if callee == nil || callee.Pkg != f.Pkg {
					return
				}
				need, ok := a.Rules.CallerHolds[callee.Name]
				if !ok {
					return
				}
				a.CallSites++
				se, isSel := ast.Unparen(e.Fun).(*ast.SelectorExpr)
				if !isSel {
					return
				}
				base := ExprStr(se.X)
				if id, isId := ast.Unparen(se.X).(*ast.Ident); isId && locals[ObjOf(info, id)] {
					return
				}
				if _, ex := a.Rules.ExemptAccess[f.Name+":"+callee.Name]; ex {
					return
				}
				for lk, m := range need {
					have := st[base+"."+lk]
					if (m == 'W' && have != 2) || (m == 'R' && have < 1) {
						a.Violations = append(a.Violations, LockViolation{Func: f, What: callee.Name, Pos: e.Pos(),
							Need: fmt.Sprintf("%s.%s:%c", base, lk, m), Held: st.String(), Access: "call"})
					}
				}
			}
		})
		// nested literals: run in place (argument of a call, invoked directly,
		// deferred) with the current lock state; go statements start empty.
		for _, fl := range lits {
			ent := st.clone()
			a.transferBefore(g, n, fl, ent)
			if _, isGo := n.N.(*ast.GoStmt); isGo {
				ent = lockState{}
			}
			a.checkGraph(f, f.LitGraph(fl), ent, guarded)
		}
	}
}

// transferBefore is a hook for precision; today the literal sees the state at
// the entry of its enclosing node.
func (a *LockAnalysis) transferBefore(g *Graph, n *Node, fl *ast.FuncLit, st lockState) {}

// inspectNoLit walks n, collecting (not entering) function literals.
func inspectNoLit(n ast.Node, lits *[]*ast.FuncLit, f func(ast.Node)) {
	ast.Inspect(n, func(x ast.Node) bool {
		if fl, ok := x.(*ast.FuncLit); ok {
			*lits = append(*lits, fl)
			return false
		}
		if x != nil {
			f(x)
		}
		return true
	})
}

// writeTargets returns the selector expressions that are written by the statement.
func writeTargets(n ast.Node) map[*ast.SelectorExpr]bool {
	out := map[*ast.SelectorExpr]bool{}
	mark := func(e ast.Expr) {
		if se, ok := lhsBase(e).(*ast.SelectorExpr); ok {
			out[se] = true
		}
	}
	ast.Inspect(n, func(x ast.Node) bool {
		switch s := x.(type) {
		case *ast.FuncLit:
			return false
		case *ast.AssignStmt:
			for _, l := range s.Lhs {
				mark(l)
			}
		case *ast.IncDecStmt:
			mark(s.X)
		case *ast.CallExpr:
			// delete(m.f, k) and clear(m.f) mutate the map
			if id, ok := s.Fun.(*ast.Ident); ok && (id.Name == "delete" || id.Name == "clear") && len(s.Args) > 0 {
				mark(s.Args[0])
			}
		case *ast.RangeStmt:
			if s.Key != nil {
				mark(s.Key)
			}
			if s.Value != nil {
				mark(s.Value)
			}
		}
		return true
	})
	return out
}

// constructedLocals: local variables initialised from a composite literal / new
// in this body — the object is not shared yet while the function builds it.
func constructedLocals(info *types.Info, body *ast.BlockStmt) map[types.Object]bool {
	out := map[types.Object]bool{}
	isCtor := func(e ast.Expr) bool {
		e = ast.Unparen(e)
		if u, ok := e.(*ast.UnaryExpr); ok && u.Op == token.AND {
			e = ast.Unparen(u.X)
		}
		switch c := e.(type) {
		case *ast.CompositeLit:
			return true
		case *ast.CallExpr:
			if id, ok := c.Fun.(*ast.Ident); ok && id.Name == "new" {
				return true
			}
		}
		return false
	}
	ast.Inspect(body, func(x ast.Node) bool {
		switch s := x.(type) {
		case *ast.AssignStmt:
			if s.Tok == token.DEFINE && len(s.Lhs) == len(s.Rhs) {
				for i, l := range s.Lhs {
					if id, ok := l.(*ast.Ident); ok && isCtor(s.Rhs[i]) {
						if o := info.Defs[id]; o != nil {
							out[o] = true
						}
					}
				}
			}
		case *ast.ValueSpec:
			for i, id := range s.Names {
				if i < len(s.Values) && isCtor(s.Values[i]) {
					if o := info.Defs[id]; o != nil {
						out[o] = true
					}
				}
			}
		}
		return true
	})
	return out
}

// RuleLocks runs the analysis and reports. minAccesses is the number of guarded
// accesses confirmed to exist (lower bound, anti-vacuity).
func RuleLocks(r *Report, p *Prog, rules *LockRules, rule string, minAccesses int) *LockAnalysis {
	// unexported methods extracted from a locked region (not in the table) are
	// judged at their call sites, exactly like the inline code they came from
	if ext, inferred := InferCallerHolds(p, rules); len(inferred) > 0 {
		rules = ext
		for _, name := range inferred {
			r.Note("%s: %s is not in the lock table; it touches guarded state of its receiver without locking and is only ever called, so it is checked as a caller-holds helper at its call sites", rule, name)
		}
	}
	a := &LockAnalysis{Prog: p, Rules: rules}
	pk := p.Pkg(rules.Pkg)
	if pk == nil {
		r.Bad("anchor", rules.Pkg, "unresolved", "-", "package not loaded")
		return a
	}
	// every table entry must resolve
	for _, gd := range rules.Guards {
		for _, fn := range append(append([]string{}, gd.Fields...), gd.Locks...) {
			if LookupField(pk.Types, gd.Type, fn) == nil {
				r.Bad("anchor", rules.Pkg+"."+gd.Type+"."+fn, "unresolved", "-", "field named in the lock table does not exist")
			}
		}
	}
	for name := range rules.CallerHolds {
		if p.Func(rules.Pkg, name) == nil {
			r.Bad("anchor", rules.Pkg+"."+name, "unresolved", "-", "caller-holds function does not exist")
		}
	}
	a.Run()
	seen := map[string]bool{}
	for _, v := range a.Violations {
		key := v.Func.Name + ":" + v.What + ":" + v.Access
		if seen[key] {
			continue
		}
		seen[key] = true
		r.Saw(v.Func)
		r.Bad(rule, v.Func.String(), v.What+":"+v.Access, p.Pos(v.Pos),
			fmt.Sprintf("%s of %s needs %s, held on every path here: %s", v.Access, v.What, v.Need, v.Held))
	}
	if a.Checked < minAccesses {
		r.Bad(rule, rules.Pkg, "accesses:count", "-", fmt.Sprintf("only %d guarded accesses found, expected >= %d (rule would be vacuous)", a.Checked, minAccesses))
	}
	r.Ok(rule, rules.Pkg, "-", fmt.Sprintf("%d functions, %d guarded accesses and %d caller-holds call sites examined, %d unprotected", a.Funcs, a.Checked, a.CallSites, len(seen)))
	return a
}
