package core

// Helpers added while hardening C29 / C32 against behaviour-preserving
// rewrites: seeing through a pure single-expression predicate (local closure
// or module function), resolving single-definition temporaries, and listing
// the value sites of an expression through a helper call.

import (
	"go/ast"
	"go/token"
	"go/types"
)

// EnvHD2 is the naming environment an atomic condition is interpreted in: the
// types.Info its expressions belong to, and Obj, which resolves an expression
// to the object it names *in the function the analysis started from* (a
// parameter of an inlined predicate resolves to the object of the argument).
type EnvHD2 struct {
	Info  *types.Info
	Obj   func(ast.Expr) types.Object
	Scope ast.Node // body in which local function literals are looked up
}

// BaseEnvHD2 is the environment of a function body itself.
func BaseEnvHD2(info *types.Info, scope ast.Node) EnvHD2 {
	return EnvHD2{Info: info, Scope: scope, Obj: func(e ast.Expr) types.Object { return ObjOf(info, e) }}
}

// InlinedHD2 is a call seen through: the callee is `func(ps…) T { return Expr }`.
type InlinedHD2 struct {
	Expr ast.Expr
	Env  EnvHD2
}

// InlineCallHD2 sees through a call of
//   - a local variable bound exactly once to a function literal, or
//   - a function / method declared in the module,
//
// whose body is the single statement `return <expr>` with one result. Each
// parameter is bound to the corresponding argument; Env.Obj resolves a use of
// the parameter to the object the argument names in env. nil when the callee
// has any other shape (several statements, variadic, unresolved).
func (p *Prog) InlineCallHD2(env EnvHD2, c *ast.CallExpr) *InlinedHD2 {
	if c == nil || c.Ellipsis.IsValid() {
		return nil
	}
	var ft *ast.FuncType
	var body *ast.BlockStmt
	var cinfo *types.Info
	var scope ast.Node
	if id, ok := ast.Unparen(c.Fun).(*ast.Ident); ok {
		if v, isVar := ObjOf(env.Info, id).(*types.Var); isVar && env.Scope != nil {
			if lit := LocalLit(env.Info, env.Scope, v); lit != nil {
				ft, body, cinfo, scope = lit.Type, lit.Body, env.Info, env.Scope
			}
		}
	}
	if body == nil {
		fn := p.FuncOf(Callee(env.Info, c))
		if fn == nil || fn.Decl.Body == nil {
			return nil
		}
		ft, body, cinfo, scope = fn.Decl.Type, fn.Decl.Body, fn.Info(), fn.Decl.Body
	}
	if len(body.List) != 1 {
		return nil
	}
	rs, ok := body.List[0].(*ast.ReturnStmt)
	if !ok || len(rs.Results) != 1 {
		return nil
	}
	bind := map[types.Object]ast.Expr{}
	i := 0
	if ft.Params != nil {
		for _, fld := range ft.Params.List {
			if _, variadic := fld.Type.(*ast.Ellipsis); variadic {
				return nil
			}
			if len(fld.Names) == 0 {
				i++
				continue
			}
			for _, nm := range fld.Names {
				if i >= len(c.Args) {
					return nil
				}
				if o := cinfo.Defs[nm]; o != nil {
					bind[o] = c.Args[i]
				}
				i++
			}
		}
	}
	if i != len(c.Args) {
		return nil
	}
	outer := env.Obj
	return &InlinedHD2{Expr: rs.Results[0], Env: EnvHD2{
		Info:  cinfo,
		Scope: scope,
		Obj: func(e ast.Expr) types.Object {
			o := ObjOf(cinfo, e)
			if a, bound := bind[o]; bound && o != nil {
				return outer(a)
			}
			return o
		},
	}}
}

// LeafThroughPredicatesHD2 builds a leaf evaluator that first asks mk(env) and,
// for an atom it does not decide which is a call of a pure single-expression
// predicate (InlineCallHD2), evaluates the predicate's expression instead with
// the leaf built for the callee's environment (two levels deep). So
// `isX := func(e error) bool { return code(e) == K }; if isX(err)` is decided
// exactly like `if code(err) == K`.
func (p *Prog) LeafThroughPredicatesHD2(env EnvHD2, mk func(EnvHD2) LeafEval) LeafEval {
	var at func(env EnvHD2, depth int) LeafEval
	at = func(env EnvHD2, depth int) LeafEval {
		user := mk(env)
		return func(e ast.Expr) (bool, bool) {
			if v, k := user(e); k {
				return v, true
			}
			c, ok := ast.Unparen(e).(*ast.CallExpr)
			if !ok || depth <= 0 {
				return false, false
			}
			in := p.InlineCallHD2(env, c)
			if in == nil {
				return false, false
			}
			return EvalCond(in.Expr, at(in.Env, depth-1))
		}
	}
	return at(env, 2)
}

// SoleDefHD2 returns the defining expression of a local variable that is
// written exactly once in body, by `v := <expr>` / `var v = <expr>` (one value
// per variable), together with the defining statement. ok=false otherwise.
func SoleDefHD2(info *types.Info, body ast.Node, v types.Object) (rhs ast.Expr, stmt ast.Node, ok bool) {
	if _, isVar := v.(*types.Var); !isVar || body == nil {
		return nil, nil, false
	}
	as := AssignsTo8(info, body, v)
	if len(as) != 1 || as[0].Index != -1 || as[0].Rhs == nil || as[0].Op != token.DEFINE {
		return nil, nil, false
	}
	// address taken: the variable may change behind the analysis
	escaped := false
	ast.Inspect(body, func(n ast.Node) bool {
		if u, isU := n.(*ast.UnaryExpr); isU && u.Op == token.AND && ObjOf(info, u.X) == v {
			escaped = true
		}
		return true
	})
	if escaped {
		return nil, nil, false
	}
	return as[0].Rhs, as[0].Stmt, true
}

// NodeOfStmtHD2 returns the node of g that holds statement s (nil if none).
func (g *Graph) NodeOfStmtHD2(s ast.Node) *Node {
	for _, n := range g.Nodes {
		if n.N == s {
			return n
		}
	}
	return nil
}

// ValueSiteHD2 is one place where the value of an expression is produced.
type ValueSiteHD2 struct {
	Fn    *Func
	G     *Graph
	Node  *Node    // node at which Expr is evaluated (the return statement of a helper, or the using node)
	Expr  ast.Expr // the producing expression
	Env   EnvHD2   // environment of Expr (helper parameters resolve to caller objects)
	Outer *Node    // the node of the analysed function that uses the value
}

// ValueSitesHD2 lists where the value of e, used at node n of fn's graph g, is
// produced: e itself; or, when e is a local temporary whose address is not
// taken, every expression assigned to it (at the assigning node); or, when
// that is a call of a module function (one result), the operand of every
// return statement of that function, with its parameters bound to the call's
// arguments. Meant for existence rules ("some response carries …").
func (p *Prog) ValueSitesHD2(fn *Func, g *Graph, n *Node, e ast.Expr) []ValueSiteHD2 {
	return p.valueSitesHD2(fn, g, n, n, e, 2)
}

func (p *Prog) valueSitesHD2(fn *Func, g *Graph, n, at *Node, e ast.Expr, depth int) []ValueSiteHD2 {
	env := BaseEnvHD2(g.Info, fn.Decl.Body)
	e = ast.Unparen(e)
	if id, ok := e.(*ast.Ident); ok && depth > 0 {
		// a local temporary: every value assigned to it, at the assigning node
		if v, isVar := ObjOf(g.Info, id).(*types.Var); isVar && !v.IsField() && v.Parent() != nil && v.Parent() != v.Pkg().Scope() {
			as := AssignsTo8(g.Info, fn.Decl.Body, v)
			simple := len(as) > 0
			var out []ValueSiteHD2
			for _, a := range as {
				if a.Rhs == nil && a.Index == -1 && a.Op == token.DEFINE {
					continue // var v T
				}
				dn := g.NodeOfStmtHD2(a.Stmt)
				if a.Rhs == nil || a.Index != -1 || (a.Op != token.DEFINE && a.Op != token.ASSIGN) || dn == nil {
					simple = false
					break
				}
				out = append(out, p.valueSitesHD2(fn, g, n, dn, a.Rhs, depth-1)...)
			}
			ast.Inspect(fn.Decl.Body, func(x ast.Node) bool {
				if u, isU := x.(*ast.UnaryExpr); isU && u.Op == token.AND && ObjOf(g.Info, u.X) == v {
					simple = false
				}
				return true
			})
			if simple && len(out) > 0 {
				return out
			}
		}
	}
	c, isCall := e.(*ast.CallExpr)
	if !isCall {
		return []ValueSiteHD2{{Fn: fn, G: g, Node: at, Expr: e, Env: env, Outer: n}}
	}
	callee := p.FuncOf(Callee(g.Info, c))
	if callee == nil || callee.Decl.Body == nil || callee == fn || c.Ellipsis.IsValid() {
		return []ValueSiteHD2{{Fn: fn, G: g, Node: at, Expr: e, Env: env, Outer: n}}
	}
	sig, _ := callee.Obj.Type().(*types.Signature)
	if sig == nil || sig.Results().Len() != 1 || sig.Variadic() {
		return []ValueSiteHD2{{Fn: fn, G: g, Node: at, Expr: e, Env: env, Outer: n}}
	}
	cinfo := callee.Info()
	bind := map[types.Object]ast.Expr{}
	i := 0
	for _, fld := range callee.Decl.Type.Params.List {
		if len(fld.Names) == 0 {
			i++
			continue
		}
		for _, nm := range fld.Names {
			if o := cinfo.Defs[nm]; o != nil && i < len(c.Args) {
				// a reassigned parameter no longer stands for the argument
				if len(AssignsTo8(cinfo, callee.Decl.Body, o)) == 0 {
					bind[o] = c.Args[i]
				}
			}
			i++
		}
	}
	cenv := EnvHD2{Info: cinfo, Scope: callee.Decl.Body, Obj: func(x ast.Expr) types.Object {
		o := ObjOf(cinfo, x)
		if a, bound := bind[o]; bound && o != nil {
			return env.Obj(a)
		}
		return o
	}}
	cg := callee.Graph()
	var out []ValueSiteHD2
	for _, x := range cg.Nodes {
		rs, ok := x.N.(*ast.ReturnStmt)
		if !ok || len(rs.Results) != 1 {
			continue
		}
		out = append(out, ValueSiteHD2{Fn: callee, G: cg, Node: x, Expr: ast.Unparen(rs.Results[0]), Env: cenv, Outer: n})
	}
	if len(out) == 0 {
		return []ValueSiteHD2{{Fn: fn, G: g, Node: at, Expr: e, Env: env, Outer: n}}
	}
	return out
}
