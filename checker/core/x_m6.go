package core

import (
	"go/ast"
	"go/token"
	"go/types"
	"sort"
)

// Helpers added for the strengthening of C30 / C43 / C44 (m6).
//
//   - error rows: a call's error variable is given one of three abstract values
//     (nil / the classified sentinel / any other error) and the conditions that
//     talk about it are evaluated under that value (ErrRowLeaf);
//   - ReachUnderX: ReachUnder with an additional edge filter;
//   - FailuresSwallowedX: the failure-propagates walk (propagate.go) for error
//     tests that are not a bare `err != nil` (negated, `nil == err` inside a
//     `!(…)`, a conjunction that is decided once err is known non-nil) and for
//     the graphs of function literals (transaction closures).

// ErrRow is an abstract value of an error variable.
type ErrRow int

const (
	ErrIsNil      ErrRow = iota // the call succeeded
	ErrIsSentinel               // the error every classifier applied to the variable recognises
	ErrIsOther                  // a non-nil error no classifier recognises
)

func (r ErrRow) String() string {
	return [...]string{"nil", "classified", "other"}[r]
}

// ErrRowLeaf evaluates the atomic conditions that talk about the error
// variable v when v has the abstract value row:
//
//	v == nil, v != nil                      decided by row
//	v == S, v != S (S any non-nil operand)  true only in the classified row
//	P(…, v, …) with a bool result           true only in the classified row
//	                                        (errors.Is, kv.IsNotFound, …: a
//	                                        classifier never accepts nil)
//
// Every other condition is unknown.
func ErrRowLeaf(info *types.Info, v types.Object, row ErrRow) LeafEval {
	return errRowLeaf(nil, info, v, row, 0)
}

// ErrRowLeafP is ErrRowLeaf that looks into predicate helpers of the module: a
// call P(v) of a module function whose body is a single `return <condition>`
// over its error parameter (`func tolerable(err error) bool { return err == nil
// || err == ErrGone }`) is evaluated by evaluating that condition under the
// same row, instead of being assumed to be a classifier.
func ErrRowLeafP(p *Prog, info *types.Info, v types.Object, row ErrRow) LeafEval {
	return errRowLeaf(p, info, v, row, 0)
}

// predicateBody: fn is a module function `func(… error …) bool { return cond }`;
// it returns the condition, the function and the parameter that receives the
// argument at index argIdx.
func predicateBody(p *Prog, fn *types.Func, argIdx int) (ast.Expr, *Func, types.Object) {
	if p == nil || fn == nil {
		return nil, nil, nil
	}
	f := p.FuncOf(fn)
	if f == nil || f.Decl == nil || f.Decl.Body == nil || len(f.Decl.Body.List) != 1 {
		return nil, nil, nil
	}
	rs, ok := f.Decl.Body.List[0].(*ast.ReturnStmt)
	if !ok || len(rs.Results) != 1 {
		return nil, nil, nil
	}
	sig, _ := fn.Type().(*types.Signature)
	if sig == nil || argIdx >= sig.Params().Len() || sig.Variadic() {
		return nil, nil, nil
	}
	return rs.Results[0], f, sig.Params().At(argIdx)
}

func errRowLeaf(p *Prog, info *types.Info, v types.Object, row ErrRow, depth int) LeafEval {
	isV := func(e ast.Expr) bool { return v != nil && ObjOf(info, ast.Unparen(e)) == v }
	return func(e ast.Expr) (bool, bool) {
		e = ast.Unparen(e)
		if x, nonNilOnTrue, ok := NilTest(info, e); ok {
			if isV(x) {
				return (row != ErrIsNil) == nonNilOnTrue, true
			}
			return false, false
		}
		switch c := e.(type) {
		case *ast.BinaryExpr:
			if (c.Op == token.EQL || c.Op == token.NEQ) && (isV(c.X) || isV(c.Y)) {
				eq := row == ErrIsSentinel
				return eq == (c.Op == token.EQL), true
			}
		case *ast.CallExpr:
			if tv, ok := info.Types[c]; ok && tv.Type != nil {
				if b, isB := tv.Type.Underlying().(*types.Basic); !isB || b.Kind() != types.Bool {
					return false, false
				}
			}
			for i, a := range c.Args {
				if !isV(a) {
					continue
				}
				if cond, pf, param := predicateBody(p, Callee(info, c), i); cond != nil && depth < 2 {
					return EvalCond(cond, errRowLeaf(p, pf.Info(), param, row, depth+1))
				}
				return row == ErrIsSentinel, true
			}
		}
		return false, false
	}
}

// LeafThroughTemps extends a leaf evaluator to boolean temporaries: an atom that
// is a local variable with exactly one definition in root (`stored := err == nil
// && !d.Virtual; if stored {…}`) is evaluated by evaluating its defining
// expression.
func LeafThroughTemps(info *types.Info, root ast.Node, leaf LeafEval) LeafEval {
	var self LeafEval
	depth := 0
	self = func(e ast.Expr) (bool, bool) {
		if v, known := leaf(e); known {
			return v, true
		}
		id, ok := ast.Unparen(e).(*ast.Ident)
		if !ok || depth > 3 {
			return false, false
		}
		o, isVar := ObjOf(info, id).(*types.Var)
		if !isVar || o.IsField() {
			return false, false
		}
		if b, isB := o.Type().Underlying().(*types.Basic); !isB || b.Kind() != types.Bool {
			return false, false
		}
		d, single := SingleDef(info, root, o)
		if !single || d.Rhs == nil || d.Range != nil || (d.Index != -1 && d.Index != 0) {
			return false, false
		}
		if _, isCall := ast.Unparen(d.Rhs).(*ast.CallExpr); isCall {
			return leaf(d.Rhs)
		}
		depth++
		defer func() { depth-- }()
		return EvalCond(d.Rhs, self)
	}
	return self
}

// ReachUnderX is ReachUnder with an edge filter: edges selected by stopEdge are
// not followed.
func (g *Graph) ReachUnderX(start []*Node, stop NodePred, stopEdge EdgePred, leaf LeafEval) map[*Node]bool {
	seen := map[*Node]bool{}
	var walk func(n *Node)
	walk = func(n *Node) {
		if n == nil || seen[n] {
			return
		}
		seen[n] = true
		if stop != nil && stop(n) {
			return
		}
		if len(n.Succ) == 2 && n.Succ[0].Cond != nil && n.Succ[0].Tag == nil && leaf != nil {
			if v, known := EvalCond(n.Succ[0].Cond, leaf); known {
				for _, e := range n.Succ {
					if e.Branch == v && (stopEdge == nil || !stopEdge(e)) {
						walk(e.To)
					}
				}
				return
			}
		}
		for _, e := range n.Succ {
			if stopEdge == nil || !stopEdge(e) {
				walk(e.To)
			}
		}
	}
	for _, s := range start {
		walk(s)
	}
	return seen
}

// ReachAfterSuccess: the nodes reachable from the successors of step (a call
// whose error is kept in v) when that call SUCCEEDED, not counting the paths on
// which a later step fails. Conditions on v are decided by leaf (v is nil);
// failure branches of other error variables are not followed. When v is
// assigned again (the variable is reused for the next step) the walk continues
// without facts about v and its failure branches are not followed either.
// other (optional) decides conditions that do not concern v; it stays valid
// after v is reassigned. Nodes selected by stop are recorded but not left.
func (g *Graph) ReachAfterSuccess(step *Node, stop NodePred, v types.Object, leaf LeafEval, other LeafEval) map[*Node]bool {
	if other != nil {
		vLeaf := leaf
		leaf = func(e ast.Expr) (bool, bool) {
			if val, known := vLeaf(e); known {
				return val, true
			}
			return other(e)
		}
	}
	re := g.AssigningObj(v)
	stop1 := func(n *Node) bool { return n == step || (stop != nil && stop(n)) || re(n) }
	out := g.ReachUnderX(After(step, nil), stop1, g.OtherErrFailEdge(v), leaf)
	var again []*Node
	for n := range out {
		if n != step && re(n) && (stop == nil || !stop(n)) {
			again = append(again, After(n, nil)...)
		}
	}
	if len(again) > 0 {
		stop2 := func(n *Node) bool { return n == step || (stop != nil && stop(n)) }
		for n := range g.ReachUnderX(again, stop2, g.OtherErrFailEdge(nil), other) {
			out[n] = true
		}
	}
	return out
}

// OtherErrFailEdge selects the conditional edges on which an error-typed
// variable other than v is known to be non-nil (the failure branch of another
// step).
func (g *Graph) OtherErrFailEdge(v types.Object) EdgePred {
	return AtomEdge(func(c ast.Expr, val bool) bool {
		x, nonNilOnTrue, ok := NilTest(g.Info, c)
		if !ok || val != nonNilOnTrue {
			return false
		}
		o := ObjOf(g.Info, x)
		return o != nil && o != v && IsErrorType(o.Type())
	})
}

// ExitFailsGiven reports whether the exit x reports failure when the error
// variable v is known to be non-nil (v == nil: no variable is known).
func (g *Graph) ExitFailsGiven(x *Node, v types.Object) bool {
	if x == nil || len(x.Succ) != 0 {
		return false
	}
	s := nnSet{}
	if v != nil {
		s[v] = true
	}
	if g.exitFails(x, s) {
		return true
	}
	idx := errResultIndex(g.Sig)
	if rs, ok := x.N.(*ast.ReturnStmt); ok && idx >= 0 && len(rs.Results) == g.Sig.Results().Len() {
		if g.provablyNonNilErr(rs.Results[idx]) {
			return true
		}
	}
	for _, y := range g.SuccessExits() {
		if y == x {
			return false
		}
	}
	return true
}

// nnStepX is nnStep that tracks only variables whose type can hold an error:
// nnStep treats every `x := &T{…}` as a failing value, which makes a plain
// record literal (m := &influxdb.UserResourceMapping{}) look like a non-nil
// error and every later call that is handed m look like an error wrapper.
func (g *Graph) nnStepX(n *Node, s nnSet) nnSet {
	out := g.nnStep(n, s)
	errIface := errorType.Underlying().(*types.Interface)
	var drop []types.Object
	for o := range out {
		if s[o] {
			continue
		}
		t := o.Type()
		if types.Implements(t, errIface) || types.Implements(types.NewPointer(t), errIface) {
			continue
		}
		drop = append(drop, o)
	}
	if len(drop) > 0 {
		c := out.clone()
		for _, o := range drop {
			delete(c, o)
		}
		out = c
	}
	// an accumulator that is handed a tracked error (aggErr.Add(err)) holds it
	if es, ok := n.N.(*ast.ExprStmt); ok {
		if c, ok := ast.Unparen(es.X).(*ast.CallExpr); ok {
			if sel, ok := c.Fun.(*ast.SelectorExpr); ok && g.Info.Selections[sel] != nil {
				recv := BaseObj(g.Info, sel.X)
				handed := false
				for _, a := range c.Args {
					if o := ObjOf(g.Info, a); o != nil && out[o] {
						handed = true
					}
				}
				if v, isVar := recv.(*types.Var); isVar && handed && !v.IsField() && !out[recv] {
					c2 := out.clone()
					c2[recv] = true
					out = c2
				}
			}
		}
	}
	return out
}

// exitFailsX is exitFails with one refinement: a zero-argument method call
// (acc.Err(), cursor.Err()) is an accessor, not an error constructor, although
// its name matches the constructor patterns; such an exit reports failure only
// if the receiver is known to hold an error (see nnStepX) or the value is
// provably non-nil.
func (g *Graph) exitFailsX(x *Node, s nnSet) bool {
	idx := errResultIndex(g.Sig)
	rs, isRet := x.N.(*ast.ReturnStmt)
	if isRet && idx >= 0 && len(rs.Results) == g.Sig.Results().Len() {
		op := ast.Unparen(rs.Results[idx])
		if g.provablyNonNilErr(op) {
			return true
		}
		if c, ok := op.(*ast.CallExpr); ok && len(c.Args) == 0 {
			if sel, ok := c.Fun.(*ast.SelectorExpr); ok && g.Info.Selections[sel] != nil {
				recv := BaseObj(g.Info, sel.X)
				return recv != nil && s[recv]
			}
		}
	}
	return g.exitFails(x, s)
}

// ExitFailsStrict reports whether the exit x reports failure whatever the
// error variables hold: its error operand is a composite literal (or its
// address), a package-level error value that is provably non-nil, or a call of a
// module function that provably returns a non-nil value. A wrapper that is
// handed an error variable (ErrInternalServiceError(err) returns nil for nil)
// and a bare variable do not count.
func (g *Graph) ExitFailsStrict(x *Node) bool {
	if x == nil || len(x.Succ) != 0 {
		return false
	}
	if x.Kind == KPanic {
		return true
	}
	idx := errResultIndex(g.Sig)
	rs, ok := x.N.(*ast.ReturnStmt)
	if !ok || idx < 0 || len(rs.Results) != g.Sig.Results().Len() {
		return false
	}
	// through a single-definition temporary (taken := ErrExists(n); return taken)
	res := ResolveLocal(g.Info, g.Body, rs.Results[idx])
	op := ast.Unparen(res)
	if u, isU := op.(*ast.UnaryExpr); isU && u.Op == token.AND {
		op = ast.Unparen(u.X)
	}
	if _, isCL := op.(*ast.CompositeLit); isCL {
		return true
	}
	return g.provablyNonNilErr(ast.Unparen(res))
}

// IsExit reports whether n ends the function (return, fall-off, panic).
func IsExit(n *Node) bool { return n != nil && len(n.Succ) == 0 }

// EnclosingRange returns the innermost range statement of g's body that
// contains node n (nil if none).
func (g *Graph) EnclosingRange(n *Node) *ast.RangeStmt {
	if n == nil || n.N == nil {
		return nil
	}
	var best *ast.RangeStmt
	for _, rs := range g.RangeStmts() {
		if rs.Body.Pos() <= n.N.Pos() && n.N.End() <= rs.Body.End() {
			if best == nil || best.Pos() <= rs.Pos() {
				best = rs
			}
		}
	}
	return best
}

// FailuresSwallowedX is the failure-propagates walk of FailuresSwallowed made
// path-sensitive in the error variable itself, and applicable to the graph of a
// function literal (transaction closures, index visitors), which
// FailuresSwallowed does not visit. For every call of class d in graph g whose
// error is assigned to a variable v, the walk starts right after the call with
// "v holds an error that no classifier recognises" (row ErrIsOther): nil tests
// of v and of the other tracked error variables are decided, and so are the
// classifications of v (v == ErrX, errors.Is(v, …), kv.IsNotFound(v): false),
// through &&, || and !. Therefore a negated test `!(v != nil)`, a weakened
// conjunction `v == nil && v != ErrX` or a classification that lets every
// error through are seen, while a deliberate tolerance of one classified error
// (`v != nil && v != ErrNotFound`) is not reported. The walk ends at exits: an
// exit that does not report failure given the tracked variables is a swallow.
func FailuresSwallowedX(g *Graph, d Matcher) (int, []Swallow) {
	if g == nil || g.Sig == nil || errResultIndex(g.Sig) < 0 {
		return 0, nil
	}
	sites := 0
	var out []Swallow
	for _, c := range g.directCalls(d) {
		if idx, _ := returnsError(g.Info, c); idx < 0 {
			continue
		}
		nd := g.NodeOf(c)
		if nd == nil {
			continue
		}
		if _, isRet := nd.N.(*ast.ReturnStmt); isRet {
			continue
		}
		v := g.errVarAssigned(nd)
		if v == nil {
			continue
		}
		// the call must be the right-hand side of the assignment itself
		switch st := nd.N.(type) {
		case *ast.AssignStmt:
			if len(st.Rhs) != 1 || ast.Unparen(st.Rhs[0]) != ast.Expr(c) {
				continue
			}
		case *ast.ValueSpec:
			if len(st.Values) != 1 || ast.Unparen(st.Values[0]) != ast.Expr(c) {
				continue
			}
		default:
			continue
		}
		sites++
		type state struct {
			n *Node
			k string
		}
		seen := map[state]bool{}
		bad := map[*Node]bool{}
		budget := 40000
		rowLeaf := ErrRowLeafP(g.Prog, g.Info, v, ErrIsOther)
		var visit func(n *Node, s nnSet)
		visit = func(n *Node, s nnSet) {
			st := state{n, s.key()}
			if seen[st] || budget <= 0 {
				return
			}
			budget--
			seen[st] = true
			if len(n.Succ) == 0 {
				if !g.exitFailsX(n, s) {
					bad[n] = true
				}
				return
			}
			s2 := g.nnStepX(n, s)
			if n == nd && n != nil {
				// back at the call (loop): a new value
				return
			}
			if len(n.Succ) == 2 && n.Succ[0].Cond != nil && n.Succ[0].Tag == nil {
				leaf := func(a ast.Expr) (bool, bool) {
					if s2[v] {
						if val, known := rowLeaf(a); known {
							return val, true
						}
					}
					if x, nonNilOnTrue, ok := NilTest(g.Info, a); ok {
						if o := ObjOf(g.Info, x); o != nil && s2[o] {
							return nonNilOnTrue, true
						}
					}
					return false, false
				}
				if val, known := EvalCond(n.Succ[0].Cond, leaf); known {
					for _, e := range n.Succ {
						if e.Branch == val {
							if s3 := g.nnEdge(e, s2); s3 != nil {
								visit(e.To, s3)
							}
						}
					}
					return
				}
			}
			for _, e := range n.Succ {
				if s3 := g.nnEdge(e, s2); s3 != nil {
					visit(e.To, s3)
				}
			}
		}
		for _, e := range nd.Succ {
			visit(e.To, nnSet{v: true})
		}
		var xs []*Node
		for x := range bad {
			xs = append(xs, x)
		}
		sort.Slice(xs, func(i, j int) bool { return xs[i].ID < xs[j].ID })
		for _, x := range xs {
			out = append(out, Swallow{Call: c, Exit: x})
		}
	}
	return sites, out
}
