package core

// Helpers added for the C18 / C19 / C43 rule sets (rw5). Nothing in here looks
// at source text or positions other than for reporting.

import (
	"go/ast"
	"go/constant"
	"go/token"
	"go/types"

	"golang.org/x/tools/go/cfg"
)

// ---------------------------------------------------------------- conditions

// CondFact is a predicate over an atomic condition and the truth value it has.
type CondFact func(atom ast.Expr, val bool) bool

// Establishes reports whether taking the branch `branch` of condition cond
// guarantees that some atomic condition satisfying fact holds. go/cfg keeps a
// whole `a && b || !c` expression in one node, so the decomposition is done
// here: (a&&b)=true establishes F if a=true or b=true does; (a||b)=true only
// if both do; negation flips the value; parentheses are dropped.
func Establishes(cond ast.Expr, branch bool, fact CondFact) bool {
	switch c := cond.(type) {
	case *ast.ParenExpr:
		return Establishes(c.X, branch, fact)
	case *ast.UnaryExpr:
		if c.Op == token.NOT {
			return Establishes(c.X, !branch, fact)
		}
	case *ast.BinaryExpr:
		switch c.Op {
		case token.LAND:
			if branch {
				return Establishes(c.X, true, fact) || Establishes(c.Y, true, fact)
			}
			return Establishes(c.X, false, fact) && Establishes(c.Y, false, fact)
		case token.LOR:
			if branch {
				return Establishes(c.X, true, fact) && Establishes(c.Y, true, fact)
			}
			return Establishes(c.X, false, fact) || Establishes(c.Y, false, fact)
		}
	}
	return fact(cond, branch)
}

// EdgeEstablishing selects the conditional edges (not tag-switch edges) on
// which fact is guaranteed.
func EdgeEstablishing(fact CondFact) EdgePred {
	return func(e *Edge) bool {
		return e.Cond != nil && e.Tag == nil && Establishes(e.Cond, e.Branch, fact)
	}
}

// AnyEdge combines edge predicates.
func AnyEdge(ps ...EdgePred) EdgePred {
	return func(e *Edge) bool {
		for _, p := range ps {
			if p != nil && p(e) {
				return true
			}
		}
		return false
	}
}

// AnyFact combines facts.
func AnyFact(fs ...CondFact) CondFact {
	return func(a ast.Expr, v bool) bool {
		for _, f := range fs {
			if f(a, v) {
				return true
			}
		}
		return false
	}
}

// Atoms lists the atomic sub-conditions of cond (through &&, ||, !, parens).
func Atoms(cond ast.Expr) []ast.Expr {
	switch c := cond.(type) {
	case *ast.ParenExpr:
		return Atoms(c.X)
	case *ast.UnaryExpr:
		if c.Op == token.NOT {
			return Atoms(c.X)
		}
	case *ast.BinaryExpr:
		if c.Op == token.LAND || c.Op == token.LOR {
			return append(Atoms(c.X), Atoms(c.Y)...)
		}
	}
	return []ast.Expr{cond}
}

// BoolVarFact: the atom is the plain boolean variable obj with value val.
func BoolVarFact(info *types.Info, obj types.Object, val bool) CondFact {
	return func(a ast.Expr, v bool) bool {
		return obj != nil && v == val && ObjOf(info, a) == obj
	}
}

// CallFact: the atom is a call matched by m (and accepted by extra, if given)
// evaluating to val.
func CallFact(info *types.Info, m Matcher, val bool, extra func(*ast.CallExpr) bool) CondFact {
	return func(a ast.Expr, v bool) bool {
		c, ok := ast.Unparen(a).(*ast.CallExpr)
		return ok && v == val && m(info, c) && (extra == nil || extra(c))
	}
}

// IntCmp decodes `x OP c` / `c OP x` with c an integer constant; the result is
// normalised to "x op c" (op one of == != < <= > >=).
func IntCmp(info *types.Info, e ast.Expr) (x ast.Expr, op token.Token, c int64, ok bool) {
	be, isBin := ast.Unparen(e).(*ast.BinaryExpr)
	if !isBin {
		return nil, 0, 0, false
	}
	switch be.Op {
	case token.EQL, token.NEQ, token.LSS, token.LEQ, token.GTR, token.GEQ:
	default:
		return nil, 0, 0, false
	}
	if v, isC := ConstInt(info, be.Y); isC {
		return ast.Unparen(be.X), be.Op, v, true
	}
	if v, isC := ConstInt(info, be.X); isC {
		flip := map[token.Token]token.Token{token.EQL: token.EQL, token.NEQ: token.NEQ, token.LSS: token.GTR, token.LEQ: token.GEQ, token.GTR: token.LSS, token.GEQ: token.LEQ}
		return ast.Unparen(be.Y), flip[be.Op], v, true
	}
	return nil, 0, 0, false
}

// NonZeroFact: the atom, with the value it has on the edge, means "x != 0"
// (val=true) or "x == 0" (val=false) for a non-negative or arbitrary integer
// expression x accepted by isX. Forms: x != 0, x == 0, and — only when
// nonNeg (len(...), unsigned) — x > 0, x <= 0, x >= 1, x < 1.
func NonZeroFact(info *types.Info, isX func(ast.Expr) bool, val bool, nonNeg bool) CondFact {
	return func(a ast.Expr, v bool) bool {
		x, op, c, ok := IntCmp(info, a)
		if !ok || !isX(x) {
			return false
		}
		var means bool // what atom==true means: true: x != 0, false: x == 0
		switch {
		case op == token.NEQ && c == 0:
			means = true
		case op == token.EQL && c == 0:
			means = false
		case nonNeg && (op == token.GTR && c == 0 || op == token.GEQ && c == 1):
			means = true
		case nonNeg && (op == token.LEQ && c == 0 || op == token.LSS && c == 1):
			means = false
		default:
			return false
		}
		return (means == v) == val
	}
}

// ConstInt evaluates an integer constant expression.
func ConstInt(info *types.Info, e ast.Expr) (int64, bool) {
	tv, ok := info.Types[e]
	if !ok || tv.Value == nil {
		return 0, false
	}
	v := constant.ToInt(tv.Value)
	if v.Kind() != constant.Int {
		return 0, false
	}
	return constant.Int64Val(v)
}

// ConstBool evaluates a boolean constant expression.
func ConstBool(info *types.Info, e ast.Expr) (val, ok bool) {
	tv, has := info.Types[e]
	if !has || tv.Value == nil || tv.Value.Kind() != constant.Bool {
		return false, false
	}
	return constant.BoolVal(tv.Value), true
}

// ---------------------------------------------------------------- loops

// LoopNodes returns, for a range/for statement of g, the loop head node (the
// target of `continue` and of the back edge), the first node of the body and
// the first node after the loop. Any of them is nil when unreachable.
func (g *Graph) LoopNodes(loop ast.Stmt) (head, body, done *Node) {
	for _, n := range g.Nodes {
		if n.Block == nil || n.Block.Stmt != loop {
			continue
		}
		switch n.Block.Kind {
		case cfg.KindRangeLoop, cfg.KindForLoop:
			if head == nil {
				head = n
			}
		case cfg.KindRangeBody, cfg.KindForBody:
			if body == nil {
				body = n
			}
		case cfg.KindRangeDone, cfg.KindForDone:
			if done == nil {
				done = n
			}
		}
	}
	// a `for` with a post statement continues at the post block
	if fs, ok := loop.(*ast.ForStmt); ok && fs.Post != nil {
		for _, n := range g.Nodes {
			if n.Block != nil && n.Block.Stmt == loop && n.Block.Kind == cfg.KindForPost {
				head = n
				break
			}
		}
	}
	return
}

// RangeOver finds the range statements in root whose range expression satisfies isX.
func RangeOver(root ast.Node, isX func(ast.Expr) bool) []*ast.RangeStmt {
	var out []*ast.RangeStmt
	ast.Inspect(root, func(n ast.Node) bool {
		if rs, ok := n.(*ast.RangeStmt); ok && isX(ast.Unparen(rs.X)) {
			out = append(out, rs)
		}
		return true
	})
	return out
}

// ---------------------------------------------------------------- definitions

// Def is one definition (assignment) of a local variable.
type Def struct {
	Rhs   ast.Expr // defining expression (call for tuple assignments, range expression for range vars); nil for ++/--/op=
	Index int      // result index for tuple assignments / 0=key 1=value for range; -1 for 1:1 assignments
	Range *ast.RangeStmt
	Stmt  ast.Node
}

// DefsOf lists every definition of obj inside root (assignments, :=, var
// specs, range clauses, ++/--, op=).
func DefsOf(info *types.Info, root ast.Node, obj types.Object) []Def {
	var out []Def
	if obj == nil {
		return nil
	}
	is := func(e ast.Expr) bool { return e != nil && ObjOf(info, e) == obj }
	ast.Inspect(root, func(n ast.Node) bool {
		switch s := n.(type) {
		case *ast.AssignStmt:
			for i, l := range s.Lhs {
				if !is(l) {
					continue
				}
				switch {
				case s.Tok != token.ASSIGN && s.Tok != token.DEFINE:
					out = append(out, Def{Index: -1, Stmt: s})
				case len(s.Lhs) == len(s.Rhs):
					out = append(out, Def{Rhs: ast.Unparen(s.Rhs[i]), Index: -1, Stmt: s})
				case len(s.Rhs) == 1:
					out = append(out, Def{Rhs: ast.Unparen(s.Rhs[0]), Index: i, Stmt: s})
				}
			}
		case *ast.IncDecStmt:
			if is(s.X) {
				out = append(out, Def{Index: -1, Stmt: s})
			}
		case *ast.RangeStmt:
			if is(s.Key) {
				out = append(out, Def{Rhs: ast.Unparen(s.X), Index: 0, Range: s, Stmt: s})
			}
			if is(s.Value) {
				out = append(out, Def{Rhs: ast.Unparen(s.X), Index: 1, Range: s, Stmt: s})
			}
		case *ast.ValueSpec:
			for i, nm := range s.Names {
				if info.Defs[nm] != obj {
					continue
				}
				switch {
				case len(s.Values) == len(s.Names):
					out = append(out, Def{Rhs: ast.Unparen(s.Values[i]), Index: -1, Stmt: s})
				case len(s.Values) == 1:
					out = append(out, Def{Rhs: ast.Unparen(s.Values[0]), Index: i, Stmt: s})
				default:
					// `var x T` – zero value; not counted as a defining expression
				}
			}
		}
		return true
	})
	return out
}

// SingleDef returns the only definition of obj in root.
func SingleDef(info *types.Info, root ast.Node, obj types.Object) (Def, bool) {
	ds := DefsOf(info, root, obj)
	if len(ds) != 1 {
		return Def{}, false
	}
	return ds[0], true
}

// ResolveLocal follows single-definition local variables: if e is an identifier
// of a local variable with exactly one 1:1 definition in root it returns that
// defining expression (repeated up to 4 times), otherwise e itself.
func ResolveLocal(info *types.Info, root ast.Node, e ast.Expr) ast.Expr {
	e = ast.Unparen(e)
	for i := 0; i < 4; i++ {
		o, ok := ObjOf(info, e).(*types.Var)
		if !ok || o.IsField() || o.Parent() == nil || o.Pkg() == nil || o.Parent() == o.Pkg().Scope() {
			return e
		}
		d, ok := SingleDef(info, root, o)
		if !ok || d.Rhs == nil || d.Index != -1 || d.Range != nil {
			return e
		}
		e = d.Rhs
	}
	return e
}

// AssigningObj selects nodes that assign the local variable obj.
func (g *Graph) AssigningObj(obj types.Object) NodePred {
	return func(n *Node) bool {
		if n.N == nil || obj == nil {
			return false
		}
		found := false
		Walk(n.N, WalkOpts{}, func(x ast.Node) bool {
			switch s := x.(type) {
			case *ast.AssignStmt:
				for _, l := range s.Lhs {
					if ObjOf(g.Info, l) == obj {
						found = true
					}
				}
			case *ast.IncDecStmt:
				if ObjOf(g.Info, s.X) == obj {
					found = true
				}
			}
			return true
		})
		return found
	}
}

// ---------------------------------------------------------------- expressions

// FieldsRead returns the struct fields selected anywhere inside e (incl. nested calls).
func FieldsRead(info *types.Info, e ast.Node) map[*types.Var]bool {
	out := map[*types.Var]bool{}
	if e == nil {
		return out
	}
	ast.Inspect(e, func(n ast.Node) bool {
		if se, ok := n.(*ast.SelectorExpr); ok {
			if v := FieldOf(info, se); v != nil {
				out[v] = true
			}
		}
		return true
	})
	return out
}

// Recv returns the receiver expression of a method call x.M(...), nil otherwise.
func Recv(call *ast.CallExpr) ast.Expr {
	if se, ok := ast.Unparen(call.Fun).(*ast.SelectorExpr); ok {
		return ast.Unparen(se.X)
	}
	return nil
}

// AsCall returns e as a call matched by m.
func AsCall(info *types.Info, e ast.Expr, m Matcher) *ast.CallExpr {
	c, ok := ast.Unparen(e).(*ast.CallExpr)
	if ok && m(info, c) {
		return c
	}
	return nil
}

// StripAddrDeref removes &, * and parentheses around e.
func StripAddrDeref(e ast.Expr) ast.Expr {
	for {
		switch t := e.(type) {
		case *ast.ParenExpr:
			e = t.X
		case *ast.StarExpr:
			e = t.X
		case *ast.UnaryExpr:
			if t.Op != token.AND {
				return e
			}
			e = t.X
		default:
			return e
		}
	}
}

// BaseObj returns the variable at the root of a selector/index/deref chain
// (x.a.b[i].c -> x).
func BaseObj(info *types.Info, e ast.Expr) types.Object {
	for {
		switch t := e.(type) {
		case *ast.ParenExpr:
			e = t.X
		case *ast.StarExpr:
			e = t.X
		case *ast.SelectorExpr:
			if _, isPkg := info.Uses[identOf(t.X)].(*types.PkgName); isPkg {
				return info.Uses[t.Sel]
			}
			e = t.X
		case *ast.IndexExpr:
			e = t.X
		case *ast.UnaryExpr:
			if t.Op != token.AND {
				return nil
			}
			e = t.X
		case *ast.Ident:
			return ObjOf(info, t)
		default:
			return nil
		}
	}
}

func identOf(e ast.Expr) *ast.Ident {
	id, _ := ast.Unparen(e).(*ast.Ident)
	return id
}

// ParamIndex returns the position of obj among the parameters of sig (-1 if none).
func ParamIndex(sig *types.Signature, obj types.Object) int {
	if sig == nil || obj == nil {
		return -1
	}
	for i := 0; i < sig.Params().Len(); i++ {
		if sig.Params().At(i) == obj {
			return i
		}
	}
	return -1
}

// TimeCmp decodes a.Before(b) / a.After(b) / a.Equal(b) on time.Time values
// into a normalised "a op b" with op one of < > ==.
func TimeCmp(info *types.Info, e ast.Expr) (a ast.Expr, op token.Token, b ast.Expr, ok bool) {
	c, isCall := ast.Unparen(e).(*ast.CallExpr)
	if !isCall || len(c.Args) != 1 {
		return nil, 0, nil, false
	}
	switch FName(Callee(info, c)) {
	case "time.Time.Before":
		op = token.LSS
	case "time.Time.After":
		op = token.GTR
	case "time.Time.Equal":
		op = token.EQL
	default:
		return nil, 0, nil, false
	}
	return Recv(c), op, ast.Unparen(c.Args[0]), true
}

// TimeLess reports whether atom==val states "x < y" (strict=true) or "x <= y"
// (strict=false) where isX/isY recognise the two operands. a.Before(b)=true is
// a<b, b.After(a)=true is a<b, a.After(b)=false is a<=b, b.Before(a)=false is a<=b.
func TimeLess(info *types.Info, atom ast.Expr, val bool, strict bool, isX, isY func(ast.Expr) bool) bool {
	a, op, b, ok := TimeCmp(info, atom)
	if !ok || op == token.EQL {
		return false
	}
	if op == token.GTR { // a > b  ==  b < a
		a, b = b, a
	}
	// now: atom means a < b
	if val {
		return strict && isX(a) && isY(b)
	}
	// !(a < b) == b <= a
	return !strict && isX(b) && isY(a)
}

// EnclosingLit returns the innermost function literal of root that contains n (nil if none).
func EnclosingLit(root ast.Node, n ast.Node) *ast.FuncLit {
	var best *ast.FuncLit
	ast.Inspect(root, func(x ast.Node) bool {
		if fl, ok := x.(*ast.FuncLit); ok && fl.Pos() <= n.Pos() && n.End() <= fl.End() {
			best = fl
		}
		return true
	})
	return best
}

// FieldCall matches calls of a function-typed struct field (x.F(...)).
func FieldCall(field *types.Var) Matcher {
	return func(info *types.Info, call *ast.CallExpr) bool {
		return field != nil && FieldOf(info, call.Fun) == field
	}
}

// NotReachableUnless: none of the target nodes is reachable from the entry once
// the gate nodes and gate edges are removed. Returns the offending targets.
func (g *Graph) NotReachableUnless(target NodePred, gateNode NodePred, gateEdge EdgePred) []*Node {
	r := g.ReachFromEntry(gateNode, gateEdge)
	var bad []*Node
	for _, n := range g.Select(target) {
		if r[n] {
			bad = append(bad, n)
		}
	}
	return bad
}

// GraphOf returns the graph of the function literal lit (or of f itself when lit is nil).
func (f *Func) GraphOf(lit *ast.FuncLit) *Graph {
	if lit == nil {
		return f.Graph()
	}
	return f.LitGraph(lit)
}

// RealSuccessExits is SuccessExits without
//   - the synthetic "no case ready" block that go/cfg leaves without successors
//     after the last clause of a select statement that has no default (such a
//     select blocks; it is not an exit), and
//   - returns whose error operand is a call of a module function that provably
//     constructs a non-nil error: every return of that function is `&T{…}`
//     (e.g. dbrp.ErrDBRPAlreadyExists, dbrp.ErrInternalService).
func (g *Graph) RealSuccessExits() []*Node {
	idx := errResultIndex(g.Sig)
	var out []*Node
	for _, x := range g.SuccessExits() {
		if x.N == nil && x.Block != nil && x.Block.Kind == cfg.KindSelectAfterCase {
			continue
		}
		if rs, ok := x.N.(*ast.ReturnStmt); ok && idx >= 0 && len(rs.Results) == g.Sig.Results().Len() {
			if c, isCall := ast.Unparen(rs.Results[idx]).(*ast.CallExpr); isCall && g.Prog.AlwaysNonNilCtor(Callee(g.Info, c)) {
				continue
			}
		}
		out = append(out, x)
	}
	return out
}

// AlwaysNonNilCtor: fn is a function of the module with a body in which every
// return statement yields the address of a composite literal.
func (p *Prog) AlwaysNonNilCtor(fn *types.Func) bool {
	f := p.FuncOf(fn)
	if f == nil || f.Decl.Body == nil {
		return false
	}
	n, ok := 0, true
	ast.Inspect(f.Decl.Body, func(x ast.Node) bool {
		switch t := x.(type) {
		case *ast.FuncLit:
			return false
		case *ast.ReturnStmt:
			n++
			if len(t.Results) != 1 {
				ok = false
				return true
			}
			u, isAddr := ast.Unparen(t.Results[0]).(*ast.UnaryExpr)
			if !isAddr || u.Op != token.AND {
				ok = false
				return true
			}
			if _, isLit := ast.Unparen(u.X).(*ast.CompositeLit); !isLit {
				ok = false
			}
		}
		return true
	})
	return ok && n >= 1
}
