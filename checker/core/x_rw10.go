package core

// Helpers added for the C15 / C20 / C21 rule sets (tag-expression dispatch,
// windowed aggregate cursors, multi-shard array cursors). Everything is decided
// on resolved structure: objects, fields, callees, constant values, CFG edges.

import (
	"fmt"
	"go/ast"
	"go/constant"
	"go/token"
	"go/types"
	"sort"
	"strings"
	"unicode"
)

// ---------------------------------------------------------------- reachability under a valuation

// Leaf10 gives the truth value of an atomic condition under an assumed
// valuation of the inputs (known=false: the valuation does not decide it).
type Leaf10 func(e ast.Expr) (val, known bool)

// Leaves10 combines leaf evaluators; the first one that knows the atom wins.
func Leaves10(ls ...Leaf10) Leaf10 {
	return func(e ast.Expr) (bool, bool) {
		for _, l := range ls {
			if l == nil {
				continue
			}
			if v, k := l(e); k {
				return v, true
			}
		}
		return false, false
	}
}

// ReachUnder10 is reachability under a valuation. Like ReachUnder, but the
// case edges of a tag switch `switch tag { case c: }` are evaluated too: the
// leaf is asked about the (synthetic) comparison `tag == c`. Conditions the
// valuation does not decide are followed on both branches. Nodes selected by
// stop are recorded as reached but not left.
func (g *Graph) ReachUnder10(start []*Node, stop NodePred, leaf Leaf10) map[*Node]bool {
	seen := map[*Node]bool{}
	user := leaf
	leaf = func(e ast.Expr) (bool, bool) {
		// constant conditions are decided by the type checker
		if v := ConstVal(g.Info, e); v != nil && v.Kind() == constant.Bool {
			return constant.BoolVal(v), true
		}
		return user(e)
	}
	var walk func(n *Node)
	walk = func(n *Node) {
		if n == nil || seen[n] {
			return
		}
		seen[n] = true
		if stop != nil && stop(n) {
			return
		}
		if len(n.Succ) == 2 && n.Succ[0].Cond != nil {
			cond := n.Succ[0].Cond
			var v, known bool
			if t := n.Succ[0].Tag; t != nil {
				v, known = leaf(&ast.BinaryExpr{X: t, Op: token.EQL, Y: cond})
			} else {
				v, known = EvalCond(cond, LeafEval(leaf))
			}
			if known {
				for _, e := range n.Succ {
					if e.Branch == v {
						walk(e.To)
					}
				}
				return
			}
		}
		for _, e := range n.Succ {
			walk(e.To)
		}
	}
	for _, s := range start {
		walk(s)
	}
	return seen
}

// ConstEqLeaf10 decides `X == c` / `X != c` (either operand order, c a typed
// constant) for the expressions accepted by isX, assuming X has value val.
func ConstEqLeaf10(info *types.Info, isX func(ast.Expr) bool, val constant.Value) Leaf10 {
	return func(e ast.Expr) (bool, bool) {
		be, ok := ast.Unparen(e).(*ast.BinaryExpr)
		if !ok || (be.Op != token.EQL && be.Op != token.NEQ) {
			return false, false
		}
		x, y := ast.Unparen(be.X), ast.Unparen(be.Y)
		var c constant.Value
		switch {
		case isX(x):
			c = ConstVal(info, y)
		case isX(y):
			c = ConstVal(info, x)
		}
		if c == nil || val == nil {
			return false, false
		}
		eq := constant.Compare(val, token.EQL, c)
		return eq == (be.Op == token.EQL), true
	}
}

// LenLeaf10 decides `len(X) op c` assuming len(X) == n.
func LenLeaf10(info *types.Info, isX func(ast.Expr) bool, n int64) Leaf10 {
	return func(e ast.Expr) (bool, bool) {
		x, eval, ok := LenCmp(info, e)
		if !ok || !isX(x) {
			return false, false
		}
		return eval(n), true
	}
}

// ObjLeaf10 decides the atom that is the boolean variable obj itself.
func ObjLeaf10(info *types.Info, obj types.Object, val bool) Leaf10 {
	return func(e ast.Expr) (bool, bool) {
		if obj != nil && ObjOf(info, e) == obj {
			return val, true
		}
		// obj == true / obj != false …
		if be, ok := ast.Unparen(e).(*ast.BinaryExpr); ok && obj != nil && (be.Op == token.EQL || be.Op == token.NEQ) {
			x, y := ast.Unparen(be.X), ast.Unparen(be.Y)
			if ObjOf(info, y) == obj {
				x, y = y, x
			}
			if c := ConstVal(info, y); ObjOf(info, x) == obj && c != nil && c.Kind() == constant.Bool {
				return (val == constant.BoolVal(c)) == (be.Op == token.EQL), true
			}
		}
		return false, false
	}
}

// CallLeaf10 decides the atom that is a call selected by m (and ok, when given).
func CallLeaf10(info *types.Info, m Matcher, ok func(*ast.CallExpr) bool, val bool) Leaf10 {
	return func(e ast.Expr) (bool, bool) {
		c, isCall := ast.Unparen(e).(*ast.CallExpr)
		if !isCall || !m(info, c) || (ok != nil && !ok(c)) {
			return false, false
		}
		return val, true
	}
}

// CallsReached10 lists the calls selected by m that are evaluated in the
// reached nodes (calls in function literals invoked in place count, deferred
// calls do not), with the sorted set of their callee names.
func (g *Graph) CallsReached10(reach map[*Node]bool, m Matcher) (names []string, calls []*ast.CallExpr) {
	set := map[string]bool{}
	for _, n := range g.Nodes {
		if !reach[n] || n.N == nil {
			continue
		}
		for _, c := range CallsIn(g.Info, n.N, m, WalkOpts{}) {
			calls = append(calls, c)
			set[FName(Callee(g.Info, c))] = true
		}
	}
	for k := range set {
		names = append(names, k)
	}
	sort.Strings(names)
	return
}

// ---------------------------------------------------------------- joint reaching definitions

// DefStates10 computes, for the local variables objs, the set of tuples
// (defining node of objs[0], defining node of objs[1], …) that can hold on
// entry to node `at` (nil = not yet assigned). It is the joint reaching-
// definitions relation, so correlated assignments made in the same branch stay
// correlated.
func (g *Graph) DefStates10(objs []types.Object, at *Node) [][]*Node {
	preds := make([]NodePred, len(objs))
	for i, o := range objs {
		preds[i] = g.AssigningObj(o)
	}
	key := func(st []*Node) string {
		var b strings.Builder
		for _, n := range st {
			if n == nil {
				b.WriteString("-,")
			} else {
				fmt.Fprintf(&b, "%d,", n.ID)
			}
		}
		return b.String()
	}
	type item struct {
		n  *Node
		st []*Node
	}
	seen := map[*Node]map[string]bool{}
	var out [][]*Node
	work := []item{{g.Entry, make([]*Node, len(objs))}}
	for len(work) > 0 {
		it := work[len(work)-1]
		work = work[:len(work)-1]
		if it.n == nil {
			continue
		}
		k := key(it.st)
		if seen[it.n] == nil {
			seen[it.n] = map[string]bool{}
		}
		if seen[it.n][k] {
			continue
		}
		seen[it.n][k] = true
		if it.n == at {
			out = append(out, it.st)
		}
		st := append([]*Node{}, it.st...)
		for i, p := range preds {
			if p(it.n) {
				st[i] = it.n
			}
		}
		for _, e := range it.n.Succ {
			work = append(work, item{e.To, st})
		}
	}
	return out
}

// ---------------------------------------------------------------- type switches

// TypeArm10 is one case clause of a type switch.
type TypeArm10 struct {
	Clause *ast.CaseClause
	Types  []types.Type // listed types (nil entry for `nil`)
	Bound  types.Object // the implicit object of `switch x := y.(type)` in this clause (nil when unbound)
}

// TypeSwitch10 describes one type switch.
type TypeSwitch10 struct {
	Stmt    *ast.TypeSwitchStmt
	Operand ast.Expr // y in y.(type)
	Arms    []TypeArm10
	Default *ast.CaseClause
}

// TypeSwitches10 lists the type switches in body (outermost first).
func TypeSwitches10(info *types.Info, body ast.Node) []*TypeSwitch10 {
	var out []*TypeSwitch10
	ast.Inspect(body, func(n ast.Node) bool {
		ts, ok := n.(*ast.TypeSwitchStmt)
		if !ok {
			return true
		}
		sw := &TypeSwitch10{Stmt: ts}
		var ta *ast.TypeAssertExpr
		switch a := ts.Assign.(type) {
		case *ast.AssignStmt:
			if len(a.Rhs) == 1 {
				ta, _ = ast.Unparen(a.Rhs[0]).(*ast.TypeAssertExpr)
			}
		case *ast.ExprStmt:
			ta, _ = ast.Unparen(a.X).(*ast.TypeAssertExpr)
		}
		if ta != nil {
			sw.Operand = ast.Unparen(ta.X)
		}
		for _, cl := range ts.Body.List {
			cc := cl.(*ast.CaseClause)
			if cc.List == nil {
				sw.Default = cc
				continue
			}
			arm := TypeArm10{Clause: cc, Bound: info.Implicits[cc]}
			for _, e := range cc.List {
				if IsNilIdent(info, e) {
					arm.Types = append(arm.Types, nil)
				} else {
					arm.Types = append(arm.Types, info.TypeOf(e))
				}
			}
			sw.Arms = append(sw.Arms, arm)
		}
		out = append(out, sw)
		return true
	})
	return out
}

// NamedName10 renders a (pointer to a) named type as "pkgname.Type" ("" otherwise).
func NamedName10(t types.Type) string {
	if t == nil {
		return ""
	}
	if p, ok := t.(*types.Pointer); ok {
		t = p.Elem()
	}
	nt, ok := t.(*types.Named)
	if !ok {
		return ""
	}
	if nt.Obj().Pkg() == nil {
		return nt.Obj().Name()
	}
	return nt.Obj().Pkg().Name() + "." + nt.Obj().Name()
}

// ReturnsOf10 lists the return statements syntactically inside root that belong
// to the enclosing function (returns of nested function literals are skipped).
func ReturnsOf10(root ast.Node) []*ast.ReturnStmt {
	var out []*ast.ReturnStmt
	ast.Inspect(root, func(n ast.Node) bool {
		switch x := n.(type) {
		case *ast.FuncLit:
			return false
		case *ast.ReturnStmt:
			out = append(out, x)
		}
		return true
	})
	return out
}

// ---------------------------------------------------------------- E6 with token-level exceptions

// SibSubst10 is a legitimate, named difference between one instantiation and
// the reference (Float) instantiation of its template: at a point where the two
// token streams disagree, the member may read Got where the reference reads
// Want (both space-separated token spellings). Everything before and after has
// to agree as usual, so an exception never hides a second difference.
type SibSubst10 struct {
	Member string
	Got    string
	Want   string
	Reason string
	used   int
}

func tokText10(t sibTok) string {
	if t.lit != "" {
		return t.lit
	}
	return t.tok.String()
}

func matchSeq10(toks []sibTok, at int, seq []string) bool {
	if at+len(seq) > len(toks) {
		return false
	}
	for k, s := range seq {
		if tokText10(toks[at+k]) != s {
			return false
		}
	}
	return true
}

// absWords10 replaces, inside a string literal, every word that spells the
// value type of family fam (any case) by a placeholder.
func absWords10(s string, fam int) string {
	if fam < 0 {
		return s
	}
	var b strings.Builder
	rs := []rune(s)
	for i := 0; i < len(rs); {
		if !unicode.IsLetter(rs[i]) && !unicode.IsDigit(rs[i]) {
			b.WriteRune(rs[i])
			i++
			continue
		}
		j := i
		for j < len(rs) && (unicode.IsLetter(rs[j]) || unicode.IsDigit(rs[j])) {
			j++
		}
		w := string(rs[i:j])
		own := false
		for _, t := range typeFamilies[fam] {
			if strings.EqualFold(w, t) {
				own = true
			}
		}
		if own {
			b.WriteString("Ŧ")
		} else {
			b.WriteString(w)
		}
		i = j
	}
	return b.String()
}

func tokEq10(m *Sibling, i int, r *Sibling, j int) bool {
	a, b := m.toks[i], r.toks[j]
	if a.tok == token.STRING && b.tok == token.STRING && !(isZeroLit(a, m.fam) && isZeroLit(b, r.fam)) {
		// messages: equal up to the word naming the member's own value type
		return absWords10(a.lit, m.fam) == absWords10(b.lit, r.fam)
	}
	return tokEq(m, i, r, j)
}

// diff10 aligns member and reference; it returns the first unexplained
// mismatch (i, j) or (-1, -1).
func diff10(m, r *Sibling, subs []*SibSubst10) (int, int) {
	i, j := 0, 0
	for i < len(m.toks) && j < len(r.toks) {
		if tokEq10(m, i, r, j) {
			i++
			j++
			continue
		}
		hit := false
		for _, s := range subs {
			if s.Member != m.Name {
				continue
			}
			got, want := strings.Fields(s.Got), strings.Fields(s.Want)
			if matchSeq10(m.toks, i, got) && matchSeq10(r.toks, j, want) {
				i += len(got)
				j += len(want)
				s.used++
				hit = true
				break
			}
		}
		if !hit {
			return i, j
		}
	}
	if i == len(m.toks) && j == len(r.toks) {
		return -1, -1
	}
	return i, j
}

// RuleSiblings10 compares the template instantiations of one generated file
// (groups selected by keep; nil = all) against the Float instantiation of their
// group, allowing only the listed token-level differences. It reports every
// member with an unexplained difference and asserts minimum group/member
// counts. Exceptions that no longer apply are noted (they are harmless).
func RuleSiblings10(r *Report, p *Prog, pkg, fileSuffix, rule string, keep func(groupKey string) bool, subs []*SibSubst10, minGroups, minMembers int) {
	pk := p.Pkg(pkg)
	if pk == nil {
		r.Bad("anchor", pkg, "unresolved", "-", "package not loaded")
		return
	}
	groups, err := SiblingGroups(p, pk, fileSuffix)
	if err != nil {
		r.Bad("anchor", pkg+"/"+fileSuffix, "unresolved", "-", err.Error())
		return
	}
	for _, s := range subs {
		s.used = 0
	}
	ng, members, bad := 0, 0, 0
	for _, g := range groups {
		if keep != nil && !keep(g.Key) {
			continue
		}
		ng++
		ref := g.Members[0]
		for _, m := range g.Members {
			if m.fam == 0 {
				ref = m
				break
			}
		}
		members += len(g.Members)
		type dif struct {
			m    *Sibling
			i, j int
		}
		var difs []dif
		for _, m := range g.Members {
			if m == ref {
				continue
			}
			if i, j := diff10(m, ref, subs); i >= 0 {
				difs = append(difs, dif{m, i, j})
			}
		}
		// when every other member disagrees with the reference but they agree with
		// each other (no exceptions involved), the reference is the odd one out
		if len(g.Members) >= 3 && len(difs) == len(g.Members)-1 {
			alt := difs[0].m
			agree := true
			for _, d := range difs[1:] {
				if i, _ := diff10(d.m, alt, nil); i >= 0 {
					agree = false
				}
			}
			if agree {
				i, j := diff10(ref, alt, nil)
				pos, got, want := ref.Decl.Pos(), "<end>", "<end>"
				if i >= 0 && i < len(ref.toks) {
					pos, got = ref.toks[i].pos, ctx(ref, i)
				}
				if j >= 0 && j < len(alt.toks) {
					want = ctx(alt, j)
				}
				bad++
				r.Bad(rule, pkg+"."+ref.Name, "differs-from-siblings", p.Pos(pos),
					fmt.Sprintf("instantiation deviates from all its siblings (e.g. %s): here `%s`, siblings `%s`", alt.Name, Trim(got, 60), Trim(want, 60)))
				continue
			}
		}
		for _, d := range difs {
			pos, got, want := d.m.Decl.End(), "<end>", "<end>"
			if d.i < len(d.m.toks) {
				pos, got = d.m.toks[d.i].pos, ctx(d.m, d.i)
			}
			if d.j < len(ref.toks) {
				want = ctx(ref, d.j)
			}
			bad++
			r.Bad(rule, pkg+"."+d.m.Name, "differs-from-"+ref.Name, p.Pos(pos),
				fmt.Sprintf("instantiation deviates from its siblings (reference %s): here `%s`, siblings `%s`", ref.Name, Trim(got, 60), Trim(want, 60)))
		}
	}
	r.Check(ng >= minGroups, rule, pkg+"/"+fileSuffix, "groups:count", "-", fmt.Sprintf("%d sibling groups compared (>= %d confirmed by reading)", ng, minGroups))
	r.Check(members >= minMembers, rule, pkg+"/"+fileSuffix, "members:count", "-", fmt.Sprintf("%d member functions compared (>= %d confirmed by reading)", members, minMembers))
	applied := 0
	for _, s := range subs {
		if s.used > 0 {
			applied++
		} else {
			r.Note("%s: exception for %s (`%s` for `%s`) no longer applies", rule, s.Member, s.Got, s.Want)
		}
	}
	if bad == 0 {
		r.Ok(rule, pkg+"/"+fileSuffix, "-", fmt.Sprintf("%d groups, %d member functions equal to their Float sibling up to the value-type tokens (%d named token-level exceptions applied)", ng, members, applied))
	}
}

// SiblingKeys10 lists the abstract group keys of a generated file (for rules
// that need to know which template a function instantiates).
func SiblingKeys10(p *Prog, pkg, fileSuffix string) (map[string]string, error) {
	pk := p.Pkg(pkg)
	if pk == nil {
		return nil, fmt.Errorf("package %s not loaded", pkg)
	}
	groups, err := SiblingGroups(p, pk, fileSuffix)
	if err != nil {
		return nil, err
	}
	out := map[string]string{}
	for _, g := range groups {
		for _, m := range g.Members {
			out[m.Name] = g.Key
		}
	}
	return out, nil
}
