package core

import (
	"fmt"
	"go/ast"
	"go/token"
	"go/types"
	"sort"
	"strings"
)

// E5b — failure propagation. RuleErrorsUsed decides that an error is looked at;
// this rule decides that a failure of a call of class d makes the enclosing
// function FAIL: from the non-nil branch of the test of the call's error no
// exit is reachable on which the function may report success. `if err != nil {
// return nil }`, `… { log }` followed by the normal return, and a `break` out of
// the failing step into the success epilogue are reported.
//
// The walk from the failure branch is path-sensitive in one respect: it tracks
// the set of error variables KNOWN to be non-nil (initially the tested
// variable; `werr = err`, `err = fmt.Errorf(…)`, `x != nil` branches add; any
// other assignment and `x == nil` branches remove). An exit reports failure when
// its error operand is a tracked variable, an error constructor / literal /
// sentinel, or a call that is handed a tracked variable (wrapping); a bare
// return reports failure when the named result is tracked. Everything else is a
// success exit.
//
// Only the body's own graph is examined (not function literals). A call that is
// returned directly is a forward. A call whose error test cannot be located is
// left to RuleErrorsUsed. Functions without an error result are out of scope
// (failures travel through a side channel).

// Swallow is one failure edge from which a success exit is reachable.
type Swallow struct {
	Call *ast.CallExpr
	Exit *Node
}

type nnSet map[types.Object]bool

func (s nnSet) key() string {
	var ks []string
	for o := range s {
		ks = append(ks, fmt.Sprintf("%s@%d", o.Name(), o.Pos()))
	}
	sort.Strings(ks)
	return strings.Join(ks, ",")
}

func (s nnSet) clone() nnSet {
	c := nnSet{}
	for k := range s {
		c[k] = true
	}
	return c
}

// isSentinel: a package-level variable whose type implements error (ErrFoo,
// EIncorrectPassword, errClosed …) is an error value by convention, never nil.
func isSentinel(v *types.Var) bool {
	errIface := errorType.Underlying().(*types.Interface)
	return types.Implements(v.Type(), errIface)
}

// failingExpr: e certainly evaluates to a non-nil error given the tracked set.
func (g *Graph) failingExpr(e ast.Expr, s nnSet) bool {
	e = ast.Unparen(e)
	if IsNilIdent(g.Info, e) {
		return false
	}
	switch x := e.(type) {
	case *ast.Ident:
		o := ObjOf(g.Info, x)
		if s[o] {
			return true
		}
		if v, ok := o.(*types.Var); ok && v.Pkg() != nil && v.Parent() == v.Pkg().Scope() {
			return isSentinel(v)
		}
		// a local defined exactly once, from an error constructor / literal
		// (notFound := &errors.Error{…} at the top of the function)
		if v, ok := o.(*types.Var); ok && !v.IsField() && s != nil {
			if d, ok := SingleDef(g.Info, g.Body, v); ok && d.Index == -1 && d.Rhs != nil && d.Range == nil {
				return g.failingExpr(d.Rhs, nil)
			}
		}
	case *ast.SelectorExpr:
		if v, ok := g.Info.Uses[x.Sel].(*types.Var); ok && v.Pkg() != nil && v.Parent() == v.Pkg().Scope() {
			return isSentinel(v)
		}
		// an error FIELD that was stored a failing value on this path (l.err = err)
		if v, ok := g.Info.Uses[x.Sel].(*types.Var); ok && v.IsField() && s[v] {
			return true
		}
	case *ast.UnaryExpr:
		if x.Op == token.AND {
			if _, ok := ast.Unparen(x.X).(*ast.CompositeLit); ok {
				return true
			}
		}
	case *ast.CompositeLit:
		return true
	case *ast.CallExpr:
		n := FName(Callee(g.Info, x))
		for _, p := range errCtorNames {
			if Glob(p, n) {
				return true
			}
		}
		// a call handed a tracked variable (wrap / annotate / join)
		found := false
		for _, a := range x.Args {
			ast.Inspect(a, func(y ast.Node) bool {
				if id, ok := y.(*ast.Ident); ok && s[ObjOf(g.Info, id)] {
					found = true
				}
				return !found
			})
		}
		return found
	}
	return false
}

// step applies the effect of node n on the tracked set.
func (g *Graph) nnStep(n *Node, s nnSet) nnSet {
	if n.N == nil {
		return s
	}
	out := s
	cloned := false
	mod := func() {
		if !cloned {
			out = s.clone()
			cloned = true
		}
	}
	set := func(o types.Object, v bool) {
		if o == nil {
			return
		}
		if out[o] == v {
			return
		}
		mod()
		if v {
			out[o] = true
		} else {
			delete(out, o)
		}
	}
	switch st := n.N.(type) {
	case *ast.AssignStmt:
		for i, l := range st.Lhs {
			var o types.Object
			switch lx := l.(type) {
			case *ast.Ident:
				if lx.Name == "_" {
					continue
				}
				o = ObjOf(g.Info, lx)
			case *ast.SelectorExpr:
				// x.errField = …: tracked by the field (receiver path ignored)
				if v, ok := g.Info.Uses[lx.Sel].(*types.Var); ok && v.IsField() && IsErrorType(v.Type()) {
					o = v
				}
			}
			if o == nil {
				continue
			}
			// variables of a concrete error type (iErr := &errors.Error{…}) are
			// tracked once they hold a failing value
			fails := len(st.Lhs) == len(st.Rhs) && g.failingExpr(st.Rhs[i], s)
			if fails || s[o] || IsErrorType(o.Type()) {
				set(o, fails)
			}
		}
	case *ast.DeclStmt, *ast.ValueSpec:
		ast.Inspect(n.N, func(y ast.Node) bool {
			if vs, ok := y.(*ast.ValueSpec); ok {
				for i, nm := range vs.Names {
					o := g.Info.Defs[nm]
					if o == nil || !IsErrorType(o.Type()) {
						continue
					}
					if len(vs.Values) == len(vs.Names) {
						set(o, g.failingExpr(vs.Values[i], s))
					} else {
						set(o, false)
					}
				}
			}
			return true
		})
	}
	return out
}

// nnEdge refines the set along a conditional edge; nil means the edge cannot be
// taken (it requires a tracked variable to be nil).
func (g *Graph) nnEdge(e *Edge, s nnSet) nnSet {
	out := s
	cloned := false
	for _, a := range e.Atoms() {
		// a tracked error LIST (errs = append(errs, err)) cannot be empty
		if x, emptyOn, ok := EmptyOn(g.Info, a.X); ok && emptyOn == a.Val && s[ObjOf(g.Info, ast.Unparen(x))] {
			return nil
		}
		be, ok := ast.Unparen(a.X).(*ast.BinaryExpr)
		if !ok || (be.Op != token.NEQ && be.Op != token.EQL) {
			continue
		}
		var side ast.Expr
		switch {
		case IsNilIdent(g.Info, ast.Unparen(be.Y)):
			side = be.X
		case IsNilIdent(g.Info, ast.Unparen(be.X)):
			side = be.Y
		default:
			continue
		}
		o := ObjOf(g.Info, ast.Unparen(side))
		if o == nil || !IsErrorType(o.Type()) {
			continue
		}
		nonNil := (be.Op == token.NEQ) == a.Val
		if !nonNil && s[o] {
			return nil
		}
		if out[o] != nonNil {
			if !cloned {
				out = s.clone()
				cloned = true
			}
			if nonNil {
				out[o] = true
			} else {
				delete(out, o)
			}
		}
	}
	return out
}

// classifies: along e a tracked (known non-nil) error was recognised as one
// specific class — compared equal to a non-nil operand, accepted by a predicate
// call that is handed it (errors.Is, errors.As, IsNotFound, os.IsNotExist …), or
// matched by a case of a `switch err { … }`.
func (g *Graph) classifies(e *Edge, s nnSet) bool {
	mentions := func(x ast.Node) bool {
		found := false
		ast.Inspect(x, func(y ast.Node) bool {
			if id, ok := y.(*ast.Ident); ok && s[ObjOf(g.Info, id)] {
				found = true
			}
			return !found
		})
		return found
	}
	if e.Cond == nil {
		return false
	}
	if e.Tag != nil {
		return e.Branch && mentions(e.Tag) && !IsNilIdent(g.Info, ast.Unparen(e.Cond))
	}
	for _, a := range e.Atoms() {
		switch x := ast.Unparen(a.X).(type) {
		case *ast.BinaryExpr:
			if x.Op != token.EQL && x.Op != token.NEQ {
				continue
			}
			l, r := ast.Unparen(x.X), ast.Unparen(x.Y)
			if IsNilIdent(g.Info, l) || IsNilIdent(g.Info, r) {
				continue
			}
			li, lok := l.(*ast.Ident)
			ri, rok := r.(*ast.Ident)
			if !((lok && s[ObjOf(g.Info, li)]) || (rok && s[ObjOf(g.Info, ri)])) {
				continue
			}
			if (x.Op == token.EQL) == a.Val {
				return true
			}
		case *ast.CallExpr:
			if !a.Val {
				continue
			}
			if t := g.Info.TypeOf(x); t == nil || !types.Identical(t.Underlying(), types.Typ[types.Bool]) {
				continue
			}
			for _, arg := range x.Args {
				if mentions(arg) {
					return true
				}
			}
		}
	}
	return false
}

// exitFails: the exit x reports failure given the tracked set.
func (g *Graph) exitFails(x *Node, s nnSet) bool {
	if x.Kind == KPanic {
		return true
	}
	idx := errResultIndex(g.Sig)
	if idx < 0 || x.Kind == KFallOff {
		return false
	}
	rs, ok := x.N.(*ast.ReturnStmt)
	if !ok {
		return false
	}
	switch {
	case len(rs.Results) == 0:
		return s[g.Sig.Results().At(idx)]
	case len(rs.Results) == g.Sig.Results().Len():
		return g.failingExpr(rs.Results[idx], s)
	}
	return false // return f() forwarding a tuple: may succeed
}

// FailuresSwallowed returns (number of calls of class d with a located error
// test or direct forward, swallowing paths).
func FailuresSwallowed(f *Func, d Matcher) (int, []Swallow) {
	g := f.Graph()
	if errResultIndex(g.Sig) < 0 {
		return 0, nil
	}
	sites := 0
	var out []Swallow
	var errVars []types.Object
	ast.Inspect(f.Decl, func(y ast.Node) bool {
		if id, ok := y.(*ast.Ident); ok {
			if o := g.Info.Defs[id]; o != nil && IsErrorType(o.Type()) {
				if _, isVar := o.(*types.Var); isVar {
					errVars = append(errVars, o)
				}
			}
		}
		return true
	})
	for _, c := range g.directCalls(d) {
		if idx, _ := returnsError(g.Info, c); idx < 0 {
			continue
		}
		nd := g.NodeOf(c)
		if nd == nil {
			continue
		}
		if rs, ok := nd.N.(*ast.ReturnStmt); ok {
			fwd := false
			for _, e := range rs.Results {
				if ast.Unparen(e) == ast.Expr(c) {
					fwd = true
				}
			}
			if fwd {
				sites++
				continue
			}
		}
		fail, _, ok := g.ErrEdges(nd)
		if !ok {
			continue
		}
		v := g.errVarAssigned(nd)
		sites++
		type state struct {
			n *Node
			k string
		}
		seen := map[state]bool{}
		bad := map[*Node]bool{}
		var visit func(n *Node, s nnSet)
		budget := 40000
		visit = func(n *Node, s nnSet) {
			st := state{n, s.key()}
			if seen[st] || budget <= 0 {
				return
			}
			budget--
			seen[st] = true
			if len(n.Succ) == 0 {
				if !g.exitFails(n, s) {
					bad[n] = true
				}
				return
			}
			s2 := g.nnStep(n, s)
			for _, e := range n.Succ {
				if g.classifies(e, s2) {
					// the branch on which the failure was recognised as one specific
					// class (err == ErrX, errors.Is(err, X), IsNotFound(err), case ErrX):
					// what happens there is a decision about that class, not a swallow
					continue
				}
				if s3 := g.nnEdge(e, s2); s3 != nil {
					visit(e.To, s3)
				}
			}
		}
		init := nnSet{v: true}
		// error variables already known non-nil where the call is made (the call
		// sits inside the failure branch of an earlier test, e.g. cleanup code)
		for _, o := range errVars {
			if o != v && g.onlyViaFail(nd, o) {
				init[o] = true
			}
		}
		visit(fail.To, g.nnEdge(fail, init))
		var xs []*Node
		for x := range bad {
			xs = append(xs, x)
		}
		sort.Slice(xs, func(i, j int) bool { return xs[i].ID < xs[j].ID })
		for _, x := range xs {
			out = append(out, Swallow{Call: c, Exit: x})
		}
	}
	return sites, out
}

// RuleFailurePropagates: every failure of a call of class d in f makes f fail,
// except for the callees named in except (callee name → reason).
// min is the number of call sites confirmed by reading (lower bound).
func RuleFailurePropagates(r *Report, f *Func, rule, dName string, d Matcher, except map[string]string, min int) bool {
	if f == nil {
		return false
	}
	r.Saw(f)
	n, sw := FailuresSwallowed(f, d)
	if n < min {
		r.Bad(rule, f.String(), dName+":count", f.Pos(), fmt.Sprintf("found %d tested/forwarded call(s) of %s, confirmed by reading: >= %d — the rule would pass vacuously", n, dName, min))
		return false
	}
	ok := true
	seen := map[string]bool{}
	for _, s := range sw {
		cn := FName(Callee(f.Info(), s.Call))
		if seen[cn] {
			continue
		}
		seen[cn] = true
		if why, exempt := except[cn]; exempt {
			r.Ok(rule, f.String(), f.Prog.Pos(s.Call.Pos()), "failure of "+cn+" deliberately not propagated: "+why)
			continue
		}
		ok = false
		r.Bad(rule, f.String(), cn+":failure-swallowed", f.Prog.Pos(s.Call.Pos()), "a failure of "+cn+" can reach the exit at "+f.Graph().Line(s.Exit)+" on which the function reports success")
	}
	for cn := range except {
		if !seen[cn] {
			r.Note("%s: exception %q of rule %s no longer needed (the failure propagates or the call is gone)", f.String(), cn, rule)
		}
	}
	if ok {
		r.Ok(rule, f.String(), f.Pos(), fmt.Sprintf("%d call(s) of %s: every failure makes the function fail", n, dName))
	}
	return ok
}
