package core

import (
	"fmt"
	"go/ast"
	"go/constant"
	"go/token"
	"go/types"
	"sort"
	"strings"

	"golang.org/x/tools/go/cfg"
	"golang.org/x/tools/go/packages"
)

// Helpers added for the C07/C11/C12 rule sets (rw9).
//
//   - Eval9: constant folding of an expression under bindings of variables to
//     constants (go/types only folds expressions that are constant by themselves).
//   - FlowVar9: path-sensitive exploration of a CFG for ONE variable with a known
//     concrete value (a 4-bit header tag): conditions that can be folded select
//     one branch, the others both.
//   - natural loops + progress (E8): every cycle through a loop head writes one
//     of the variables the loop's exit tests read.
//   - PanicReach9: explicit panic calls reachable in the static call graph of
//     the loaded module packages (interface calls resolved conservatively to
//     every implementing method, referenced function values treated as called).
//   - small table helpers over composite literals of package-level variables.

// ---------------------------------------------------------------- Eval9

// Env9 binds variables to constant values.
type Env9 map[types.Object]constant.Value

func basicOf(t types.Type) *types.Basic {
	if t == nil {
		return nil
	}
	b, _ := t.Underlying().(*types.Basic)
	return b
}

// truncate9 wraps an integer constant to the width of the basic integer type t.
func truncate9(v constant.Value, t types.Type) constant.Value {
	b := basicOf(t)
	if b == nil || v.Kind() != constant.Int {
		return v
	}
	bits := 0
	unsigned := false
	switch b.Kind() {
	case types.Uint8:
		bits, unsigned = 8, true
	case types.Uint16:
		bits, unsigned = 16, true
	case types.Uint32:
		bits, unsigned = 32, true
	case types.Uint64, types.Uint, types.Uintptr:
		bits, unsigned = 64, true
	case types.Int8:
		bits = 8
	case types.Int16:
		bits = 16
	case types.Int32:
		bits = 32
	case types.Int64, types.Int:
		bits = 64
	default:
		return v
	}
	mod := constant.Shift(constant.MakeInt64(1), token.SHL, uint(bits))
	mask := constant.BinaryOp(mod, token.SUB, constant.MakeInt64(1))
	w := constant.BinaryOp(v, token.AND, mask) // two's complement low bits (math/big semantics)
	if !unsigned {
		half := constant.Shift(constant.MakeInt64(1), token.SHL, uint(bits-1))
		if constant.Compare(w, token.GEQ, half) {
			w = constant.BinaryOp(w, token.SUB, mod)
		}
	}
	return w
}

// Eval9 folds e to a constant, treating the variables bound in env as constants.
// ok=false when e reads anything else that is not constant.
func Eval9(info *types.Info, e ast.Expr, env Env9) (val constant.Value, ok bool) {
	defer func() {
		if recover() != nil {
			val, ok = nil, false
		}
	}()
	return eval9(info, e, env)
}

func eval9(info *types.Info, e ast.Expr, env Env9) (constant.Value, bool) {
	e = ast.Unparen(e)
	if tv, has := info.Types[e]; has && tv.Value != nil {
		return tv.Value, true
	}
	switch x := e.(type) {
	case *ast.Ident:
		if o := info.Uses[x]; o != nil {
			if v, has := env[o]; has {
				return v, true
			}
			if c, isC := o.(*types.Const); isC {
				return c.Val(), true
			}
		}
		return nil, false
	case *ast.UnaryExpr:
		v, ok := eval9(info, x.X, env)
		if !ok {
			return nil, false
		}
		switch x.Op {
		case token.NOT:
			if v.Kind() != constant.Bool {
				return nil, false
			}
			return constant.MakeBool(!constant.BoolVal(v)), true
		case token.SUB, token.ADD:
			return truncate9(constant.UnaryOp(x.Op, v, 0), info.TypeOf(x)), true
		case token.XOR:
			if b := basicOf(info.TypeOf(x)); b != nil && b.Info()&types.IsUnsigned != 0 {
				return nil, false
			}
			return constant.UnaryOp(token.XOR, v, 0), true
		}
		return nil, false
	case *ast.BinaryExpr:
		switch x.Op {
		case token.LAND, token.LOR:
			l, lok := eval9(info, x.X, env)
			if lok && l.Kind() == constant.Bool {
				if constant.BoolVal(l) == (x.Op == token.LOR) {
					return l, true // short circuit
				}
				r, rok := eval9(info, x.Y, env)
				if rok && r.Kind() == constant.Bool {
					return r, true
				}
				return nil, false
			}
			// left unknown: the result is known only if the right operand decides it
			r, rok := eval9(info, x.Y, env)
			if rok && r.Kind() == constant.Bool && constant.BoolVal(r) == (x.Op == token.LOR) {
				// `u || true` = true, `u && false` = false — but only if u has no
				// side effects that matter; conditions here are pure reads.
				return r, true
			}
			return nil, false
		}
		l, lok := eval9(info, x.X, env)
		r, rok := eval9(info, x.Y, env)
		if !lok || !rok {
			return nil, false
		}
		switch x.Op {
		case token.EQL, token.NEQ, token.LSS, token.LEQ, token.GTR, token.GEQ:
			return constant.MakeBool(constant.Compare(l, x.Op, r)), true
		case token.SHL, token.SHR:
			n, exact := constant.Uint64Val(r)
			if !exact || n > 4096 {
				return nil, false
			}
			return truncate9(constant.Shift(l, x.Op, uint(n)), info.TypeOf(x)), true
		case token.QUO:
			if constant.Sign(r) == 0 {
				return nil, false
			}
			if l.Kind() == constant.Int && r.Kind() == constant.Int {
				return constant.BinaryOp(l, token.QUO_ASSIGN, r), true
			}
			return constant.BinaryOp(l, token.QUO, r), true
		case token.REM:
			if constant.Sign(r) == 0 {
				return nil, false
			}
			return constant.BinaryOp(l, token.REM, r), true
		case token.ADD, token.SUB, token.MUL, token.AND, token.OR, token.XOR, token.AND_NOT:
			return truncate9(constant.BinaryOp(l, x.Op, r), info.TypeOf(x)), true
		}
		return nil, false
	case *ast.CallExpr:
		// conversion T(x) to a basic type
		if tv, has := info.Types[x.Fun]; has && tv.IsType() && len(x.Args) == 1 {
			v, ok := eval9(info, x.Args[0], env)
			if !ok {
				return nil, false
			}
			if b := basicOf(tv.Type); b != nil && b.Info()&types.IsInteger != 0 && v.Kind() == constant.Int {
				return truncate9(v, tv.Type), true
			}
			if b := basicOf(tv.Type); b != nil && v.Kind() != constant.Int {
				return v, true
			}
		}
		return nil, false
	}
	return nil, false
}

// Int9 returns the int64 value of a constant expression.
func Int9(info *types.Info, e ast.Expr) (int64, bool) {
	v, ok := Eval9(info, e, nil)
	if !ok || v.Kind() != constant.Int {
		return 0, false
	}
	return constant.Int64Val(v)
}

// Uint9 returns the uint64 value of a constant expression.
func Uint9(info *types.Info, e ast.Expr) (uint64, bool) {
	v, ok := Eval9(info, e, nil)
	if !ok || v.Kind() != constant.Int {
		return 0, false
	}
	return constant.Uint64Val(v)
}

// ---------------------------------------------------------------- FlowVar9

// Outcome9 is a sink node reached with the tracked variable holding Val.
type Outcome9 struct {
	Node *Node
	Val  constant.Value
}

// assignsVar9 reports how node n writes variable v: the right-hand side (for a
// plain `v = e` / `v := e`), or opaque=true for any other write (op-assign,
// inc/dec, tuple assignment from a call, taking its address).
func assignsVar9(info *types.Info, n ast.Node, v types.Object) (rhs ast.Expr, opAssign *ast.AssignStmt, opaque bool) {
	is := func(e ast.Expr) bool {
		id, ok := ast.Unparen(e).(*ast.Ident)
		if !ok {
			return false
		}
		return info.Uses[id] == v || info.Defs[id] == v
	}
	switch s := n.(type) {
	case *ast.AssignStmt:
		for i, l := range s.Lhs {
			if !is(l) {
				continue
			}
			if s.Tok == token.ASSIGN || s.Tok == token.DEFINE {
				if len(s.Rhs) == len(s.Lhs) {
					return s.Rhs[i], nil, false
				}
				return nil, nil, true
			}
			if len(s.Lhs) == 1 && len(s.Rhs) == 1 {
				return nil, s, false
			}
			return nil, nil, true
		}
	case *ast.IncDecStmt:
		if is(s.X) {
			return nil, nil, true
		}
	case *ast.DeclStmt:
		if gd, ok := s.Decl.(*ast.GenDecl); ok {
			for _, sp := range gd.Specs {
				vs, ok := sp.(*ast.ValueSpec)
				if !ok {
					continue
				}
				for i, nm := range vs.Names {
					if info.Defs[nm] == v {
						if i < len(vs.Values) {
							return vs.Values[i], nil, false
						}
						return nil, nil, true
					}
				}
			}
		}
	}
	return nil, nil, false
}

var opOfAssign9 = map[token.Token]token.Token{
	token.ADD_ASSIGN: token.ADD, token.SUB_ASSIGN: token.SUB, token.MUL_ASSIGN: token.MUL,
	token.QUO_ASSIGN: token.QUO, token.REM_ASSIGN: token.REM, token.AND_ASSIGN: token.AND,
	token.OR_ASSIGN: token.OR, token.XOR_ASSIGN: token.XOR, token.SHL_ASSIGN: token.SHL,
	token.SHR_ASSIGN: token.SHR, token.AND_NOT_ASSIGN: token.AND_NOT,
}

// FlowVar9 explores g from the start nodes with variable v bound to init.
// Conditions (and tag-switch comparisons) that fold under the binding select a
// single branch; assignments `v = e` that fold rebind v; any other write to v
// makes the result undecided (ok=false). Exploration stops at sink nodes, which
// are returned with the value v holds there; exits lists the function exits
// reached without passing a sink.
func (g *Graph) FlowVar9(start []*Node, v types.Object, init constant.Value, sink NodePred) (sinks []Outcome9, exits []*Node, ok bool, why string) {
	type state struct {
		n   *Node
		val string
	}
	seen := map[state]bool{}
	type item struct {
		n   *Node
		val constant.Value
	}
	var stack []item
	push := func(n *Node, val constant.Value) {
		s := state{n, val.ExactString()}
		if seen[s] {
			return
		}
		seen[s] = true
		stack = append(stack, item{n, val})
	}
	for _, s := range start {
		push(s, init)
	}
	ok = true
	for len(stack) > 0 {
		it := stack[len(stack)-1]
		stack = stack[:len(stack)-1]
		n, val := it.n, it.val
		if sink != nil && sink(n) {
			sinks = append(sinks, Outcome9{n, val})
			continue
		}
		env := Env9{v: val}
		if n.N != nil {
			rhs, opAs, opaque := assignsVar9(g.Info, n.N, v)
			switch {
			case opaque:
				return sinks, exits, false, "opaque write to " + v.Name() + " at " + g.Line(n)
			case rhs != nil:
				nv, eok := Eval9(g.Info, rhs, env)
				if !eok {
					return sinks, exits, false, "cannot fold assignment to " + v.Name() + " at " + g.Line(n)
				}
				val = truncate9(nv, v.Type())
			case opAs != nil:
				r, eok := Eval9(g.Info, opAs.Rhs[0], env)
				if !eok {
					return sinks, exits, false, "cannot fold assignment to " + v.Name() + " at " + g.Line(n)
				}
				op := opOfAssign9[opAs.Tok]
				if op == token.SHL || op == token.SHR {
					k, _ := constant.Uint64Val(r)
					val = truncate9(constant.Shift(val, op, uint(k)), v.Type())
				} else {
					val = truncate9(constant.BinaryOp(val, op, r), v.Type())
				}
			}
			env = Env9{v: val}
		}
		if len(n.Succ) == 0 {
			exits = append(exits, n)
			continue
		}
		for _, e := range n.Succ {
			if e.Cond != nil {
				var c constant.Value
				var cok bool
				if e.Tag != nil {
					t, tok := Eval9(g.Info, e.Tag, env)
					k, kok := Eval9(g.Info, e.Cond, env)
					if tok && kok {
						c, cok = constant.MakeBool(constant.Compare(t, token.EQL, k)), true
					}
				} else {
					c, cok = Eval9(g.Info, e.Cond, env)
				}
				if cok && c.Kind() == constant.Bool && constant.BoolVal(c) != e.Branch {
					continue
				}
			}
			push(e.To, val)
		}
	}
	return sinks, exits, ok, ""
}

// ---------------------------------------------------------------- tables

// PkgVarInit9 returns the package-level variable name of pk and its initialiser.
func PkgVarInit9(pk *packages.Package, name string) (*types.Var, ast.Expr) {
	if pk == nil {
		return nil, nil
	}
	for _, f := range pk.Syntax {
		for _, d := range f.Decls {
			gd, ok := d.(*ast.GenDecl)
			if !ok || gd.Tok != token.VAR {
				continue
			}
			for _, sp := range gd.Specs {
				vs := sp.(*ast.ValueSpec)
				for i, nm := range vs.Names {
					if nm.Name != name {
						continue
					}
					v, _ := pk.TypesInfo.Defs[nm].(*types.Var)
					if i < len(vs.Values) {
						return v, vs.Values[i]
					}
					return v, nil
				}
			}
		}
	}
	return nil, nil
}

// VarInit9 finds the initialiser of the package-level variable obj.
func (p *Prog) VarInit9(obj *types.Var) ast.Expr {
	if obj == nil || obj.Pkg() == nil {
		return nil
	}
	pk := p.All[obj.Pkg().Path()]
	v, init := PkgVarInit9(pk, obj.Name())
	if v != obj {
		return nil
	}
	return init
}

// LitElems9 lists the elements of an array/slice composite literal by index
// (positional and constant-keyed elements). ok=false on a non-constant key.
func LitElems9(info *types.Info, e ast.Expr) (elems []ast.Expr, ok bool) {
	lit, isLit := ast.Unparen(e).(*ast.CompositeLit)
	if !isLit {
		return nil, false
	}
	next := int64(0)
	byIdx := map[int64]ast.Expr{}
	max := int64(-1)
	for _, el := range lit.Elts {
		if kv, isKV := el.(*ast.KeyValueExpr); isKV {
			k, kok := Int9(info, kv.Key)
			if !kok {
				return nil, false
			}
			next = k
			el = kv.Value
		}
		byIdx[next] = el
		if next > max {
			max = next
		}
		next++
	}
	for i := int64(0); i <= max; i++ {
		elems = append(elems, byIdx[i]) // nil = zero value
	}
	return elems, true
}

// StructLitFields9 returns the field values of a struct composite literal by
// field name (positional or keyed).
func StructLitFields9(info *types.Info, e ast.Expr) map[string]ast.Expr {
	lit, isLit := ast.Unparen(e).(*ast.CompositeLit)
	if !isLit {
		return nil
	}
	t := info.TypeOf(lit)
	if t == nil {
		return nil
	}
	st, _ := t.Underlying().(*types.Struct)
	if st == nil {
		return nil
	}
	out := map[string]ast.Expr{}
	for i, el := range lit.Elts {
		if kv, isKV := el.(*ast.KeyValueExpr); isKV {
			if id, ok := kv.Key.(*ast.Ident); ok {
				out[id.Name] = kv.Value
			}
			continue
		}
		if i < st.NumFields() {
			out[st.Field(i).Name()] = el
		}
	}
	return out
}

// FuncRef9 resolves an expression that names a function (identifier or
// pkg.F selector) to its object.
func FuncRef9(info *types.Info, e ast.Expr) *types.Func {
	switch x := ast.Unparen(e).(type) {
	case *ast.Ident:
		f, _ := info.Uses[x].(*types.Func)
		return f
	case *ast.SelectorExpr:
		f, _ := info.Uses[x.Sel].(*types.Func)
		return f
	}
	return nil
}

// IsByteSeq9: t is []byte, [N]byte or *[N]byte.
func IsByteSeq9(t types.Type) bool {
	if t == nil {
		return false
	}
	if p, ok := t.Underlying().(*types.Pointer); ok {
		t = p.Elem()
	}
	var el types.Type
	switch u := t.Underlying().(type) {
	case *types.Slice:
		el = u.Elem()
	case *types.Array:
		el = u.Elem()
	default:
		return false
	}
	b := basicOf(el)
	return b != nil && b.Kind() == types.Uint8
}

// ---------------------------------------------------------------- loops (E8 progress)

// Loop9 is the natural loop of one `for` statement.
type Loop9 struct {
	Stmt  *ast.ForStmt
	Head  *Node          // target of the back edges
	Nodes map[*Node]bool // natural loop (head included)
	// Vars are the loop-variant variables that the loop's termination tests
	// read: the variables of the `for` condition and of the conditions on
	// edges that leave the loop (break / return inside the body); restricted
	// to non-boolean, non-error locals written inside the loop.
	Vars []*types.Var
	// CallDriven: the `for` condition is (contains) a call — termination is
	// decided by that call's side effects, not by a variable.
	CallDriven bool
	// Stuck lists nodes on a cycle head→…→head that writes none of Vars
	// (empty = every iteration makes progress).
	Stuck []*Node
}

// writesVar9 reports whether CFG node n writes local variable v.
func writesVar9(info *types.Info, n ast.Node, v types.Object) bool {
	is := func(e ast.Expr) bool {
		id, ok := ast.Unparen(e).(*ast.Ident)
		return ok && (info.Uses[id] == v || info.Defs[id] == v)
	}
	switch s := n.(type) {
	case *ast.AssignStmt:
		for _, l := range s.Lhs {
			if is(l) {
				return true
			}
		}
	case *ast.IncDecStmt:
		return is(s.X)
	case *ast.RangeStmt:
		return (s.Key != nil && is(s.Key)) || (s.Value != nil && is(s.Value))
	}
	return false
}

func localVarsIn9(info *types.Info, e ast.Node) []*types.Var {
	var out []*types.Var
	seen := map[*types.Var]bool{}
	ast.Inspect(e, func(n ast.Node) bool {
		if _, isLit := n.(*ast.FuncLit); isLit {
			return false
		}
		id, ok := n.(*ast.Ident)
		if !ok {
			return true
		}
		v, ok := info.Uses[id].(*types.Var)
		if !ok || v.IsField() || v.Pkg() == nil || v.Parent() == v.Pkg().Scope() || seen[v] {
			return true
		}
		seen[v] = true
		out = append(out, v)
		return true
	})
	return out
}

func hasCall9(info *types.Info, e ast.Node) bool {
	found := false
	ast.Inspect(e, func(n ast.Node) bool {
		c, ok := n.(*ast.CallExpr)
		if !ok {
			return true
		}
		if tv, has := info.Types[c.Fun]; has && tv.IsType() {
			return true // conversion
		}
		if id, isId := ast.Unparen(c.Fun).(*ast.Ident); isId {
			if _, isB := info.Uses[id].(*types.Builtin); isB {
				return true
			}
		}
		found = true
		return false
	})
	return found
}

// Loops9 returns the natural loop of every `for` statement of the graph
// (range loops always advance and are not listed), with the progress verdict.
func (g *Graph) Loops9() []*Loop9 { return g.Loops9With(nil) }

// SwitchNoMatchEdge9 selects the edge taken when no case of a default-less tag
// switch matches: the false edge of the last case comparison.
func SwitchNoMatchEdge9(e *Edge) bool {
	if e.Tag == nil || e.Branch {
		return false
	}
	for _, o := range e.To.Succ {
		if o.Tag == e.Tag {
			return false // another case comparison of the same switch follows
		}
	}
	// a default clause would be the target; go/cfg marks its block
	if e.To.Block != nil && e.To.Block.Kind == cfg.KindSwitchCaseBody {
		return false
	}
	return true
}

// Loops9With is Loops9 with edges that are to be treated as infeasible
// (removed) when looking for a cycle without progress.
func (g *Graph) Loops9With(ignore EdgePred) []*Loop9 {
	var stmts []*ast.ForStmt
	ast.Inspect(g.Body, func(n ast.Node) bool {
		if _, isLit := n.(*ast.FuncLit); isLit {
			return false
		}
		if fs, ok := n.(*ast.ForStmt); ok {
			stmts = append(stmts, fs)
		}
		return true
	})
	var out []*Loop9
	for _, fs := range stmts {
		// the node every cycle passes: the loop block (condition) when the loop
		// has a condition, otherwise the first node of the body (go/cfg makes
		// the body the back-edge target of a condition-less loop).
		var head *Node
		for _, n := range g.Nodes {
			if n.Block != nil && n.Block.Stmt == fs && n.Block.Kind == cfg.KindForLoop {
				head = n
				break
			}
		}
		if head == nil {
			for _, n := range g.Nodes {
				if n.Block != nil && n.Block.Stmt == fs && n.Block.Kind == cfg.KindForBody {
					head = n
					break
				}
			}
		}
		if head == nil {
			continue // unreachable loop
		}
		l := &Loop9{Stmt: fs, Head: head, Nodes: map[*Node]bool{head: true}}
		// back-edge sources: predecessors of head dominated by head
		notDom := g.ReachFromEntry(func(n *Node) bool { return n == head }, nil)
		var work []*Node
		for _, pe := range head.Pred {
			if !notDom[pe.From] || pe.From == head {
				if !l.Nodes[pe.From] {
					l.Nodes[pe.From] = true
					work = append(work, pe.From)
				}
			}
		}
		for len(work) > 0 {
			n := work[len(work)-1]
			work = work[:len(work)-1]
			for _, pe := range n.Pred {
				if !l.Nodes[pe.From] {
					l.Nodes[pe.From] = true
					work = append(work, pe.From)
				}
			}
		}
		// termination tests
		var conds []ast.Expr
		if fs.Cond != nil {
			conds = append(conds, fs.Cond)
			l.CallDriven = hasCall9(g.Info, fs.Cond)
		}
		{
			for n := range l.Nodes {
				for _, e := range n.Succ {
					if e.Cond != nil && !l.Nodes[e.To] {
						conds = append(conds, e.Cond)
						if e.Tag != nil {
							conds = append(conds, e.Tag)
						}
					}
				}
			}
		}
		seen := map[*types.Var]bool{}
		for _, c := range conds {
			for _, v := range localVarsIn9(g.Info, c) {
				if seen[v] {
					continue
				}
				seen[v] = true
				if b := basicOf(v.Type()); b != nil && b.Info()&types.IsBoolean != 0 {
					continue
				}
				if IsErrorType(v.Type()) {
					continue
				}
				written := false
				for n := range l.Nodes {
					if n.N != nil && writesVar9(g.Info, n.N, v) {
						written = true
						break
					}
				}
				if written {
					l.Vars = append(l.Vars, v)
				}
			}
		}
		sort.Slice(l.Vars, func(i, j int) bool { return l.Vars[i].Pos() < l.Vars[j].Pos() })
		// cycles through head that write none of Vars
		progress := func(n *Node) bool {
			if n.N == nil {
				return false
			}
			for _, v := range l.Vars {
				if writesVar9(g.Info, n.N, v) {
					return true
				}
			}
			return false
		}
		if !progress(head) {
			var starts []*Node
			for _, e := range head.Succ {
				if l.Nodes[e.To] && (ignore == nil || !ignore(e)) {
					starts = append(starts, e.To)
				}
			}
			// forward within the loop, not through progress nodes, not through head
			reach := map[*Node]bool{}
			var st []*Node
			for _, s := range starts {
				if s == head {
					l.Stuck = append(l.Stuck, head)
					continue
				}
				if !progress(s) && !reach[s] {
					reach[s] = true
					st = append(st, s)
				}
			}
			hit := false
			for len(st) > 0 {
				n := st[len(st)-1]
				st = st[:len(st)-1]
				for _, e := range n.Succ {
					if ignore != nil && ignore(e) {
						continue
					}
					if e.To == head {
						hit = true
						l.Stuck = append(l.Stuck, n)
						continue
					}
					if !l.Nodes[e.To] || reach[e.To] || progress(e.To) {
						continue
					}
					reach[e.To] = true
					st = append(st, e.To)
				}
			}
			_ = hit
		}
		out = append(out, l)
	}
	return out
}

// VarNames9 renders a variable list.
func VarNames9(vs []*types.Var) string {
	var s []string
	for _, v := range vs {
		s = append(s, v.Name())
	}
	return strings.Join(s, ",")
}

// ---------------------------------------------------------------- PanicReach9

// PanicSite9 is one explicit panic reachable from an entry point.
type PanicSite9 struct {
	In    *Func
	Pos   token.Pos
	Chain []string // entry … In
}

// ReachResult9 is the outcome of a call-graph traversal.
type ReachResult9 struct {
	Visited  map[*Func][]string // function -> call chain from an entry
	Panics   []PanicSite9
	Dynamic  []string // "func: expr" — calls of function values whose targets are not visible (fields, globals, results)
	External map[string]bool
}

// PanicReach9 walks the static call graph from the entry functions through
// every function declared in a package selected by follow (by import path):
//   - static calls and method calls on concrete receivers: the declared callee;
//   - interface method calls: every method of that name on a named type of a
//     followed package that implements the interface (conservative);
//   - function literals are part of their enclosing function; a named function
//     referenced as a value is treated as called;
//   - calls of function-typed parameters and locals are covered by the two
//     preceding clauses when the value originates in the traversed code; calls
//     of function-typed fields / package variables / call results are listed in
//     Dynamic (undecidable statically, the rule reports them).
//
// Explicit panics = the builtin panic and the log.Panic*/zap Panic family.
func PanicReach9(p *Prog, entries []*Func, follow func(pkgPath string) bool) *ReachResult9 {
	res := &ReachResult9{Visited: map[*Func][]string{}, External: map[string]bool{}}
	// implementers index, built lazily
	var named []*types.Named
	collected := false
	collect := func() {
		if collected {
			return
		}
		collected = true
		for path, pk := range p.All {
			if !follow(path) || pk.Types == nil {
				continue
			}
			sc := pk.Types.Scope()
			for _, nm := range sc.Names() {
				tn, ok := sc.Lookup(nm).(*types.TypeName)
				if !ok || tn.IsAlias() {
					continue
				}
				nt, ok := tn.Type().(*types.Named)
				if !ok || types.IsInterface(nt) || nt.TypeParams().Len() > 0 {
					continue
				}
				named = append(named, nt)
			}
		}
		sort.Slice(named, func(i, j int) bool { return named[i].String() < named[j].String() })
	}
	var queue []*Func
	add := func(f *Func, chain []string) {
		if f == nil || f.Decl.Body == nil {
			return
		}
		if _, ok := res.Visited[f]; ok {
			return
		}
		c := append(append([]string{}, chain...), f.String())
		res.Visited[f] = c
		queue = append(queue, f)
	}
	for _, e := range entries {
		add(e, nil)
	}
	for len(queue) > 0 {
		f := queue[0]
		queue = queue[1:]
		info := f.Info()
		chain := res.Visited[f]
		calledIdents := map[*ast.Ident]bool{}
		ast.Inspect(f.Decl.Body, func(n ast.Node) bool {
			c, ok := n.(*ast.CallExpr)
			if !ok {
				return true
			}
			if tv, has := info.Types[c.Fun]; has && tv.IsType() {
				return true
			}
			if Builtin("panic")(info, c) {
				res.Panics = append(res.Panics, PanicSite9{In: f, Pos: c.Pos(), Chain: chain})
				return true
			}
			fun := ast.Unparen(c.Fun)
			switch x := fun.(type) {
			case *ast.Ident:
				calledIdents[x] = true
			case *ast.SelectorExpr:
				calledIdents[x.Sel] = true
			}
			callee := Callee(info, c)
			if callee == nil {
				// builtin, or call of a function value
				if id, isId := fun.(*ast.Ident); isId {
					if _, isB := info.Uses[id].(*types.Builtin); isB {
						return true
					}
					if v, isV := info.Uses[id].(*types.Var); isV && !v.IsField() && v.Pkg() != nil && v.Parent() != v.Pkg().Scope() {
						return true // parameter / local: value originates in traversed code (literal or referenced func)
					}
				}
				if _, isLit := fun.(*ast.FuncLit); isLit {
					return true
				}
				res.Dynamic = append(res.Dynamic, f.String()+": "+ExprStr(c.Fun))
				return true
			}
			name := FName(callee)
			switch {
			case strings.HasPrefix(name, "log.Panic"), name == "go.uber.org/zap.Logger.Panic", name == "go.uber.org/zap.Logger.DPanic",
				name == "go.uber.org/zap.SugaredLogger.Panic", name == "go.uber.org/zap.SugaredLogger.Panicf":
				res.Panics = append(res.Panics, PanicSite9{In: f, Pos: c.Pos(), Chain: chain})
				return true
			}
			sig, _ := callee.Type().(*types.Signature)
			if sig != nil && sig.Recv() != nil && types.IsInterface(sig.Recv().Type()) {
				// interface dispatch
				iface, _ := sig.Recv().Type().Underlying().(*types.Interface)
				if callee.Pkg() != nil && !follow(callee.Pkg().Path()) {
					// interface declared outside (error, io.Reader, fmt.Stringer …): implementers inside
					// the followed packages are still candidates
				}
				collect()
				for _, nt := range named {
					for _, t := range []types.Type{nt, types.NewPointer(nt)} {
						if iface == nil || !types.Implements(t, iface) {
							continue
						}
						obj, _, _ := types.LookupFieldOrMethod(t, true, callee.Pkg(), callee.Name())
						if m, isM := obj.(*types.Func); isM {
							add(p.FuncOf(m), chain)
						}
						break
					}
				}
				return true
			}
			if callee.Pkg() == nil || !follow(callee.Pkg().Path()) {
				if callee.Pkg() != nil {
					res.External[callee.Pkg().Path()] = true
				}
				return true
			}
			add(p.FuncOf(callee), chain)
			return true
		})
		// function objects referenced as values
		ast.Inspect(f.Decl.Body, func(n ast.Node) bool {
			id, ok := n.(*ast.Ident)
			if !ok || calledIdents[id] {
				return true
			}
			if fo, isF := info.Uses[id].(*types.Func); isF && fo.Pkg() != nil && follow(fo.Pkg().Path()) {
				add(p.FuncOf(fo.Origin()), chain)
			}
			return true
		})
	}
	sort.Strings(res.Dynamic)
	return res
}

// Describe9 renders a panic site.
func (s PanicSite9) Describe9(p *Prog) string {
	return fmt.Sprintf("%s (%s) via %s", s.In.String(), p.Pos(s.Pos), strings.Join(s.Chain, " > "))
}

// IsForLoopHead9: n is the loop block (condition / back-edge target) of a for statement.
func IsForLoopHead9(n *Node) bool {
	return n != nil && n.Block != nil && n.Block.Kind == cfg.KindForLoop
}
