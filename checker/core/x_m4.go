package core

import (
	"go/ast"
	"go/token"
	"go/types"
	"sort"
)

// Helpers added by m4 (C13 / C14 / C17 strengthening).

// M4FailuresSwallowed is FailuresSwallowed on an arbitrary graph of a function —
// in particular the graph of a function literal with an error result (a callback
// handed to walkShards / FileStore.Apply, a local closure): from the non-nil
// branch of the test of an error-returning call of class d no exit of THAT graph
// is reachable on which the literal reports success. root is the syntax the
// graph was built from (error variables are collected there).
func M4FailuresSwallowed(g *Graph, root ast.Node, d Matcher) (int, []Swallow) {
	return failuresSwallowedM4(g, root, d, false)
}

// M4FailuresSwallowedNeg is M4FailuresSwallowed restricted to the calls whose error
// test is written in a negated form (`if !(err != nil)`, `if !(err == nil)`) that
// (*Graph).ErrEdges does not decode — the sites FailuresSwallowed skips.
func M4FailuresSwallowedNeg(g *Graph, root ast.Node, d Matcher) (int, []Swallow) {
	return failuresSwallowedM4(g, root, d, true)
}

// m4FailEdgeOnN is failEdgeOn that sees through leading negations of the condition.
func (g *Graph) m4FailEdgeOnN(e *Edge, obj types.Object) bool {
	if e.Cond == nil || e.Tag != nil {
		return false
	}
	cond, branch := ast.Unparen(e.Cond), e.Branch
	for {
		u, ok := cond.(*ast.UnaryExpr)
		if !ok || u.Op != token.NOT {
			break
		}
		cond, branch = ast.Unparen(u.X), !branch
	}
	x, nonNilOnTrue, ok := NilTest(g.Info, cond)
	if !ok || ObjOf(g.Info, x) != obj {
		return false
	}
	return branch == nonNilOnTrue
}

// M4ErrEdgesN is ErrEdges that also decodes a negated nil test of the error variable.
func (g *Graph) M4ErrEdgesN(n *Node) (fail, succ *Edge, ok bool) {
	v := g.errVarAssigned(n)
	if v == nil {
		return nil, nil, false
	}
	cur := n
	for steps := 0; steps < 6; steps++ {
		if len(cur.Succ) == 2 && cur.Succ[0].Cond != nil && cur != n {
			for _, e := range cur.Succ {
				if g.m4FailEdgeOnN(e, v) {
					fail = e
				} else {
					succ = e
				}
			}
			if fail != nil && succ != nil {
				return fail, succ, true
			}
			return nil, nil, false
		}
		if len(cur.Succ) != 1 {
			return nil, nil, false
		}
		cur = cur.Succ[0].To
	}
	return nil, nil, false
}

func failuresSwallowedM4(g *Graph, root ast.Node, d Matcher, onlyNegated bool) (int, []Swallow) {
	if g == nil || errResultIndex(g.Sig) < 0 {
		return 0, nil
	}
	sites := 0
	var out []Swallow
	var errVars []types.Object
	ast.Inspect(root, func(y ast.Node) bool {
		if id, ok := y.(*ast.Ident); ok {
			if o := g.Info.Defs[id]; o != nil && IsErrorType(o.Type()) {
				if _, isVar := o.(*types.Var); isVar {
					errVars = append(errVars, o)
				}
			}
		}
		return true
	})
	// named error result of the literal
	for _, c := range g.directCalls(d) {
		if idx, _ := returnsError(g.Info, c); idx < 0 {
			continue
		}
		nd := g.NodeOf(c)
		if nd == nil {
			continue
		}
		if rs, ok := nd.N.(*ast.ReturnStmt); ok {
			fwd := false
			for _, e := range rs.Results {
				if ast.Unparen(e) == ast.Expr(c) {
					fwd = true
				}
			}
			if fwd {
				if !onlyNegated {
					sites++
				}
				continue
			}
		}
		if onlyNegated {
			if _, _, plain := g.ErrEdges(nd); plain {
				continue
			}
		}
		fail, _, ok := g.M4ErrEdgesN(nd)
		if !ok {
			continue
		}
		v := g.errVarAssigned(nd)
		sites++
		type state struct {
			n *Node
			k string
		}
		seen := map[state]bool{}
		bad := map[*Node]bool{}
		var visit func(n *Node, s nnSet)
		budget := 40000
		visit = func(n *Node, s nnSet) {
			st := state{n, s.key()}
			if seen[st] || budget <= 0 {
				return
			}
			budget--
			seen[st] = true
			if len(n.Succ) == 0 {
				if !g.exitFails(n, s) {
					bad[n] = true
				}
				return
			}
			s2 := g.nnStep(n, s)
			for _, e := range n.Succ {
				if s3 := g.nnEdge(e, s2); s3 != nil {
					visit(e.To, s3)
				}
			}
		}
		init := nnSet{v: true}
		for _, o := range errVars {
			if o != v && g.onlyViaFail(nd, o) {
				init[o] = true
			}
		}
		visit(fail.To, g.nnEdge(fail, init))
		var xs []*Node
		for x := range bad {
			xs = append(xs, x)
		}
		sort.Slice(xs, func(i, j int) bool { return xs[i].ID < xs[j].ID })
		for _, x := range xs {
			out = append(out, Swallow{Call: c, Exit: x})
		}
	}
	return sites, out
}

// M4ErrEdgesVia is ErrEdgesFwd that additionally follows `…, err := call(…)`
// directly followed by `return …, err` (inside a helper spliced by Inline the
// return continues at the call site, whose nil test is returned; when the return
// leaves the function itself, exit is true).
func (g *Graph) M4ErrEdgesVia(n *Node) (fail, succ *Edge, ok, exit bool) {
	if fail, succ, ok, exit = g.ErrEdgesFwd(n); ok {
		return
	}
	v := g.errVarAssigned(n)
	if v == nil {
		return nil, nil, false, false
	}
	cur := n
	for steps := 0; steps < 3; steps++ {
		if len(cur.Succ) != 1 {
			return nil, nil, false, false
		}
		cur = cur.Succ[0].To
		if cur.N == nil {
			continue
		}
		rs, isRet := cur.N.(*ast.ReturnStmt)
		if !isRet {
			return nil, nil, false, false
		}
		if len(rs.Results) == 0 || ObjOf(g.Info, rs.Results[len(rs.Results)-1]) != v {
			return nil, nil, false, false
		}
		switch len(cur.Succ) {
		case 0:
			return nil, nil, true, true
		case 1:
			next := cur.Succ[0].To
			if next.N != nil && next != cur {
				if fail, succ, ok = g.ErrEdges(next); ok {
					return fail, succ, true, false
				}
			}
		}
		return nil, nil, false, false
	}
	return nil, nil, false, false
}
