package rules

import (
	"fmt"
	"go/ast"
	"go/types"

	"verif/checker/core"
)

// C26 extension (m7): rules derived from the survivors of the generic fault
// enumeration that, by reading, break the property as stated.
//
//   - lock-balance: a Lock/RLock of segment.mu / Queue.mu that is still held when
//     the function returns blocks every later Append / Current / Advance for
//     ever: an appended entry is never delivered.
//   - eof-means-drained: io.EOF from the head segment is the signal on which
//     Queue.Open, Queue.Advance and the scanner DROP the head segment
//     (trim-when-drained). The segment may therefore answer io.EOF only on an
//     edge that established "read position at or behind the end of the data".
//   - every-segment-loaded: Queue.loadSegments may leave out a directory entry
//     only because it is a directory, its name is not a number, or the segment is
//     drained; otherwise entries of a previous run vanish on reopen.
//   - repair-walk (segment.repair): the file is cut only where the walk over the
//     records found damage (a failed read/seek or a record reaching strictly
//     behind the data area), every damage leads to the cut before the footer is
//     rewritten, and the footer is rewritten without a cut only when the walk
//     arrived exactly at the end of the data area.
//   - stage-encoded (segment.append): each time the 8-byte staging array is
//     written to the scratch buffer it was filled by PutUint64 since its previous
//     use; the first with the record length, the last with the head position.
func init() {
	extend("C26", "(8) lock-balance: every Lock/RLock of a mutex field of the package (segment.mu, Queue.mu) is released (directly or by a defer registered after it) on every path before the function returns and before the same mutex is taken again, and every (deferred) Unlock/RUnlock is preceded by its acquisition; "+
		"(9) eof-means-drained: segment.advanceTo, segment.current and segment.newScanner return io.EOF — on which the queue drops the head segment — only on an edge that established position >= / == size-footerSize; "+
		"(10) every-segment-loaded: in Queue.loadSegments an iteration over the directory listing reaches the next one without appending the segment only on the edges IsDir(), failed ParseUint of the name, and segment.empty(); "+
		"(11) repair-walk: in segment.repair File.Truncate cuts at the walk position, which is not re-read between a damage edge and the cut; it is reached only through a damage edge (non-nil error or walk position > size-footerSize, strictly) — directly or through a flag set only on such edges —, from every damage edge and flag store the footer write is not reachable without the Truncate, and without a Truncate the footer write is reached only through the edge walk position == size-footerSize; "+
		"(12) stage-encoded: in segment.append every Buffer.Write of the staging array is preceded, since the array's previous Write, by a PutUint64 into it; the first carries len(b), the last segment.pos; "+
		"(13) trim-drops-head: Queue.trimHead cuts the head off Queue.segments and stores a new head only on the edge len(segments) > 1, and on that edge every exit passes the reslice and then the store head = segments[0]; "+
		"(14) fresh-init-only-when-empty: segment.open sets segment.size to a constant (footer-only file) only on the edge size == 0; "+
		"(15) nil-test-polarity: in no function of the package is a dereference of x (field access, receiver-using method, nil-interface call) reachable from a branch that established x == nil.",
		nil, func(p *core.Prog, r *core.Report, tier string) { m7C26(p, r) })
}

// m7ErrNonNil: the fact "some error-typed expression is non-nil".
func m7ErrNonNil(info *types.Info) core.X1FactPred {
	return core.X1NilFact(info, func(x ast.Expr) bool { return core.IsErrorType(info.TypeOf(x)) }, false)
}

// m7Resolves: e (through conversions and single-definition temporaries of body) satisfies is.
func m7Resolves(info *types.Info, body ast.Node, is func(ast.Expr) bool) func(ast.Expr) bool {
	return func(e ast.Expr) bool {
		e = core.StripConv(info, e)
		if is(e) {
			return true
		}
		x := core.StripConv(info, core.ResolveLocal(info, body, e))
		return x != e && is(x)
	}
}

func m7C26(p *core.Prog, r *core.Report) {
	pk := p.Pkg(dqPkg)
	if pk == nil {
		return
	}
	fSize := core.LookupField(pk.Types, "segment", "size")
	fPos := core.LookupField(pk.Types, "segment", "pos")
	fSegMu := core.LookupField(pk.Types, "segment", "mu")
	fQMu := core.LookupField(pk.Types, "Queue", "mu")
	if !r.Check(fSize != nil && fPos != nil && fSegMu != nil && fQMu != nil, "anchor", dqPkg+".segment.{size,pos,mu}/Queue.mu", "unresolved", "-", "fields resolved") {
		return
	}

	// ---- (8) lock-balance (shared body: acquisitions released, releases preceded by their acquisition)
	m7LockBalance(p, r, "lock-balance", []string{dqPkg}, nil, nil, 60)

	// ---- (15) nil-test-polarity: `if l.tail == nil { return ErrNotOpen }` and friends keep their polarity
	{
		var fs []*core.Func
		for _, f := range p.Funcs(dqPkg) {
			if f.Decl != nil && f.Decl.Body != nil {
				fs = append(fs, f)
			}
		}
		m7NilPolarity(p, r, "nil-test-polarity", fs, nil)
	}

	// ---- (9) eof-means-drained
	var eof types.Object
	if ioPk := p.Pkg("io"); ioPk != nil {
		eof = ioPk.Types.Scope().Lookup("EOF")
	}
	if eof != nil {
		const rule = "eof-means-drained"
		for _, it := range []struct {
			name string
			min  int
		}{{"segment.advanceTo", 2}, {"segment.current", 1}, {"segment.newScanner", 1}} {
			f := r.Need(p, dqPkg, it.name)
			if f == nil {
				continue
			}
			in := f.Inline(dqAnchors)
			g, info := in.G, f.Info()
			par := f.Param(0)
			isPos := m7Resolves(info, f.Decl.Body, func(e ast.Expr) bool {
				e = core.StripConv(info, in.ArgOf(core.StripConv(info, e)))
				if core.FieldOf(info, e) == fPos {
					return true
				}
				return par != nil && types.Identical(par.Type(), fPos.Type()) && core.ObjOf(info, e) == types.Object(par)
			})
			isEnd := m7Resolves(info, f.Decl.Body, func(e ast.Expr) bool { return core.MentionsField(info, e, fSize) })
			drained := core.FactEdgeM7(info, f.Decl.Body, core.X1CmpFact(isPos, isEnd, core.X1GE))
			n := 0
			for _, x := range g.Exits {
				rs, ok := x.N.(*ast.ReturnStmt)
				if !ok || len(rs.Results) == 0 {
					continue
				}
				last := core.ResolveLocal(info, f.Decl.Body, rs.Results[len(rs.Results)-1])
				if !usesObj(info, last, eof) {
					continue
				}
				n++
				r.Check(g.OnlyVia(x, drained), rule, f.String(), "EOF-when-not-drained", g.Line(x),
					"io.EOF (on which Queue.Open / Queue.Advance / the scanner drop the head segment) is returned only on an edge that established position >= size-footerSize: otherwise undelivered entries are trimmed away")
			}
			r.Check(n >= it.min, rule, f.String(), "EOF-return:count", f.Pos(), fmt.Sprintf("%d `return io.EOF` exits (>= %d confirmed by reading)", n, it.min))
		}
	}

	// ---- (10) every-segment-loaded
	if f := r.Need(p, dqPkg, "Queue.loadSegments"); f != nil {
		const rule = "every-segment-loaded"
		info, g := f.Info(), f.Graph()
		var listing types.Object
		for _, n := range g.Select(g.Calling(call("os.ReadDir", "io/ioutil.ReadDir", "os.File.Readdir", "os.File.ReadDir", "os.File.Readdirnames", "path/filepath.Glob"))) {
			if as, ok := n.N.(*ast.AssignStmt); ok && len(as.Lhs) >= 1 {
				listing = core.ObjOf(info, as.Lhs[0])
			}
		}
		var loop *ast.RangeStmt
		for _, rs := range core.X11LoopOver(f.Decl.Body, core.IsObj(info, listing)) {
			loop = rs
		}
		if r.Check(listing != nil && loop != nil, rule, f.String(), "listing-loop:absent", f.Pos(), "loop over the directory listing found") {
			newSeg := call("pkg/durablequeue.newSegment")
			segVar := c38VarFrom(info, loop.Body, newSeg, 0)
			isAcc := func(n *core.Node) bool {
				if n.N == nil || segVar == nil {
					return false
				}
				as, ok := n.N.(*ast.AssignStmt)
				if !ok || len(as.Lhs) != 1 {
					return false
				}
				o := core.ObjOf(info, as.Lhs[0])
				if o == nil {
					return false
				}
				args := rw3AppendTo(info, n.N, func(e ast.Expr) bool { return core.ObjOf(info, e) == o })
				return len(args) == 1 && core.ObjOf(info, args[0]) == segVar
			}
			// named skipping edges (also through a same-package / local boolean predicate)
			just := &core.JustifiedM7{P: p, FailOf: call("strconv.ParseUint"), Calls: []core.CallValM7{
				{M: call("io/fs.DirEntry.IsDir", "os.DirEntry.IsDir", "io/fs.FileInfo.IsDir", "os.FileInfo.IsDir"), Val: true},
				{M: call("pkg/durablequeue.segment.empty"), Val: true},
			}}
			exempt := just.Edge(g)
			if r.Check(len(g.Select(isAcc)) >= 1, rule, f.String(), "accumulate:absent", f.Pos(), "the segment built by newSegment is appended to the list") {
				skips, ok := g.X11IterSkips(loop, isAcc, exempt)
				where := ""
				if len(skips) > 0 {
					where = g.Line(skips[0])
				}
				r.Check(ok && len(skips) == 0, rule, f.String(), "segment-skipped", p.Pos(loop.Pos()),
					"an iteration over the directory listing reaches the next one without appending the segment only on the edges IsDir(), failed ParseUint of the file name, segment.empty(); otherwise entries written by a previous run are not delivered after the reopen "+where)
			}
		}
	}

	// ---- (11) repair-walk
	if f := r.Need(p, dqPkg, "segment.repair"); f != nil {
		const rule = "repair-walk"
		in := f.Inline(dqAnchors)
		g, info := in.G, f.Info()
		filePos := call("pkg/durablequeue.segment.filePos")
		// the walk position: a filePos() call or a local assigned only from filePos()
		isWalk := func(e ast.Expr) bool {
			e = core.StripConv(info, e)
			if c, ok := e.(*ast.CallExpr); ok {
				return filePos(info, c)
			}
			o, ok := core.ObjOf(info, e).(*types.Var)
			if !ok || o.IsField() {
				return false
			}
			_, only := core.X1OnlyFromCall(info, f.Decl.Body, o, filePos, 0)
			return only
		}
		isEnd := m7Resolves(info, f.Decl.Body, func(e ast.Expr) bool { return core.MentionsField(info, e, fSize) })
		damageFact := core.X1AnyFact(m7ErrNonNil(info), core.X1CmpFact(isWalk, isEnd, core.X1GT))
		damage := core.FactEdgeM7(info, f.Decl.Body, damageFact)
		endReached := core.FactEdgeM7(info, f.Decl.Body, core.X1CmpFact(isWalk, isEnd, core.X1EQ))
		truncs := g.Select(g.Calling(fileTruncate))
		footers := g.Select(g.Calling(dqWriteU64))
		if r.Check(len(truncs) >= 1 && len(footers) >= 1 && len(g.Edges(damage)) >= 2 && len(g.Edges(endReached)) >= 1, rule, f.String(), "shape", f.Pos(),
			"File.Truncate, the footer write, damage edges (failed read/seek, record behind the data area) and the end-reached test found") {
			// flags: boolean locals that gate a Truncate
			flagOf := map[*core.Node]types.Object{}
			flags := map[types.Object]bool{}
			ast.Inspect(f.Decl.Body, func(n ast.Node) bool {
				id, ok := n.(*ast.Ident)
				if !ok {
					return true
				}
				v, ok := info.Defs[id].(*types.Var)
				if !ok || v.IsField() {
					return true
				}
				if b, ok := v.Type().Underlying().(*types.Basic); !ok || b.Kind() != types.Bool {
					return true
				}
				on := core.X1BoolEdge(core.X1IsObj(info, v), true)
				for _, t := range truncs {
					if g.OnlyVia(t, on) {
						flagOf[t] = v
						flags[v] = true
					}
				}
				return true
			})
			// stores that may set a flag (anything but the constant false)
			setsFlag := func(n *core.Node) bool {
				as, ok := n.N.(*ast.AssignStmt)
				if !ok {
					return false
				}
				for i, l := range as.Lhs {
					if o := core.ObjOf(info, l); o != nil && flags[o] {
						if len(as.Lhs) == len(as.Rhs) && core.X1IsConstBool(info, as.Rhs[i], false) {
							continue
						}
						return true
					}
				}
				return false
			}
			flagOff := func(e *core.Edge) bool {
				for v := range flags {
					if core.X1BoolEdge(core.X1IsObj(info, v), false)(e) {
						return true
					}
				}
				return false
			}
			isTrunc := g.Calling(fileTruncate)
			isFooter := g.Calling(dqWriteU64)
			// (a) cut only where damage was found
			for _, t := range truncs {
				if flagOf[t] == nil {
					r.Check(g.OnlyVia(t, damage), rule, f.String(), "truncate-without-damage", g.Line(t),
						"the segment file is cut only on a path that found damage (failed read/seek, or a record reaching strictly behind size-footerSize); a cut on any other path removes entries that were appended successfully")
				}
			}
			for _, s := range g.Select(setsFlag) {
				r.Check(g.OnlyVia(s, damage), rule, f.String(), "truncate-flag-without-damage", g.Line(s),
					"the flag that makes repair cut the file is set only on a damage edge (failed read/seek, or a record reaching strictly behind size-footerSize); set anywhere else, intact entries are cut off")
			}
			// (b) damage leads to the cut before the footer is rewritten
			stop := core.AnyOf(isTrunc, setsFlag)
			for _, e := range g.Edges(damage) {
				bad := ""
				for x := range g.Reach([]*core.Node{e.To}, stop, nil) {
					if isFooter(x) {
						bad = g.Line(x)
					}
				}
				r.Check(bad == "", rule, f.String(), "damage-not-truncated", g.Line(e.From),
					"from a damage edge the footer write is not reachable without File.Truncate: a short or garbage tail left in the file is later read as records (bytes that were never appended) and misplaces the next append "+bad)
			}
			for _, s := range g.Select(setsFlag) {
				bad := ""
				for x := range g.Reach(core.After(s, nil), isTrunc, flagOff) {
					if isFooter(x) {
						bad = g.Line(x)
					}
				}
				r.Check(bad == "", rule, f.String(), "flagged-damage-not-truncated", g.Line(s),
					"once the truncate flag is set the footer write is reached only through File.Truncate "+bad)
			}
			// (d) the cut happens at the position where the damage was found: no new walk position is taken in between
			cutVars := map[types.Object]bool{}
			for _, c := range in.AllCalls(fileTruncate) {
				if len(c.Args) == 1 {
					if o := core.ObjOf(info, core.StripConv(info, in.ArgOf(core.StripConv(info, c.Args[0])))); o != nil && isWalk(c.Args[0]) {
						cutVars[o] = true
					}
				}
			}
			if r.Check(len(cutVars) >= 1, rule, f.String(), "cut-position:absent", f.Pos(), "File.Truncate cuts at the walk position (a variable assigned from filePos())") {
				moves := func(n *core.Node) bool {
					for o := range cutVars {
						if g.AssigningObj(o)(n) {
							return true
						}
					}
					return false
				}
				for _, e := range g.Edges(damage) {
					bad := ""
					for x := range g.Reach([]*core.Node{e.To}, isTrunc, nil) {
						if moves(x) {
							bad = g.Line(x)
						}
					}
					r.Check(bad == "", rule, f.String(), "cut-position-moved", g.Line(e.From),
						"between finding the damage and File.Truncate the walk position is not taken again: the file is cut at the start of the damaged record, not somewhere behind it "+bad)
				}
			}
			// (c) without a cut the footer is rewritten only when the walk ended exactly at the end of the data
			reach := g.ReachFromEntry(stop, endReached)
			for _, w := range footers {
				r.Check(!reach[w], rule, f.String(), "footer-before-end", g.Line(w),
					"the footer is rewritten (and the size set to the walk position) only after the walk arrived exactly at size-footerSize or after the damaged tail was cut; leaving the walk earlier drops the remaining entries")
			}
		}
	}

	// ---- (13) trim-drops-head: trimHead drops the head only while another segment remains, and then completely
	if f := r.Need(p, dqPkg, "Queue.trimHead"); f != nil {
		const rule = "trim-drops-head"
		in := f.Inline(dqAnchors)
		g, info := in.G, f.Info()
		fSegs := core.LookupField(pk.Types, "Queue", "segments")
		fHead := core.LookupField(pk.Types, "Queue", "head")
		if r.Check(fSegs != nil && fHead != nil, "anchor", dqPkg+".Queue.{segments,head}", "unresolved", "-", "fields resolved") {
			isLenSegs := func(e ast.Expr) bool {
				c, ok := ast.Unparen(e).(*ast.CallExpr)
				return ok && core.Builtin("len")(info, c) && len(c.Args) == 1 && core.FieldOf(info, c.Args[0]) == fSegs
			}
			more := core.FactEdgeM7(info, f.Decl.Body, core.X1AnyFact(core.X1CmpFact(isLenSegs, core.X1IsIntConst(info, 1), core.X1GT), core.X1CmpFact(isLenSegs, core.X1IsIntConst(info, 2), core.X1GE)))
			// the complementary fact: not followed from a `more` edge (the list is not changed before the reslice)
			fewer := core.FactEdgeM7(info, f.Decl.Body, core.X1AnyFact(core.X1CmpFact(isLenSegs, core.X1IsIntConst(info, 1), core.X1LE), core.X1CmpFact(isLenSegs, core.X1IsIntConst(info, 2), core.X1LT)))
			reslice := func(n *core.Node) bool {
				if !g.Assigning(fSegs)(n) {
					return false
				}
				as, ok := n.N.(*ast.AssignStmt)
				if !ok || len(as.Rhs) != 1 {
					return false
				}
				se, ok := ast.Unparen(as.Rhs[0]).(*ast.SliceExpr)
				return ok && core.FieldOf(info, se.X) == fSegs
			}
			headStore := g.Assigning(fHead)
			rs, hs := g.Select(reslice), g.Select(headStore)
			if r.Check(len(rs) >= 1 && len(hs) >= 1 && len(g.Edges(more)) >= 1, rule, f.String(), "shape", f.Pos(), "the test len(segments) > 1, the reslice of Queue.segments and the store to Queue.head found") {
				for _, n := range append(append([]*core.Node{}, rs...), hs...) {
					r.Check(g.OnlyVia(n, more), rule, f.String(), "drop-without-successor", g.Line(n),
						"the head segment is cut off the list / replaced only on the edge len(segments) > 1: with a single segment the reslice leaves the queue without head and tail")
				}
				for _, e := range g.Edges(more) {
					bad := ""
					for x := range g.Reach([]*core.Node{e.To}, headStore, fewer) {
						if len(x.Succ) == 0 {
							bad = g.Line(x)
						}
					}
					r.Check(bad == "", rule, f.String(), "head-not-moved", g.Line(e.From),
						"when another segment exists every path to the exit stores the new head: a head left on the closed, removed file makes every later read fail and the scanner then force-trims segments that still hold undelivered entries "+bad)
					bad = ""
					for x := range g.Reach([]*core.Node{e.To}, reslice, nil) {
						if headStore(x) {
							bad = g.Line(x)
						}
					}
					r.Check(bad == "", rule, f.String(), "head-before-reslice", g.Line(e.From), "the new head is taken after the old one was cut off the list "+bad)
				}
				for _, n := range hs {
					as, ok := n.N.(*ast.AssignStmt)
					good := false
					if ok && len(as.Lhs) == 1 && len(as.Rhs) == 1 {
						if ix, ok := ast.Unparen(as.Rhs[0]).(*ast.IndexExpr); ok && core.FieldOf(info, ix.X) == fSegs && core.X1IsConstInt(info, ix.Index, 0) {
							good = true
						}
					}
					r.Check(good, rule, f.String(), "new-head-index", g.Line(n), "the new head is the first element of the remaining list")
				}
			}
		}
	}

	// ---- (14) fresh-init-only-when-empty: segment.open declares the file to consist of a footer only when its size is 0
	if f := r.Need(p, dqPkg, "segment.open"); f != nil {
		const rule = "fresh-init-only-when-empty"
		in := f.Inline(dqAnchors)
		g, info := in.G, f.Info()
		isSize := func(e ast.Expr) bool { return core.FieldOf(info, core.StripConv(info, e)) == fSize }
		empty := core.FactEdgeM7(info, f.Decl.Body, core.X1CmpFact(isSize, core.X1IsIntConst(info, 0), core.X1EQ))
		n := 0
		for _, nd := range g.Select(g.Assigning(fSize)) {
			as, ok := nd.N.(*ast.AssignStmt)
			if !ok || len(as.Lhs) != 1 || len(as.Rhs) != 1 || core.ConstVal(info, as.Rhs[0]) == nil {
				continue
			}
			n++
			r.Check(g.OnlyVia(nd, empty), rule, f.String(), "fresh-init-of-nonempty-file", g.Line(nd),
				"segment.size is set to a constant (a file that consists of the footer only, written at offset 0) only on the edge size == 0: on a file with entries this overwrites the first record and forgets all of them")
		}
		r.Check(n >= 1, rule, f.String(), "fresh-init:absent", f.Pos(), "the initialisation of a new, empty segment file found")
	}

	// ---- (12) stage-encoded
	if f := r.Need(p, dqPkg, "segment.append"); f != nil {
		const rule = "stage-encoded"
		in := f.Inline(dqAnchors)
		g, info := in.G, f.Info()
		bufWrite := call("bytes.Buffer.Write")
		put := call("encoding/binary.*.PutUint64", "encoding/binary.PutUvarint")
		// the array behind a slice expression arr[:]
		arrOf := func(e ast.Expr) types.Object {
			e = ast.Unparen(in.ArgOf(ast.Unparen(e)))
			if se, ok := e.(*ast.SliceExpr); ok {
				if v, ok := core.ObjOf(info, se.X).(*types.Var); ok {
					if _, isArr := v.Type().Underlying().(*types.Array); isArr {
						return v
					}
				}
			}
			return nil
		}
		type use struct {
			n   *core.Node
			arr types.Object
		}
		var uses []use
		for _, n := range g.Select(g.Calling(bufWrite)) {
			for _, c := range core.CallsIn(info, n.N, bufWrite, core.WalkOpts{}) {
				if len(c.Args) == 1 {
					if a := arrOf(c.Args[0]); a != nil {
						uses = append(uses, use{n, a})
					}
				}
			}
		}
		fillsOf := func(arr types.Object) core.NodePred {
			return g.X1CallingWith(put, func(c *ast.CallExpr) bool { return len(c.Args) >= 1 && arrOf(c.Args[0]) == arr })
		}
		if r.Check(len(uses) >= 2, rule, f.String(), "staging-writes:count", f.Pos(), fmt.Sprintf("%d writes of the 8-byte staging array to scratch (length and footer: >= 2)", len(uses))) {
			b := f.Param(0)
			var first, last []*core.Node // fills that feed the first / the last staged piece
			for _, u := range uses {
				fills := fillsOf(u.arr)
				others := func(n *core.Node) bool {
					if n == u.n {
						return false
					}
					for _, o := range uses {
						if o.n == n && o.arr == u.arr {
							return true
						}
					}
					return false
				}
				// not reachable from the entry, nor from an earlier use of the array, without a fill
				stale := g.ReachFromEntry(fills, nil)[u.n]
				for _, o := range uses {
					if o.n != u.n && o.arr == u.arr && g.Reach(core.After(o.n, nil), fills, nil)[u.n] {
						stale = true
					}
				}
				r.Check(!stale, rule, f.String(), "stale-staging-array", g.Line(u.n),
					"the staging array written to scratch was filled by PutUint64 since its previous use: otherwise the record length / footer on disk is zero or the previous value and the entry cannot be read back")
				// classify: first use (no other use before it) / last use (no other use after it)
				hasBefore, hasAfter := false, false
				for _, o := range uses {
					if o.n == u.n || o.arr != u.arr {
						continue
					}
					if g.Reach(core.After(o.n, nil), nil, nil)[u.n] {
						hasBefore = true
					}
					if g.Reach(core.After(u.n, nil), nil, nil)[o.n] {
						hasAfter = true
					}
				}
				// the fills that reach this use without another use in between
				for _, fn := range g.Select(fills) {
					if g.Reach(core.After(fn, nil), core.AnyOf(others, fills), nil)[u.n] {
						if !hasBefore {
							first = append(first, fn)
						}
						if !hasAfter {
							last = append(last, fn)
						}
					}
				}
			}
			valOf := func(n *core.Node) ast.Expr {
				for _, c := range core.CallsIn(info, n.N, put, core.WalkOpts{}) {
					if len(c.Args) == 2 {
						return core.StripConv(info, core.ResolveLocal(info, f.Decl.Body, core.StripConv(info, c.Args[1])))
					}
				}
				return nil
			}
			isLenB := func(e ast.Expr) bool {
				c, ok := ast.Unparen(e).(*ast.CallExpr)
				return ok && core.Builtin("len")(info, c) && len(c.Args) == 1 && b != nil && core.ObjOf(info, in.ArgOf(c.Args[0])) == types.Object(b)
			}
			if r.Check(len(first) >= 1 && len(last) >= 1, rule, f.String(), "fills:absent", f.Pos(), "PutUint64 fills feeding the first and the last staged piece found") {
				for _, fn := range first {
					v := valOf(fn)
					r.Check(v != nil && isLenB(v), rule, f.String(), "length-header-value", g.Line(fn), "the first staged piece (the record's length header) encodes len(b)")
				}
				for _, fn := range last {
					v := valOf(fn)
					r.Check(v != nil && core.FieldOf(info, core.StripConv(info, in.ArgOf(v))) == fPos, rule, f.String(), "footer-value", g.Line(fn), "the last staged piece (the new footer) encodes the head position segment.pos")
				}
			}
		}
	}
}
