package rules

import (
	"fmt"
	"go/ast"
	"go/types"

	"verif/checker/core"
)

// C05 strengthening (m2).

func init() {
	extend("C05", "planner-lock-balance: every Lock/RLock of DefaultPlanner.mu and Compactor.mu is released on every path before the function returns or takes the mutex again (PlanLevel/PlanOptimize/Plan read forceFull under RLock and then call acquire, which takes the write lock); "+
		"group-handed-out-once: in the planner functions a group accumulator that was appended to a list of groups is re-initialised (declared anew, assigned, next element of the range) before any further append of it to a list of groups, so no group is put into one plan twice (acquire checks all files before it marks any and would not notice the duplicate).",
		nil, runC05m2)
}

func runC05m2(p *core.Prog, r *core.Report, tier string) {
	pk := p.Pkg(tsm1)
	if pk == nil {
		return
	}
	// ---- lock balance
	{
		const rule = "planner-lock-balance"
		total := 0
		for _, tf := range [][2]string{{"DefaultPlanner", "mu"}, {"Compactor", "mu"}} {
			mu := core.LookupField(pk.Types, tf[0], tf[1])
			if !r.Check(mu != nil, rule, tf[0]+"."+tf[1], "mutex:absent", "-", "mutex field found") {
				continue
			}
			for _, f := range p.Funcs(tsm1) {
				if f.Decl.Body == nil {
					continue
				}
				for _, g := range f.Graphs() {
					n, bad := g.LockBalanceM2(mu)
					total += n
					if n == 0 {
						continue
					}
					for _, b := range bad {
						what := tf[0] + "." + tf[1] + "-held-at-exit"
						detail := tf[0] + "." + tf[1] + " acquired here is still held when the function returns at " + g.Line(b.At)
						if b.Kind == "re-acquired" {
							what = tf[0] + "." + tf[1] + "-re-acquired"
							detail = tf[0] + "." + tf[1] + " acquired here is taken again at " + g.Line(b.At) + " without a release in between (self-deadlock: no plan is ever handed out or released again)"
						}
						r.Bad(rule, f.String(), what, g.Line(b.Lock), detail)
					}
					if len(bad) == 0 {
						r.Ok(rule, f.String(), g.Line(g.Entry), fmt.Sprintf("%d acquisition(s) of %s.%s, each released on every path", n, tf[0], tf[1]))
					}
				}
			}
		}
		r.Check(total >= 15, rule, tsm1, "acquisitions:count", "-", fmt.Sprintf("%d Lock/RLock sites of DefaultPlanner.mu / Compactor.mu examined (>= 15 confirmed by reading)", total))
	}
	// ---- a group is put into a plan once
	{
		const rule = "group-handed-out-once"
		sites := 0
		for _, name := range []string{"DefaultPlanner.Plan", "DefaultPlanner.PlanLevel", "DefaultPlanner.PlanOptimize", "DefaultPlanner.groupAdjacentGenerations"} {
			f := p.Func(tsm1, name)
			if f == nil || f.Decl.Body == nil {
				continue // reported by the base rules
			}
			info := f.Info()
			isGroupList := func(t types.Type) bool {
				s, ok := t.Underlying().(*types.Slice)
				if !ok {
					return false
				}
				_, ok = s.Elem().Underlying().(*types.Slice)
				return ok
			}
			// `R = append(R, X)` with R a list of groups and X a local variable
			groupAppend := func(n *core.Node) types.Object {
				as, ok := n.N.(*ast.AssignStmt)
				if !ok || len(as.Lhs) != 1 || len(as.Rhs) != 1 {
					return nil
				}
				c, ok := ast.Unparen(as.Rhs[0]).(*ast.CallExpr)
				if !ok || !core.Builtin("append")(info, c) || len(c.Args) != 2 || c.Ellipsis.IsValid() {
					return nil
				}
				if t := info.TypeOf(c.Args[0]); t == nil || !isGroupList(t) {
					return nil
				}
				v, ok := core.ObjOf(info, c.Args[1]).(*types.Var)
				if !ok || v.IsField() {
					return nil
				}
				return v
			}
			for _, g := range f.Graphs() {
				for _, a := range g.Nodes {
					x := groupAppend(a)
					if x == nil {
						continue
					}
					sites++
					// re-initialisations of x
					heads := map[*core.Node]bool{}
					ast.Inspect(g.Body, func(n ast.Node) bool {
						if rs, ok := n.(*ast.RangeStmt); ok {
							if (rs.Key != nil && core.ObjOf(info, rs.Key) == x) || (rs.Value != nil && core.ObjOf(info, rs.Value) == x) {
								if h, _, _ := g.LoopNodes(rs); h != nil {
									heads[h] = true
								}
							}
						}
						return true
					})
					reinit := func(n *core.Node) bool {
						if heads[n] {
							return true
						}
						switch s := n.N.(type) {
						case *ast.DeclStmt, *ast.ValueSpec:
							hit := false
							ast.Inspect(s, func(y ast.Node) bool {
								if id, ok := y.(*ast.Ident); ok && info.Defs[id] == x {
									hit = true
								}
								return true
							})
							return hit
						case *ast.AssignStmt:
							for i, l := range s.Lhs {
								if core.ObjOf(info, l) != x {
									continue
								}
								// X = append(X, …) keeps accumulating: not a re-initialisation
								if len(s.Lhs) == len(s.Rhs) {
									if c, ok := ast.Unparen(s.Rhs[i]).(*ast.CallExpr); ok && core.Builtin("append")(info, c) && len(c.Args) > 0 && core.ObjOf(info, c.Args[0]) == x {
										continue
									}
								}
								return true
							}
						}
						return false
					}
					bad := ""
					for n := range g.Reach(core.After(a, nil), reinit, nil) {
						if groupAppend(n) == x {
							bad = g.Line(n)
						}
					}
					r.Check(bad == "", rule, f.String(), x.Name()+":appended-again", g.Line(a),
						"after group "+x.Name()+" was appended to a list of groups it is re-initialised before it can be appended again (same files twice in one plan pass acquire and are handed out as two groups) "+bad)
				}
			}
		}
		r.Check(sites >= 5, rule, tsm1, "sites:count", "-", fmt.Sprintf("%d appends of a group to a list of groups examined (8 on the tree the rule was written for; >= 5 required)", sites))
	}
}
