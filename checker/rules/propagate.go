package rules

import (
	"go/ast"
	"go/types"
	"os"
	"sort"

	"verif/checker/core"
)

// failure-propagates (engine E5b, core/propagate.go), applied as a post-pass to
// the properties whose statement has the form "an ACKNOWLEDGED operation has
// taken effect / survives / is visible": if a step of the operation fails and
// the operation nevertheless returns success, the acknowledgement is false. For
// every function the property's other rules analysed (so the set follows the
// rule tables, it is not a separate list) that has an error result, a failure
// of ANY error-returning call must make the function fail, except for the
// (function, callee) pairs below, each confirmed by reading.
//
// Discovered statistically (3575 tested error calls in the storage, meta, kv,
// tenant, replication and task packages: 104 reach a success exit, i.e. 97 %
// propagate), then every exception was read and frozen here with its reason. A branch on which the
// failure is recognised as one specific class (err == ErrX, errors.Is, IsNotFound(err), case ErrX)
// is a decision about that class and is not followed, so NotFound/EOF tolerances need no entry.

const propagateNote = "failure-propagates: in every analysed function with an error result, a failure of any error-returning call makes the function fail (no success exit reachable from the failure branch, tracking which error variables are known non-nil), except the named (function, callee) pairs that deliberately tolerate a failure."

// every claimed property: the analysed functions are where its mechanism lives,
// and a function that turns a failed step into success falsifies whatever the
// property promises about that function's result
var propagateProps = map[string]bool{
	"C01": true, "C02": true, "C03": true, "C04": true, "C05": true, "C06": true, "C07": true, "C08": true, "C09": true, "C10": true,
	"C11": true, "C12": true, "C13": true, "C14": true, "C15": true, "C16": true, "C17": true, "C18": true, "C19": true, "C20": true,
	"C21": true, "C24": true, "C25": true, "C26": true, "C27": true, "C28": true, "C29": true, "C30": true, "C31": true, "C32": true,
	"C33": true, "C34": true, "C35": true, "C36": true, "C37": true, "C38": true, "C39": true, "C40": true, "C42": true, "C43": true, "C44": true,
}

// "function|callee" → reason (each read in the source)
var propagateExcept = map[string]string{
	"toml.parseByteCount|strconv.ParseUint":                                            "not a plain integer: the input is handed to the suffix-aware parser, whose result (and error) is returned",
	"kit/io.LimitedReadCloser.Close|io.Closer.Close":                                   "an earlier error (limit exceeded, or the error of the first Close) takes precedence and is the non-nil error returned; otherwise the close error is stored in l.err and returned",
	"replications/remotewrite.writer.Write|replications/remotewrite.PostWrite":         "a 400 answer with DropNonRetryableData set deliberately drops the batch; C27 success-means-accepted decides exactly which PostWrite failures may return nil",
	"authorizer.AuthorizeFindUserResourceMappings|authorizer.AuthorizeRead":            "filter: an unauthorised mapping is skipped, not an error (C29 decides the filter)",
	"authorizer.OrgService.FindOrganizations|authorizer.AuthorizeReadGlobal":           "without the global read permission the filter is narrowed to the caller's own user and the result is filtered again",
	"dbrp.Service.Delete|dbrp.Service.FindByID":                                        "documented: deleting a mapping that does not exist is not an error",
	"dbrp.Service.FindMany|..BucketService.FindBuckets":                                "virtual mappings are best-effort: the physical mappings found so far are returned",
	"pkg/durablequeue.Queue.loadSegments|strconv.ParseUint":                            "directory entries whose name is not numeric are not segments and are skipped",
	"pkg/durablequeue.Queue.trimHead|pkg/durablequeue.segment.close":                   "the head segment is dropped from the queue regardless; failing to close the file is logged",
	"pkg/durablequeue.Queue.trimHead|os.Remove":                                        "the head segment is dropped from the queue regardless; failing to remove the file is logged",
	"pkg/durablequeue.segment.open|pkg/durablequeue.segment.readBytes":                 "a short block is repaired (truncate + footer) and the segment re-opened; the re-open's result is returned",
	"pkg/durablequeue.segment.open|l.verifyBlockFn":                                    "a block that fails verification truncates the segment to its start and re-opens it; the re-open's result is returned",
	"pkg/durablequeue.segment.repair|pkg/durablequeue.segment.readUint64":              "a short record-size read marks the tail for truncation, which is the repair",
	"task/backend.NotifyCoordinatorOfExisting|task/backend.TaskService.UpdateTask":     "start-up resume: a task whose latestCompleted cannot be updated is logged and skipped, the others are still scheduled",
	"task/backend.TaskNotifyCoordinatorOfExisting|task/backend.TaskService.UpdateTask": "start-up resume: a task whose latestCompleted cannot be updated is logged and skipped, the others are still scheduled",
	"tsdb.SeriesPartition.openSegments|tsdb.ParseSeriesSegmentFilename":                "directory entries that are not segment files are skipped",
	"tsdb.Shard.closeNoLock|tsdb.Index.Close":                                          "the engine's close error is the one reported; the index handle is kept when its close failed",
	"tsdb.Shard.validateSeriesAndFields|tsdb.Engine.CreateSeriesListIfNotExists":       "a PartialWriteError is turned into the dropped count / reason that WritePoints reports (C40 decides that accounting); every other error returns",
	"tsdb/engine/tsm1.Engine.Digest|os.Open":                                           "a cached digest that cannot be opened is regenerated",
	"tsdb/engine/tsm1.Engine.Open|tsdb.NewMeasurementFieldSet":                         "an unreadable fields.idx is logged and rebuilt from the TSM files and the WAL",
	"tsdb/engine/tsm1.Engine.WritePoints|tsdb/engine/tsm1.Engine.Type":                 "an unknown field type means the field is new: it may be added",
	"tsdb/engine/tsm1.Engine.deleteSeriesRange|tsdb.SeriesFile.FlushSegments":          "the delete has been applied; a failed flush of the series-file segments is logged",
	"tsdb/engine/tsm1.Engine.writeSnapshotAndCommit|tsdb/engine/tsm1.WAL.Remove":       "the snapshot is live in the file store; WAL segments that could not be removed are replayed idempotently and removed by a later snapshot",
	"tsdb/engine/tsm1.FileStore.replace|os.File.Stat":                                  "the modification time is only used for the last-modified statistic",
	"tsdb/engine/tsm1.Tombstoner.Walk|os.File.Read":                                    "a zero-length tombstone file (old bug) is read as an empty v1 file",
	"tsdb/engine/tsm1.removeTmpFilesOnErr|tsdb/engine/tsm1.removeTmpFiles":             "error-path helper: returns the caller's original errors joined with any removal error",
}

func propagatePass(id string, p *core.Prog, r *core.Report) {
	if !propagateProps[id] && os.Getenv("VERIF_PROPAGATE_ALL") == "" {
		return
	}
	const rule = "failure-propagates"
	var fns []*core.Func
	for f := range r.FuncObjs {
		if f.Decl != nil && f.Decl.Body != nil {
			fns = append(fns, f)
		}
	}
	sort.Slice(fns, func(i, j int) bool { return fns[i].String() < fns[j].String() })
	any := func(*types.Info, *ast.CallExpr) bool { return true }
	nf, nc := 0, 0
	for _, f := range fns {
		n, sw := core.FailuresSwallowed(f, any)
		if n == 0 {
			continue
		}
		nf++
		nc += n
		seen := map[string]bool{}
		for _, s := range sw {
			cn := core.FName(core.Callee(f.Info(), s.Call))
			if cn == "" {
				cn = core.Trim(core.ExprStr(s.Call.Fun), 40)
			}
			if seen[cn] {
				continue
			}
			seen[cn] = true
			if why, ok := propagateExcept[f.String()+"|"+cn]; ok {
				r.Ok(rule, f.String(), p.Pos(s.Call.Pos()), "failure of "+cn+" deliberately tolerated: "+why)
				continue
			}
			r.Bad(rule, f.String(), cn+":failure-swallowed", p.Pos(s.Call.Pos()), "a failure of "+cn+" can reach the exit at "+f.Graph().Line(s.Exit)+" on which the function reports success")
		}
		if len(sw) == 0 {
			r.Ok(rule, f.String(), f.Pos(), "every failure of its error-returning calls makes the function fail")
		}
	}
	// the same for (a) call sites whose error is tested by a compound or negated
	// condition (`err != nil && …`, `!(err != nil)`, a test behind another
	// condition) and (b) the error-returning function literals of those functions
	// (C02 and C03 run both with their own exception tables in c02x_m1.go)
	if id != "C02" && id != "C03" {
		nNeg, nLit := 0, 0
		for _, f := range fns {
			report := func(cn, pos, where, exit string) {
				if why, ok := propagateExcept[f.String()+"|"+cn]; ok {
					r.Ok(rule, f.String(), pos, "failure of "+cn+" deliberately tolerated: "+why)
					return
				}
				r.Bad(rule, f.String(), cn+":failure-swallowed", pos, where+" a failure of "+cn+" can reach the exit at "+exit+" on which success is reported")
			}
			name := func(c *ast.CallExpr) string {
				cn := core.FName(core.Callee(f.Info(), c))
				if cn == "" {
					cn = core.Trim(core.ExprStr(c.Fun), 40)
				}
				return cn
			}
			n, sw := core.FailuresSwallowedNeg(f.Graph(), any)
			nNeg += n
			seen := map[string]bool{}
			for _, s := range sw {
				if cn := name(s.Call); !seen[cn] {
					seen[cn] = true
					report(cn, p.Pos(s.Call.Pos()), "on a branch that knows the error to be non-nil", f.Graph().Line(s.Exit))
				}
			}
			n, lsw := core.FailuresSwallowedLits(f, any)
			nLit += n
			for _, s := range lsw {
				if cn := name(s.Call); !seen["lit:"+cn] {
					seen["lit:"+cn] = true
					report(cn, p.Pos(s.Call.Pos()), "inside a function literal", s.G.Line(s.Exit))
				}
			}
		}
		r.Note("failure-propagates: %d further call sites behind compound/negated tests, %d inside error-returning function literals", nNeg, nLit)
	}
	r.Note("failure-propagates: %d functions with an error result, %d tested/forwarded error calls", nf, nc)
}
