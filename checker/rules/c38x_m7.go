package rules

import (
	"go/ast"
	"go/types"

	"verif/checker/core"
)

// C38 extension (m7), from the survivors of the generic fault enumeration that
// break the property as stated:
//
//   - export-file-streamed: for a TSM file that only partly overlaps the export
//     range Engine.filterFileToBackup writes the in-range blocks to a temporary
//     file and streams THAT into the archive. A success exit that does not pass
//     WriteIndex, Flush and StreamRenameFile silently leaves the file's in-range
//     points out of the export.
//   - callback-kept: pkg/tar.Stream may replace the caller's write function only
//     when it is nil; replaced otherwise, Backup loses its since-filter and Export
//     its time-range filter (the export then contains every point).
//   - lock-balance / nil-test-polarity on the functions of the backup / restore
//     path: a shard or file store left locked after a backup or restore makes
//     every later read hang; a nil test with the wrong polarity (Store.BackupShard,
//     Shard.Restore) turns every backup of an existing shard into an error and a
//     missing shard into a nil dereference.
func init() {
	extend("C38", "(8) export-file-streamed: in Engine.filterFileToBackup WriteIndex precedes Flush precedes os.Stat precedes StreamRenameFile, every exit that may report success passes all of them, the temporary file that is written (os.OpenFile → NewTSMWriter) is the one that is stat'ed and streamed, under the original file's name, the caller's relative path and tar writer; "+
		"(9) callback-kept: pkg/tar.Stream assigns to its writeFunc parameter only on the edge writeFunc == nil; "+
		"(10) lock-balance on the functions analysed for this property (Engine.overlay, Shard.Restore, FileStore.CreateSnapshot, …): every Lock/RLock — also through FileStore.wlock — is released on every path before return, every (deferred) release is preceded by its acquisition; "+
		"(11) nil-test-polarity on the same functions and the Store/Shard entry points of backup, restore and export: no dereference of x is reachable from a branch that established x == nil; no index loop runs to i == len(s) while indexing s[i] (Engine.addToIndexFromKey walks the restored keys).",
		nil, func(p *core.Prog, r *core.Report, tier string) { m7C38(p, r) })
}

func m7C38(p *core.Prog, r *core.Report) {
	// ---- (8) export-file-streamed
	if f := r.Need(p, tsm1, "Engine.filterFileToBackup"); f != nil {
		const rule = "export-file-streamed"
		info := f.Info()
		open := call("os.OpenFile")
		newW := call(tsm1 + ".NewTSMWriter")
		wIndex := call(tsm1 + ".TSMWriter.WriteIndex")
		flush := call(tsm1 + ".TSMWriter.Flush")
		stat := call("os.Stat")
		srf := call(tarPk + ".StreamRenameFile")
		// evaluated with same-package helpers and local closures spliced in
		g := f.Inline(core.Or(open, newW, wIndex, flush, stat, srf, call(tsm1+".TSMWriter.*", tsm1+".BlockIterator.*", "os.*"))).G
		core.X4OrderG(r, g, f, rule, []string{"os.OpenFile", "NewTSMWriter", "TSMWriter.WriteIndex", "TSMWriter.Flush", "os.Stat", "tar.StreamRenameFile"}, []core.Matcher{open, newW, wIndex, flush, stat, srf})
		for _, it := range []struct {
			name string
			m    core.Matcher
		}{{"TSMWriter.WriteIndex", wIndex}, {"TSMWriter.Flush", flush}, {"tar.StreamRenameFile", srf}} {
			core.RuleMustPassN(r, f, g, rule, it.name, g.Calling(it.m), nil)
		}
		outVar := c38VarFrom(info, f.Decl.Body, open, 0)
		statVar := c38VarFrom(info, f.Decl.Body, stat, 0)
		oc, nc, sc, rc := c38First(info, f.Decl.Body, open), c38First(info, f.Decl.Body, newW), c38First(info, f.Decl.Body, stat), c38First(info, f.Decl.Body, srf)
		if r.Check(outVar != nil && statVar != nil && oc != nil && nc != nil && sc != nil && rc != nil && len(rc.Args) == 5, rule, f.String(), "shape", f.Pos(), "OpenFile / NewTSMWriter / Stat / StreamRenameFile with named results found") {
			pathVar := c38Arg(info, oc, 0)
			r.Check(c38Arg(info, nc, 0) == outVar, rule, f.String(), "writer-target", p.Pos(nc.Pos()), "the TSM writer writes into the temporary file just created")
			r.Check(pathVar != nil && c38Arg(info, sc, 0) == pathVar && c38Arg(info, rc, 3) == pathVar, rule, f.String(), "streamed-file", p.Pos(rc.Pos()), "the file that is stat'ed and streamed is the temporary file that was written")
			// the temporary file is not the source file
			srcPar := f.X1Param(3)
			derived := false
			for _, as := range core.X1AssignmentsTo(info, f.Decl.Body, pathVar) {
				if as.Rhs != nil && srcPar != nil && core.X1MentionsObj(info, as.Rhs, srcPar) {
					if _, isIdent := ast.Unparen(as.Rhs).(*ast.Ident); !isIdent {
						derived = true
					}
				}
			}
			r.Check(derived, rule, f.String(), "temp-path", p.Pos(oc.Pos()), "the temporary file's path is derived from, and different from, the source file's path")
			nameOK := false
			if nc2, ok := ast.Unparen(rc.Args[1]).(*ast.CallExpr); ok && call("*.Name")(info, nc2) && c38Recv(info, nc2) == types.Object(f.X1Param(1)) && f.X1Param(1) != nil {
				nameOK = true
			}
			r.Check(c38Arg(info, rc, 0) == statVar && nameOK && c38Arg(info, rc, 2) == types.Object(f.X1Param(2)) && c38Arg(info, rc, 4) == types.Object(f.X1Param(6)),
				rule, f.String(), "stream-operands", p.Pos(rc.Pos()), "StreamRenameFile gets the temporary file's FileInfo (its size), the ORIGINAL file's name, the caller's relative path and tar writer")
		}
		c38NoSuccessAfterFailure(r, f, g, rule, "", 6)
	}

	// ---- (9) callback-kept
	if f := r.Need(p, tarPk, "Stream"); f != nil {
		const rule = "callback-kept"
		wf := f.X1Param(3)
		if r.Check(wf != nil, rule, f.String(), "writeFunc:absent", f.Pos(), "write function parameter found") {
			for _, g := range f.Graphs() {
				whenNil := g.NilEdge(core.IsObj(f.Info(), wf), true)
				for _, n := range g.Select(g.AssigningObj(wf)) {
					r.Check(g.OnlyVia(n, whenNil), rule, f.String(), "callback-replaced", g.Line(n),
						"the caller's write function (Backup's since-filter, Export's time-range filter) is replaced by the default only on the edge writeFunc == nil; replaced otherwise, every file is archived unfiltered")
				}
			}
			r.Ok(rule, f.String(), f.Pos(), "stores to the writeFunc parameter examined")
		}
	}

	// ---- (10) + (11) on the functions of the backup / restore path
	only := map[*core.Func]bool{}
	for f := range r.FuncObjs {
		only[f] = true
	}
	for _, nm := range [][2]string{{tsdbP, "Store.BackupShard"}, {tsdbP, "Store.RestoreShard"}, {tsdbP, "Store.ExportShard"}, {tsdbP, "Store.ImportShard"},
		{tsdbP, "Shard.Backup"}, {tsdbP, "Shard.Restore"}, {tsdbP, "Shard.Export"}, {tsdbP, "Shard.Import"},
		{tsm1, "Engine.Backup"}, {tsm1, "Engine.Export"}, {tsm1, "Engine.Restore"}, {tsm1, "Engine.Import"}, {tsm1, "Engine.overlay"}, {tsm1, "Engine.CreateSnapshot"}} {
		if f := p.Func(nm[0], nm[1]); f != nil {
			only[f] = true
		}
	}
	m7LockBalance(p, r, "lock-balance", []string{tsdbP, tsm1}, only, nil, 8)
	var fs []*core.Func
	for f := range only {
		if f.Decl != nil && f.Decl.Body != nil {
			fs = append(fs, f)
		}
	}
	m7NilPolarity(p, r, "nil-test-polarity", fs, nil)
	m7LoopBound(p, r, "index-loop-bound", fs)
}
