package rules

import (
	"fmt"
	"go/ast"
	"go/constant"
	"go/token"
	"go/types"

	"verif/checker/core"
)

// C40 extension (m3), written from the survivors of the generic fault enumeration.
//
// The accounting rules of c40.go decide that every iteration keeps XOR counts a
// point. They do not decide WHICH of the two happens, nor that the loops run to
// their end, nor that the filtered batch is written at all. The rules below add
// those necessary conditions:
//
//	every-point-visited      no early exit from the two loops over the batch / the field loop
//	rejected-point-not-kept  keep only behind `verdict == nil || Dropped == 0`, discard only behind `Dropped >= 1`
//	reject-gates             each rejection reason: keep only on the edge that establishes "valid",
//	                         count only on an edge that establishes "invalid"
//	every-field-validated    a field bypasses CreateFieldIfNotExists only as "time" / unknown type
//	too-long-rejected        decision row !skip && string && len > max  =>  rejecting return
//	reject-only-on-error     after CreateFieldIfNotExists a rejecting return only behind err != nil
//	success-passes-engine    Shard.WritePoints reports success only after Engine.WritePoints
//	index-error-accounted    a failure of CreateSeriesListIfNotExists either fails the call or adds its Dropped
//	verdict-deref-guarded    the validator's *PartialWriteError is dereferenced only behind a non-nil test
func init() {
	extend("C40", "every-point-visited: the two loops of Shard.validateSeriesAndFields over the batch and the field loop of ValidateAndCreateFields have no early exit (break / goto): they end by exhaustion or by a return; "+
		"rejected-point-not-kept: after ValidateAndCreateFields the point is kept only behind an edge establishing `no PartialWriteError` or `Dropped == 0`, and an iteration ends without keeping it only behind `Dropped >= 1`; "+
		"reject-gates: in the series loop the keep statement lies behind `tags.Get(TimeBytes) == nil` and behind `!validateKeys || ValidKeyTokens(…)`, in the field loop behind `validField`; every increment of the dropped counter lies behind the complementary edge of one of these tests (or `Dropped >= 1` of the validator); validField becomes true only on the edge where a field key differs from \"time\" and the scan for a valid field is left early only after that assignment; "+
		"every-field-validated: in ValidateAndCreateFields an iteration of the field loop that does not return passes CreateFieldIfNotExists unless it took the edge `field key == \"time\"` or `data type == Unknown`; "+
		"too-long-rejected: evaluated on the row (size validation on, string field, length > MaxFieldValueLength) every path of an iteration ends in a rejecting return before CreateFieldIfNotExists; "+
		"reject-only-on-error: after CreateFieldIfNotExists a rejecting return is reachable only through an edge establishing err != nil / errors.Is(err, …); "+
		"success-passes-engine: every success exit of Shard.WritePoints passes Engine.WritePoints; "+
		"index-error-accounted: from the failure edge of CreateSeriesListIfNotExists every exit that does not return that error passes an addition of the error's Dropped to the dropped counter; "+
		"success-returns-batch: every exit of Shard.validateSeriesAndFields that may report success hands back the (filtered) batch, never nil; "+
		"verdict-deref-guarded: the *PartialWriteError returned by the validator is dereferenced only behind a test that it is not nil.",
		nil, func(p *core.Prog, r *core.Report, tier string) {
			m3C40Loops(p, r)
			m3RejectedNotKept(p, r, true)
			m3RejectGates(p, r)
			m3EveryFieldValidated(p, r)
			m3TooLongRow(p, r)
			m3RejectOnlyOnError(p, r)
			m3SuccessPassesEngine(p, r)
			m3IndexErrorAccounted(p, r)
			m3VerdictDeref(p, r)
			m3SuccessReturnsBatch(p, r)
		})
	extend("C10", "every-field-validated (shared with C40): in ValidateAndCreateFields a field bypasses CreateFieldIfNotExists (the type check) only on the edge `field key == \"time\"` or `data type == Unknown`.",
		nil, func(p *core.Prog, r *core.Report, tier string) { m3EveryFieldValidated(p, r) })
}

func m3C40Loops(p *core.Prog, r *core.Report) {
	const rule = "every-point-visited"
	if f := r.Need(p, tsdbP, "Shard.validateSeriesAndFields"); f != nil {
		m3NoEarlyExit(p, r, rule, tsdbP, "Shard.validateSeriesAndFields", 2, m3RangeOverParam(func() *types.Var { return f.Param(0) }, "the points of the batch"))
	}
	m3NoEarlyExit(p, r, rule, tsdbP, "ValidateAndCreateFields", 1, m3ForCalling(call("models.FieldIterator.Next"), "the fields of the point"))
}

// m3DroppedCounter: the local variable that feeds PartialWriteError.Dropped in f.
func m3DroppedCounter(f *core.Func) types.Object {
	info := f.Info()
	droppedF := core.LookupField(f.Pkg.Types, "PartialWriteError", "Dropped")
	var out types.Object
	n := 0
	ast.Inspect(f.Decl.Body, func(x ast.Node) bool {
		cl, ok := x.(*ast.CompositeLit)
		if !ok || !rw3IsNamed(info.TypeOf(cl), tsdbP, "PartialWriteError") {
			return true
		}
		if v := rw3LitField(info, cl, droppedF); v != nil {
			if o, ok := core.ObjOf(info, v).(*types.Var); ok && !o.IsField() && o != out {
				out = o
				n++
			}
		}
		return true
	})
	if n != 1 {
		return nil
	}
	return out
}

func m3IsIncrOf(info *types.Info, n *core.Node, counter types.Object) bool {
	switch s := n.N.(type) {
	case *ast.IncDecStmt:
		return s.Tok == token.INC && core.ObjOf(info, s.X) == counter
	case *ast.AssignStmt:
		if len(s.Lhs) == 1 && len(s.Rhs) == 1 && core.ObjOf(info, s.Lhs[0]) == counter {
			if s.Tok == token.ADD_ASSIGN {
				return true
			}
			if be, ok := ast.Unparen(s.Rhs[0]).(*ast.BinaryExpr); ok && s.Tok == token.ASSIGN && be.Op == token.ADD {
				return core.ObjOf(info, be.X) == counter || core.ObjOf(info, be.Y) == counter
			}
		}
	}
	return false
}

// ---------------------------------------------------------------------------
// reject-gates
// ---------------------------------------------------------------------------

type m3Gate struct {
	name           string
	valid, invalid core.CondFact
	seen           *bool
}

func m3RejectGates(p *core.Prog, r *core.Report) {
	const rule = "reject-gates"
	f := r.Need(p, tsdbP, "Shard.validateSeriesAndFields")
	if f == nil {
		return
	}
	info, g, name, body := f.Info(), f.Graph(), f.String(), f.Decl.Body
	batch := f.Param(0)
	counter := m3DroppedCounter(f)
	timeBytes := rw3PkgVar(p, tsdbP, "TimeBytes")
	vkF := core.LookupField(f.Pkg.Types, "Config", "ValidateKeys")
	droppedF := core.LookupField(f.Pkg.Types, "PartialWriteError", "Dropped")
	if !r.Check(batch != nil && counter != nil && timeBytes != nil && vkF != nil && droppedF != nil, rule, name, "anchors", f.Pos(), "batch parameter, dropped counter, tsdb.TimeBytes and Config.ValidateKeys resolved") {
		return
	}
	resolve := func(e ast.Expr) ast.Expr { return ast.Unparen(core.ResolveLocal(info, body, e)) }
	isKeep := func(n *core.Node) bool {
		s, ok := n.N.(*ast.AssignStmt)
		if !ok {
			return false
		}
		for _, l := range s.Lhs {
			if ix, ok := ast.Unparen(l).(*ast.IndexExpr); ok && core.ObjOf(info, ix.X) == types.Object(batch) {
				return true
			}
		}
		return false
	}
	isDrop := func(n *core.Node) bool { return n.N != nil && m3IsIncrOf(info, n, counter) }

	// --- the tests
	isTimeTag := func(x ast.Expr) bool { // tags.Get(TimeBytes), possibly through a single-definition local
		c := core.AsCall(info, resolve(x), call("models.Tags.Get"))
		return c != nil && len(c.Args) == 1 && rw3Uses(info, c.Args[0], timeBytes)
	}
	var sawTag, sawUni, sawVF bool
	tagNil := func(isNil bool) core.CondFact {
		return func(a ast.Expr, v bool) bool {
			x, nonNilOnTrue, ok := core.NilTest(info, a)
			if !ok || !isTimeTag(x) {
				return false
			}
			sawTag = true
			return (v == nonNilOnTrue) != isNil
		}
	}
	isValidateKeys := func(a ast.Expr) bool { return core.FieldOf(info, resolve(a)) == vkF }
	uniValid := func(a ast.Expr, v bool) bool { // validation off, or the key tokens are valid
		if isValidateKeys(a) {
			return !v
		}
		if c := core.AsCall(info, a, call("models.ValidKeyTokens")); c != nil {
			sawUni = true
			return v
		}
		return false
	}
	uniInvalid := func(a ast.Expr, v bool) bool {
		if c := core.AsCall(info, a, call("models.ValidKeyTokens")); c != nil {
			sawUni = true
			return !v
		}
		return false
	}

	// the loops over the batch
	type loopT struct {
		l     *rw3Loop
		label string
	}
	var loops []loopT
	for _, s := range rw3TopLoops(body) {
		rs, ok := s.(*ast.RangeStmt)
		if !ok || core.ObjOf(info, rs.X) != types.Object(batch) {
			continue
		}
		l := rw3FindLoop(g, rs)
		if l == nil {
			continue
		}
		switch {
		case len(core.AllCalls(info, l.Body, call("tsdb.ValidateAndCreateFields"))) > 0:
			loops = append(loops, loopT{l, "field-loop"})
		case len(core.AllCalls(info, l.Body, call("models.Point.Tags"))) > 0:
			loops = append(loops, loopT{l, "series-loop"})
		}
	}
	if !r.Check(len(loops) == 2, rule, name, "batch-loops:count", f.Pos(), fmt.Sprintf("%d loop(s) over the batch recognised (series loop and field loop)", len(loops))) {
		return
	}
	for _, lt := range loops {
		l := lt.l
		var gates []m3Gate
		var vfObj types.Object
		if lt.label == "series-loop" {
			gates = []m3Gate{
				{"time-tag", tagNil(true), tagNil(false), &sawTag},
				{"key-unicode", uniValid, uniInvalid, &sawUni},
			}
		} else {
			// validField: the boolean local set to true inside a nested field scan
			for _, n := range g.Nodes {
				as, ok := n.N.(*ast.AssignStmt)
				if !ok || !l.In(n) || len(as.Lhs) != 1 || len(as.Rhs) != 1 {
					continue
				}
				if v, isB := core.ConstBool(info, as.Rhs[0]); isB && v {
					if o, ok := core.ObjOf(info, as.Lhs[0]).(*types.Var); ok && !o.IsField() {
						if inner := m3InnermostLoop(f, g, n); inner != nil && inner.Stmt != l.Stmt {
							vfObj = o
						}
					}
				}
			}
			if !r.Check(vfObj != nil, rule, name, "field-loop:valid-field-flag:absent", p.Pos(l.Stmt.Pos()), "a flag is set when the scan of the point's fields finds a field other than \"time\"") {
				continue
			}
			vf := func(val bool) core.CondFact {
				return func(a ast.Expr, v bool) bool {
					if core.ObjOf(info, a) == vfObj {
						sawVF = true
						return v == val
					}
					return false
				}
			}
			gates = []m3Gate{{"missing-field", vf(true), vf(false), &sawVF}}
			// the validator verdict (rule rejected-point-not-kept decides the keep side)
			var pwe types.Object
			for _, vn := range g.Select(g.Calling(call("tsdb.ValidateAndCreateFields"))) {
				if as, ok := vn.N.(*ast.AssignStmt); ok && len(as.Lhs) == 2 {
					pwe = core.ObjOf(info, as.Lhs[1])
				}
			}
			if pwe != nil {
				isDroppedOfVerdict := func(x ast.Expr) bool {
					s, ok := ast.Unparen(x).(*ast.SelectorExpr)
					return ok && core.FieldOf(info, s) == droppedF && core.ObjOf(info, s.X) == pwe
				}
				t := true
				gates = append(gates, m3Gate{"validator-verdict", nil, func(a ast.Expr, v bool) bool {
					return core.QtyAtomM3(info, a, v, isDroppedOfVerdict, false)
				}, &t})
			}
		}
		var keeps, drops []*core.Node
		for _, n := range g.Nodes {
			if !l.In(n) {
				continue
			}
			if isKeep(n) {
				keeps = append(keeps, n)
			}
			if isDrop(n) {
				drops = append(drops, n)
			}
		}
		if !r.Check(len(keeps) >= 1 && len(drops) >= 1, rule, name, lt.label+":keep/count:absent", p.Pos(l.Stmt.Pos()), "the loop keeps points and counts dropped ones") {
			continue
		}
		inIter := func(n *core.Node) bool { return !l.In(n) }
		// pre-pass: which tests occur in the loop at all
		for _, n := range g.Nodes {
			if e, ok := n.N.(ast.Expr); ok && l.In(n) && len(n.Succ) == 2 {
				for _, a := range core.Atoms(e) {
					for _, gt := range gates {
						if gt.valid != nil {
							gt.valid(a, true)
						}
						gt.invalid(a, true)
					}
				}
			}
		}
		// keep side
		for _, gt := range gates {
			if gt.valid == nil {
				continue
			}
			reach := g.Reach([]*core.Node{l.Entry}, inIter, core.EdgeEstablishingM3(info, body, gt.valid))
			bad := false
			for _, k := range keeps {
				if reach[k] {
					bad = true
				}
			}
			if !*gt.seen {
				r.Bad(rule, name, lt.label+":"+gt.name+":test:absent", p.Pos(l.Stmt.Pos()), "the test of this rejection reason was not found in the loop")
				continue
			}
			if bad {
				r.Bad(rule, name, lt.label+":"+gt.name+":invalid-point-kept", g.Line(keeps[0]), "the point is kept on a path that does not establish that it passes the "+gt.name+" test: a point that must be rejected is stored")
			} else {
				r.Ok(rule, name+":"+lt.label+":"+gt.name+":keep", g.Line(keeps[0]), "keep lies behind the edge on which the point passes the "+gt.name+" test")
			}
		}
		// count side
		var inv []core.EdgePred
		for _, gt := range gates {
			inv = append(inv, core.EdgeEstablishingM3(info, body, gt.invalid))
		}
		reach := g.Reach([]*core.Node{l.Entry}, inIter, core.AnyEdge(inv...))
		okD := true
		for _, d := range drops {
			if reach[d] {
				okD = false
				r.Bad(rule, name, lt.label+":valid-point-counted", g.Line(d), "the dropped counter is incremented on a path that took none of the edges on which a rejection reason holds: a valid point is rejected")
			}
		}
		if okD {
			r.Ok(rule, name+":"+lt.label+":count", p.Pos(l.Stmt.Pos()), fmt.Sprintf("%d counter increment(s), each behind the edge on which its rejection reason holds", len(drops)))
		}
		// the valid-field flag
		if vfObj != nil {
			isTimeKey := core.CallFact(info, call("bytes.Equal"), false, func(c *ast.CallExpr) bool {
				if len(c.Args) != 2 {
					return false
				}
				a, b := resolve(c.Args[0]), resolve(c.Args[1])
				isKey := func(x ast.Expr) bool { return core.AsCall(info, x, call("models.FieldIterator.FieldKey")) != nil }
				return (isKey(a) && rw3Uses(info, b, timeBytes)) || (isKey(b) && rw3Uses(info, a, timeBytes))
			})
			setTrue := func(n *core.Node) bool {
				as, ok := n.N.(*ast.AssignStmt)
				if !ok || len(as.Lhs) != 1 || len(as.Rhs) != 1 || core.ObjOf(info, as.Lhs[0]) != vfObj {
					return false
				}
				v, isB := core.ConstBool(info, as.Rhs[0])
				return isB && v
			}
			reach := g.Reach([]*core.Node{l.Entry}, inIter, core.EdgeEstablishingM3(info, body, isTimeKey))
			okF := true
			for _, n := range g.Select(setTrue) {
				if reach[n] {
					okF = false
					r.Bad(rule, name, "field-loop:valid-field-flag:polarity", g.Line(n), "the flag `the point has a field other than \"time\"` is set on a path that did not establish bytes.Equal(field key, \"time\") == false")
				}
				// the scan is left early only after the flag was set
				if inner := m3InnermostLoop(f, g, n); inner != nil && inner.Stmt != l.Stmt {
					outs, _ := g.LoopEarlyExitsM3(inner.Stmt, nil)
					noSet := g.Reach([]*core.Node{inner.Entry}, func(x *core.Node) bool { return setTrue(x) || !inner.In(x) }, nil)
					for _, o := range outs {
						if noSet[o] {
							okF = false
							r.Bad(rule, name, "field-loop:field-scan:early-exit", g.Line(o), "the scan for a field other than \"time\" is left before all fields were looked at although no such field was found yet: a point with a \"time\" field and valid fields is rejected as having no field")
						}
					}
				}
			}
			if okF {
				r.Ok(rule, name+":field-loop:valid-field-flag", p.Pos(l.Stmt.Pos()), "set only behind `field key != \"time\"`; the scan ends early only after setting it")
			}
		}
	}
}

// ---------------------------------------------------------------------------
// ValidateAndCreateFields
// ---------------------------------------------------------------------------

type m3Validator struct {
	f      *core.Func
	info   *types.Info
	g      *core.Graph
	loop   *rw3Loop
	create core.NodePred
	reject core.NodePred
}

func m3ValidatorShape(p *core.Prog, r *core.Report, rule string) *m3Validator {
	f := r.Need(p, tsdbP, "ValidateAndCreateFields")
	if f == nil {
		return nil
	}
	info, g := f.Info(), f.Graph()
	droppedF := core.LookupField(f.Pkg.Types, "PartialWriteError", "Dropped")
	var loop *rw3Loop
	for _, s := range rw3TopLoops(f.Decl.Body) {
		if fs, ok := s.(*ast.ForStmt); ok && len(core.AllCalls(info, fs, call("models.FieldIterator.Next"))) > 0 {
			if l := rw3FindLoop(g, fs); l != nil && loop == nil {
				loop = l
			}
		}
	}
	create := g.Calling(call("tsdb.MeasurementFields.CreateFieldIfNotExists"))
	if !r.Check(loop != nil && droppedF != nil && len(g.Select(create)) >= 1, rule, f.String(), "shape", f.Pos(), "field loop and CreateFieldIfNotExists found") {
		return nil
	}
	reject := func(n *core.Node) bool {
		rs, ok := n.N.(*ast.ReturnStmt)
		if !ok || len(rs.Results) != 2 || !loop.In(n) {
			return false
		}
		return !core.IsNilIdent(info, rs.Results[1])
	}
	return &m3Validator{f, info, g, loop, create, reject}
}

func m3EveryFieldValidated(p *core.Prog, r *core.Report) {
	const rule = "every-field-validated"
	v := m3ValidatorShape(p, r, rule)
	if v == nil {
		return
	}
	f, info, g, loop := v.f, v.info, v.g, v.loop
	body := f.Decl.Body
	timeBytes := rw3PkgVar(p, tsdbP, "TimeBytes")
	resolve := func(e ast.Expr) ast.Expr { return ast.Unparen(core.ResolveLocal(info, f.Decl.Body, e)) }
	sawTime, sawUnknown := false, false
	isTime := func(a ast.Expr, val bool) bool {
		c := core.AsCall(info, a, call("bytes.Equal"))
		if c == nil || len(c.Args) != 2 {
			return false
		}
		x, y := resolve(c.Args[0]), resolve(c.Args[1])
		isKey := func(e ast.Expr) bool { return core.AsCall(info, e, call("models.FieldIterator.FieldKey")) != nil }
		if (isKey(x) && rw3Uses(info, y, timeBytes)) || (isKey(y) && rw3Uses(info, x, timeBytes)) {
			sawTime = true
			return val
		}
		return false
	}
	isUnknownConst := func(e ast.Expr) bool {
		c := core.ConstOf(info, e)
		return c != nil && c.Name() == "Unknown" && c.Pkg() != nil && c.Pkg().Name() == "influxql"
	}
	isUnknown := func(a ast.Expr, val bool) bool {
		be, ok := ast.Unparen(a).(*ast.BinaryExpr)
		if !ok || (be.Op != token.EQL && be.Op != token.NEQ) {
			return false
		}
		if isUnknownConst(be.X) || isUnknownConst(be.Y) {
			sawUnknown = true
			return (be.Op == token.EQL) == val
		}
		return false
	}
	exempt := core.EdgeEstablishingM3(info, body, core.AnyFact(isTime, isUnknown))
	// tag-switch form: switch dataType { case influxql.Unknown: continue }
	exemptTag := func(e *core.Edge) bool {
		if e.Tag != nil && e.Branch && isUnknownConst(e.Cond) {
			sawUnknown = true
			return true
		}
		return false
	}
	esc := loop.Escapes(g, v.create, core.AnyEdge(exempt, exemptTag))
	r.Check(sawTime, rule, f.String(), "time-test:absent", f.Pos(), "the field key is compared with \"time\"")
	if len(esc) == 0 {
		r.Ok(rule, f.String(), p.Pos(loop.Stmt.Pos()), "every iteration that does not return passes CreateFieldIfNotExists, except on `key == \"time\"` / `type == Unknown`")
	} else {
		r.Bad(rule, f.String(), "field-not-validated", rw3EscapeWhere(g, loop, v.create, core.AnyEdge(exempt, exemptTag)), "a field can finish its iteration without CreateFieldIfNotExists although it is neither the \"time\" field nor of unknown type: its type is never compared with the schema (a conflicting value is accepted) and it is never created")
	}
	_ = sawUnknown
}

func m3TooLongRow(p *core.Prog, r *core.Report) {
	const rule = "too-long-rejected"
	v := m3ValidatorShape(p, r, rule)
	if v == nil {
		return
	}
	f, info, g, loop := v.f, v.info, v.g, v.loop
	maxC, _ := f.Pkg.Types.Scope().Lookup("MaxFieldValueLength").(*types.Const)
	var skip types.Object
	if sig, ok := f.Obj.Type().(*types.Signature); ok {
		for i := 0; i < sig.Params().Len(); i++ {
			if b, ok := sig.Params().At(i).Type().Underlying().(*types.Basic); ok && b.Kind() == types.Bool {
				skip = sig.Params().At(i)
			}
		}
	}
	if !r.Check(maxC != nil && skip != nil, rule, f.String(), "anchors", f.Pos(), "MaxFieldValueLength and the skip-size-validation parameter resolved") {
		return
	}
	maxV, _ := constant.Int64Val(maxC.Val())
	resolve := func(e ast.Expr) ast.Expr { return ast.Unparen(core.ResolveLocal(info, f.Decl.Body, e)) }
	isMax := func(e ast.Expr) bool { return core.ObjOf(info, e) == types.Object(maxC) }
	sawSkip, sawStr, sawLen := false, false, false
	// abstract value of a size term on the row: length of the string value, or the whole point size
	sizeOf := func(e ast.Expr) (int64, bool) {
		x := resolve(e)
		if c, ok := x.(*ast.CallExpr); ok && core.Builtin("len")(info, c) && len(c.Args) == 1 && len(core.AllCalls(info, c.Args[0], call("models.FieldIterator.StringValue"))) > 0 {
			sawLen = true
			return maxV + 1, true
		}
		if core.AsCall(info, x, call("models.Point.StringSize")) != nil {
			return maxV + 2, true
		}
		return 0, false
	}
	cmp := func(op token.Token, l, rr int64) (bool, bool) {
		switch op {
		case token.GTR:
			return l > rr, true
		case token.GEQ:
			return l >= rr, true
		case token.LSS:
			return l < rr, true
		case token.LEQ:
			return l <= rr, true
		case token.EQL:
			return l == rr, true
		case token.NEQ:
			return l != rr, true
		}
		return false, false
	}
	leaf := func(e ast.Expr) (bool, bool) {
		e = ast.Unparen(e)
		if core.ObjOf(info, e) == skip {
			sawSkip = true
			return false, true // size validation is on
		}
		be, ok := e.(*ast.BinaryExpr)
		if !ok {
			return false, false
		}
		// iter.Type() == models.String
		if be.Op == token.EQL || be.Op == token.NEQ {
			for _, pr := range [][2]ast.Expr{{be.X, be.Y}, {be.Y, be.X}} {
				if core.AsCall(info, resolve(pr[0]), call("models.FieldIterator.Type")) != nil {
					if c := core.ConstOf(info, pr[1]); c != nil && c.Pkg() != nil && c.Pkg().Name() == "models" {
						sawStr = true
						isString := c.Name() == "String"
						return isString == (be.Op == token.EQL), true
					}
				}
			}
		}
		switch {
		case isMax(be.Y):
			if s, ok := sizeOf(be.X); ok {
				return cmp(be.Op, s, maxV)
			}
		case isMax(be.X):
			if s, ok := sizeOf(be.Y); ok {
				return cmp(be.Op, maxV, s)
			}
		}
		return false, false
	}
	stop := func(n *core.Node) bool { return v.create(n) || !loop.In(n) }
	for _, n := range g.Nodes { // pre-pass: which tests occur in the loop at all
		if e, ok := n.N.(ast.Expr); ok && loop.In(n) && len(n.Succ) == 2 {
			for _, a := range core.Atoms(e) {
				leaf(a)
			}
		}
	}
	reach := g.ReachUnderM3([]*core.Node{loop.Entry}, stop, core.LeafResolvingM3(info, f.Decl.Body, leaf), nil)
	var through *core.Node
	nrej := 0
	for _, n := range g.Nodes { // ordered
		if !reach[n] {
			continue
		}
		if stop(n) && through == nil {
			through = n
		}
		if v.reject(n) {
			nrej++
		}
	}
	if !r.Check(sawSkip && sawStr && sawLen, rule, f.String(), "undecided", p.Pos(loop.Stmt.Pos()), "the iteration tests the skip parameter, iter.Type() against models.String and len(iter.StringValue()) against MaxFieldValueLength") {
		return
	}
	if through != nil || nrej == 0 {
		at := p.Pos(loop.Stmt.Pos())
		if through != nil {
			at = g.Line(through)
		}
		r.Bad(rule, f.String(), "too-long-accepted", at, "with size validation on, a string field longer than MaxFieldValueLength can reach CreateFieldIfNotExists / the next iteration without a rejecting return: the oversized value is stored")
	} else {
		r.Ok(rule, f.String(), p.Pos(loop.Stmt.Pos()), fmt.Sprintf("row (validation on, string, len > max): %d rejecting return(s), nothing else reachable", nrej))
	}
}

func m3RejectOnlyOnError(p *core.Prog, r *core.Report) {
	const rule = "reject-only-on-error"
	v := m3ValidatorShape(p, r, rule)
	if v == nil {
		return
	}
	f, info, g, loop := v.f, v.info, v.g, v.loop
	body := f.Decl.Body
	for _, cn := range g.Select(v.create) {
		var errObj types.Object
		if as, ok := cn.N.(*ast.AssignStmt); ok && len(as.Lhs) == 3 && len(as.Rhs) == 1 {
			errObj = core.ObjOf(info, as.Lhs[2])
		}
		if errObj == nil {
			continue // reported by reject-carries-count
		}
		failed := core.EdgeEstablishingM3(info, body, func(a ast.Expr, val bool) bool {
			if x, nonNilOnTrue, ok := core.NilTest(info, a); ok && core.ObjOf(info, x) == errObj {
				return val == nonNilOnTrue
			}
			if c := core.AsCall(info, a, call("errors.Is", "errors.As")); c != nil && len(c.Args) == 2 && core.ObjOf(info, c.Args[0]) == errObj {
				return val
			}
			return false
		})
		reach := g.Reach(core.After(cn, nil), func(n *core.Node) bool { return !loop.In(n) }, failed)
		ok := true
		for _, n := range g.Nodes {
			if reach[n] && v.reject(n) {
				ok = false
				r.Bad(rule, f.String(), "reject-without-error", g.Line(n), "after CreateFieldIfNotExists a rejecting return is reachable without an edge establishing err != nil: a point whose fields all match the schema is rejected")
			}
		}
		if ok {
			r.Ok(rule, f.String(), g.Line(cn), "rejecting returns after CreateFieldIfNotExists lie behind err != nil / errors.Is(err, …)")
		}
	}
}

// ---------------------------------------------------------------------------
// Shard.WritePoints / validateSeriesAndFields
// ---------------------------------------------------------------------------

func m3SuccessPassesEngine(p *core.Prog, r *core.Report) {
	const rule = "success-passes-engine"
	f := r.Need(p, tsdbP, "Shard.WritePoints")
	if f == nil {
		return
	}
	info, g := f.Info(), f.Graph()
	// the filtered batch: nothing to write when it is empty
	var batch types.Object
	for _, vn := range g.Select(g.Calling(call("tsdb.Shard.validateSeriesAndFields"))) {
		if as, ok := vn.N.(*ast.AssignStmt); ok && len(as.Lhs) == 3 {
			batch = core.ObjOf(info, as.Lhs[0])
		}
	}
	empty := func(e *core.Edge) bool { return batch != nil && rw3ZeroEdge(info, e, batch) }
	core.RuleMustPassN(r, f, g, rule, "Engine.WritePoints", g.CallingDeep(call("tsdb.Engine.WritePoints")), empty)
}

func m3IndexErrorAccounted(p *core.Prog, r *core.Report) {
	const rule = "index-error-accounted"
	f := r.Need(p, tsdbP, "Shard.validateSeriesAndFields")
	if f == nil {
		return
	}
	info, g, name, body := f.Info(), f.Graph(), f.String(), f.Decl.Body
	counter := m3DroppedCounter(f)
	droppedF := core.LookupField(f.Pkg.Types, "PartialWriteError", "Dropped")
	cns := g.Select(g.Calling(call("tsdb.Engine.CreateSeriesListIfNotExists")))
	if !r.Check(counter != nil && droppedF != nil && len(cns) == 1, rule, name, "anchors", f.Pos(), "dropped counter and the CreateSeriesListIfNotExists call resolved") {
		return
	}
	cn := cns[0]
	errObj := g.ErrVarOf(cn)
	if !r.Check(errObj != nil, rule, name, "error-dropped", g.Line(cn), "the error of CreateSeriesListIfNotExists is kept") {
		return
	}
	// aliases of that error bound by `switch x := err.(type)`
	alias := map[types.Object]bool{errObj: true}
	ast.Inspect(f.Decl.Body, func(n ast.Node) bool {
		ts, ok := n.(*ast.TypeSwitchStmt)
		if !ok {
			return true
		}
		as, ok := ts.Assign.(*ast.AssignStmt)
		if !ok || len(as.Rhs) != 1 {
			return true
		}
		ta, ok := ast.Unparen(as.Rhs[0]).(*ast.TypeAssertExpr)
		if !ok || !alias[core.ObjOf(info, ta.X)] {
			return true
		}
		for _, cl := range ts.Body.List {
			if o := info.Implicits[cl]; o != nil {
				alias[o] = true
			}
		}
		return true
	})
	failed := core.EdgeEstablishingM3(info, body, func(a ast.Expr, val bool) bool {
		x, nonNilOnTrue, ok := core.NilTest(info, a)
		return ok && core.ObjOf(info, x) == errObj && val == nonNilOnTrue
	})
	var starts []*core.Node
	for _, e := range g.Edges(failed) {
		starts = append(starts, e.To)
	}
	if !r.Check(len(starts) >= 1, rule, name, "error-untested", g.Line(cn), "the error of CreateSeriesListIfNotExists is tested") {
		return
	}
	isAdd := func(n *core.Node) bool {
		if n.N == nil || !m3IsIncrOf(info, n, counter) {
			return false
		}
		found := false
		ast.Inspect(n.N, func(x ast.Node) bool {
			if s, ok := x.(*ast.SelectorExpr); ok && core.FieldOf(info, s) == droppedF && alias[core.ObjOf(info, s.X)] {
				found = true
			}
			return true
		})
		return found
	}
	r.Check(len(g.Select(isAdd)) >= 1, rule, name, "add:absent", g.Line(cn), "the Dropped of the index's PartialWriteError is added to the dropped counter")
	ok := true
	for _, x := range core.ExitsInM3(g.Reach(starts, isAdd, nil)) {
		rs, isRet := x.N.(*ast.ReturnStmt)
		if isRet && len(rs.Results) == 3 && alias[core.ObjOf(info, rs.Results[2])] {
			continue // the call fails with that error
		}
		ok = false
		r.Bad(rule, name, "index-error-swallowed", g.Line(x), "after CreateSeriesListIfNotExists failed, an exit is reachable that neither returns that error nor passed the addition of its Dropped to the counter: points the index did not accept are neither written nor reported")
	}
	if ok {
		r.Ok(rule, name, g.Line(cn), "a failed CreateSeriesListIfNotExists either fails the call or adds its Dropped to the counter")
	}
}

func m3VerdictDeref(p *core.Prog, r *core.Report) {
	const rule = "verdict-deref-guarded"
	f := r.Need(p, tsdbP, "Shard.validateSeriesAndFields")
	if f == nil {
		return
	}
	info, g, name, body := f.Info(), f.Graph(), f.String(), f.Decl.Body
	for _, vn := range g.Select(g.Calling(call("tsdb.ValidateAndCreateFields"))) {
		as, ok := vn.N.(*ast.AssignStmt)
		if !ok || len(as.Lhs) != 2 {
			continue
		}
		pwe := core.ObjOf(info, as.Lhs[1])
		if pwe == nil {
			continue
		}
		if _, isPtr := pwe.Type().Underlying().(*types.Pointer); !isPtr {
			continue
		}
		nonNil := func(a ast.Expr, val bool) bool {
			x, nonNilOnTrue, ok := core.NilTest(info, a)
			return ok && core.ObjOf(info, x) == pwe && val == nonNilOnTrue
		}
		contains := func(e ast.Node, t ast.Node) bool { return e.Pos() <= t.Pos() && t.End() <= e.End() }
		var guardedIn func(e ast.Expr, t ast.Node) bool
		guardedIn = func(e ast.Expr, t ast.Node) bool {
			switch x := e.(type) {
			case *ast.ParenExpr:
				return guardedIn(x.X, t)
			case *ast.UnaryExpr:
				return guardedIn(x.X, t)
			case *ast.BinaryExpr:
				if x.Op == token.LAND || x.Op == token.LOR {
					if contains(x.Y, t) {
						return core.EstablishesM3(info, body, x.X, x.Op == token.LAND, nonNil) || guardedIn(x.Y, t)
					}
					if contains(x.X, t) {
						return guardedIn(x.X, t)
					}
				}
			}
			return false
		}
		noGuard := g.ReachFromEntry(nil, core.EdgeEstablishingM3(info, body, nonNil))
		total, bad := 0, 0
		first := ""
		ast.Inspect(f.Decl.Body, func(n ast.Node) bool {
			var base ast.Expr
			switch x := n.(type) {
			case *ast.SelectorExpr:
				if core.FieldOf(info, x) != nil {
					base = x.X
				}
			case *ast.StarExpr:
				base = x.X
			}
			if base == nil || core.ObjOf(info, base) != pwe {
				return true
			}
			total++
			nd := g.NodeOf(n)
			if nd == nil {
				return true
			}
			// short-circuit guard inside the same statement: p != nil && p.X …
			inStmt := false
			ast.Inspect(nd.N, func(y ast.Node) bool {
				if be, ok := y.(*ast.BinaryExpr); ok && (be.Op == token.LAND || be.Op == token.LOR) && contains(be, n) && guardedIn(be, n) {
					inStmt = true
				}
				return !inStmt
			})
			if inStmt {
				return true
			}
			if noGuard[nd] {
				bad++
				if first == "" {
					first = p.Pos(n.Pos())
				}
			}
			return true
		})
		if bad == 0 {
			r.Check(total >= 1, rule, name, "dereferences:count", g.Line(vn), fmt.Sprintf("%d dereference(s) of the validator's *PartialWriteError, each behind a non-nil test", total))
		} else {
			r.Bad(rule, name, "verdict-deref-unguarded", first, fmt.Sprintf("%d of %d dereference(s) of the validator's *PartialWriteError are reachable without a test that it is not nil: it is nil for every accepted point, the write panics", bad, total))
		}
	}
}

func m3SuccessReturnsBatch(p *core.Prog, r *core.Report) {
	const rule = "success-returns-batch"
	f := r.Need(p, tsdbP, "Shard.validateSeriesAndFields")
	if f == nil {
		return
	}
	info, g, name, body := f.Info(), f.Graph(), f.String(), f.Decl.Body
	// errors under whose failure edge a `return nil, nil, <alias>` is a failing exit (type-switch bindings)
	failedAlias := map[types.Object]bool{}
	ast.Inspect(body, func(n ast.Node) bool {
		ts, ok := n.(*ast.TypeSwitchStmt)
		if !ok {
			return true
		}
		as, ok := ts.Assign.(*ast.AssignStmt)
		if !ok || len(as.Rhs) != 1 {
			return true
		}
		ta, ok := ast.Unparen(as.Rhs[0]).(*ast.TypeAssertExpr)
		if !ok {
			return true
		}
		src := core.ObjOf(info, ta.X)
		if src == nil || !core.IsErrorType(src.Type()) {
			return true
		}
		// the switch is reachable only through src != nil
		nonNil := core.EdgeEstablishingM3(info, body, func(a ast.Expr, val bool) bool {
			x, nonNilOnTrue, ok := core.NilTest(info, a)
			return ok && core.ObjOf(info, x) == src && val == nonNilOnTrue
		})
		noGuard := g.ReachFromEntry(nil, nonNil)
		guarded := true
		for _, nd := range g.Nodes {
			if nd.N != nil && ts.Pos() <= nd.N.Pos() && nd.N.End() <= ts.End() && noGuard[nd] {
				guarded = false
			}
		}
		if guarded {
			for _, cl := range ts.Body.List {
				if o := info.Implicits[cl]; o != nil {
					failedAlias[o] = true
				}
			}
		}
		return true
	})
	bad, n := false, 0
	for _, x := range g.SuccessExits() {
		rs, ok := x.N.(*ast.ReturnStmt)
		if !ok || len(rs.Results) != 3 {
			continue
		}
		n++
		if !core.IsNilIdent(info, rs.Results[0]) {
			continue
		}
		if failedAlias[core.ObjOf(info, rs.Results[2])] {
			continue
		}
		bad = true
		r.Bad(rule, name, "nil-batch-on-success", g.Line(x), "this exit may report success (its error is not provably non-nil) but hands back a nil batch: Shard.WritePoints then writes nothing and reports the write as done")
	}
	if !bad {
		r.Check(n >= 1, rule, name, "success-exit:absent", f.Pos(), fmt.Sprintf("%d exit(s) that may report success, each returns the batch", n))
	}
}
