package rules

import (
	"fmt"
	"go/ast"
	"go/token"
	"go/types"

	"verif/checker/core"
)

// epochLocks: guarded-by table of tsdb.epochTracker (confirmed by reading epoch_tracker.go).
var rw3EpochLocks = &core.LockRules{
	Pkg: tsdbP,
	Guards: []core.Guard{
		{Type: "epochTracker", Fields: []string{"epoch", "largest", "writes", "deletes"}, Locks: []string{"mu"}},
	},
	CallerHolds:  map[string]map[string]byte{"epochTracker.next": {"mu": 'W'}},
	ExemptFunc:   map[string]string{},
	ExemptAccess: map[string]string{},
}

func init() {
	register(&Prop{
		ID:       "C17",
		Patterns: []string{"./tsdb", "./tsdb/engine/tsm1", "./storage"},
		Level:    "other",
		Explanation: "Necessary-condition rules for bucket deletes, decided on statement CFGs (function literals as separate graphs) with type-resolved callees, fields and variables: " +
			"(1) delete-typestate: in Store.DeleteSeriesWithPredicate / DeleteSeries / DeleteMeasurement the shards walked are filterShards(byDatabase(database)), the epoch table is epochsForShards of the same slice, and inside the per-shard callback epochs[sh.id].WaitDelete(guard) is followed on every path by waiter.Wait() and `defer waiter.Done()` before any exit; every shard delete call (also through a local closure) is reachable only after Wait; the guard's time range is the range handed to the shard delete (Min/MaxTime and the measurement name for DeleteMeasurement); " +
			"(2) write-typestate: Store.WriteToShard takes tracker and shard for the same shardID, registers `defer EndWrite(gen)` with StartWrite's generation on the same tracker before any exit, reaches Shard.WritePoints only through the loop over StartWrite's guards, in which every iteration passes guard.Wait() unless guard.Matches(points) is false, and Wait is reached only when it is true; " +
			"(3) epoch-protocol: lockset of epochTracker (epoch, largest, writes, deletes under mu; next called with mu held) and the counters/sets that make the waits terminate: writes++ / writes-- on every path of StartWrite/EndWrite, EndWrite signals every pending delete except on the `gen > dgen` edge, WaitDelete records pending = writes, deletes[gen] = state and largest = gen, epochWaiter.Done removes deletes[gen] and releases the guard, Wait loops exit only on pending == 0 / done == true, guard.Done sets done and broadcasts; " +
			"(4) index-reconciliation in tsm1.Engine.deleteSeriesRange: order TSM tombstones < Cache.DeleteRange < WAL.DeleteRange, reconcile after the data delete; keys still present in TSM files (inside the FileStore.Apply callback) and keys still present in the cache (behind bytes.Equal) are crossed out with emptyBytes; Index.DropSeries, ids.Add and the measurement-set insert are reachable in an iteration only on the edges len(k) != 0 and !hasCacheValues, hasCacheValues being set only where Cache.Values(..).Len() > 0; DropSeries gets the loop key and the SeriesFile.SeriesID of it; every touched measurement passes DropMeasurementIfSeriesNotExist; series ids are deleted from the series file only after AndNot over the other shards' id sets; errors propagated; " +
			"(5) batch-delete in tsm1.Engine.DeleteSeriesRangeWithPredicate: a key is batched only if predicate == nil or it returned shouldDelete, every other series reaches the batch, the range handed to deleteSeriesRange comes from the predicate's results, and no success exit is reachable after batching without deleteSeriesRange(batch); " +
			"(6) predicate-filter in Store.DeleteSeriesWithPredicate: the iterator given to Shard.DeleteSeriesRange is NewSeriesIteratorAdapter(sfile, NewPredicateSeriesIDIterator(MeasurementSeriesIDIterator(mm), sfile, pred)) with the caller's pred/min/max, and every measurement returned by the iterator passes the delete closure; " +
			"(7) bucket-delete-passthrough: storage.Engine.DeleteBucketRangePredicate forwards bucketID.String(), min, max, pred, measurement unchanged.",
		NotCovered:  "equality of the remaining data with the expected data across shards (value level); the comparison operators of the key walks (off-by-one in Seek/Compare loops); what guard.Matches / exprGuard consider a conflict; holding Store.mu while snapshotting shards and epochs; liveness (absence of deadlock) beyond the listed counters.",
		Assumptions: []string{"a rule passing means the mechanism is present on every CFG path; infeasible paths are only excluded through the named edges"},
		Run:         runC17,
	})
}

func runC17(p *core.Prog, r *core.Report, tier string) {
	for _, fn := range []string{"Store.DeleteSeriesWithPredicate", "Store.DeleteSeries", "Store.DeleteMeasurement"} {
		c17DeleteTypestate(p, r, fn)
	}
	c17WriteTypestate(p, r)
	c17Epoch(p, r)
	c17Reconcile(p, r)
	c17Batch(p, r)
	c17PredicateFilter(p, r)
	c17Passthrough(p, r)
}

// rw3ClosureCalling: matcher for calls of a local variable whose (only) value is a
// function literal that contains a call matched by m.
func rw3ClosureCalling(info *types.Info, root ast.Node, m core.Matcher) core.Matcher {
	return func(_ *types.Info, c *ast.CallExpr) bool {
		o := core.ObjOf(info, c.Fun)
		if o == nil {
			return false
		}
		ds := rw3Defs(info, root, o)
		if len(ds) != 1 || ds[0].Rhs == nil {
			return false
		}
		fl, ok := ast.Unparen(ds[0].Rhs).(*ast.FuncLit)
		return ok && len(core.AllCalls(info, fl.Body, m)) > 0
	}
}

func rw3UsesObj(info *types.Info, e ast.Node, o types.Object) bool {
	if e == nil || o == nil {
		return false
	}
	found := false
	ast.Inspect(e, func(n ast.Node) bool {
		if id, ok := n.(*ast.Ident); ok && info.Uses[id] == o {
			found = true
		}
		return true
	})
	return found
}

func rw3RecvObj(info *types.Info, c *ast.CallExpr) types.Object {
	if s, ok := ast.Unparen(c.Fun).(*ast.SelectorExpr); ok {
		return core.ObjOf(info, s.X)
	}
	return nil
}

// ---- (1) WaitDelete -> Wait -> Done
func c17DeleteTypestate(p *core.Prog, r *core.Report, fn string) {
	const rule = "delete-typestate"
	f := r.Need(p, tsdbP, fn)
	if f == nil {
		return
	}
	info, name := f.Info(), f.String()
	sig, _ := f.Obj.Type().(*types.Signature)
	idF := core.LookupField(f.Pkg.Types, "Shard", "id")
	ws := core.AllCalls(info, f.Decl.Body, call("tsdb.Store.walkShards"))
	if !r.Check(len(ws) == 1 && len(ws[0].Args) == 2 && sig != nil && sig.Params().Len() >= 2 && idF != nil, rule, name, "walkShards:absent", f.Pos(), "one walkShards(shards, callback)") {
		return
	}
	lit, _ := ast.Unparen(ws[0].Args[1]).(*ast.FuncLit)
	shards := core.ObjOf(info, ws[0].Args[0])
	if !r.Check(lit != nil && shards != nil, rule, name, "walkShards-callback", p.Pos(ws[0].Pos()), "the callback is a literal, the shard list a variable") {
		return
	}
	// provenance of the shard list and the epoch table
	dbParam := types.Object(sig.Params().At(1))
	fc := rw3SoleCallDef(info, f.Decl.Body, shards, call("tsdb.Store.filterShards"), -1)
	okProv := false
	if fc != nil && len(fc.Args) == 1 {
		if bc, ok := ast.Unparen(fc.Args[0]).(*ast.CallExpr); ok && call("tsdb.byDatabase")(info, bc) && len(bc.Args) == 1 && core.ObjOf(info, bc.Args[0]) == dbParam {
			okProv = true
		}
	}
	r.Check(okProv, rule, name, "shards-provenance", p.Pos(ws[0].Pos()), "the shards walked are filterShards(byDatabase(database)), assigned once")
	var epochs types.Object
	wds := core.AllCalls(info, lit.Body, call("tsdb.epochTracker.WaitDelete"))
	if !r.Check(len(wds) == 1, rule, name, "WaitDelete:absent", p.Pos(lit.Pos()), "exactly one WaitDelete in the per-shard callback") {
		return
	}
	wd := wds[0]
	var shParam types.Object
	if lit.Type.Params != nil && len(lit.Type.Params.List) == 1 && len(lit.Type.Params.List[0].Names) == 1 {
		shParam = info.Defs[lit.Type.Params.List[0].Names[0]]
	}
	okRecv := false
	if s, ok := ast.Unparen(wd.Fun).(*ast.SelectorExpr); ok {
		if ix, ok := ast.Unparen(s.X).(*ast.IndexExpr); ok {
			epochs = core.ObjOf(info, ix.X)
			if is, ok := ast.Unparen(ix.Index).(*ast.SelectorExpr); ok && core.FieldOf(info, is) == idF && shParam != nil && core.ObjOf(info, is.X) == shParam {
				okRecv = true
			}
		}
	}
	r.Check(okRecv && epochs != nil, rule, name, "tracker-of-shard", p.Pos(wd.Pos()), "WaitDelete is called on epochs[sh.id] of the shard being processed")
	ec := rw3SoleCallDef(info, f.Decl.Body, epochs, call("tsdb.Store.epochsForShards"), -1)
	r.Check(ec != nil && len(ec.Args) == 1 && core.ObjOf(info, ec.Args[0]) == shards, rule, name, "epochs-provenance", p.Pos(wd.Pos()), "the epoch table is epochsForShards(shards) of the same shard list")

	lg := f.LitGraph(lit)
	wdn := lg.NodeOf(wd)
	var waiter types.Object
	if wdn != nil {
		if as, ok := wdn.N.(*ast.AssignStmt); ok && len(as.Lhs) == 1 {
			waiter = core.ObjOf(info, as.Lhs[0])
		}
	}
	if !r.Check(waiter != nil && len(rw3Defs(info, lit.Body, waiter)) == 1, rule, name, "waiter:absent", p.Pos(wd.Pos()), "the waiter is kept in a variable assigned once") {
		return
	}
	isWait := func(n *core.Node) bool {
		if n.N == nil {
			return false
		}
		if _, isDefer := n.N.(*ast.DeferStmt); isDefer {
			return false
		}
		for _, c := range core.CallsIn(info, n.N, call("tsdb.epochWaiter.Wait"), core.WalkOpts{}) {
			if rw3RecvObj(info, c) == waiter {
				return true
			}
		}
		return false
	}
	isDone := func(n *core.Node) bool {
		d, ok := n.N.(*ast.DeferStmt)
		return ok && call("tsdb.epochWaiter.Done")(info, d.Call) && rw3RecvObj(info, d.Call) == waiter
	}
	r.Check(len(lg.Select(isWait)) >= 1, rule, name, "Wait:absent", p.Pos(wd.Pos()), "waiter.Wait() exists")
	r.Check(len(lg.Select(isDone)) >= 1, rule, name, "Done:absent", p.Pos(wd.Pos()), "defer waiter.Done() exists")
	// no exit between WaitDelete and Wait / the deferred Done
	for what, gate := range map[string]core.NodePred{"Wait": isWait, "defer-Done": isDone} {
		bad := ""
		for n := range lg.Reach(core.After(wdn, nil), gate, nil) {
			if len(n.Succ) == 0 {
				bad = lg.Line(n)
			}
		}
		r.Check(bad == "", rule, name, "WaitDelete-without-"+what, p.Pos(wd.Pos()), "after WaitDelete no exit is reachable without "+what)
	}
	// a non-deferred Done would release the guard early
	for _, c := range core.AllCalls(info, lit.Body, call("tsdb.epochWaiter.Done")) {
		n := lg.NodeOf(c)
		isDefer := false
		if n != nil {
			_, isDefer = n.N.(*ast.DeferStmt)
		}
		r.Check(isDefer, rule, name, "Done-not-deferred", p.Pos(c.Pos()), "waiter.Done() runs at the callback's exit (deferred)")
	}
	// the delete itself happens after Wait
	shardDel := call("tsdb.Shard.DeleteSeriesRange", "tsdb.Shard.DeleteSeriesRangeWithPredicate", "tsdb.Shard.DeleteMeasurement")
	del := core.Or(shardDel, rw3ClosureCalling(info, lit.Body, shardDel))
	dns := lg.Select(lg.Calling(del))
	if r.Check(len(dns) >= 1, rule, name, "shard-delete:absent", p.Pos(lit.Pos()), "the callback deletes from the shard") {
		pre := lg.ReachFromEntry(isWait, nil)
		ok := true
		for _, d := range dns {
			if pre[d] {
				ok = false
				r.Bad(rule, name, "delete-before-Wait", lg.Line(d), "a shard delete is reachable before waiter.Wait()")
			}
		}
		if ok {
			r.Ok(rule, name+":Wait<delete", lg.Line(dns[0]), fmt.Sprintf("%d shard delete site(s) only after Wait", len(dns)))
		}
	}
	// the guard covers what is deleted
	var ng *ast.CallExpr
	if len(wd.Args) == 1 {
		if c, ok := ast.Unparen(wd.Args[0]).(*ast.CallExpr); ok && call("tsdb.newGuard")(info, c) {
			ng = c
		} else {
			ng = rw3SoleCallDef(info, lit.Body, core.ObjOf(info, wd.Args[0]), call("tsdb.newGuard"), -1)
		}
	}
	if !r.Check(ng != nil && len(ng.Args) == 4, rule, name, "guard:absent", p.Pos(wd.Pos()), "the guard passed to WaitDelete is built by newGuard") {
		return
	}
	for _, c := range core.AllCalls(info, lit.Body, shardDel) {
		switch len(c.Args) {
		case 4: // DeleteSeriesRange(ctx, itr, min, max)
			ok := core.ObjOf(info, c.Args[2]) != nil && core.ObjOf(info, c.Args[2]) == core.ObjOf(info, ng.Args[0]) &&
				core.ObjOf(info, c.Args[3]) != nil && core.ObjOf(info, c.Args[3]) == core.ObjOf(info, ng.Args[1])
			r.Check(ok, rule, name, "guard-range", p.Pos(c.Pos()), "the guard's min/max are the variables passed to Shard.DeleteSeriesRange")
		case 2: // DeleteMeasurement(ctx, []byte(name))
			minC, maxC := rw3ImportedConst(f, "github.com/influxdata/influxql", "MinTime"), rw3ImportedConst(f, "github.com/influxdata/influxql", "MaxTime")
			ok := minC != nil && maxC != nil && rw3Uses(info, ng.Args[0], minC) && rw3Uses(info, ng.Args[1], maxC)
			r.Check(ok, rule, name, "guard-range", p.Pos(c.Pos()), "the guard of a measurement delete spans influxql.MinTime..MaxTime")
			nameOK := false
			if cl := rw3Lit(ng.Args[2]); cl != nil && len(cl.Elts) == 1 {
				o := core.ObjOf(info, cl.Elts[0])
				nameOK = o != nil && rw3UsesObj(info, c.Args[1], o)
			}
			r.Check(nameOK, rule, name, "guard-names", p.Pos(c.Pos()), "the guard names exactly the measurement that is deleted")
		default:
			r.Bad(rule, name, "guard-range", p.Pos(c.Pos()), "unexpected shard delete signature")
		}
	}
}

func rw3ImportedConst(f *core.Func, pkgPath, name string) types.Object {
	for _, imp := range f.Pkg.Types.Imports() {
		if imp.Path() == pkgPath {
			if c, ok := imp.Scope().Lookup(name).(*types.Const); ok {
				return c
			}
		}
	}
	return nil
}

// ---- (2) StartWrite -> EndWrite
func c17WriteTypestate(p *core.Prog, r *core.Report) {
	const rule = "write-typestate"
	f := r.Need(p, tsdbP, "Store.WriteToShard")
	if f == nil {
		return
	}
	info, g, name := f.Info(), f.Graph(), f.String()
	sig, _ := f.Obj.Type().(*types.Signature)
	epochsF := core.LookupField(f.Pkg.Types, "Store", "epochs")
	shardsF := core.LookupField(f.Pkg.Types, "Store", "shards")
	if !r.Check(sig != nil && sig.Params().Len() == 3 && epochsF != nil && shardsF != nil, "anchor", name+" signature / Store.epochs / Store.shards", "unresolved", f.Pos(), "anchors resolved") {
		return
	}
	idParam, ptsParam := types.Object(sig.Params().At(1)), types.Object(sig.Params().At(2))
	sws := g.Select(g.Calling(call("tsdb.epochTracker.StartWrite")))
	if !r.Check(len(sws) == 1, rule, name, "StartWrite:absent", f.Pos(), "exactly one StartWrite") {
		return
	}
	sw := sws[0]
	swc := core.CallsIn(info, sw.N, call("tsdb.epochTracker.StartWrite"), core.WalkOpts{})[0]
	tracker := rw3RecvObj(info, swc)
	var guards, gen types.Object
	if as, ok := sw.N.(*ast.AssignStmt); ok && len(as.Lhs) == 2 {
		guards, gen = core.ObjOf(info, as.Lhs[0]), core.ObjOf(info, as.Lhs[1])
	}
	if !r.Check(tracker != nil && guards != nil && gen != nil, rule, name, "StartWrite-results", g.Line(sw), "tracker, guards and generation are kept in variables") {
		return
	}
	// tracker and shard belong to the same id
	fromMap := func(o types.Object, fv *types.Var) bool {
		ds := rw3Defs(info, f.Decl.Body, o)
		if len(ds) != 1 || ds[0].Rhs == nil {
			return false
		}
		ix, ok := ast.Unparen(ds[0].Rhs).(*ast.IndexExpr)
		return ok && core.FieldOf(info, ix.X) == fv && core.ObjOf(info, ix.Index) == idParam
	}
	r.Check(fromMap(tracker, epochsF), rule, name, "tracker-of-shard", g.Line(sw), "the tracker is s.epochs[shardID]")
	wps := g.Select(g.Calling(call("tsdb.Shard.WritePoints")))
	if !r.Check(len(wps) >= 1, rule, name, "Shard.WritePoints:absent", f.Pos(), "the shard write exists") {
		return
	}
	for _, c := range core.AllCalls(info, f.Decl.Body, call("tsdb.Shard.WritePoints")) {
		r.Check(fromMap(rw3RecvObj(info, c), shardsF), rule, name, "shard-of-id", p.Pos(c.Pos()), "the shard written is s.shards[shardID]")
		r.Check(len(c.Args) == 2 && core.ObjOf(info, c.Args[1]) == ptsParam, rule, name, "points-written", p.Pos(c.Pos()), "the points written are the points checked against the guards")
	}
	// defer EndWrite(gen) on the same tracker, before any exit
	isEnd := func(n *core.Node) bool {
		d, ok := n.N.(*ast.DeferStmt)
		return ok && call("tsdb.epochTracker.EndWrite")(info, d.Call) && rw3RecvObj(info, d.Call) == tracker && len(d.Call.Args) == 1 && core.ObjOf(info, d.Call.Args[0]) == gen
	}
	r.Check(len(g.Select(isEnd)) >= 1, rule, name, "EndWrite:absent", g.Line(sw), "defer tracker.EndWrite(gen) with StartWrite's generation exists")
	bad := ""
	for n := range g.Reach(core.After(sw, nil), isEnd, nil) {
		if len(n.Succ) == 0 {
			bad = g.Line(n)
		}
	}
	r.Check(bad == "", rule, name, "StartWrite-without-EndWrite", g.Line(sw), "after StartWrite no exit is reachable without the deferred EndWrite")
	for _, c := range core.AllCalls(info, f.Decl.Body, call("tsdb.epochTracker.EndWrite")) {
		n := g.NodeOf(c)
		isDefer := false
		if n != nil {
			_, isDefer = n.N.(*ast.DeferStmt)
		}
		r.Check(isDefer, rule, name, "EndWrite-not-deferred", p.Pos(c.Pos()), "EndWrite runs when the write ends (deferred)")
	}
	pre := g.ReachFromEntry(func(n *core.Node) bool { return n == sw }, nil)
	for _, w := range wps {
		r.Check(!pre[w], rule, name, "StartWrite<WritePoints", g.Line(w), "the write enters the epoch before touching the shard")
	}
	// the guard loop. It is located on the CFG with same-package helpers and local
	// closures spliced in (core.Inline), parameters of a spliced helper being followed
	// back to the argument at the call site: the verdict is the same whether the loop
	// (or only its body) lives in WriteToShard or was extracted.
	in := f.Inline(call("tsdb.epochTracker.StartWrite", "tsdb.epochTracker.EndWrite", "tsdb.Shard.WritePoints", "tsdb.guard.Matches", "tsdb.guard.Wait"))
	ig := in.G
	argObj := func(e ast.Expr) types.Object {
		if e == nil {
			return nil
		}
		return core.ObjOf(info, in.ArgOf(e))
	}
	recvArgObj := func(c *ast.CallExpr) types.Object {
		if s, ok := ast.Unparen(c.Fun).(*ast.SelectorExpr); ok {
			return argObj(s.X)
		}
		return nil
	}
	var loop *rw3Loop
	for _, root := range in.Roots {
		for _, s := range rw3TopLoops(root) {
			if rs, ok := s.(*ast.RangeStmt); ok && argObj(rs.X) == guards {
				if l := rw3FindLoop(ig, rs); l != nil {
					loop = l
				}
			}
		}
	}
	if !r.Check(loop != nil && loop.Val != nil, rule, name, "guard-loop:absent", f.Pos(), "loop over StartWrite's guards found (in the function or in a helper spliced into it)") {
		return
	}
	il := newC17InlLoop(in, loop)
	iwps := ig.Select(ig.Calling(call("tsdb.Shard.WritePoints")))
	preLoop := ig.ReachFromEntry(func(n *core.Node) bool { return n == loop.Head }, nil)
	for _, w := range iwps {
		r.Check(!preLoop[w], rule, name, "guards<WritePoints", ig.Line(w), "Shard.WritePoints is reached only through the guard loop")
	}
	matches := func(val bool) core.EdgePred {
		return func(e *core.Edge) bool {
			return rw3EdgeImplies(e, func(c ast.Expr, v bool) bool {
				cx, ok := c.(*ast.CallExpr)
				return ok && v == val && call("tsdb.guard.Matches")(info, cx) && recvArgObj(cx) == loop.Val && len(cx.Args) == 1 && argObj(cx.Args[0]) == ptsParam
			})
		}
	}
	isGWait := func(n *core.Node) bool {
		if n.N == nil {
			return false
		}
		if _, isDefer := n.N.(*ast.DeferStmt); isDefer {
			return false
		}
		for _, c := range core.CallsIn(info, n.N, call("tsdb.guard.Wait"), core.WalkOpts{}) {
			if recvArgObj(c) == loop.Val {
				return true
			}
		}
		return false
	}
	gw := ig.Select(isGWait)
	r.Check(len(gw) >= 1, rule, name, "guard.Wait:absent", p.Pos(loop.Stmt.Pos()), "the write waits on matching guards")
	if esc := il.Escapes(isGWait, matches(false)); len(esc) == 0 {
		r.Ok(rule, name+":matching-guard-waited", p.Pos(loop.Stmt.Pos()), "every guard is waited on unless guard.Matches(points) is false")
	} else {
		r.Bad(rule, name, "guard-skipped", ig.Line(esc[0]), "a guard can be passed without Wait although Matches(points) was not false")
	}
	noMatch := ig.Reach([]*core.Node{il.entry}, func(n *core.Node) bool { return !il.In(n) }, matches(true))
	for _, w := range gw {
		r.Check(!noMatch[w], rule, name, "wait-without-match", ig.Line(w), "guard.Wait is reached only when guard.Matches(points) is true (non-conflicting writes are not blocked)")
	}
}

// c17InlLoop is a loop located in an inlined graph: a node belongs to an iteration
// when it lies in the loop body or in the body of a helper / closure spliced in at
// a call that itself belongs to an iteration.
type c17InlLoop struct {
	in    *core.Inlined
	l     *rw3Loop
	entry *core.Node // first node of an iteration
}

func c17NodePos(n *core.Node) token.Pos {
	switch {
	case n.N != nil:
		return n.N.Pos()
	case n.Block != nil && n.Block.Stmt != nil:
		return n.Block.Stmt.Pos()
	}
	return token.NoPos
}

// newC17InlLoop: when the first statement of the loop body is itself a spliced
// call, its node stands for the return into the caller; the iteration then starts
// at the node of the spliced body that is entered from outside that body.
func newC17InlLoop(in *core.Inlined, l *rw3Loop) *c17InlLoop {
	il := &c17InlLoop{in: in, l: l, entry: l.Entry}
	for i := 0; i < 3; i++ {
		moved := false
		for _, s := range in.Sites {
			if s.At != il.entry {
				continue
			}
			inBody := func(n *core.Node) bool {
				p := c17NodePos(n)
				return p != token.NoPos && s.Body.Pos() <= p && p < s.Body.End()
			}
			for _, x := range in.G.Nodes {
				if x == s.At || !inBody(x) {
					continue
				}
				for _, e := range x.Pred {
					if !inBody(e.From) && !moved {
						il.entry = x
						moved = true
					}
				}
			}
		}
		if !moved {
			break
		}
	}
	return il
}

func (il *c17InlLoop) In(n *core.Node) bool {
	if il.l.In(n) {
		return true
	}
	pos := c17NodePos(n)
	if pos == token.NoPos {
		return false
	}
	for i := 0; i < 3; i++ {
		moved := false
		for _, s := range il.in.Sites {
			if s.Body.Pos() <= pos && pos < s.Body.End() && !(s.Body.Pos() <= s.Call.Pos() && s.Call.Pos() < s.Body.End()) {
				pos = s.Call.Pos()
				moved = true
				break
			}
		}
		if !moved {
			return false
		}
		if il.l.Body.Pos() <= pos && pos < il.l.Body.End() {
			return true
		}
	}
	return false
}

// Escapes: see rw3Loop.Escapes; the first escaping nodes are returned.
func (il *c17InlLoop) Escapes(sink core.NodePred, exempt core.EdgePred) []*core.Node {
	var out []*core.Node
	seen := map[*core.Node]bool{}
	il.in.G.Reach([]*core.Node{il.entry}, func(n *core.Node) bool {
		if sink != nil && sink(n) {
			return true
		}
		if !il.In(n) {
			if !seen[n] {
				seen[n] = true
				out = append(out, n)
			}
			return true
		}
		return false
	}, exempt)
	return out
}

// ---- (3) epoch tracker / guard internals
func c17Epoch(p *core.Prog, r *core.Report) {
	const rule = "epoch-protocol"
	core.RuleLocks(r, p, rw3EpochLocks, "epoch-guarded-by", 10)
	pk := p.Pkg(tsdbP)
	if pk == nil {
		return
	}
	fld := func(t, n string) *types.Var { return core.LookupField(pk.Types, t, n) }
	writesF, deletesF, largestF := fld("epochTracker", "writes"), fld("epochTracker", "deletes"), fld("epochTracker", "largest")
	pendingF, sGuardF := fld("epochDeleteState", "pending"), fld("epochDeleteState", "guard")
	wGenF, wGuardF, wStateF, wTrackerF := fld("epochWaiter", "gen"), fld("epochWaiter", "guard"), fld("epochWaiter", "state"), fld("epochWaiter", "tracker")
	doneF := fld("guard", "done")
	for _, v := range []*types.Var{writesF, deletesF, largestF, pendingF, sGuardF, wGenF, wGuardF, wStateF, wTrackerF, doneF} {
		if v == nil {
			r.Bad("anchor", "tsdb.epochTracker/epochDeleteState/epochWaiter/guard fields", "unresolved", "-", "fields of the epoch tracker not found")
			return
		}
	}
	incdec := func(g *core.Graph, fv *types.Var, tok token.Token) core.NodePred {
		return func(n *core.Node) bool {
			s, ok := n.N.(*ast.IncDecStmt)
			return ok && s.Tok == tok && core.FieldOf(g.Info, s.X) == fv
		}
	}
	if f := r.Need(p, tsdbP, "epochTracker.StartWrite"); f != nil {
		g, info := f.Graph(), f.Info()
		core.RuleMustPassN(r, f, g, rule, "writes++", incdec(g, writesF, token.INC), nil)
		for _, x := range g.Exits {
			rs, ok := x.N.(*ast.ReturnStmt)
			okg := ok && len(rs.Results) == 2 && rw3SoleCallDef(info, f.Decl.Body, core.ObjOf(info, rs.Results[1]), call("tsdb.epochTracker.next"), -1) != nil
			r.Check(okg, rule, f.String(), "generation", g.Line(x), "the returned generation is the fresh epoch from next()")
		}
		// every pending delete's guard is handed to the writer
		var loop *rw3Loop
		for _, s := range rw3TopLoops(f.Decl.Body) {
			if rs, ok := s.(*ast.RangeStmt); ok && core.FieldOf(info, rs.X) == deletesF {
				loop = rw3FindLoop(g, rs)
			}
		}
		if r.Check(loop != nil && loop.Val != nil, rule, f.String(), "deletes-loop:absent", f.Pos(), "loop over pending deletes found") {
			var out types.Object
			sink := func(n *core.Node) bool {
				if n.N == nil {
					return false
				}
				as, ok := n.N.(*ast.AssignStmt)
				if !ok || len(as.Lhs) != 1 {
					return false
				}
				o := core.ObjOf(info, as.Lhs[0])
				for _, a := range rw3AppendTo(info, n.N, func(e ast.Expr) bool { return core.ObjOf(info, e) == o && o != nil }) {
					if s, ok := ast.Unparen(a).(*ast.SelectorExpr); ok && core.FieldOf(info, s) == sGuardF && core.ObjOf(info, s.X) == loop.Val {
						out = o
						return true
					}
				}
				return false
			}
			r.Check(len(loop.Escapes(g, sink, nil)) == 0 && out != nil, rule, f.String(), "guard-not-collected", p.Pos(loop.Stmt.Pos()), "the guard of every pending delete is collected")
			nonEmpty := g.ReachFromEntry(nil, func(e *core.Edge) bool {
				return rw3ZeroEdgeQ(info, e, func(x ast.Expr) bool {
					c, ok := ast.Unparen(x).(*ast.CallExpr)
					return ok && core.Builtin("len")(info, c) && len(c.Args) == 1 && core.FieldOf(info, c.Args[0]) == deletesF
				})
			})
			for _, x := range g.Exits {
				if rs, ok := x.N.(*ast.ReturnStmt); ok && len(rs.Results) == 2 && nonEmpty[x] {
					r.Check(out != nil && core.ObjOf(info, rs.Results[0]) == out, rule, f.String(), "guards-returned", g.Line(x), "unless no delete is pending, the collected guards are returned")
				}
			}
		}
	}
	if f := r.Need(p, tsdbP, "epochTracker.EndWrite"); f != nil {
		g, info := f.Graph(), f.Info()
		core.RuleMustPassN(r, f, g, rule, "writes--", incdec(g, writesF, token.DEC), nil)
		sig, _ := f.Obj.Type().(*types.Signature)
		var loop *rw3Loop
		for _, s := range rw3TopLoops(f.Decl.Body) {
			if rs, ok := s.(*ast.RangeStmt); ok && core.FieldOf(info, rs.X) == deletesF {
				loop = rw3FindLoop(g, rs)
			}
		}
		if r.Check(loop != nil && loop.Val != nil && loop.Key != nil && sig != nil && sig.Params().Len() == 1, rule, f.String(), "deletes-loop:absent", f.Pos(), "loop over pending deletes found") {
			gen := types.Object(sig.Params().At(0))
			later := func(e *core.Edge) bool { // edge implies gen > dgen: the delete started before this write
				return rw3EdgeImplies(e, func(c ast.Expr, v bool) bool {
					be, ok := c.(*ast.BinaryExpr)
					if !ok {
						return false
					}
					x, y := core.ObjOf(info, be.X), core.ObjOf(info, be.Y)
					switch {
					case x == gen && y == loop.Key:
						return (be.Op == token.GTR && v) || (be.Op == token.LEQ && !v)
					case x == loop.Key && y == gen:
						return (be.Op == token.LSS && v) || (be.Op == token.GEQ && !v)
					}
					return false
				})
			}
			sink := func(n *core.Node) bool {
				if n.N == nil {
					return false
				}
				for _, c := range core.CallsIn(info, n.N, call("tsdb.epochDeleteState.done"), core.WalkOpts{}) {
					if rw3RecvObj(info, c) == loop.Val {
						return true
					}
				}
				return false
			}
			r.Check(len(g.Select(sink)) >= 1 && len(loop.Escapes(g, sink, later)) == 0, rule, f.String(), "delete-not-signalled", p.Pos(loop.Stmt.Pos()), "every pending delete is signalled (state.done()) except on the edge gen > dgen")
		}
	}
	if f := r.Need(p, tsdbP, "epochTracker.WaitDelete"); f != nil {
		g, info := f.Graph(), f.Info()
		sig, _ := f.Obj.Type().(*types.Signature)
		var state, gen types.Object
		okState := false
		ast.Inspect(f.Decl.Body, func(n ast.Node) bool {
			as, ok := n.(*ast.AssignStmt)
			if !ok || len(as.Lhs) != 1 || len(as.Rhs) != 1 {
				return true
			}
			if cl := rw3Lit(as.Rhs[0]); cl != nil && rw3IsNamed(info.TypeOf(cl), tsdbP, "epochDeleteState") {
				state = core.ObjOf(info, as.Lhs[0])
				okState = core.FieldOf(info, rw3LitField(info, cl, pendingF)) == writesF && sig != nil && sig.Params().Len() == 1 &&
					core.ObjOf(info, rw3LitField(info, cl, sGuardF)) == types.Object(sig.Params().At(0))
			}
			if c, ok := ast.Unparen(as.Rhs[0]).(*ast.CallExpr); ok && call("tsdb.epochTracker.next")(info, c) {
				gen = core.ObjOf(info, as.Lhs[0])
			}
			return true
		})
		r.Check(okState && state != nil, rule, f.String(), "pending-from-writes", f.Pos(), "the delete state starts with pending = e.writes and the caller's guard")
		r.Check(gen != nil, rule, f.String(), "generation", f.Pos(), "the delete takes a fresh epoch from next()")
		core.RuleMustPassN(r, f, g, rule, "deletes[gen] = state", func(n *core.Node) bool {
			as, ok := n.N.(*ast.AssignStmt)
			if !ok || len(as.Lhs) != 1 || len(as.Rhs) != 1 {
				return false
			}
			ix, ok := ast.Unparen(as.Lhs[0]).(*ast.IndexExpr)
			return ok && core.FieldOf(info, ix.X) == deletesF && core.ObjOf(info, ix.Index) == gen && gen != nil && core.ObjOf(info, as.Rhs[0]) == state
		}, nil)
		core.RuleMustPassN(r, f, g, rule, "largest = gen", func(n *core.Node) bool {
			as, ok := n.N.(*ast.AssignStmt)
			return ok && len(as.Lhs) == 1 && len(as.Rhs) == 1 && core.FieldOf(info, as.Lhs[0]) == largestF && gen != nil && core.ObjOf(info, as.Rhs[0]) == gen
		}, nil)
		for _, x := range g.Exits {
			rs, ok := x.N.(*ast.ReturnStmt)
			okw := false
			if ok && len(rs.Results) == 1 {
				if cl := rw3Lit(rs.Results[0]); cl != nil && rw3IsNamed(info.TypeOf(cl), tsdbP, "epochWaiter") {
					recv := types.Object(nil)
					if f.Decl.Recv != nil && len(f.Decl.Recv.List) == 1 && len(f.Decl.Recv.List[0].Names) == 1 {
						recv = info.Defs[f.Decl.Recv.List[0].Names[0]]
					}
					okw = core.ObjOf(info, rw3LitField(info, cl, wGenF)) == gen && core.ObjOf(info, rw3LitField(info, cl, wStateF)) == state &&
						sig != nil && core.ObjOf(info, rw3LitField(info, cl, wGuardF)) == types.Object(sig.Params().At(0)) &&
						recv != nil && core.ObjOf(info, rw3LitField(info, cl, wTrackerF)) == recv
				}
			}
			r.Check(okw, rule, f.String(), "waiter-fields", g.Line(x), "the waiter carries this delete's gen, guard, state and tracker")
		}
	}
	if f := r.Need(p, tsdbP, "epochWaiter.Done"); f != nil {
		g, info := f.Graph(), f.Info()
		core.RuleMustPassN(r, f, g, rule, "delete(tracker.deletes, gen)", func(n *core.Node) bool {
			if n.N == nil {
				return false
			}
			for _, c := range core.CallsIn(info, n.N, core.Builtin("delete"), core.WalkOpts{}) {
				if len(c.Args) == 2 && core.FieldOf(info, c.Args[0]) == deletesF && core.FieldOf(info, c.Args[1]) == wGenF {
					return true
				}
			}
			return false
		}, nil)
		core.RuleMustPassN(r, f, g, rule, "guard.Done", func(n *core.Node) bool {
			if n.N == nil {
				return false
			}
			for _, c := range core.CallsIn(info, n.N, call("tsdb.guard.Done"), core.WalkOpts{}) {
				if s, ok := ast.Unparen(c.Fun).(*ast.SelectorExpr); ok && core.FieldOf(info, s.X) == wGuardF {
					return true
				}
			}
			return false
		}, nil)
	}
	if f := r.Need(p, tsdbP, "epochWaiter.Wait"); f != nil {
		g, info := f.Graph(), f.Info()
		exempt := func(e *core.Edge) bool {
			return rw3EdgeImplies(e, func(c ast.Expr, v bool) bool {
				x, nonNilOnTrue, ok := core.NilTest(info, c)
				if !ok {
					return false
				}
				fv := core.FieldOf(info, x)
				return (fv == wStateF || fv == wTrackerF) && v != nonNilOnTrue
			})
		}
		core.RuleMustPassN(r, f, g, rule, "state.Wait", func(n *core.Node) bool {
			if n.N == nil {
				return false
			}
			for _, c := range core.CallsIn(info, n.N, call("tsdb.epochDeleteState.Wait"), core.WalkOpts{}) {
				if s, ok := ast.Unparen(c.Fun).(*ast.SelectorExpr); ok && core.FieldOf(info, s.X) == wStateF {
					return true
				}
			}
			return false
		}, exempt)
	}
	if f := r.Need(p, tsdbP, "epochDeleteState.done"); f != nil {
		g := f.Graph()
		core.RuleMustPassN(r, f, g, rule, "pending--", incdec(g, pendingF, token.DEC), nil)
		core.RuleHasCall(r, f, rule, "Cond.Broadcast", call("sync.Cond.Broadcast"))
	}
	isField := func(info *types.Info, fv *types.Var) func(ast.Expr) bool {
		return func(x ast.Expr) bool { return core.FieldOf(info, x) == fv }
	}
	if f := r.Need(p, tsdbP, "epochDeleteState.Wait"); f != nil {
		g, info := f.Graph(), f.Info()
		reach := g.ReachFromEntry(nil, func(e *core.Edge) bool { return rw3ZeroEdgeQ(info, e, isField(info, pendingF)) })
		bad := false
		for _, x := range g.Exits {
			if reach[x] {
				bad = true
			}
		}
		r.Check(!bad && len(g.Exits) >= 1, rule, f.String(), "wait-exit", f.Pos(), "Wait returns only on the edge pending == 0")
		core.RuleHasCall(r, f, rule, "Cond.Wait", call("sync.Cond.Wait"))
	}
	if f := r.Need(p, tsdbP, "guard.Wait"); f != nil {
		g, info := f.Graph(), f.Info()
		reach := g.ReachFromEntry(nil, func(e *core.Edge) bool {
			return rw3EdgeImplies(e, func(c ast.Expr, v bool) bool { return core.FieldOf(info, c) == doneF && v })
		})
		bad := false
		for _, x := range g.Exits {
			if reach[x] {
				bad = true
			}
		}
		r.Check(!bad && len(g.Exits) >= 1, rule, f.String(), "wait-exit", f.Pos(), "Wait returns only on the edge done == true")
		core.RuleHasCall(r, f, rule, "Cond.Wait", call("sync.Cond.Wait"))
	}
	if f := r.Need(p, tsdbP, "guard.Done"); f != nil {
		g, info := f.Graph(), f.Info()
		setDone := func(n *core.Node) bool {
			as, ok := n.N.(*ast.AssignStmt)
			if !ok || len(as.Lhs) != 1 || len(as.Rhs) != 1 || core.FieldOf(info, as.Lhs[0]) != doneF {
				return false
			}
			v := core.ConstVal(info, as.Rhs[0])
			return v != nil && v.String() == "true"
		}
		core.RuleMustPassN(r, f, g, rule, "done = true", setDone, nil)
		pre := g.ReachFromEntry(setDone, nil)
		bs := g.Select(g.Calling(call("sync.Cond.Broadcast")))
		okb := len(bs) >= 1
		for _, b := range bs {
			if pre[b] {
				okb = false
			}
		}
		r.Check(okb, rule, f.String(), "done<Broadcast", f.Pos(), "waiters are woken after done was set")
		core.RuleMustPassN(r, f, g, rule, "Cond.Broadcast", g.Calling(call("sync.Cond.Broadcast")), nil)
	}
}

// ---- (4) deleteSeriesRange: index reconciliation
func c17Reconcile(p *core.Prog, r *core.Report) {
	const rule = "index-reconciliation"
	f := r.Need(p, tsm1, "Engine.deleteSeriesRange")
	if f == nil {
		return
	}
	info, g, name := f.Info(), f.Graph(), f.String()
	sig, _ := f.Obj.Type().(*types.Signature)
	empty := rw3PkgVar(p, tsm1, "emptyBytes")
	if !r.Check(sig != nil && sig.Params().Len() == 4 && empty != nil, "anchor", name+" signature / emptyBytes", "unresolved", f.Pos(), "anchors resolved") {
		return
	}
	keys := types.Object(sig.Params().At(1))
	r.Check(len(rw3Defs(info, f.Decl.Body, keys)) == 0, rule, name, "keys-reassigned", f.Pos(), "the slice of series keys is never re-bound (only its elements are crossed out)")
	apply := call("tsdb/engine/tsm1.FileStore.Apply")
	isCross := func(n ast.Node) bool {
		as, ok := n.(*ast.AssignStmt)
		if !ok || len(as.Lhs) != len(as.Rhs) {
			return false
		}
		for i := range as.Lhs {
			ix, ok := ast.Unparen(as.Lhs[i]).(*ast.IndexExpr)
			if ok && core.ObjOf(info, ix.X) == keys && rw3Uses(info, as.Rhs[i], empty) {
				return true
			}
		}
		return false
	}
	hasCross := func(root ast.Node) bool {
		found := false
		ast.Inspect(root, func(n ast.Node) bool {
			if n != nil && isCross(n) {
				found = true
			}
			return true
		})
		return found
	}
	applyWith := func(test func(fl *ast.FuncLit) bool) core.NodePred {
		return func(n *core.Node) bool {
			if n.N == nil {
				return false
			}
			for _, c := range core.CallsIn(info, n.N, apply, core.WalkOpts{}) {
				for _, a := range c.Args {
					if fl, ok := ast.Unparen(a).(*ast.FuncLit); ok && test(fl) {
						return true
					}
				}
			}
			return false
		}
	}
	applyDel := applyWith(func(fl *ast.FuncLit) bool {
		return len(core.AllCalls(info, fl.Body, call("tsdb/engine/tsm1.TSMFile.BatchDelete"))) > 0
	})
	applyRec := applyWith(func(fl *ast.FuncLit) bool { return hasCross(fl.Body) })
	cacheDel := g.Calling(call("tsdb/engine/tsm1.Cache.DeleteRange"))
	walDel := g.Calling(call("tsdb/engine/tsm1.WAL.DeleteRange"))
	cacheKeys := g.Calling(call("tsdb/engine/tsm1.Cache.Keys"))
	dropS := g.Calling(call("tsdb.Index.DropSeries"))
	steps := []struct {
		n string
		p core.NodePred
	}{{"tombstones(FileStore.Apply+BatchDelete)", applyDel}, {"Cache.DeleteRange", cacheDel}, {"WAL.DeleteRange", walDel}}
	for _, s := range append(steps, []struct {
		n string
		p core.NodePred
	}{{"reconcile(FileStore.Apply+cross-out)", applyRec}, {"Cache.Keys", cacheKeys}, {"Index.DropSeries", dropS}}...) {
		r.Check(len(g.Select(s.p)) >= 1, rule, name, s.n+":absent", f.Pos(), s.n+" exists")
	}
	precede := func(an string, a core.NodePred, bn string, b core.NodePred) {
		pre := g.ReachFromEntry(a, nil)
		ok := true
		for _, n := range g.Select(b) {
			if pre[n] {
				ok = false
				r.Bad(rule, name, an+"<"+bn, g.Line(n), bn+" is reachable without a preceding "+an)
			}
		}
		if ok {
			r.Ok(rule, name+":"+an+"<"+bn, f.Pos(), an+" precedes "+bn)
		}
	}
	precede("tombstones", applyDel, "Cache.DeleteRange", cacheDel)
	precede("Cache.DeleteRange", cacheDel, "WAL.DeleteRange", walDel)
	precede("Cache.DeleteRange", cacheDel, "reconcile", applyRec)
	precede("Cache.DeleteRange", cacheDel, "Cache.Keys", cacheKeys)
	precede("reconcile", applyRec, "Index.DropSeries", dropS)
	precede("Cache.Keys", cacheKeys, "Index.DropSeries", dropS)
	// no index change after a failed WAL delete / reconcile walk
	core.RuleErrorsUsed(r, f, rule, "FileStore.Apply(delete, reconcile)/WAL.DeleteRange/DropSeries/DropMeasurementIfSeriesNotExist/SeriesIDSets.ForEach",
		core.Or(func(i *types.Info, c *ast.CallExpr) bool {
			if !apply(i, c) {
				return false
			}
			for _, a := range c.Args {
				if fl, ok := ast.Unparen(a).(*ast.FuncLit); ok && (hasCross(fl.Body) || len(core.AllCalls(info, fl.Body, call("tsdb/engine/tsm1.TSMFile.BatchDelete"))) > 0) {
					return true
				}
			}
			return false
		}, call("tsdb/engine/tsm1.WAL.DeleteRange", "tsdb.Index.DropSeries", "tsdb.Index.DropMeasurementIfSeriesNotExist", "tsdb.SeriesIDSets.ForEach", "tsdb/engine/tsm1.BatchDeleter.DeleteRange", "tsdb/engine/tsm1.BatchDeleter.Commit")), false, 7)

	// cache cross-out in the main graph: behind bytes.Equal, after Cache.Keys
	var mainCross []*core.Node
	for _, n := range g.Nodes {
		if n.N != nil && isCross(n.N) {
			mainCross = append(mainCross, n)
		}
	}
	if r.Check(len(mainCross) >= 1, rule, name, "cache-cross-out:absent", f.Pos(), "keys still present in the cache are crossed out") {
		noEq := g.ReachFromEntry(nil, func(e *core.Edge) bool {
			return rw3EdgeImplies(e, func(c ast.Expr, v bool) bool {
				cx, ok := c.(*ast.CallExpr)
				return ok && v && call("bytes.Equal")(info, cx)
			})
		})
		preKeys := g.ReachFromEntry(cacheKeys, nil)
		for _, n := range mainCross {
			r.Check(!noEq[n], rule, name, "cache-cross-out-guard", g.Line(n), "a key is crossed out only where bytes.Equal matched it with a cache key")
			r.Check(!preKeys[n], rule, name, "Cache.Keys<cache-cross-out", g.Line(n), "the cache keys are read (after the delete) before crossing out")
		}
	}

	// the drop loop
	var loop *rw3Loop
	for _, s := range rw3TopLoops(f.Decl.Body) {
		if rs, ok := s.(*ast.RangeStmt); ok && core.ObjOf(info, rs.X) == keys && len(core.AllCalls(info, rs.Body, call("tsdb.Index.DropSeries"))) > 0 {
			loop = rw3FindLoop(g, rs)
		}
	}
	if !r.Check(loop != nil && loop.Val != nil, rule, name, "drop-loop:absent", f.Pos(), "loop over the series keys that drops from the index found") {
		return
	}
	k := loop.Val
	// the cache-values flag
	lenOfValues := func(x ast.Expr) bool {
		c, ok := ast.Unparen(x).(*ast.CallExpr)
		if !ok || !call("tsdb/engine/tsm1.Values.Len")(info, c) {
			return false
		}
		s, ok := ast.Unparen(c.Fun).(*ast.SelectorExpr)
		if !ok {
			return false
		}
		rc, ok := ast.Unparen(s.X).(*ast.CallExpr)
		return ok && call("tsdb/engine/tsm1.Cache.Values")(info, rc)
	}
	var flag types.Object
	nflag := 0
	noValues := g.Reach([]*core.Node{loop.Entry}, func(n *core.Node) bool { return !loop.In(n) }, func(e *core.Edge) bool { return rw3NonZeroEdgeQ(info, e, lenOfValues) })
	for _, n := range g.Nodes {
		as, ok := n.N.(*ast.AssignStmt)
		if !ok || !loop.In(n) || len(as.Lhs) != 1 || len(as.Rhs) != 1 {
			continue
		}
		v := core.ConstVal(info, as.Rhs[0])
		o := core.ObjOf(info, as.Lhs[0])
		if v == nil || v.String() != "true" || o == nil || noValues[n] {
			continue
		}
		flag = o
		nflag++
	}
	if !r.Check(nflag == 1 && flag != nil, rule, name, "cache-values-flag:absent", p.Pos(loop.Stmt.Pos()), "a flag is set exactly where Cache.Values(key).Len() > 0") {
		return
	}
	okFlag := true
	for _, d := range rw3Defs(info, f.Decl.Body, flag) {
		v := core.ConstVal(info, d.Rhs)
		n := rw3StmtNode(g, d.Stmt)
		if d.Rhs == nil || v == nil || v.String() != "true" || n == nil || noValues[n] {
			okFlag = false
		}
	}
	r.Check(okFlag, rule, name, "cache-values-flag", p.Pos(loop.Stmt.Pos()), "the flag is only ever set to true, and only behind Cache.Values(key).Len() > 0")
	// guarded effects
	isMeasStore := func(n *core.Node) bool {
		as, ok := n.N.(*ast.AssignStmt)
		if !ok || len(as.Lhs) != 1 {
			return false
		}
		ix, ok := ast.Unparen(as.Lhs[0]).(*ast.IndexExpr)
		if !ok {
			return false
		}
		_, isMap := info.TypeOf(ix.X).Underlying().(*types.Map)
		return isMap && core.ObjOf(info, ix.X) != nil
	}
	idsAdd := g.Calling(call("tsdb.SeriesIDSet.Add"))
	effects := []struct {
		n string
		p core.NodePred
	}{{"Index.DropSeries", dropS}, {"ids.Add", idsAdd}, {"measurement-set insert", isMeasStore}}
	notCrossed := func(e *core.Edge) bool { return rw3NonZeroEdge(info, e, k) }
	noCache := func(e *core.Edge) bool { return rw3BoolEdge(info, e, flag, false) }
	viaCrossed := g.Reach([]*core.Node{loop.Entry}, func(n *core.Node) bool { return !loop.In(n) }, notCrossed)
	viaCache := g.Reach([]*core.Node{loop.Entry}, func(n *core.Node) bool { return !loop.In(n) }, noCache)
	for _, ef := range effects {
		var ns []*core.Node
		for _, n := range g.Select(ef.p) {
			if loop.In(n) {
				ns = append(ns, n)
			}
		}
		if !r.Check(len(ns) >= 1, rule, name, ef.n+":absent", p.Pos(loop.Stmt.Pos()), ef.n+" exists in the drop loop") {
			continue
		}
		for _, n := range ns {
			r.Check(!viaCrossed[n], rule, name, ef.n+":not-guarded-by-tsm-presence", g.Line(n), ef.n+" is reached only on the edge len(k) != 0 (key not found in any TSM file / cache key list)")
			r.Check(!viaCache[n], rule, name, ef.n+":not-guarded-by-cache-values", g.Line(n), ef.n+" is reached only on the edge !hasCacheValues")
		}
	}
	// the flag is computed before it is tested: every Cache.Values test precedes DropSeries in the iteration
	for _, c := range core.AllCalls(info, loop.Body, call("tsdb.Index.DropSeries")) {
		okArgs := len(c.Args) == 3 && core.ObjOf(info, c.Args[1]) == k &&
			rw3SoleCallDef(info, f.Decl.Body, core.ObjOf(info, c.Args[0]), call("tsdb.SeriesFile.SeriesID"), -1) != nil
		r.Check(okArgs, rule, name, "DropSeries-args", p.Pos(c.Pos()), "DropSeries gets the loop key and the series id looked up for it")
		if okArgs {
			// the id is looked up for the name/tags parsed from the same key
			sc := rw3SoleCallDef(info, f.Decl.Body, core.ObjOf(info, c.Args[0]), call("tsdb.SeriesFile.SeriesID"), -1)
			okid := len(sc.Args) == 3
			if okid {
				for i, a := range sc.Args[:2] {
					pc := rw3SoleCallDef(info, f.Decl.Body, core.ObjOf(info, a), call("models.ParseKeyBytes"), i)
					if pc == nil || len(pc.Args) != 1 || core.ObjOf(info, pc.Args[0]) != k {
						okid = false
					}
				}
			}
			r.Check(okid, rule, name, "SeriesID-args", p.Pos(sc.Pos()), "the series id is looked up for ParseKeyBytes(k) of the loop key")
		}
	}
	for _, c := range core.AllCalls(info, loop.Body, call("tsdb.SeriesIDSet.Add")) {
		dc := core.AllCalls(info, loop.Body, call("tsdb.Index.DropSeries"))
		r.Check(len(c.Args) == 1 && len(dc) == 1 && core.ObjOf(info, c.Args[0]) != nil && core.ObjOf(info, c.Args[0]) == core.ObjOf(info, dc[0].Args[0]), rule, name, "ids.Add-arg", p.Pos(c.Pos()), "the id queued for series-file deletion is the id dropped from the index")
	}
	// not after a failed DropSeries
	for _, n := range g.Select(dropS) {
		fail, _, has := g.ErrEdges(n)
		if !r.Check(has, rule, name, "DropSeries-untested", g.Line(n), "the error of DropSeries is tested") {
			continue
		}
		bad := false
		for x := range g.Reach([]*core.Node{fail.To}, func(x *core.Node) bool { return !loop.In(x) }, nil) {
			if idsAdd(x) {
				bad = true
			}
		}
		r.Check(!bad, rule, name, "ids.Add-after-failed-DropSeries", g.Line(n), "an id is not queued after DropSeries failed")
	}
	// every touched measurement is offered to DropMeasurementIfSeriesNotExist
	var mset types.Object
	for _, n := range g.Select(isMeasStore) {
		if loop.In(n) {
			mset = core.ObjOf(info, ast.Unparen(n.N.(*ast.AssignStmt).Lhs[0]).(*ast.IndexExpr).X)
		}
	}
	okM := false
	for _, s := range rw3TopLoops(f.Decl.Body) {
		rs, ok := s.(*ast.RangeStmt)
		if !ok || mset == nil || core.ObjOf(info, rs.X) != mset {
			continue
		}
		ml := rw3FindLoop(g, rs)
		if ml == nil || ml.Key == nil {
			continue
		}
		dm := func(n *core.Node) bool {
			if n.N == nil {
				return false
			}
			for _, c := range core.CallsIn(info, n.N, call("tsdb.Index.DropMeasurementIfSeriesNotExist"), core.WalkOpts{}) {
				if len(c.Args) == 1 && rw3UsesObj(info, c.Args[0], ml.Key) {
					return true
				}
			}
			return false
		}
		okM = len(g.Select(dm)) >= 1 && len(ml.Escapes(g, dm, nil)) == 0
	}
	r.Check(okM, rule, name, "measurement-not-reconciled", f.Pos(), "every measurement that lost a series passes DropMeasurementIfSeriesNotExist")

	// series file: only ids that no other shard holds
	var ids types.Object
	for _, c := range core.AllCalls(info, loop.Body, call("tsdb.SeriesIDSet.Add")) {
		ids = rw3RecvObj(info, c)
	}
	andNot := func(n *core.Node) bool {
		if n.N == nil {
			return false
		}
		for _, c := range core.CallsIn(info, n.N, call("tsdb.SeriesIDSets.ForEach"), core.WalkOpts{}) {
			for _, a := range c.Args {
				fl, ok := ast.Unparen(a).(*ast.FuncLit)
				if !ok {
					continue
				}
				found := false
				ast.Inspect(fl.Body, func(x ast.Node) bool {
					as, ok := x.(*ast.AssignStmt)
					if ok && len(as.Lhs) == 1 && len(as.Rhs) == 1 && core.ObjOf(info, as.Lhs[0]) == ids && ids != nil {
						if ac, ok := ast.Unparen(as.Rhs[0]).(*ast.CallExpr); ok && call("tsdb.SeriesIDSet.AndNot")(info, ac) && rw3RecvObj(info, ac) == ids {
							found = true
						}
					}
					return true
				})
				if found {
					return true
				}
			}
		}
		return false
	}
	delID := func(n *core.Node) bool {
		if n.N == nil {
			return false
		}
		for _, c := range core.CallsIn(info, n.N, call("tsdb.SeriesIDSet.ForEach"), core.WalkOpts{}) {
			if rw3RecvObj(info, c) != ids {
				continue
			}
			for _, a := range c.Args {
				if fl, ok := ast.Unparen(a).(*ast.FuncLit); ok && len(core.AllCalls(info, fl.Body, call("tsdb.SeriesFile.DeleteSeriesID"))) > 0 {
					return true
				}
			}
		}
		return false
	}
	if r.Check(ids != nil && len(g.Select(andNot)) >= 1 && len(g.Select(delID)) >= 1, rule, name, "series-file-delete:absent", f.Pos(), "ids = ids.AndNot(other shard) and ids.ForEach(DeleteSeriesID) exist") {
		precede("AndNot(other-shards)", andNot, "SeriesFile.DeleteSeriesID", delID)
		all := core.AllCalls(info, f.Decl.Body, call("tsdb.SeriesFile.DeleteSeriesID"))
		inLit := 0
		for _, n := range g.Select(delID) {
			inLit += len(core.AllCalls(info, n.N, call("tsdb.SeriesFile.DeleteSeriesID")))
		}
		r.Check(len(all) == inLit, rule, name, "DeleteSeriesID-elsewhere", f.Pos(), "DeleteSeriesID is only called from ids.ForEach")
	}
}

// ---- (5) DeleteSeriesRangeWithPredicate: batching
func c17Batch(p *core.Prog, r *core.Report) {
	const rule = "batch-delete"
	f := r.Need(p, tsm1, "Engine.DeleteSeriesRangeWithPredicate")
	if f == nil {
		return
	}
	info, g, name := f.Info(), f.Graph(), f.String()
	sig, _ := f.Obj.Type().(*types.Signature)
	if !r.Check(sig != nil && sig.Params().Len() == 3, "anchor", name+" signature", "unresolved", f.Pos(), "signature resolved") {
		return
	}
	pred := types.Object(sig.Params().At(2))
	dsr := call("tsdb/engine/tsm1.Engine.deleteSeriesRange")
	calls := core.AllCalls(info, f.Decl.Body, dsr)
	if !r.Check(len(calls) >= 2, rule, name, "deleteSeriesRange:count", f.Pos(), fmt.Sprintf("%d deleteSeriesRange call(s) (flush in the loop, flush at the end: 2 confirmed by reading)", len(calls))) {
		return
	}
	var batch, minV, maxV types.Object
	okArgs := true
	for _, c := range calls {
		if len(c.Args) != 4 {
			okArgs = false
			continue
		}
		b, mn, mx := core.ObjOf(info, c.Args[1]), core.ObjOf(info, c.Args[2]), core.ObjOf(info, c.Args[3])
		if b == nil || mn == nil || mx == nil || (batch != nil && (b != batch || mn != minV || mx != maxV)) {
			okArgs = false
		}
		batch, minV, maxV = b, mn, mx
	}
	if !r.Check(okArgs, rule, name, "deleteSeriesRange-args", f.Pos(), "every flush passes the same batch / min / max variables") {
		return
	}
	// range comes from the predicate
	var should types.Object
	var predCallNode *core.Node
	for _, n := range g.Nodes {
		as, ok := n.N.(*ast.AssignStmt)
		if !ok || len(as.Rhs) != 1 || len(as.Lhs) != 3 {
			continue
		}
		if c, ok := ast.Unparen(as.Rhs[0]).(*ast.CallExpr); ok && core.ObjOf(info, c.Fun) == pred {
			should = core.ObjOf(info, as.Lhs[2])
			predCallNode = n
			for i, v := range []types.Object{minV, maxV} {
				src := core.ObjOf(info, as.Lhs[i])
				okFlow := false
				for _, d := range rw3Defs(info, f.Decl.Body, v) {
					if d.Rhs != nil && core.ObjOf(info, d.Rhs) == src && src != nil {
						okFlow = true
					}
				}
				r.Check(okFlow, rule, name, fmt.Sprintf("range-from-predicate:%d", i), g.Line(n), "the range handed to deleteSeriesRange is assigned from the predicate's result")
			}
		}
	}
	if !r.Check(should != nil && predCallNode != nil, rule, name, "predicate-call:absent", f.Pos(), "the predicate is evaluated per series") {
		return
	}
	var loop *rw3Loop
	for _, s := range rw3TopLoops(f.Decl.Body) {
		if fs, ok := s.(*ast.ForStmt); ok && len(core.AllCalls(info, fs.Body, call("tsdb.SeriesIterator.Next"))) > 0 {
			loop = rw3FindLoop(g, fs)
		}
	}
	if !r.Check(loop != nil, rule, name, "series-loop:absent", f.Pos(), "loop over the series iterator found") {
		return
	}
	isBatch := func(n *core.Node) bool {
		return n.N != nil && rw3AppendTo(info, n.N, func(e ast.Expr) bool { return core.ObjOf(info, e) == batch }) != nil
	}
	bs := g.Select(isBatch)
	if !r.Check(len(bs) >= 1, rule, name, "batch-append:absent", f.Pos(), "keys are batched") {
		return
	}
	selected := func(e *core.Edge) bool {
		return rw3NilSide(info, e, pred, true) || rw3BoolEdge(info, e, should, true)
	}
	unsel := g.Reach([]*core.Node{loop.Entry}, func(n *core.Node) bool { return !loop.In(n) }, selected)
	for _, b := range bs {
		r.Check(!unsel[b], rule, name, "batched-without-predicate", g.Line(b), "a key is batched only on the edge predicate == nil or shouldDelete == true")
	}
	// every selected series is batched
	var elem types.Object
	for _, n := range g.Select(g.Calling(call("tsdb.SeriesIterator.Next"))) {
		if as, ok := n.N.(*ast.AssignStmt); ok && len(as.Lhs) == 2 {
			elem = core.ObjOf(info, as.Lhs[0])
		}
	}
	exempt := func(e *core.Edge) bool {
		return rw3BoolEdge(info, e, should, false) || rw3NilSide(info, e, elem, true)
	}
	if esc := loop.Escapes(g, isBatch, exempt); len(esc) == 0 {
		r.Ok(rule, name+":selected-is-batched", p.Pos(loop.Stmt.Pos()), "every series returned by the iterator reaches the batch, returns an error, or was rejected by the predicate")
	} else {
		r.Bad(rule, name, "series-skipped", rw3EscapeWhere(g, loop, isBatch, exempt), "a selected series can be skipped without being batched")
	}
	// batched keys are deleted before success
	gate := g.Calling(dsr)
	okS := true
	for _, b := range bs {
		if miss := rw3SuccessMissing(g, core.After(b, nil), gate, func(e *core.Edge) bool { return rw3ZeroEdge(info, e, batch) }); len(miss) > 0 {
			okS = false
			r.Bad(rule, name, "batch-not-flushed", g.Line(miss[0]), "a success exit is reachable after batching a key without deleteSeriesRange(batch)")
		}
	}
	if okS {
		r.Ok(rule, name+":batch-flushed", g.Line(bs[0]), "no success exit after batching without deleteSeriesRange(batch) unless the batch is empty")
	}
	core.RuleErrorsUsed(r, f, rule, "deleteSeriesRange/Next", core.Or(dsr, call("tsdb.SeriesIterator.Next")), false, 3)
	// the batched key is built from the element
	for _, b := range bs {
		okk := false
		for _, a := range rw3AppendTo(info, b.N, func(e ast.Expr) bool { return core.ObjOf(info, e) == batch }) {
			if mk := rw3SoleCallDef(info, f.Decl.Body, core.ObjOf(info, a), call("models.MakeKey"), -1); mk != nil && rw3UsesObj(info, mk, elem) {
				okk = true
			}
		}
		r.Check(okk, rule, name, "batched-key", g.Line(b), "the batched key is models.MakeKey(elem.Name(), elem.Tags())")
	}
}

// ---- (6) Store.DeleteSeriesWithPredicate: the predicate filters what is deleted
func c17PredicateFilter(p *core.Prog, r *core.Report) {
	const rule = "predicate-filter"
	f := r.Need(p, tsdbP, "Store.DeleteSeriesWithPredicate")
	if f == nil {
		return
	}
	info, name := f.Info(), f.String()
	sig, _ := f.Obj.Type().(*types.Signature)
	if !r.Check(sig != nil && sig.Params().Len() == 6, "anchor", name+" signature", "unresolved", f.Pos(), "signature resolved") {
		return
	}
	minP, maxP, predP := types.Object(sig.Params().At(2)), types.Object(sig.Params().At(3)), types.Object(sig.Params().At(4))
	dcs := core.AllCalls(info, f.Decl.Body, call("tsdb.Shard.DeleteSeriesRange"))
	if !r.Check(len(dcs) == 1 && len(dcs[0].Args) == 4, rule, name, "Shard.DeleteSeriesRange:absent", f.Pos(), "one Shard.DeleteSeriesRange") {
		return
	}
	dc := dcs[0]
	r.Check(core.ObjOf(info, dc.Args[2]) == minP && core.ObjOf(info, dc.Args[3]) == maxP, rule, name, "range-args", p.Pos(dc.Pos()), "the shard delete gets the caller's min and max")
	ad := rw3SoleCallDef(info, f.Decl.Body, core.ObjOf(info, dc.Args[1]), call("tsdb.NewSeriesIteratorAdapter"), -1)
	okChain := false
	var mm types.Object
	if ad != nil && len(ad.Args) == 2 {
		if pc, ok := ast.Unparen(ad.Args[1]).(*ast.CallExpr); ok && call("tsdb.NewPredicateSeriesIDIterator")(info, pc) && len(pc.Args) == 3 && core.ObjOf(info, pc.Args[2]) == predP {
			if sc := rw3SoleCallDef(info, f.Decl.Body, core.ObjOf(info, pc.Args[0]), call("tsdb.Index.MeasurementSeriesIDIterator"), 0); sc != nil && len(sc.Args) == 1 {
				mm = core.ObjOf(info, sc.Args[0])
				okChain = mm != nil && core.ObjOf(info, pc.Args[1]) == core.ObjOf(info, ad.Args[0]) && core.ObjOf(info, ad.Args[0]) != nil
			}
		}
	}
	r.Check(okChain, rule, name, "iterator-chain", p.Pos(dc.Pos()), "the deleted series are NewSeriesIteratorAdapter(sfile, NewPredicateSeriesIDIterator(MeasurementSeriesIDIterator(mm), sfile, pred)) with the caller's pred")
	// the closure around it and the measurement loop
	var closure *ast.FuncLit
	var closureObj types.Object
	ast.Inspect(f.Decl.Body, func(n ast.Node) bool {
		as, ok := n.(*ast.AssignStmt)
		if !ok || len(as.Lhs) != 1 || len(as.Rhs) != 1 {
			return true
		}
		if fl, ok := ast.Unparen(as.Rhs[0]).(*ast.FuncLit); ok && fl.Pos() <= dc.Pos() && dc.End() <= fl.End() {
			// innermost literal assigned to a variable
			if closure == nil || (closure.Pos() <= fl.Pos() && fl.End() <= closure.End()) {
				closure, closureObj = fl, core.ObjOf(info, as.Lhs[0])
			}
		}
		return true
	})
	if !r.Check(closure != nil && closureObj != nil, rule, name, "delete-closure:absent", p.Pos(dc.Pos()), "the per-measurement delete is a local closure") {
		return
	}
	okParam := closure.Type.Params != nil && len(closure.Type.Params.List) == 1 && len(closure.Type.Params.List[0].Names) == 1 && info.Defs[closure.Type.Params.List[0].Names[0]] == mm
	r.Check(okParam, rule, name, "closure-measurement", p.Pos(closure.Pos()), "the closure deletes the series of the measurement it is called with")
	cg := f.LitGraph(closure)
	core.RuleMustPassN(r, f, cg, rule, "Shard.DeleteSeriesRange (closure)", cg.Calling(call("tsdb.Shard.DeleteSeriesRange")), func(e *core.Edge) bool {
		// a measurement without series (nil iterator) has nothing to delete
		return rw3EdgeImplies(e, func(c ast.Expr, v bool) bool {
			x, nonNilOnTrue, ok := core.NilTest(info, c)
			return ok && v != nonNilOnTrue && rw3SoleCallDef(info, closure.Body, core.ObjOf(info, x), call("tsdb.Index.MeasurementSeriesIDIterator"), 0) != nil
		})
	})
	// the walkShards callback: every measurement passes the closure
	ws := core.AllCalls(info, f.Decl.Body, call("tsdb.Store.walkShards"))
	if len(ws) != 1 {
		return
	}
	lit, _ := ast.Unparen(ws[0].Args[1]).(*ast.FuncLit)
	if lit == nil {
		return
	}
	lg := f.LitGraph(lit)
	var loop *rw3Loop
	for _, s := range rw3TopLoops(lit.Body) {
		if fs, ok := s.(*ast.ForStmt); ok && len(core.AllCalls(info, fs.Body, call("tsdb.MeasurementIterator.Next"))) > 0 {
			loop = rw3FindLoop(lg, fs)
		}
	}
	if !r.Check(loop != nil, rule, name, "measurement-loop:absent", p.Pos(lit.Pos()), "loop over the shard's measurements found") {
		return
	}
	var cur types.Object
	for _, n := range lg.Select(lg.Calling(call("tsdb.MeasurementIterator.Next"))) {
		if as, ok := n.N.(*ast.AssignStmt); ok && len(as.Lhs) == 2 {
			cur = core.ObjOf(info, as.Lhs[0])
		}
	}
	isDel := func(n *core.Node) bool {
		if n.N == nil {
			return false
		}
		for _, c := range core.CallsIn(info, n.N, func(_ *types.Info, c *ast.CallExpr) bool { return core.ObjOf(info, c.Fun) == closureObj }, core.WalkOpts{}) {
			if len(c.Args) == 1 && core.ObjOf(info, c.Args[0]) == cur && cur != nil {
				return true
			}
		}
		return false
	}
	r.Check(len(lg.Select(isDel)) >= 1, rule, name, "closure-call:absent", p.Pos(loop.Stmt.Pos()), "the closure is called with the current measurement")
	exempt := func(e *core.Edge) bool { return rw3NilSide(info, e, cur, true) }
	if esc := loop.Escapes(lg, isDel, exempt); len(esc) == 0 {
		r.Ok(rule, name+":every-measurement", p.Pos(loop.Stmt.Pos()), "every measurement returned by the iterator passes the delete closure or ends the callback with an error")
	} else {
		r.Bad(rule, name, "measurement-skipped", rw3EscapeWhere(lg, loop, isDel, exempt), "a measurement can be skipped without deleting its matching series")
	}
	core.RuleErrorsUsed(r, f, rule, "closure/DeleteSeriesRange/iterators", core.Or(call("tsdb.Shard.DeleteSeriesRange", "tsdb.MeasurementIterator.Next", "tsdb.Index.MeasurementSeriesIDIterator", "tsdb.Index.MeasurementIterator", "tsdb.Shard.Index"),
		func(_ *types.Info, c *ast.CallExpr) bool { return core.ObjOf(info, c.Fun) == closureObj }), false, 6)
}

// ---- (7) storage.Engine.DeleteBucketRangePredicate
func c17Passthrough(p *core.Prog, r *core.Report) {
	const rule = "bucket-delete-passthrough"
	f := r.Need(p, "storage", "Engine.DeleteBucketRangePredicate")
	if f == nil {
		return
	}
	info, g, name := f.Info(), f.Graph(), f.String()
	sig, _ := f.Obj.Type().(*types.Signature)
	m := call("storage.TSDBStore.DeleteSeriesWithPredicate", "tsdb.Store.DeleteSeriesWithPredicate", "storage.*.DeleteSeriesWithPredicate")
	cs := core.AllCalls(info, f.Decl.Body, m)
	if !r.Check(len(cs) == 1 && sig != nil && sig.Params().Len() == 7 && len(cs[0].Args) == 6, rule, name, "DeleteSeriesWithPredicate:absent", f.Pos(), "one DeleteSeriesWithPredicate with six arguments") {
		return
	}
	c := cs[0]
	ok := rw3UsesObj(info, c.Args[1], sig.Params().At(2)) && len(core.AllCalls(info, c.Args[1], call("kit/platform.ID.String"))) == 1
	for i, pi := range map[int]int{2: 3, 3: 4, 4: 5, 5: 6} {
		if core.ObjOf(info, c.Args[i]) != types.Object(sig.Params().At(pi)) {
			ok = false
		}
	}
	r.Check(ok, rule, name, "arguments", p.Pos(c.Pos()), "bucketID.String(), min, max, pred, measurement are forwarded unchanged and in order")
	core.RuleErrorsUsed(r, f, rule, "DeleteSeriesWithPredicate", m, false, 1)
	// every success exit passes it (a closed engine returns an error)
	core.RuleMustPassN(r, f, g, rule, "DeleteSeriesWithPredicate", g.Calling(m), nil)
}
