package rules

import (
	"go/ast"
	"go/token"
	"go/types"

	"verif/checker/core"
)

// retry-delay ("Retry delays follow the documented backoff and Retry-After
// rules"). Every failure return of writer.Write hands the caller a delay. The
// structural necessary condition: the delay operand of a failure return is
// either the call w.backoff(attempts) itself, or a local variable that has been
// ASSIGNED on every feasible path to that return — from the Retry-After header
// or from w.backoff — never left at its zero value (a zero delay turns a
// failing remote into a busy retry loop).
//
// The code pairs the variable with a boolean "has been set" flag; plain CFG
// reachability would report the infeasible path "not set in the switch, flag
// true". The flag is therefore treated as a typestate bit: it is trusted only
// after checking that each `flag = true` is reachable solely through an
// assignment of the delay variable, and then the edges on which the flag is
// known true count as "assigned".
func init() {
	extend("C27", "retry-delay: the delay operand of every failure return of writer.Write is w.backoff(attempts) or a local that is assigned (header value or backoff) on every feasible path to the return, the set-flag being verified as a typestate bit of that assignment; a failure never returns the zero delay.",
		nil, func(p *core.Prog, r *core.Report, tier string) {
			const rule = "retry-delay"
			f := r.Need(p, replRWPkg, "writer.Write")
			if f == nil {
				return
			}
			g, info := f.Graph(), f.Info()
			// w.backoff(…) itself or a local closure bound once to a literal that calls it
			backoff := core.ThroughLocalLits(f.Decl.Body, call("replications/remotewrite.writer.backoff"))
			hdrCall := call("replications/remotewrite.writer.waitTimeFromHeader")
			nVar := 0
			for _, x := range g.Exits {
				rs, ok := x.N.(*ast.ReturnStmt)
				if !ok || len(rs.Results) != 2 || core.IsNilIdent(info, ast.Unparen(rs.Results[1])) {
					continue
				}
				d := ast.Unparen(rs.Results[0])
				if c, ok := d.(*ast.CallExpr); ok && backoff(info, c) {
					r.Ok(rule, f.String(), g.Line(x), "failure returns w.backoff(…)")
					continue
				}
				v, _ := core.ObjOf(info, d).(*types.Var)
				if !r.Check(v != nil && !v.IsField(), rule, f.String(), "delay-operand", g.Line(x), "the delay of a failure return is w.backoff(…) or a local variable") {
					continue
				}
				nVar++
				assignV := g.AssigningObj(v)
				// the assigned values: header time or backoff
				srcOK := true
				for _, n := range g.Select(assignV) {
					as, ok := n.N.(*ast.AssignStmt)
					if !ok || len(as.Rhs) != 1 {
						srcOK = false
						continue
					}
					rhs := core.ResolveLocal(info, f.Decl.Body, as.Rhs[0])
					c, isCall := ast.Unparen(rhs).(*ast.CallExpr)
					if !(isCall && (backoff(info, c) || hdrCall(info, c))) {
						srcOK = false
					}
					if isCall && hdrCall(info, c) {
						// a header value is used only when it is known to be non-zero
						src := core.ObjOf(info, as.Rhs[0])
						nonZero := core.AtomEdge(func(e ast.Expr, val bool) bool {
							be, ok := ast.Unparen(e).(*ast.BinaryExpr)
							if !ok || (be.Op != token.NEQ && be.Op != token.EQL && be.Op != token.GTR) {
								return false
							}
							tv, has := info.Types[be.Y]
							if src == nil || core.ObjOf(info, be.X) != src || !has || tv.Value == nil || tv.Value.ExactString() != "0" {
								return false
							}
							return val == (be.Op != token.EQL)
						})
						r.Check(src != nil && g.OnlyVia(n, nonZero), rule, f.String(), "header-delay-may-be-zero", g.Line(n), "the Retry-After value becomes the delay only when it is non-zero")
					}
				}
				r.Check(srcOK && len(g.Select(assignV)) >= 2, rule, f.String(), "delay-sources", g.Line(x), "the delay variable is assigned only from waitTimeFromHeader and backoff (>= 2 assignments)")
				// typestate flags of v
				flags := map[types.Object]bool{}
				bad := map[types.Object]bool{}
				for _, n := range g.Nodes {
					as, ok := n.N.(*ast.AssignStmt)
					if !ok || len(as.Lhs) != 1 || len(as.Rhs) != 1 {
						continue
					}
					o, _ := core.ObjOf(info, as.Lhs[0]).(*types.Var)
					if o == nil || o.IsField() || !types.Identical(o.Type().Underlying(), types.Typ[types.Bool]) {
						continue
					}
					tv, has := info.Types[as.Rhs[0]]
					if !has || tv.Value == nil {
						bad[o] = true
						continue
					}
					if tv.Value.ExactString() == "true" {
						if as.Tok == token.DEFINE || g.ReachFromEntry(assignV, nil)[n] {
							bad[o] = true // set without the variable having been assigned
						} else {
							flags[o] = true
						}
					}
				}
				for o := range bad {
					delete(flags, o)
				}
				flagTrue := core.AtomEdge(func(e ast.Expr, val bool) bool {
					return val && flags[core.ObjOf(info, e)]
				})
				r.Check(!g.Reach([]*core.Node{g.Entry}, assignV, flagTrue)[x], rule, f.String(), "delay-unassigned", g.Line(x), "the delay variable is assigned on every feasible path to the failure return")
			}
			r.Check(nVar >= 1, rule, f.String(), "variable-delay-return:absent", f.Pos(), "the failure return with the computed delay exists")
		})
}
