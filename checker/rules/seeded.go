package rules

import "verif/checker/core"

// RunSeeded re-runs the property's rules on every seeded change recorded under
// /verif/seeded that names this property (thorough tier) and records the kill
// matrix. Implemented in seeded_run.go.
func RunSeeded(p *Prop, r *core.Report) { runSeeded(p, r) }
