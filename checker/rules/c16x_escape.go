package rules

import (
	"fmt"
	"go/ast"
	"go/token"
	"go/types"

	"verif/checker/core"
)

// unescape-covers-escape. The predicate matcher walks series keys as they are
// built for the index (models.MakeKey escapes ',', ' ' and '=' in tag keys AND tag
// values — models.tagEscapeCodes). predicatePopTagEscape therefore has to undo
// exactly that escaping on both halves of a pair; a byte that stays escaped in the
// value makes `tag = "a=b"` (and `_measurement`, which travels as the value of the
// \x00 tag) compare against "a\=b". Structural necessary condition: in every
// unescape loop of predicatePopTagEscape (one for the tag, one for the value) the
// set of bytes whose preceding backslash is dropped contains every byte escaped
// by models.tagEscapeCodes.
func init() {
	extend("C16", "unescape-covers-escape: each of the two unescape loops of predicatePopTagEscape (tag key, tag value) drops the backslash in front of every byte that models.tagEscapeCodes escapes (',', ' ', '='), so predicates compare against the same strings that models.MakeKey escaped.",
		[]string{"./models"}, func(p *core.Prog, r *core.Report, tier string) {
			const rule = "unescape-covers-escape"
			mp := p.Pkg("models")
			f := r.Need(p, tsm1, "predicatePopTagEscape")
			if mp == nil || f == nil {
				return
			}
			// the escaped bytes: the k fields of the composite literal initialising models.tagEscapeCodes
			esc := map[string]bool{}
			for _, file := range mp.Syntax {
				ast.Inspect(file, func(n ast.Node) bool {
					vs, ok := n.(*ast.ValueSpec)
					if !ok {
						return true
					}
					for i, nm := range vs.Names {
						if nm.Name != "tagEscapeCodes" || i >= len(vs.Values) {
							continue
						}
						ast.Inspect(vs.Values[i], func(y ast.Node) bool {
							kv, ok := y.(*ast.KeyValueExpr)
							if !ok {
								return true
							}
							if id, ok := kv.Key.(*ast.Ident); ok && id.Name == "k" {
								ast.Inspect(kv.Value, func(z ast.Node) bool {
									if bl, ok := z.(*ast.BasicLit); ok && bl.Kind == token.CHAR {
										if tv, has := mp.TypesInfo.Types[bl]; has && tv.Value != nil {
											esc[tv.Value.ExactString()] = true
										}
									}
									return true
								})
							}
							return true
						})
					}
					return true
				})
			}
			if !r.Check(len(esc) >= 3, rule, "models.tagEscapeCodes", "table:unresolved", "-", fmt.Sprintf("%d escaped bytes found in models.tagEscapeCodes (>= 3)", len(esc))) {
				return
			}
			info := f.Info()
			// unescape loops: range loops whose body tests the loop element against '\\'
			nLoops := 0
			ast.Inspect(f.Decl.Body, func(n ast.Node) bool {
				rs, ok := n.(*ast.RangeStmt)
				if !ok {
					return true
				}
				isBackslash := func(e ast.Expr) bool {
					tv, has := info.Types[e]
					return has && tv.Value != nil && tv.Value.ExactString() == "92"
				}
				tests := false
				dropped := map[string]bool{}
				ast.Inspect(rs.Body, func(y ast.Node) bool {
					be, ok := y.(*ast.BinaryExpr)
					if !ok || be.Op != token.EQL {
						return true
					}
					if isBackslash(be.X) || isBackslash(be.Y) {
						tests = true
						return true
					}
					for _, side := range []ast.Expr{be.X, be.Y} {
						if tv, has := info.Types[side]; has && tv.Value != nil {
							if b, ok := tv.Type.Underlying().(*types.Basic); ok && b.Info()&types.IsInteger != 0 {
								dropped[tv.Value.ExactString()] = true
							}
						}
					}
					return true
				})
				if !tests {
					return true
				}
				nLoops++
				for b := range esc {
					r.Check(dropped[b], rule, f.String(), fmt.Sprintf("loop#%d:byte-%s-stays-escaped", nLoops, b), p.Pos(rs.Pos()), "the unescape loop drops the backslash in front of byte "+b+", which models escapes in tag keys and values")
				}
				return true
			})
			r.Check(nLoops >= 2, rule, f.String(), "unescape-loops:count", f.Pos(), fmt.Sprintf("%d unescape loops (>= 2: tag key and tag value)", nLoops))
		})
}
