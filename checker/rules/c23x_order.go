package rules

import (
	"fmt"
	"go/ast"
	"go/token"
	"go/types"
	"strconv"
	"strings"

	"verif/checker/core"
)

// C23, part 2: order tables (top/bottom heaps, value sorts), selection after
// sort, distinct.

// ---------------------------------------------------------------- (8) heap order

func (c *c23) heapOrder() {
	const rule = "heap-order"
	info := c.info
	nCmp, nAgg := 0, 0
	for _, fam := range []struct {
		family string
		top    bool
	}{{"Top", true}, {"Bottom", false}} {
		for _, k := range c23Num {
			typ := k + fam.family + "Reducer"
			// ---- comparator literal of the constructor
			if ctor := c.r.Need(c.p, qP, "New"+typ); ctor != nil {
				var lits []*ast.FuncLit
				ast.Inspect(ctor.Decl.Body, func(x ast.Node) bool {
					fl, ok := x.(*ast.FuncLit)
					if !ok {
						return true
					}
					sig, _ := info.TypeOf(fl).(*types.Signature)
					if sig != nil && sig.Params().Len() == 2 && sig.Results().Len() == 1 {
						p0, ok0 := sig.Params().At(0).Type().Underlying().(*types.Pointer)
						p1, ok1 := sig.Params().At(1).Type().Underlying().(*types.Pointer)
						if ok0 && ok1 && c23IsPt(p0.Elem()) && c23IsPt(p1.Elem()) {
							lits = append(lits, fl)
						}
					}
					return true
				})
				if c.r.Check(len(lits) == 1, rule, ctor.String(), "comparator:not-exactly-one", ctor.Pos(), fmt.Sprintf("%d comparator literals", len(lits))) {
					nCmp++
					doms := []core.DDomain{{Path: "A", Values: []string{"ptr"}}, {Path: "B", Values: []string{"ptr"}}}
					for _, x := range []string{"*A.Value", "*B.Value", "*A.Time", "*B.Time"} {
						doms = append(doms, core.DDomain{Path: x, Values: []string{"0", "1", "2"}})
					}
					rows, bad, und, first := 0, 0, "", ""
					core.EnumModels(doms, func(m core.DModel) {
						av, _ := strconv.Atoi(m["*A.Value"])
						bv, _ := strconv.Atoi(m["*B.Value"])
						at, _ := strconv.Atoi(m["*A.Time"])
						bt, _ := strconv.Atoi(m["*B.Time"])
						rows++
						res, u := core.N1EvalLitOn(c.p, ctor, lits[0], m, []core.DVal{core.Path("A"), core.Path("B")}, nil)
						if u != "" {
							und = u
							return
						}
						var want bool
						if fam.top {
							want = av < bv || (av == bv && at > bt)
						} else {
							want = av > bv || (av == bv && at > bt)
						}
						if (res.Value == "true") != want {
							bad++
							if first == "" {
								first = fmt.Sprintf("a=(value %d, time %d) b=(value %d, time %d): cmp = %s, 'a is worse than b' = %v", av, at, bv, bt, res.Value, want)
							}
						}
					})
					switch {
					case und != "":
						c.r.Bad(rule, ctor.String(), "comparator:undecided", ctor.Pos(), "comparator left the decidable fragment: "+und)
					case bad > 0:
						c.r.Bad(rule, ctor.String(), "comparator:order-table", c.p.Pos(lits[0].Pos()), fmt.Sprintf("%d of %d orderings differ from the documented order; first: %s", bad, rows, first))
					default:
						c.r.Check(rows == 81, rule, ctor.String(), "comparator:rows", ctor.Pos(), fmt.Sprintf("%d orderings enumerated: worse = %s value, then later time", rows, map[bool]string{true: "smaller", false: "larger"}[fam.top]))
					}
				}
			}
			// ---- Aggregate
			rc := c.red(k, fam.family)
			if rc == nil {
				continue
			}
			h := rc.fld("h")
			if h == nil {
				continue
			}
			pts, cmp := core.N1FieldOfType(h.Type(), "points"), core.N1FieldOfType(h.Type(), "cmp")
			if !c.r.Check(pts != nil && cmp != nil, "anchor", qP+"."+typ+".h", "points/cmp:unresolved", "", "heap fields resolved") {
				continue
			}
			nAgg++
			g, name := rc.ga, rc.agg.String()
			isPts := c.path(h, pts)
			lenName := qP + "." + strings.ToLower(k) + "PointsByFunc.Len"
			isLen := func(e ast.Expr) bool {
				cl, ok := ast.Unparen(e).(*ast.CallExpr)
				if !ok {
					return false
				}
				if core.Builtin("len")(info, cl) {
					return len(cl.Args) == 1 && isPts(ast.Unparen(cl.Args[0]))
				}
				rv := core.Recv(cl)
				return call(lenName)(info, cl) && rv != nil && c.path(h)(rv)
			}
			isCap := func(e ast.Expr) bool {
				cl, ok := ast.Unparen(e).(*ast.CallExpr)
				return ok && core.Builtin("cap")(info, cl) && len(cl.Args) == 1 && isPts(ast.Unparen(cl.Args[0]))
			}
			isRoot := func(e ast.Expr) bool { // &h.points[0]
				u, ok := ast.Unparen(e).(*ast.UnaryExpr)
				if !ok || u.Op != token.AND {
					return false
				}
				ix, ok := ast.Unparen(u.X).(*ast.IndexExpr)
				return ok && isPts(ast.Unparen(ix.X)) && core.X1IsConstInt(info, ix.Index, 0)
			}
			isParam := func(e ast.Expr) bool {
				v, ok := core.ObjOf(info, ast.Unparen(e)).(*types.Var)
				if !ok || v.IsField() {
					return false
				}
				pt, ok := v.Type().Underlying().(*types.Pointer)
				return ok && types.Identical(pt.Elem(), rc.inPt)
			}
			isCmp := func(e ast.Expr) bool { // h.cmp(&h.points[0], p)
				cl, ok := ast.Unparen(e).(*ast.CallExpr)
				return ok && c.path(h, cmp)(ast.Unparen(cl.Fun)) && len(cl.Args) == 2 && isRoot(cl.Args[0]) && isParam(cl.Args[1])
			}
			anyCmp := func(e ast.Expr) bool {
				cl, ok := ast.Unparen(e).(*ast.CallExpr)
				return ok && c.path(h, cmp)(ast.Unparen(cl.Fun))
			}
			full, notFull := c.cmpEdge(isLen, isCap, core.X1EQ), c.cmpEdge(isLen, isCap, core.X1NE)
			worse, notWorse := c.boolEdge(isCmp, true), c.boolEdge(isCmp, false)
			push := g.Calling(call("container/heap.Push"))
			fix := g.X1CallingWith(call("container/heap.Fix"), func(cl *ast.CallExpr) bool {
				return len(cl.Args) == 2 && c.path(h)(ast.Unparen(cl.Args[0])) && core.X1IsConstInt(info, cl.Args[1], 0)
			})
			replace := g.X1CallingWith(call(qP+"."+k+"Point.CopyTo"), func(cl *ast.CallExpr) bool {
				return len(cl.Args) == 1 && isRoot(cl.Args[0]) && isParam(core.Recv(cl))
			})
			for _, x := range []struct {
				what string
				p    core.NodePred
			}{{"heap.Push", push}, {"heap.Fix(h, 0)", fix}, {"p.CopyTo(&h.points[0])", replace}, {"h.cmp(&h.points[0], p)", g.N1Containing(isCmp)}} {
				c.r.Check(len(g.Select(x.p)) >= 1, rule, name, x.what+":absent", rc.agg.Pos(), x.what+" present")
			}
			// every comparator call has the operands (root, p)
			for _, nd := range g.Select(g.N1Containing(anyCmp)) {
				c.r.Check(g.N1Containing(isCmp)(nd), rule, name, "cmp-operands", g.Line(nd), "the comparator is asked whether the ROOT is worse than the NEW point: cmp(&h.points[0], p)")
			}
			bad := g.N1ReachableWithout(push, nil, notFull)
			c.r.Check(bad == nil, rule, name, "push-when-full", c.line(g, bad), "a point is pushed only on a path that established Len() != cap(points)")
			bad = g.N1ReachableWithout(replace, nil, full)
			c.r.Check(bad == nil, rule, name, "replace-before-full", c.line(g, bad), "the root is replaced only on a path that established Len() == cap(points)")
			bad = g.N1ReachableWithout(replace, nil, worse)
			c.r.Check(bad == nil, rule, name, "replace-without-comparison", c.line(g, bad), "the root is replaced only on the edge cmp(root, p) == true")
			reach := g.Reach(core.X1SuccsOf(g.Select(replace)), fix, nil)
			c.r.Check(len(core.X1ExitsIn(reach)) == 0, rule, name, "replace-without-fix", rc.agg.Pos(), "heap.Fix(h, 0) follows the replacement on every path")
			miss := g.N1ExitsWithout(core.AnyOf(push, fix), notWorse)
			var m *core.Node
			if len(miss) > 0 {
				m = miss[0]
			}
			c.r.Check(m == nil, rule, name, "point-dropped", c.line(g, m), "a point is neither pushed nor swapped in only on the edge cmp(root, p) == false")
		}
	}
	c.r.Check(nCmp >= 6 && nAgg >= 6, rule, qP, "sites:fewer-than-confirmed", "", fmt.Sprintf("%d comparators and %d Aggregate methods examined (6 + 6 confirmed by reading)", nCmp, nAgg))
}

// ---------------------------------------------------------------- (9) sort tables

func (c *c23) sortTables() {
	const rule = "sort-table"
	n := 0
	for _, k := range []string{"float", "integer", "unsigned", "string"} {
		for _, byValue := range []bool{true, false} {
			name := k + "Points.Less"
			if byValue {
				name = k + "PointsByValue.Less"
			}
			f := c.r.Need(c.p, qP, name)
			if f == nil {
				continue
			}
			var doms []core.DDomain
			for _, x := range []string{"A[0].Value", "A[1].Value", "A[0].Time", "A[1].Time"} {
				doms = append(doms, core.DDomain{Path: x, Values: []string{"0", "1", "2"}})
			}
			rows, bad, und, first := 0, 0, "", ""
			core.EnumModels(doms, func(m core.DModel) {
				vi, _ := strconv.Atoi(m["A[0].Value"])
				vj, _ := strconv.Atoi(m["A[1].Value"])
				ti, _ := strconv.Atoi(m["A[0].Time"])
				tj, _ := strconv.Atoi(m["A[1].Time"])
				rows++
				res, u := core.EvalOn(c.p, f, m, []core.DVal{core.Path("A"), core.Sym("0"), core.Sym("1")}, nil, nil)
				if u != "" {
					und = u
					return
				}
				want := vi < vj
				if !byValue {
					want = ti < tj || (ti == tj && vi < vj)
				}
				if (res.Value == "true") != want {
					bad++
					if first == "" {
						first = fmt.Sprintf("i=(time %d, value %d) j=(time %d, value %d): Less = %s", ti, vi, tj, vj, res.Value)
					}
				}
			})
			n++
			switch {
			case und != "":
				c.r.Bad(rule, f.String(), "undecided", f.Pos(), "comparator left the decidable fragment: "+und)
			case bad > 0:
				c.r.Bad(rule, f.String(), "order-table", f.Pos(), fmt.Sprintf("%d of %d orderings wrong; first: %s", bad, rows, first))
			default:
				c.r.Check(rows == 81, rule, f.String(), "rows", f.Pos(), fmt.Sprintf("%d orderings enumerated: %s", rows, map[bool]string{true: "ascending by value", false: "ascending by (time, value)"}[byValue]))
			}
		}
	}
	c.r.Check(n >= 8, rule, qP, "comparators:fewer-than-confirmed", "", fmt.Sprintf("%d Less methods enumerated", n))
}

// ---------------------------------------------------------------- (9) selection after sort

// indexOfParam: nodes that read a[<non-constant>] of the slice parameter a.
func (c *c23) indexOfParam(g *core.Graph, a types.Object) core.NodePred {
	return g.N1Containing(func(e ast.Expr) bool {
		ix, ok := e.(*ast.IndexExpr)
		return ok && core.ObjOf(c.info, ast.Unparen(ix.X)) == a && core.ConstVal(c.info, ix.Index) == nil
	})
}

func (c *c23) selection() {
	const rule = "select-after-sort"
	info := c.info
	sortCall := call("sort.Sort", "sort.Stable")
	n := 0
	// ---- percentile: literal returned by the constructor
	for _, k := range c23Num {
		f := c.r.Need(c.p, qP, "New"+k+"PercentileReduceSliceFunc")
		if f == nil {
			continue
		}
		var lit *ast.FuncLit
		ast.Inspect(f.Decl.Body, func(x ast.Node) bool {
			if fl, ok := x.(*ast.FuncLit); ok && lit == nil {
				lit = fl
			}
			return true
		})
		if !c.r.Check(lit != nil && lit.Type.Params != nil && len(lit.Type.Params.List) == 1 && len(lit.Type.Params.List[0].Names) == 1, rule, f.String(), "literal:absent", f.Pos(), "reduce literal found") {
			continue
		}
		n++
		a := info.Defs[lit.Type.Params.List[0].Names[0]]
		g := f.LitGraph(lit)
		reads := c.indexOfParam(g, a)
		c.r.Check(len(g.Select(reads)) >= 1 && len(g.Select(g.Calling(sortCall))) >= 1, rule, f.String(), "sort/index:absent", f.Pos(), "the literal sorts and indexes its argument")
		bad := g.N1ReachableWithout(reads, g.Calling(sortCall), nil)
		c.r.Check(bad == nil, rule, f.String(), "index-before-sort", c.line(g, bad), "the ranked element is read only after the points were sorted")
		// bounds and same element
		var idx ast.Expr
		var elems []ast.Expr
		ast.Inspect(lit.Body, func(x ast.Node) bool {
			if ix, ok := x.(*ast.IndexExpr); ok && core.ObjOf(info, ast.Unparen(ix.X)) == a && core.ConstVal(info, ix.Index) == nil {
				elems = append(elems, ix)
				if idx == nil {
					idx = ix.Index
				}
			}
			return true
		})
		same := true
		for _, e := range elems {
			same = same && core.SameExpr(info, e, elems[0])
		}
		c.r.Check(same && len(elems) >= 1, "output-time", f.String(), "time-and-value-from-different-elements", f.Pos(), fmt.Sprintf("all %d element reads designate the same a[i] (Time, Value and Aux of one point)", len(elems)))
		for _, el := range c.emitElems([]ast.Node{lit.Body}) {
			cl, ok := ast.Unparen(el).(*ast.CompositeLit)
			if !ok {
				continue
			}
			tv := core.N1KeyValue(info, cl, core.N1FieldOfType(info.TypeOf(cl), "Time"))
			vv := core.N1KeyValue(info, cl, core.N1FieldOfType(info.TypeOf(cl), "Value"))
			okT := tv != nil && core.FieldOf(info, ast.Unparen(tv)) == core.N1FieldOfType(info.TypeOf(cl), "Time")
			okV := vv != nil && core.FieldOf(info, ast.Unparen(vv)) == core.N1FieldOfType(info.TypeOf(cl), "Value")
			c.r.Check(okT && okV, "output-time", f.String(), "selector-time", c.p.Pos(cl.Pos()), "the emitted point takes Time from the selected element's Time and Value from its Value")
		}
		if idx != nil {
			isI := func(e ast.Expr) bool { return core.SameExpr(info, e, idx) }
			isLen := func(e ast.Expr) bool {
				return core.X1IsLenOf(info, core.X1IsObj(info, a))(core.ResolveLocal(info, lit.Body, e))
			}
			b1 := g.N1ReachableWithout(reads, nil, c.cmpEdge(isI, core.X1IsIntConst(info, 0), core.X1GE))
			b2 := g.N1ReachableWithout(reads, nil, c.cmpEdge(isI, isLen, core.X1LT))
			if b1 == nil {
				b1 = b2
			}
			c.r.Check(b1 == nil, rule, f.String(), "index-unchecked", c.line(g, b1), "a[i] is read only on a path that established 0 <= i and i < len(a)")
		}
	}
	// ---- median: sort before any non-constant index
	for _, k := range c23Num {
		f := c.r.Need(c.p, qP, k+"MedianReduceSlice")
		if f == nil {
			continue
		}
		n++
		g := f.Graph()
		reads := c.indexOfParam(g, f.X1Param(0))
		c.r.Check(len(g.Select(reads)) >= 1 && len(g.Select(g.Calling(sortCall))) >= 1, rule, f.String(), "sort/index:absent", f.Pos(), "median sorts and indexes its argument")
		bad := g.N1ReachableWithout(reads, g.Calling(sortCall), nil)
		c.r.Check(bad == nil, rule, f.String(), "index-before-sort", c.line(g, bad), "the middle elements are read only after the points were sorted")
	}
	// ---- mode: sort before the scan
	for _, k := range []string{"Float", "Integer", "Unsigned", "String"} {
		f := c.r.Need(c.p, qP, k+"ModeReduceSlice")
		if f == nil {
			continue
		}
		n++
		g := f.Graph()
		a := f.X1Param(0)
		scan := g.X1Ranging(func(rs *ast.RangeStmt) bool { return core.ObjOf(info, ast.Unparen(rs.X)) == types.Object(a) })
		c.r.Check(len(g.Select(scan)) >= 1 && len(g.Select(g.Calling(sortCall))) >= 1, rule, f.String(), "sort/scan:absent", f.Pos(), "mode sorts and scans its argument")
		bad := g.N1ReachableWithout(scan, g.Calling(sortCall), nil)
		c.r.Check(bad == nil, rule, f.String(), "scan-before-sort", c.line(g, bad), "runs of equal values are counted only after the points were sorted")
	}
	c.r.Check(n >= 10, rule, qP, "functions:fewer-than-confirmed", "", fmt.Sprintf("%d slice reducers examined (3 percentile, 3 median, 4 mode)", n))
}

// ---------------------------------------------------------------- (10) distinct

func (c *c23) distinct() {
	const rule = "distinct-first-wins"
	info := c.info
	n := 0
	for _, k := range c23All {
		rc := c.red(k, "Distinct")
		if rc == nil {
			continue
		}
		m := rc.fld("m")
		inVal := rc.in("Value")
		if m == nil || inVal == nil {
			continue
		}
		n++
		g, name := rc.ga, rc.agg.String()
		isM := c.path(m)
		slot := func(e ast.Expr) bool {
			ix, ok := ast.Unparen(e).(*ast.IndexExpr)
			return ok && isM(ast.Unparen(ix.X)) && c.path(inVal)(ast.Unparen(ix.Index))
		}
		store := g.N1Assign(token.ASSIGN, slot, core.N1DerefOfType(info, rc.inPt))
		anyStore := g.N1Stores(func(e ast.Expr) bool { return c.underField(e, m) })
		c.r.Check(len(g.Select(store)) >= 1, rule, name, "store:absent", rc.agg.Pos(), "m[p.Value] = *p present")
		for _, nd := range g.Select(anyStore) {
			c.r.Check(store(nd), rule, name, "store-under-other-key", g.Line(nd), "the map is written only as m[p.Value] = *p")
		}
		// the comma-ok lookup of the same key
		oks := map[types.Object]bool{}
		for _, root := range rc.ina.Roots {
			ast.Inspect(root, func(x ast.Node) bool {
				as, ok := x.(*ast.AssignStmt)
				if ok && len(as.Lhs) == 2 && len(as.Rhs) == 1 && slot(as.Rhs[0]) {
					if o := core.ObjOf(info, as.Lhs[1]); o != nil {
						oks[o] = true
					}
				}
				return true
			})
		}
		c.r.Check(len(oks) >= 1, rule, name, "lookup:absent", rc.agg.Pos(), "_, ok := m[p.Value] present")
		absent := c.boolEdge(func(e ast.Expr) bool { return oks[core.ObjOf(info, e)] }, false)
		bad := g.N1ReachableWithout(store, nil, absent)
		c.r.Check(bad == nil, rule, name, "overwrite-of-seen-value", c.line(g, bad), "the map is written only on a path that established that p.Value is not yet present (the first point of a value is kept)")

		ge, ename := rc.ge, rc.em.String()
		scan := ge.X1Ranging(func(rs *ast.RangeStmt) bool { return isM(ast.Unparen(rs.X)) })
		sorted := ge.Calling(call("sort.Sort", "sort.Stable"))
		c.r.Check(len(ge.Select(scan)) >= 1, rule, ename, "scan:absent", rc.em.Pos(), "Emit ranges over the map")
		miss := ge.N1ExitsWithout(sorted, nil)
		c.r.Check(len(miss) == 0, rule, ename, "unsorted-result", rc.em.Pos(), "every path sorts the collected points (map order is random)")
		late := ge.N1Between(ge.Select(sorted), nil, scan)
		c.r.Check(late == nil, rule, ename, "sort-before-scan", c.line(ge, late), "the sort follows the collection loop")
		// Time and Value of an emitted point come from the same map entry
		nL := 0
		for _, root := range rc.ine.Roots {
			ast.Inspect(root, func(x ast.Node) bool {
				cl, ok := x.(*ast.CompositeLit)
				if !ok || !c23IsPt(info.TypeOf(cl)) || len(cl.Elts) == 0 {
					return true
				}
				tv := core.N1KeyValue(info, cl, core.N1FieldOfType(info.TypeOf(cl), "Time"))
				vv := core.N1KeyValue(info, cl, core.N1FieldOfType(info.TypeOf(cl), "Value"))
				if tv == nil || vv == nil {
					return true
				}
				nL++
				ts, okT := ast.Unparen(tv).(*ast.SelectorExpr)
				vs, okV := ast.Unparen(vv).(*ast.SelectorExpr)
				ok = okT && okV && core.SameExpr(info, ts.X, vs.X) &&
					core.FieldOf(info, ts) != nil && core.FieldOf(info, ts).Name() == "Time" && core.FieldOf(info, vs) != nil && core.FieldOf(info, vs).Name() == "Value"
				c.r.Check(ok, "output-time", ename, "time-and-value-from-different-entries", c.p.Pos(cl.Pos()), "Time and Value of an emitted point come from the same stored point")
				return true
			})
		}
		c.r.Check(nL >= 1, "output-time", ename, "emitted-literal:absent", rc.em.Pos(), "emitted point literal found")
	}
	c.r.Check(n >= 5, rule, qP, "reducers:fewer-than-confirmed", "", fmt.Sprintf("%d distinct reducers examined", n))
}
