package rules

import (
	"fmt"
	"go/ast"
	"go/token"
	"go/types"
	"sort"
	"strings"

	"verif/checker/core"
)

func init() {
	register(&Prop{
		ID:       "C06",
		Patterns: []string{"./tsdb/engine/tsm1"},
		Level:    "other",
		Explanation: "Necessary-condition rules for 'a key cursor reads a stable, correctly ordered set of files' (the merge itself is value-level and is not decided): " +
			"(1) fs-locks (E2): FileStore.files/lastModified/lastFileStats/currentGeneration/currentTempDirID/newReaderBlockCount are stored to only while BOTH slowMu and fastMu are write-held and read only while one of them is held; newReadersBlocked/locations/cost/newKeyCursor are checked at their call sites (caller holds either lock of that FileStore); " +
			"(2) fs-raw-lock: slowMu.Lock/Unlock and fastMu.Lock/Unlock occur only inside wlock/wunlock, which take slowMu before fastMu and release in reverse; " +
			"(3) fs-lock-balance: no FileStore method other than wlock returns while still holding a FileStore lock; " +
			"(4) fs-writers (E3): each guarded field is stored to only by the functions listed in the writer table; KeyCursor.seeks only by newKeyCursor, FileStore.KeyCursor (nil) and KeyCursor.Close; " +
			"(5) ref-under-lock: every TSMFile.Ref in the package is made by a FileStore method or newKeyCursor while a lock of that FileStore is held (so Replace, which needs both write locks, cannot close the file in between) — one named exception: the goroutines of FileStore.Apply, accepted because Apply is checked to receive cap(errC) results, one send per goroutine exit, before any RUnlock; " +
			"(6) ref-pairing: newKeyCursor refs the file of every location it stores in seeks; KeyCursor.Close unrefs every one of them before it clears seeks; WalkKeys/Apply/CreateSnapshot pair every Ref with a deferred Unref of the same file before the next Ref or any exit; FileStore.TSMReader returns a non-nil reader only after Ref on it and Compactor.compact defers Unref of every reader it obtained; " +
			"(7) direction-dispatch: ascending selects ascLocations/seekAscending/nextAscending and !ascending the desc variants; both Less functions compare the same projection of a[i] and a[j], overlapping entries by file path.",
		NotCovered:  "the merged values themselves: the window arithmetic of Read*Block (which bound is widened/narrowed by which block, the arguments of markRead/Include/Exclude, < versus <=) and Values.Merge/Deduplicate are value-level — (13) only decides on which edges a block is dropped, skipped, decoded, filtered, merged, marked and returned; off-by-one of the seek-time comparisons in locations/seek*; loop bounds that would index out of range; that every KeyCursor a caller obtains is eventually closed; deadlock freedom of the two-lane lock beyond per-function balance (9).",
		Assumptions: []string{"sync.RWMutex semantics", "a function literal that is not started with `go` runs with the locks held where it is written"},
		Run:         runC06,
	})
}

var x2FsGuarded = []string{"files", "lastModified", "lastFileStats", "currentGeneration", "currentTempDirID", "newReaderBlockCount"}
var x2FsEither = []string{"slowMu", "fastMu"}

// writer table, confirmed by reading file_store.go
var x2FsWriters = map[string][]string{
	"files":               {"FileStore.Open", "FileStore.Close", "FileStore.replace"},
	"lastModified":        {"NewFileStore", "FileStore.Apply", "FileStore.DeleteRange", "FileStore.Open", "FileStore.replace"},
	"lastFileStats":       {"FileStore.Apply", "FileStore.DeleteRange", "FileStore.Close", "FileStore.Stats", "FileStore.replace"},
	"currentGeneration":   {"FileStore.NextGeneration", "FileStore.Open"},
	"currentTempDirID":    {"FileStore.Open", "FileStore.CreateSnapshot"},
	"newReaderBlockCount": {"FileStore.SetNewReadersBlocked"},
}

// x2RefExempt: Ref calls accepted without a statically held lock.
var x2RefExempt = map[string]string{
	"FileStore.Apply": "the Ref runs in a goroutine, but Apply keeps slowMu read-held until every goroutine has reported on errC (cap(errC) receives before RUnlock)",
}

func x2RecvTypeOf(f *core.Func) string {
	if i := strings.IndexByte(f.Name, '.'); i > 0 {
		return f.Name[:i]
	}
	return ""
}

func x2RecvIdent(f *core.Func) string {
	if f.Decl.Recv != nil && len(f.Decl.Recv.List) == 1 && len(f.Decl.Recv.List[0].Names) == 1 {
		return f.Decl.Recv.List[0].Names[0].Name
	}
	return ""
}

func runC06(p *core.Prog, r *core.Report, tier string) {
	pk := p.Pkg(tsm1)
	if pk == nil {
		r.Bad("anchor", tsm1, "unresolved", "-", "package not loaded")
		return
	}
	refCall := call(tsm1+".TSMFile.Ref", tsm1+".TSMReader.Ref")
	unrefCall := call(tsm1+".TSMFile.Unref", tsm1+".TSMReader.Unref")

	// ---- (1) + (5): lockset with the Ref hook
	type refSite struct {
		f    *core.Func
		pos  token.Pos
		ok   bool
		held string
	}
	var refs []refSite
	rules := &core.LockRulesX{
		LockRules: core.LockRules{
			Pkg:          tsm1,
			Guards:       []core.Guard{{Type: "FileStore", Fields: x2FsGuarded, Locks: x2FsEither}},
			CallerHolds:  map[string]map[string]byte{},
			ExemptFunc:   map[string]string{},
			ExemptAccess: map[string]string{},
		},
		HoldsAny: map[string]core.HoldAny{
			"FileStore.newReadersBlocked": {Param: -1, Locks: x2FsEither},
			"FileStore.locations":         {Param: -1, Locks: x2FsEither},
			"FileStore.cost":              {Param: -1, Locks: x2FsEither},
			"newKeyCursor":                {Param: 1, Locks: x2FsEither},
		},
	}
	rules.OnCall = func(f *core.Func, c *ast.CallExpr, v core.LockView) {
		if !refCall(f.Info(), c) {
			return
		}
		base := ""
		switch {
		case x2RecvTypeOf(f) == "FileStore":
			base = x2RecvIdent(f)
		case f.Name == "newKeyCursor":
			base = "fs"
			if f.Decl.Type.Params != nil {
				for _, fl := range f.Decl.Type.Params.List {
					for _, nm := range fl.Names {
						if pt, ok := f.Info().TypeOf(fl.Type).(*types.Pointer); ok && x2IsNamed(pt, "FileStore") {
							base = nm.Name
						}
					}
				}
			}
		}
		held := base != "" && (v.Mode(base+".slowMu") >= 1 || v.Mode(base+".fastMu") >= 1)
		refs = append(refs, refSite{f, c.Pos(), held, v.String()})
	}
	core.RuleLocksX(r, p, rules, "fs-locks", 60, 6)
	seenRef := map[string]bool{}
	nref := 0
	for _, s := range refs {
		nref++
		r.Saw(s.f)
		if s.ok {
			r.Ok("ref-under-lock", s.f.String(), p.Pos(s.pos), "Ref while holding "+s.held)
			continue
		}
		if why, ex := x2RefExempt[s.f.Name]; ex {
			if !seenRef[s.f.Name] {
				seenRef[s.f.Name] = true
				r.Ok("ref-under-lock", s.f.String(), p.Pos(s.pos), "exception: "+why)
			}
			continue
		}
		r.Bad("ref-under-lock", s.f.String(), "Ref-without-lock", p.Pos(s.pos), "a TSM file is Ref'd while no lock of its FileStore is held (held: "+s.held+"): FileStore.replace may already have seen InUse()==false and be closing it")
	}
	r.Check(nref >= 5, "ref-under-lock", tsm1, "Ref:count", "-", fmt.Sprintf("%d Ref call sites examined (>= 5 confirmed by reading)", nref))
	// the Apply exception is only sound while Apply really waits for all goroutines under the lock
	if f := r.Need(p, tsm1, "FileStore.Apply"); f != nil {
		x2ApplyWaits(p, r, f)
	}

	// ---- (2) raw lock operations
	x2RawLocks(p, r)

	// ---- (3) lock balance
	la := &core.LockAnalysis{Prog: p, Rules: &rules.LockRules}
	nb := 0
	for _, f := range p.Funcs(tsm1) {
		if f.Decl.Body == nil || (x2RecvTypeOf(f) != "FileStore" && f.Name != "newKeyCursor") {
			continue
		}
		if f.Name == "FileStore.wlock" {
			continue // returns holding both locks by design; paired with wunlock (checked through summaries at every caller)
		}
		nb++
		leaks := la.LockLeaks(f, func(path string) bool {
			return strings.HasSuffix(path, ".slowMu") || strings.HasSuffix(path, ".fastMu")
		})
		var ks []string
		for k := range leaks {
			ks = append(ks, k)
		}
		sort.Strings(ks)
		for _, k := range ks {
			r.Saw(f)
			r.Bad("fs-lock-balance", f.String(), "leak:"+k[strings.LastIndexByte(k, '.')+1:], leaks[k], "an exit is reachable on which "+k+" is still held")
		}
	}
	r.Check(nb >= 30, "fs-lock-balance", tsm1, "methods:count", "-", fmt.Sprintf("%d FileStore functions examined for locks held at exit", nb))

	// ---- (4) writers
	for _, fld := range x2FsGuarded {
		core.RuleWriters(r, p, tsm1, "FileStore", fld, x2FsWriters[fld], "fs-writers")
	}
	core.RuleWriters(r, p, tsm1, "KeyCursor", "seeks", []string{"newKeyCursor", "FileStore.KeyCursor", "KeyCursor.Close"}, "fs-writers")

	// ---- (6) ref pairing
	x2RefPairing(p, r, refCall, unrefCall)

	// ---- (7) x2Direction
	x2Direction(p, r)
}

// x2ApplyWaits: in FileStore.Apply the number of receives from errC equals its
// capacity, the channel capacity is len(f.files), one goroutine is started per
// file and every goroutine exit sends exactly once; all of it before RUnlock.
func x2ApplyWaits(p *core.Prog, r *core.Report, f *core.Func) {
	const rule = "ref-under-lock"
	info := f.Info()
	g := f.Graph()
	// the go literal
	var lit *ast.FuncLit
	var goNode *core.Node
	for _, nd := range g.Nodes {
		if gs, ok := nd.N.(*ast.GoStmt); ok {
			goNode = nd
			lit, _ = ast.Unparen(gs.Call.Fun).(*ast.FuncLit)
		}
	}
	if !r.Check(lit != nil, rule, f.String(), "Apply:goroutine:absent", f.Pos(), "goroutine literal found") {
		return
	}
	// every exit of the goroutine passes a send (so the parent's receive count is met)
	lg := f.LitGraph(lit)
	send := func(n *core.Node) bool { _, ok := n.N.(*ast.SendStmt); return ok }
	core.RuleMustPassN(r, f, lg, rule, "Apply:send-on-every-exit", send, nil)
	// the parent receives before it unlocks: every RUnlock reachable from the go statement is preceded by the receive loop
	recv := func(n *core.Node) bool {
		if n.N == nil {
			return false
		}
		hit := false
		core.Walk(n.N, core.WalkOpts{}, func(x ast.Node) bool {
			if u, ok := x.(*ast.UnaryExpr); ok && u.Op == token.ARROW {
				hit = true
			}
			return true
		})
		return hit
	}
	recvNodes := g.Select(recv)
	loops := x2OutermostLoopsContaining(f.Decl.Body, recvNodes)
	unlock := func(n *core.Node) bool {
		if n.N == nil {
			return false
		}
		if _, isDefer := n.N.(*ast.DeferStmt); isDefer {
			return false
		}
		hit := false
		core.Walk(n.N, core.WalkOpts{}, func(x ast.Node) bool {
			if c, ok := x.(*ast.CallExpr); ok {
				if _, op, ok := core.LockOpOn(info, c); ok && op == "RUnlock" {
					hit = true
				}
			}
			return true
		})
		return hit
	}
	okWait := len(loops) == 1 && goNode != nil
	if okWait {
		// loop bound is cap(channel)
		fs, isFor := loops[0].(*ast.ForStmt)
		bound := false
		if isFor && fs.Cond != nil {
			ast.Inspect(fs.Cond, func(x ast.Node) bool {
				if c, ok := x.(*ast.CallExpr); ok && core.Builtin("cap")(info, c) {
					bound = true
				}
				return true
			})
		}
		okWait = bound
		after := g.Reach(core.After(goNode, nil), core.InStmt(loops[0]), nil)
		for n := range after {
			if unlock(n) {
				okWait = false
			}
		}
	}
	r.Check(okWait, rule, f.String(), "Apply:wait-before-unlock", f.Pos(), "after starting the goroutines Apply receives cap(errC) results before any RUnlock")
}

// x2RawLocks: write-mode operations on the two FileStore mutexes only in wlock/wunlock.
func x2RawLocks(p *core.Prog, r *core.Report) {
	const rule = "fs-raw-lock"
	pk := p.Pkg(tsm1)
	slow := core.LookupField(pk.Types, "FileStore", "slowMu")
	fast := core.LookupField(pk.Types, "FileStore", "fastMu")
	if !r.Check(slow != nil && fast != nil, "anchor", tsm1+".FileStore.slowMu/fastMu", "unresolved", "-", "lock fields resolved") {
		return
	}
	allowed := map[string]string{"FileStore.wlock": "Lock", "FileStore.wunlock": "Unlock"}
	raw, rd := 0, 0
	for _, f := range p.Funcs(tsm1) {
		if f.Decl.Body == nil {
			continue
		}
		for _, c := range core.AllCalls(f.Info(), f.Decl.Body, func(*types.Info, *ast.CallExpr) bool { return true }) {
			fld, op, ok := core.LockOpOn(f.Info(), c)
			if !ok || (fld != slow && fld != fast) {
				continue
			}
			if op == "RLock" || op == "RUnlock" {
				rd++
				continue
			}
			raw++
			if allowed[f.Name] != op {
				r.Saw(f)
				r.Bad(rule, f.String(), fld.Name()+"."+op, p.Pos(c.Pos()), "write-mode "+op+" of FileStore."+fld.Name()+" outside wlock/wunlock: the slowMu-then-fastMu protocol is bypassed")
			}
		}
	}
	r.Check(raw >= 4, rule, tsm1, "raw-ops:count", "-", fmt.Sprintf("%d write-mode lock operations on slowMu/fastMu found (4 expected, all in wlock/wunlock); %d read-mode operations", raw, rd))
	onField := func(fld *types.Var, op string) core.Matcher {
		return func(info *types.Info, c *ast.CallExpr) bool {
			f2, o2, ok := core.LockOpOn(info, c)
			return ok && f2 == fld && o2 == op
		}
	}
	if f := r.Need(p, tsm1, "FileStore.wlock"); f != nil {
		core.RuleOrder(r, f, rule, []string{"slowMu.Lock", "fastMu.Lock"}, []core.Matcher{onField(slow, "Lock"), onField(fast, "Lock")})
		core.RuleMustPass(r, f, rule, "slowMu.Lock", onField(slow, "Lock"), false)
		core.RuleMustPass(r, f, rule, "fastMu.Lock", onField(fast, "Lock"), false)
	}
	if f := r.Need(p, tsm1, "FileStore.wunlock"); f != nil {
		core.RuleOrder(r, f, rule, []string{"fastMu.Unlock", "slowMu.Unlock"}, []core.Matcher{onField(fast, "Unlock"), onField(slow, "Unlock")})
		core.RuleMustPass(r, f, rule, "slowMu.Unlock", onField(slow, "Unlock"), false)
		core.RuleMustPass(r, f, rule, "fastMu.Unlock", onField(fast, "Unlock"), false)
	}
}

// recvObjOf returns the object of the receiver expression of a method call,
// looking through one field selection (f.r.Ref() -> object of f, field r).
func x2RecvPath(info *types.Info, c *ast.CallExpr) (obj types.Object, field *types.Var) {
	se, ok := ast.Unparen(c.Fun).(*ast.SelectorExpr)
	if !ok {
		return nil, nil
	}
	x := ast.Unparen(se.X)
	if o := core.ObjOf(info, x); o != nil {
		return o, nil
	}
	if s2, ok := x.(*ast.SelectorExpr); ok {
		return core.ObjOf(info, s2.X), core.FieldOf(info, s2)
	}
	return nil, nil
}

func x2RefPairing(p *core.Prog, r *core.Report, refCall, unrefCall core.Matcher) {
	const rule = "ref-pairing"
	pk := p.Pkg(tsm1)
	seeks := core.LookupField(pk.Types, "KeyCursor", "seeks")
	locR := core.LookupField(pk.Types, "location", "r")
	if !r.Check(seeks != nil && locR != nil, "anchor", tsm1+".KeyCursor.seeks/location.r", "unresolved", "-", "fields resolved") {
		return
	}
	// loop over <x>.seeks calling m on <elem>.r
	seeksLoop := func(f *core.Func, m core.Matcher) (*ast.RangeStmt, []*core.Node) {
		info := f.Info()
		g := f.Graph()
		var loop *ast.RangeStmt
		ast.Inspect(f.Decl.Body, func(x ast.Node) bool {
			if rs, ok := x.(*ast.RangeStmt); ok && core.FieldOf(info, rs.X) == seeks && loop == nil {
				loop = rs
			}
			return true
		})
		if loop == nil || loop.Value == nil {
			return loop, nil
		}
		val := core.ObjOf(info, loop.Value)
		var sinks []*core.Node
		for _, nd := range g.Nodes {
			if nd.N == nil || !core.InRegion(nd, loop.Body) {
				continue
			}
			for _, c := range core.CallsIn(info, nd.N, m, core.WalkOpts{}) {
				if o, fld := x2RecvPath(info, c); o == val && fld == locR {
					sinks = append(sinks, nd)
				}
			}
		}
		return loop, sinks
	}
	if f := r.Need(p, tsm1, "newKeyCursor"); f != nil {
		info := f.Info()
		g := f.Graph()
		loop, sinks := seeksLoop(f, refCall)
		if r.Check(loop != nil && len(sinks) >= 1, rule, f.String(), "ref-loop:absent", f.Pos(), "newKeyCursor ranges over c.seeks calling <location>.r.Ref()") {
			x2LosslessLoop(p, r, f, g, loop, sinks, rule, "Ref(seeks)")
			// the cursor is returned only after the loop
			pre := g.ReachFromEntry(core.InStmt(loop), nil)
			bad := false
			for _, x := range g.Exits {
				if rs, ok := x.N.(*ast.ReturnStmt); ok && len(rs.Results) == 1 && !core.IsNilIdent(info, rs.Results[0]) && pre[x] {
					bad = true
				}
			}
			r.Check(!bad, rule, f.String(), "return-before-ref", p.Pos(loop.Pos()), "the cursor is returned only after the Ref loop")
		}
		// seeks is initialised from fs.locations and not reassigned afterwards in this function
		nlit := 0
		okInit := false
		ast.Inspect(f.Decl.Body, func(x ast.Node) bool {
			if kv, ok := x.(*ast.KeyValueExpr); ok {
				if id, ok := kv.Key.(*ast.Ident); ok {
					if v, ok := info.Uses[id].(*types.Var); ok && v.Origin() == seeks {
						nlit++
						if c, ok := ast.Unparen(kv.Value).(*ast.CallExpr); ok && call(tsm1+".FileStore.locations")(info, c) {
							okInit = true
						}
					}
				}
			}
			return true
		})
		stores := g.Select(g.Assigning(seeks))
		r.Check(nlit == 1 && okInit && len(stores) == 0, rule, f.String(), "seeks-init", f.Pos(), "seeks is set once, from FileStore.locations, and the Ref loop ranges over that same field")
	}
	if f := r.Need(p, tsm1, "FileStore.KeyCursor"); f != nil {
		info := f.Info()
		okNil := true
		ast.Inspect(f.Decl.Body, func(x ast.Node) bool {
			if kv, ok := x.(*ast.KeyValueExpr); ok {
				if id, ok := kv.Key.(*ast.Ident); ok {
					if v, ok := info.Uses[id].(*types.Var); ok && v.Origin() == seeks && !core.IsNilIdent(info, kv.Value) {
						okNil = false
					}
				}
			}
			return true
		})
		r.Check(okNil, rule, f.String(), "blocked-cursor-seeks", f.Pos(), "the cursor built while new readers are blocked holds no locations (nothing un-Ref'd can be read or Unref'd)")
	}
	if f := r.Need(p, tsm1, "KeyCursor.Close"); f != nil {
		g := f.Graph()
		loop, sinks := seeksLoop(f, unrefCall)
		if r.Check(loop != nil && len(sinks) >= 1, rule, f.String(), "unref-loop:absent", f.Pos(), "Close ranges over c.seeks calling <location>.r.Unref()") {
			x2LosslessLoop(p, r, f, g, loop, sinks, rule, "Unref(seeks)")
			pre := g.ReachFromEntry(core.InStmt(loop), nil)
			stores := g.Select(g.Assigning(seeks))
			bad := len(stores) == 0
			for _, s := range stores {
				if pre[s] {
					bad = true
				}
			}
			r.Check(!bad, rule, f.String(), "clear-before-unref", p.Pos(loop.Pos()), "seeks is cleared only after the Unref loop (and is cleared, so a second Close does not Unref twice)")
			// every exit passes the loop
			bad = false
			for _, x := range g.Exits {
				if pre[x] && x.Kind != core.KPanic {
					bad = true
				}
			}
			r.Check(!bad, rule, f.String(), "exit-without-unref", f.Pos(), "every exit of Close passes the Unref loop")
		}
	}
	// Ref followed by `defer sameObject.Unref()`
	pairs := 0
	for _, n := range []string{"FileStore.WalkKeys", "FileStore.Apply", "FileStore.CreateSnapshot"} {
		f := r.Need(p, tsm1, n)
		if f == nil {
			continue
		}
		info := f.Info()
		for _, g := range f.Graphs() {
			for _, nd := range g.Select(g.Calling(refCall)) {
				for _, c := range core.CallsIn(info, nd.N, refCall, core.WalkOpts{}) {
					{
						o, fld := x2RecvPath(info, c)
						if o == nil || fld != nil {
							r.Bad(rule, f.String(), "ref-receiver", g.Line(nd), "Ref on something that is not a plain variable")
							continue
						}
						pairs++
						deferUnref := func(n *core.Node) bool {
							d, ok := n.N.(*ast.DeferStmt)
							if !ok || !unrefCall(info, d.Call) {
								return false
							}
							o2, f2 := x2RecvPath(info, d.Call)
							return o2 == o && f2 == nil
						}
						reach := g.Reach(core.After(nd, nil), deferUnref, nil)
						bad := reach[nd]
						for _, x := range g.Exits {
							if reach[x] && x.Kind != core.KPanic {
								bad = true
							}
						}
						r.Check(!bad, rule, f.String(), "ref-without-deferred-unref", g.Line(nd), "Ref of "+o.Name()+" is followed by `defer "+o.Name()+".Unref()` before the next Ref or any exit")
					}
				}
			}
		}
	}
	r.Check(pairs >= 3, rule, tsm1, "ref-defer-pairs:count", "-", fmt.Sprintf("%d Ref/defer-Unref pairs examined (>= 3 confirmed by reading)", pairs))
	// FileStore.TSMReader: non-nil result only after Ref on it
	if f := r.Need(p, tsm1, "FileStore.TSMReader"); f != nil {
		info := f.Info()
		g := f.Graph()
		n := 0
		for _, x := range g.Exits {
			rs, ok := x.N.(*ast.ReturnStmt)
			if !ok || len(rs.Results) != 2 || core.IsNilIdent(info, rs.Results[0]) {
				continue
			}
			n++
			res := ast.Unparen(rs.Results[0])
			if ta, ok := res.(*ast.TypeAssertExpr); ok {
				res = ast.Unparen(ta.X)
			}
			o := core.ObjOf(info, res)
			refOn := func(nd *core.Node) bool {
				if nd.N == nil {
					return false
				}
				for _, c := range core.CallsIn(info, nd.N, refCall, core.WalkOpts{}) {
					if o2, f2 := x2RecvPath(info, c); o2 == o && f2 == nil && o != nil {
						return true
					}
				}
				return false
			}
			reach := g.ReachFromEntry(refOn, nil)
			r.Check(o != nil && !reach[x], rule, f.String(), "handed-out-without-Ref", g.Line(x), "a reader is returned to the caller only after Ref on that reader (the caller will Unref it)")
		}
		r.Check(n >= 1, rule, f.String(), "non-nil-return:absent", f.Pos(), "returns a reader")
	}
	// Compactor.compact: every reader obtained is Unref'd by a defer
	if f := r.Need(p, tsm1, "Compactor.compact"); f != nil {
		info := f.Info()
		g := f.Graph()
		get := call(tsm1+".fileStore.TSMReader", tsm1+".FileStore.TSMReader")
		sites := 0
		for _, nd := range g.Select(g.Calling(get)) {
			as, ok := nd.N.(*ast.AssignStmt)
			if !ok || len(as.Lhs) != 2 {
				r.Bad(rule, f.String(), "reader-not-bound", g.Line(nd), "the reader returned by TSMReader is not bound to a variable")
				continue
			}
			sites++
			tr := core.ObjOf(info, as.Lhs[0])
			errV := core.ObjOf(info, as.Lhs[1])
			deferUnref := func(n *core.Node) bool {
				d, ok := n.N.(*ast.DeferStmt)
				if !ok || !unrefCall(info, d.Call) {
					return false
				}
				o2, f2 := x2RecvPath(info, d.Call)
				return o2 == tr && f2 == nil
			}
			// paths on which no reader was obtained: err != nil, tr == nil
			noReader := core.OrEdge(g.NilEdge(core.IsObj(info, errV), false), g.NilEdge(core.IsObj(info, tr), true))
			reach := g.Reach(core.After(nd, nil), deferUnref, noReader)
			bad := reach[nd]
			for _, x := range g.Exits {
				if reach[x] && x.Kind != core.KPanic {
					bad = true
				}
			}
			r.Check(!bad, rule, f.String(), "reader-without-deferred-unref", g.Line(nd), "a reader obtained from FileStore.TSMReader is Unref'd by a defer before the next one is obtained or the function exits")
		}
		r.Check(sites >= 1, rule, f.String(), "TSMReader:absent", f.Pos(), "obtains readers from the file store")
	}
}

// x2SameModulo: x and y are the same expression when parameter a is read for b.
func x2SameModulo(info *types.Info, x, y ast.Expr, a, b types.Object) bool {
	x, y = ast.Unparen(x), ast.Unparen(y)
	switch xt := x.(type) {
	case *ast.Ident:
		yt, ok := y.(*ast.Ident)
		if !ok {
			return false
		}
		ox, oy := info.Uses[xt], info.Uses[yt]
		if ox == a && a != nil {
			return oy == b
		}
		return ox == oy && xt.Name == yt.Name
	case *ast.SelectorExpr:
		yt, ok := y.(*ast.SelectorExpr)
		return ok && xt.Sel.Name == yt.Sel.Name && info.Uses[xt.Sel] == info.Uses[yt.Sel] && x2SameModulo(info, xt.X, yt.X, a, b)
	case *ast.IndexExpr:
		yt, ok := y.(*ast.IndexExpr)
		return ok && x2SameModulo(info, xt.X, yt.X, a, b) && x2SameModulo(info, xt.Index, yt.Index, a, b)
	case *ast.CallExpr:
		yt, ok := y.(*ast.CallExpr)
		if !ok || len(xt.Args) != len(yt.Args) || !x2SameModulo(info, xt.Fun, yt.Fun, a, b) {
			return false
		}
		for i := range xt.Args {
			if !x2SameModulo(info, xt.Args[i], yt.Args[i], a, b) {
				return false
			}
		}
		return true
	}
	return false
}

func x2Direction(p *core.Prog, r *core.Report) {
	const rule = "direction-dispatch"
	pk := p.Pkg(tsm1)
	ascF := core.LookupField(pk.Types, "KeyCursor", "ascending")
	r.Check(ascF != nil, "anchor", tsm1+".KeyCursor.ascending", "unresolved", "-", "field resolved")
	sortAs := func(typ string) core.Matcher {
		return func(info *types.Info, c *ast.CallExpr) bool {
			return call("sort.Sort", "sort.Stable")(info, c) && len(c.Args) == 1 && x2IsNamed(info.TypeOf(c.Args[0]), typ)
		}
	}
	type inst struct {
		fn         string
		asc, desc  core.Matcher
		an, dn     string
		paramIndex int // >=0: the flag is this parameter; -1: the KeyCursor.ascending field
	}
	for _, in := range []inst{
		{"newKeyCursor", sortAs("ascLocations"), sortAs("descLocations"), "sort(ascLocations)", "sort(descLocations)", 4},
		{"KeyCursor.seek", call(tsm1 + ".KeyCursor.seekAscending"), call(tsm1 + ".KeyCursor.seekDescending"), "seekAscending", "seekDescending", -1},
		{"KeyCursor.Next", call(tsm1 + ".KeyCursor.nextAscending"), call(tsm1 + ".KeyCursor.nextDescending"), "nextAscending", "nextDescending", -1},
	} {
		f := r.Need(p, tsm1, in.fn)
		if f == nil {
			continue
		}
		info := f.Info()
		g := f.Graph()
		var flag types.Object
		if in.paramIndex >= 0 {
			i := 0
			for _, fl := range f.Decl.Type.Params.List {
				for _, nm := range fl.Names {
					if i == in.paramIndex {
						flag = info.Defs[nm]
					}
					i++
				}
			}
			if b, ok := flag.Type().Underlying().(*types.Basic); flag == nil || !ok || b.Kind() != types.Bool {
				r.Bad(rule, f.String(), "flag-param", f.Pos(), "the direction parameter is not where the table says")
				continue
			}
		}
		isFlag := func(c ast.Expr) bool {
			if flag != nil {
				return core.ObjOf(info, c) == flag
			}
			return core.FieldOf(info, c) == ascF && ascF != nil
		}
		onBranch := func(b bool) core.EdgePred {
			return core.AtomEdge(func(x ast.Expr, val bool) bool { return val == b && isFlag(x) })
		}
		an, dn := g.Select(g.Calling(in.asc)), g.Select(g.Calling(in.desc))
		if !r.Check(len(an) >= 1 && len(dn) >= 1, rule, f.String(), in.an+"/"+in.dn+":absent", f.Pos(), "both direction variants are called") {
			continue
		}
		notAsc := g.ReachFromEntry(nil, onBranch(true))   // nodes reachable without ascending==true
		notDesc := g.ReachFromEntry(nil, onBranch(false)) // nodes reachable without ascending==false
		ok := true
		for _, n := range an {
			if notAsc[n] {
				ok = false
			}
		}
		for _, n := range dn {
			if notDesc[n] {
				ok = false
			}
		}
		r.Check(ok, rule, f.String(), in.an+"/"+in.dn, g.Line(an[0]), in.an+" only on the ascending branch, "+in.dn+" only on the other")
	}
	// Less functions
	for _, n := range []string{"ascLocations.Less", "descLocations.Less"} {
		f := r.Need(p, tsm1, n)
		if f == nil {
			continue
		}
		info := f.Info()
		var ps []types.Object
		for _, fl := range f.Decl.Type.Params.List {
			for _, nm := range fl.Names {
				ps = append(ps, info.Defs[nm])
			}
		}
		if len(ps) != 2 {
			r.Bad(rule, f.String(), "params", f.Pos(), "Less(i, j)")
			continue
		}
		rets, good, byPath := 0, 0, 0
		ast.Inspect(f.Decl.Body, func(x ast.Node) bool {
			rs, ok := x.(*ast.ReturnStmt)
			if !ok || len(rs.Results) != 1 {
				return true
			}
			rets++
			be, ok := ast.Unparen(rs.Results[0]).(*ast.BinaryExpr)
			if !ok || be.Op != token.LSS {
				return true
			}
			if x2SameModulo(info, be.X, be.Y, ps[0], ps[1]) && !x2SameModulo(info, be.X, be.Y, nil, nil) {
				good++
				if c, ok := ast.Unparen(be.X).(*ast.CallExpr); ok && call(tsm1+".TSMFile.Path")(info, c) {
					byPath++
				}
			}
			return true
		})
		r.Check(rets == 2 && good == 2 && byPath == 1, rule, f.String(), "less-shape", f.Pos(), "both returns are proj(a[i]) < proj(a[j]) with one projection on both sides; overlapping entries are ordered by file path")
		// the path comparison is the one taken for overlapping entries
		g := f.Graph()
		ov := call(tsm1 + ".IndexEntry.OverlapsTimeRange")
		okOv := false
		for _, nd := range g.Nodes {
			for _, e := range nd.Succ {
				if e.Cond != nil && e.Branch {
					if c, ok := ast.Unparen(e.Cond).(*ast.CallExpr); ok && ov(info, c) {
						if rs, ok := e.To.N.(*ast.ReturnStmt); ok && len(core.CallsIn(info, rs, call(tsm1+".TSMFile.Path"), core.WalkOpts{})) == 2 {
							okOv = true
						}
					}
				}
			}
		}
		r.Check(okOv, rule, f.String(), "overlap-by-path", f.Pos(), "entries whose time ranges overlap are ordered by file path (older generation first)")
	}
}
