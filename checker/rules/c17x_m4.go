package rules

import (
	"fmt"
	"go/ast"
	"go/token"
	"go/types"
	"sort"

	"golang.org/x/tools/go/cfg"

	"verif/checker/core"
)

// C17 extension (m4): rules added after triaging the survivors of the generic
// fault enumeration. Each closes a CLASS of single-site faults that make a bucket
// delete remove too little, too much, or report success without having deleted:
//
//   (9)  callback-failure-propagates: the function literals of the delete path
//        (walkShards callbacks, FileStore.Apply callbacks, local closures) are
//        subject to failure-propagates like declared functions.
//   (10) complete-before-success: the functions of the delete path report success
//        only after the step that does the work, except on named "nothing to
//        delete" edges.
//   (11) every-element: loops that must visit every key / measurement are not
//        left early and do not skip an element except on named edges.
//   (12) match-guards: data is tombstoned / selected / crossed out only on the
//        edge on which the key compared equal to one of the batch's keys.
//   (13) compactions are disabled before the first tombstone is written.

func init() {
	extend("C17",
		"(9) callback-failure-propagates: every function literal with an error result inside Store.DeleteSeriesWithPredicate / DeleteSeries / DeleteMeasurement and tsm1.Engine.deleteSeriesRange / DeleteSeriesRangeWithPredicate (walkShards and FileStore.Apply callbacks, local closures) fails when one of its error-returning calls fails; "+
			"(10) complete-before-success: the three Store delete entry points reach a success exit only through walkShards except on the edges `series file == nil` and `expanded sources empty`; Engine.DeleteSeriesRangeWithPredicate reaches a success exit only on the edge on which SeriesIterator.Next returned nil; the tombstone callback of deleteSeriesRange reaches a success exit without BatchDeleter.Commit only on an edge on which the file does not overlap the key range / time range (OverlapsTimeRange(min,max) false); the index-reconciliation callback returns only when the file's keys or the batch's keys are exhausted; after Cache.Keys the index drop loop is bypassed only on the false edge of a flag that is set exactly where a key with len != 0 remains; "+
			"(11) every-element: the loops over the batch keys that drop from the index and that cross out keys found in the cache, the loop over the touched measurements, the measurement loop of Store.DeleteSeriesWithPredicate (except on the edge bytes.Equal(measurement, requested name)) and the name loop of Store.DeleteSeries are never left before the last element other than with a failure; every not-yet-crossed-out key passes the cache-key lookup and every name with a non-nil iterator passes Shard.DeleteSeriesRange; "+
			"(12) match-guards: BatchDeleter.DeleteRange (with the function's min/max), the selection of cache keys handed to Cache.DeleteRange / WAL.DeleteRange and the cross-out inside the reconciliation callback are reachable only on an edge on which the walked key compared equal (bytes.Equal true, or a bytes.Compare result == 0) to an element of the batch; "+
			"(13) compactions-disabled: every deleteSeriesRange call of Engine.DeleteSeriesRangeWithPredicate is reachable only after Engine.disableLevelCompactions (once-flag idiom understood); "+
			"(14) delete-inputs of Store.DeleteSeries: the measurement names come from the FROM clause exactly on the edge len(sources) > 0 and from Shard.ForEachMeasurementName exactly on len(sources) == 0; min/max are timeRange.Min/Max.UnixNano() exactly on the !IsZero edge of that bound and influxql.MinTime/MaxTime exactly on its IsZero edge; failure-propagates also for error tests written in a negated form.",
		nil, runC17m4)
}

func runC17m4(p *core.Prog, r *core.Report, tier string) {
	c17m4Callbacks(p, r)
	m4NegatedErrTests(p, r)
	c17m4Store(p, r)
	c17m4EngineEntry(p, r)
	c17m4DeleteRange(p, r)
}

// ---------------------------------------------------------------- shared helpers (m4)

// m4Lits lists the function literals under root, outermost first.
func m4Lits(root ast.Node) []*ast.FuncLit {
	var out []*ast.FuncLit
	ast.Inspect(root, func(n ast.Node) bool {
		if fl, ok := n.(*ast.FuncLit); ok {
			out = append(out, fl)
		}
		return true
	})
	return out
}

// m4LitFailures applies failure-propagates to every function literal with an
// error result under f; the obligation key is function + callee (no positions).
// It returns the number of tested / forwarded error calls.
func m4LitFailures(p *core.Prog, r *core.Report, f *core.Func, rule string, except map[string]string) int {
	any := func(*types.Info, *ast.CallExpr) bool { return true }
	total := 0
	bad := map[string]string{}
	for _, fl := range m4Lits(f.Decl.Body) {
		lg := f.LitGraph(fl)
		n, sw := core.M4FailuresSwallowed(lg, fl, any)
		total += n
		for _, s := range sw {
			cn := core.FName(core.Callee(f.Info(), s.Call))
			if cn == "" {
				cn = core.Trim(core.ExprStr(s.Call.Fun), 40)
			}
			if _, ok := except[f.String()+"|"+cn]; ok {
				continue
			}
			if _, seen := bad[cn]; !seen {
				bad[cn] = p.Pos(s.Call.Pos())
			}
		}
	}
	var names []string
	for cn := range bad {
		names = append(names, cn)
	}
	sort.Strings(names)
	for _, cn := range names {
		r.Bad(rule, f.String(), "literal:"+cn+":failure-swallowed", bad[cn], "inside a function literal a failure of "+cn+" can reach an exit on which the literal reports success")
	}
	if len(names) == 0 && total > 0 {
		r.Ok(rule, f.String()+":literals", f.Pos(), fmt.Sprintf("%d tested/forwarded error call(s) in function literals: every failure makes the literal fail", total))
	}
	return total
}

// m4NegatedErrTests extends the failure-propagates post-pass to error tests written
// in a negated form (`if !(err != nil) {…}`), which the core pass cannot decode and
// therefore skips: an inverted error test makes the function carry on after a
// failure and stop early after a success. Applied to every function the property's
// rules analysed; same obligation keys and exceptions as the post-pass.
func m4NegatedErrTests(p *core.Prog, r *core.Report) {
	const rule = "failure-propagates"
	var fns []*core.Func
	for f := range r.FuncObjs {
		if f.Decl != nil && f.Decl.Body != nil {
			fns = append(fns, f)
		}
	}
	sort.Slice(fns, func(i, j int) bool { return fns[i].String() < fns[j].String() })
	any := func(*types.Info, *ast.CallExpr) bool { return true }
	for _, f := range fns {
		_, sw := core.M4FailuresSwallowedNeg(f.Graph(), f.Decl, any)
		seen := map[string]bool{}
		for _, s := range sw {
			cn := core.FName(core.Callee(f.Info(), s.Call))
			if cn == "" {
				cn = core.Trim(core.ExprStr(s.Call.Fun), 40)
			}
			if seen[cn] {
				continue
			}
			seen[cn] = true
			if _, ok := propagateExcept[f.String()+"|"+cn]; ok {
				continue
			}
			r.Bad(rule, f.String(), cn+":failure-swallowed", p.Pos(s.Call.Pos()), "the (negated) test of the error of "+cn+" lets a failure reach the exit at "+f.Graph().Line(s.Exit)+" on which the function reports success")
		}
	}
}

// m4LoopLeaves: the ways an iteration of loop l can end other than by going on to
// the next element: nodes outside the loop reached from the first node of an
// iteration without passing the loop head / post statement (break, goto), and
// exits inside the body on which the graph may report success. Failing returns
// are not reported; edges selected by exempt are not followed.
func m4LoopLeaves(g *core.Graph, l *rw3Loop, exempt core.EdgePred) []*core.Node {
	isPost := func(n *core.Node) bool {
		return n.Block != nil && n.Block.Kind == cfg.KindForPost && n.Block.Stmt == l.Stmt
	}
	var out []*core.Node
	seen := map[*core.Node]bool{}
	stop := func(n *core.Node) bool {
		if (n == l.Head && n != l.Entry) || isPost(n) {
			return true
		}
		if !l.In(n) {
			if !seen[n] {
				seen[n] = true
				out = append(out, n)
			}
			return true
		}
		return false
	}
	reach := g.Reach([]*core.Node{l.Entry}, stop, exempt)
	for _, x := range g.SuccessExits() {
		if reach[x] {
			out = append(out, x)
		}
	}
	sort.Slice(out, func(i, j int) bool { return out[i].ID < out[j].ID })
	return out
}

// m4LoopOf returns the innermost for/range statement of body (function literals
// not entered) that contains pos.
func m4LoopOf(g *core.Graph, body ast.Node, pos token.Pos) *rw3Loop {
	var best ast.Stmt
	for _, s := range rw3TopLoops(body) {
		if s.Pos() <= pos && pos < s.End() {
			if best == nil || (best.Pos() <= s.Pos() && s.End() <= best.End()) {
				best = s
			}
		}
	}
	if best == nil {
		return nil
	}
	return rw3FindLoop(g, best)
}

// m4Origins lists the expressions a value may come from: single / multiple
// definitions of local variables are followed, as are the results of a function
// literal that is called in place (`x, ok := func() (int, bool) { … }()`).
func m4Origins(info *types.Info, root ast.Node, e ast.Expr, depth int) []ast.Expr {
	e = ast.Unparen(e)
	if depth <= 0 {
		return []ast.Expr{e}
	}
	id, ok := e.(*ast.Ident)
	if !ok {
		return []ast.Expr{e}
	}
	v, ok := core.ObjOf(info, id).(*types.Var)
	if !ok || v.IsField() || v.Pkg() == nil || v.Parent() == v.Pkg().Scope() {
		return []ast.Expr{e}
	}
	ds := rw3Defs(info, root, v)
	if len(ds) == 0 {
		return []ast.Expr{e}
	}
	var out []ast.Expr
	for _, d := range ds {
		switch {
		case d.Rhs == nil || d.IncDec || d.Range:
			out = append(out, e)
		case d.Idx == -1:
			out = append(out, m4Origins(info, root, d.Rhs, depth-1)...)
		default:
			c, isCall := ast.Unparen(d.Rhs).(*ast.CallExpr)
			fl, isLit := (*ast.FuncLit)(nil), false
			if isCall {
				fl, isLit = ast.Unparen(c.Fun).(*ast.FuncLit)
			}
			if !isLit {
				out = append(out, d.Rhs)
				continue
			}
			ast.Inspect(fl.Body, func(n ast.Node) bool {
				switch x := n.(type) {
				case *ast.FuncLit:
					return false
				case *ast.ReturnStmt:
					if d.Idx < len(x.Results) {
						out = append(out, m4Origins(info, root, x.Results[d.Idx], depth-1)...)
					}
				}
				return true
			})
		}
	}
	return out
}

// m4IndexOf reports whether e is (or is a single-definition local copy of) an
// element v[i] of the slice variable v.
func m4IndexOf(info *types.Info, root ast.Node, e ast.Expr, v types.Object) bool {
	for _, o := range m4Origins(info, root, e, 3) {
		if ix, ok := ast.Unparen(o).(*ast.IndexExpr); ok && core.ObjOf(info, ix.X) == v && v != nil {
			return true
		}
	}
	return false
}

// m4MatchEdge selects the edges on which a walked key is known to EQUAL an element
// of the key slice keys: bytes.Equal(a, b) is true with a or b an element of keys,
// or X == 0 holds where every non-constant origin of X is a bytes.Compare with an
// element of keys as operand.
func m4MatchEdge(info *types.Info, root ast.Node, keys types.Object) core.EdgePred {
	elemArg := func(c *ast.CallExpr) bool {
		for _, a := range c.Args {
			if m4IndexOf(info, root, a, keys) {
				return true
			}
		}
		return false
	}
	return func(e *core.Edge) bool {
		return rw3EdgeImplies(e, func(c ast.Expr, v bool) bool {
			c = ast.Unparen(c)
			if cx, ok := c.(*ast.CallExpr); ok {
				return v && call("bytes.Equal")(info, cx) && elemArg(cx)
			}
			x, op, k, ok := core.IntCmp(info, c)
			if !ok || k != 0 || !((op == token.EQL && v) || (op == token.NEQ && !v)) {
				return false
			}
			n := 0
			for _, o := range m4Origins(info, root, x, 4) {
				if _, isConst := core.ConstInt(info, o); isConst {
					continue
				}
				oc, isCall := ast.Unparen(o).(*ast.CallExpr)
				if !isCall || !call("bytes.Compare")(info, oc) || !elemArg(oc) {
					return false
				}
				n++
			}
			return n > 0
		})
	}
}

// m4GE selects edges that establish "X >= Y" for some X and a Y recognised by isY.
func m4GE(isY func(ast.Expr) bool) core.EdgePred {
	return core.X1CmpEdge(func(ast.Expr) bool { return true }, isY, core.X1GE)
}

func m4IsLenOf(info *types.Info, v types.Object) func(ast.Expr) bool {
	return func(x ast.Expr) bool {
		c, ok := ast.Unparen(x).(*ast.CallExpr)
		return ok && v != nil && core.Builtin("len")(info, c) && len(c.Args) == 1 && core.ObjOf(info, c.Args[0]) == v
	}
}

func m4Or(ps ...core.EdgePred) core.EdgePred { return core.X1OrEdges(ps...) }

// m4ApplyLit returns the function literal handed to a call of class m in f for
// which test holds.
func m4ApplyLit(info *types.Info, root ast.Node, m core.Matcher, test func(fl *ast.FuncLit) bool) *ast.FuncLit {
	for _, c := range core.AllCalls(info, root, m) {
		for _, a := range c.Args {
			if fl, ok := ast.Unparen(a).(*ast.FuncLit); ok && test(fl) {
				return fl
			}
		}
	}
	return nil
}

// ---------------------------------------------------------------- (9)

var c17m4LitExcept = map[string]string{}

func c17m4Callbacks(p *core.Prog, r *core.Report) {
	const rule = "callback-failure-propagates"
	total := 0
	for _, a := range [][2]string{{tsdbP, "Store.DeleteSeriesWithPredicate"}, {tsdbP, "Store.DeleteSeries"}, {tsdbP, "Store.DeleteMeasurement"}, {tsm1, "Engine.deleteSeriesRange"}, {tsm1, "Engine.DeleteSeriesRangeWithPredicate"}} {
		f := p.Func(a[0], a[1])
		if f == nil || f.Decl.Body == nil {
			continue // reported by the base rules
		}
		total += m4LitFailures(p, r, f, rule, c17m4LitExcept)
	}
	r.Check(total >= 12, rule, "delete path", "count", "-", fmt.Sprintf("%d tested/forwarded error calls inside function literals of the delete path (>= 12 confirmed by reading)", total))
}

// ---------------------------------------------------------------- (10)/(11) tsdb.Store

func c17m4Store(p *core.Prog, r *core.Report) {
	const rule = "complete-before-success"
	pk := p.Pkg(tsdbP)
	if pk == nil {
		return
	}
	sfilesF := core.LookupField(pk.Types, "Store", "sfiles")
	for _, fn := range []string{"Store.DeleteSeriesWithPredicate", "Store.DeleteSeries", "Store.DeleteMeasurement"} {
		f := p.Func(tsdbP, fn)
		if f == nil || f.Decl.Body == nil {
			continue
		}
		info, g := f.Info(), f.Graph()
		exempt := func(e *core.Edge) bool {
			return rw3EdgeImplies(e, func(c ast.Expr, v bool) bool {
				// the database has no series file: nothing was ever written
				if x, nonNilOnTrue, ok := core.NilTest(info, c); ok && v != nonNilOnTrue {
					if ds := rw3Defs(info, f.Decl.Body, core.ObjOf(info, x)); len(ds) == 1 && ds[0].Rhs != nil && ds[0].Idx == -1 {
						if ix, ok := ast.Unparen(ds[0].Rhs).(*ast.IndexExpr); ok && sfilesF != nil && core.FieldOf(info, ix.X) == sfilesF {
							return true
						}
					}
				}
				return false
			}) || rw3ZeroEdgeQ(info, e, func(x ast.Expr) bool {
				// the FROM clause expanded to no measurement
				c, ok := ast.Unparen(x).(*ast.CallExpr)
				if !ok || !core.Builtin("len")(info, c) || len(c.Args) != 1 {
					return false
				}
				return rw3SoleCallDef(info, f.Decl.Body, core.ObjOf(info, c.Args[0]), call("tsdb.Store.ExpandSources"), 0) != nil
			})
		}
		core.RuleMustPassN(r, f, g, rule, "walkShards", g.Calling(call("tsdb.Store.walkShards")), exempt)
	}

	// measurement loop of DeleteSeriesWithPredicate
	if f := p.Func(tsdbP, "Store.DeleteSeriesWithPredicate"); f != nil && f.Decl.Body != nil {
		info, name := f.Info(), f.String()
		if lit := m4ApplyLit(info, f.Decl.Body, call("tsdb.Store.walkShards"), func(*ast.FuncLit) bool { return true }); lit != nil {
			lg := f.LitGraph(lit)
			var loop *rw3Loop
			for _, s := range rw3TopLoops(lit.Body) {
				if fs, ok := s.(*ast.ForStmt); ok && len(core.AllCalls(info, fs.Body, call("tsdb.MeasurementIterator.Next"))) > 0 {
					loop = rw3FindLoop(lg, fs)
				}
			}
			var cur types.Object
			for _, n := range lg.Select(lg.Calling(call("tsdb.MeasurementIterator.Next"))) {
				if as, ok := n.N.(*ast.AssignStmt); ok && len(as.Lhs) == 2 {
					cur = core.ObjOf(info, as.Lhs[0])
				}
			}
			if loop != nil && cur != nil {
				exempt := func(e *core.Edge) bool {
					return rw3NilSide(info, e, cur, true) || rw3EdgeImplies(e, func(c ast.Expr, v bool) bool {
						cx, ok := c.(*ast.CallExpr)
						if !ok || !v || !call("bytes.Equal")(info, cx) || len(cx.Args) != 2 {
							return false
						}
						return core.ObjOf(info, cx.Args[0]) == cur || core.ObjOf(info, cx.Args[1]) == cur
					})
				}
				lv := m4LoopLeaves(lg, loop, exempt)
				where := p.Pos(loop.Stmt.Pos())
				if len(lv) > 0 {
					where = lg.Line(lv[0])
				}
				r.Check(len(lv) == 0, "every-element", name, "measurement-loop-left-early", where, "the loop over the shard's measurements ends without a failure only when the iterator is exhausted or the requested measurement was just handled")
			}
		}
	}

	// name loop of DeleteSeries
	if f := p.Func(tsdbP, "Store.DeleteSeries"); f != nil && f.Decl.Body != nil {
		info, name := f.Info(), f.String()
		if lit := m4ApplyLit(info, f.Decl.Body, call("tsdb.Store.walkShards"), func(*ast.FuncLit) bool { return true }); lit != nil {
			lg := f.LitGraph(lit)
			dsr := lg.Calling(call("tsdb.Shard.DeleteSeriesRange"))
			var loop *rw3Loop
			for _, n := range lg.Select(dsr) {
				if n.N != nil {
					loop = m4LoopOf(lg, lit.Body, n.N.Pos())
				}
			}
			if r.Check(loop != nil, "every-element", name, "name-loop:absent", p.Pos(lit.Pos()), "Shard.DeleteSeriesRange is called in a loop over the measurement names") {
				var itr types.Object
				for _, n := range lg.Select(lg.Calling(call("tsdb.IndexSet.MeasurementSeriesByExprIterator"))) {
					if as, ok := n.N.(*ast.AssignStmt); ok && len(as.Lhs) == 2 && loop.In(n) {
						itr = core.ObjOf(info, as.Lhs[0])
					}
				}
				nilItr := func(e *core.Edge) bool { return rw3NilSide(info, e, itr, true) }
				esc := loop.Escapes(lg, dsr, nilItr)
				r.Check(itr != nil && len(esc) == 0, "every-element", name, "name-skipped", p.Pos(loop.Stmt.Pos()), "every name whose series iterator is not nil passes Shard.DeleteSeriesRange")
				lv := m4LoopLeaves(lg, loop, nil)
				r.Check(len(lv) == 0, "every-element", name, "name-loop-left-early", p.Pos(loop.Stmt.Pos()), "the loop over the names is left before the last name only with a failure")
			}
			c17m4DeleteSeriesInputs(p, r, f, lit, lg)
		}
	}
}

// c17m4DeleteSeriesInputs: what Store.DeleteSeries hands to the shards is what the
// statement asked for: the measurement names come from the FROM clause exactly when
// there is one (otherwise from all measurements of the shard), and the time bounds
// are the condition's bounds exactly when they are set (otherwise MinTime/MaxTime).
func c17m4DeleteSeriesInputs(p *core.Prog, r *core.Report, f *core.Func, lit *ast.FuncLit, lg *core.Graph) {
	const rule = "delete-inputs"
	info, g, name := f.Info(), f.Graph(), f.String()
	sources := x4Param(f, "sources")
	var names, minO, maxO types.Object
	for _, c := range core.AllCalls(info, lit.Body, call("tsdb.newGuard")) {
		if len(c.Args) == 4 {
			names = core.ObjOf(info, c.Args[2])
		}
	}
	for _, c := range core.AllCalls(info, lit.Body, call("tsdb.Shard.DeleteSeriesRange")) {
		if len(c.Args) == 4 {
			minO, maxO = core.ObjOf(info, c.Args[2]), core.ObjOf(info, c.Args[3])
		}
	}
	if !r.Check(sources != nil && names != nil && minO != nil && maxO != nil, rule, name, "inputs:absent", f.Pos(), "names (guard), min and max (shard delete) are variables; sources is a parameter") {
		return
	}
	// names
	hasFrom := func(e *core.Edge) bool { return rw3NonZeroEdge(info, e, sources) }
	noFrom := func(e *core.Edge) bool { return rw3ZeroEdge(info, e, sources) }
	withoutFrom := lg.ReachFromEntry(nil, hasFrom)
	withFrom := lg.ReachFromEntry(nil, noFrom)
	nSrc, nAll := 0, 0
	for _, nd := range lg.Nodes {
		if nd.N == nil {
			continue
		}
		if rw3AppendTo(info, nd.N, func(e ast.Expr) bool { return core.ObjOf(info, e) == names }) != nil {
			if l := m4LoopOf(lg, lit.Body, nd.N.Pos()); l != nil {
				if rs, ok := l.Stmt.(*ast.RangeStmt); ok && core.ObjOf(info, rs.X) == sources {
					nSrc++
					r.Check(!withoutFrom[nd], rule, name, "names-from-sources-without-FROM", lg.Line(nd), "the FROM clause's measurements are used only on the edge len(sources) > 0")
				}
			}
		}
		if len(core.CallsIn(info, nd.N, call("tsdb.Shard.ForEachMeasurementName"), core.WalkOpts{})) > 0 {
			nAll++
			r.Check(!withFrom[nd], rule, name, "all-measurements-despite-FROM", lg.Line(nd), "all measurements of the shard are used only on the edge len(sources) == 0")
		}
	}
	r.Check(nSrc >= 1 && nAll >= 1, rule, name, "names-sources:count", p.Pos(lit.Pos()), "both sources of measurement names found (FROM clause, all measurements)")
	// time bounds
	isZeroOf := func(field string, want bool) core.EdgePred {
		return func(e *core.Edge) bool {
			return rw3EdgeImplies(e, func(c ast.Expr, v bool) bool {
				cx, ok := ast.Unparen(c).(*ast.CallExpr)
				if !ok || v != want || !call("time.Time.IsZero")(info, cx) {
					return false
				}
				se, ok := ast.Unparen(cx.Fun).(*ast.SelectorExpr)
				if !ok {
					return false
				}
				fv := core.FieldOf(info, se.X)
				return fv != nil && fv.Name() == field
			})
		}
	}
	for _, b := range []struct {
		o     types.Object
		field string
		cst   string
	}{{minO, "Min", "MinTime"}, {maxO, "Max", "MaxTime"}} {
		cst := rw3ImportedConst(f, "github.com/influxdata/influxql", b.cst)
		unset := g.ReachFromEntry(nil, isZeroOf(b.field, false)) // reachable without "bound is set"
		set := g.ReachFromEntry(nil, isZeroOf(b.field, true))    // reachable without "bound is not set"
		nBound, nDefault, okAll := 0, 0, cst != nil
		for _, d := range rw3Defs(info, f.Decl.Body, b.o) {
			nd := rw3StmtNode(g, d.Stmt)
			if d.Rhs == nil || d.Idx != -1 || nd == nil {
				okAll = false
				continue
			}
			if cx, ok := ast.Unparen(d.Rhs).(*ast.CallExpr); ok && call("time.Time.UnixNano")(info, cx) {
				se, _ := ast.Unparen(cx.Fun).(*ast.SelectorExpr)
				if se == nil || core.FieldOf(info, se.X) == nil || core.FieldOf(info, se.X).Name() != b.field || unset[nd] {
					okAll = false
				}
				nBound++
				continue
			}
			if cst != nil && rw3Uses(info, d.Rhs, cst) {
				if set[nd] {
					okAll = false
				}
				nDefault++
				continue
			}
			okAll = false
		}
		r.Check(okAll && nBound == 1 && nDefault == 1, rule, name, "time-bound:"+b.field, f.Pos(), "the "+b.field+" bound handed to the shards is timeRange."+b.field+".UnixNano() exactly on the edge !timeRange."+b.field+".IsZero() and influxql."+b.cst+" exactly on the IsZero edge")
	}
}

// ---------------------------------------------------------------- (10)/(13) Engine.DeleteSeriesRangeWithPredicate

func c17m4EngineEntry(p *core.Prog, r *core.Report) {
	f := p.Func(tsm1, "Engine.DeleteSeriesRangeWithPredicate")
	if f == nil || f.Decl.Body == nil {
		return
	}
	info, g, name := f.Info(), f.Graph(), f.String()
	var elem types.Object
	for _, n := range g.Select(g.Calling(call("tsdb.SeriesIterator.Next"))) {
		if as, ok := n.N.(*ast.AssignStmt); ok && len(as.Lhs) == 2 {
			elem = core.ObjOf(info, as.Lhs[0])
		}
	}
	if r.Check(elem != nil, "complete-before-success", name, "Next:absent", f.Pos(), "the series iterator is consumed through `elem, err := itr.Next()`") {
		reach := g.ReachFromEntry(nil, func(e *core.Edge) bool { return rw3NilSide(info, e, elem, true) })
		bad := ""
		for _, x := range g.SuccessExits() {
			if reach[x] {
				bad = g.Line(x)
			}
		}
		r.Check(bad == "", "complete-before-success", name, "success-before-iterator-exhausted", firstNonEmpty12(bad, f.Pos()), "a success exit is reachable only on the edge on which SeriesIterator.Next returned nil (every series was looked at)")
	}

	// compactions disabled before the first tombstone
	const rule = "compactions-disabled"
	gate := g.Calling(call(tsm1 + ".Engine.disableLevelCompactions"))
	dsr := g.Select(g.Calling(call(tsm1 + ".Engine.deleteSeriesRange")))
	if !r.Check(len(g.Select(gate)) >= 1 && len(dsr) >= 1, rule, name, "disableLevelCompactions:absent", f.Pos(), "level compactions are disabled in the delete") {
		return
	}
	flags := []types.Object{nil}
	seen := map[types.Object]bool{}
	for _, n := range g.Nodes {
		as, ok := n.N.(*ast.AssignStmt)
		if !ok || len(as.Lhs) != len(as.Rhs) {
			continue
		}
		for i, l := range as.Lhs {
			if o := core.ObjOf(info, l); o != nil && !seen[o] && core.X1IsConstBool(info, as.Rhs[i], true) {
				seen[o] = true
				flags = append(flags, o)
			}
		}
	}
	// the batch handed to deleteSeriesRange: a non-empty batch implies that an append ran
	var batch types.Object
	for _, c := range core.AllCalls(info, f.Decl.Body, call(tsm1+".Engine.deleteSeriesRange")) {
		if len(c.Args) == 4 {
			batch = core.ObjOf(info, c.Args[1])
		}
	}
	isAppend := func(n *core.Node) bool {
		return n.N != nil && batch != nil && rw3AppendTo(info, n.N, func(e ast.Expr) bool { return core.ObjOf(info, e) == batch }) != nil
	}
	nonEmpty := func(e *core.Edge) bool { return batch != nil && rw3NonZeroEdge(info, e, batch) }
	ok := false
	for _, fl := range flags {
		if _, valid, _ := g.X1OnceGate(gate, fl); !valid {
			continue
		}
		stop := nonEmpty
		if fl != nil {
			stop = m4Or(nonEmpty, core.X1BoolEdge(core.X1IsObj(info, fl), true))
		}
		// inductive: the facts "flag is true" / "batch is non-empty" are only
		// established at nodes that are themselves behind the gate
		ungated := g.ReachFromEntry(gate, stop)
		all := true
		for _, n := range g.Nodes {
			if !ungated[n] {
				continue
			}
			if isAppend(n) {
				all = false
			}
		}
		if fl != nil {
			// every place that gives the flag a value other than false is behind the gate
			for _, d := range rw3Defs(info, f.Decl.Body, fl) {
				if d.Rhs != nil && d.Idx == -1 && core.X1IsConstBool(info, d.Rhs, false) {
					continue
				}
				if nd := rw3StmtNode(g, d.Stmt); nd == nil || ungated[nd] {
					all = false
				}
			}
		}
		for _, d := range dsr {
			if ungated[d] {
				all = false
			}
		}
		if all {
			ok = true
		}
	}
	r.Check(ok, rule, name, "deleteSeriesRange-before-disableLevelCompactions", g.Line(dsr[0]), "every deleteSeriesRange call is reachable only after disableLevelCompactions (directly or through a once-flag that is set only behind it): a running level compaction would otherwise drop the tombstones and the deleted points re-appear")
}

// ---------------------------------------------------------------- (10)/(11)/(12) Engine.deleteSeriesRange

func c17m4DeleteRange(p *core.Prog, r *core.Report) {
	f := p.Func(tsm1, "Engine.deleteSeriesRange")
	if f == nil || f.Decl.Body == nil {
		return
	}
	info, g, name := f.Info(), f.Graph(), f.String()
	sig, _ := f.Obj.Type().(*types.Signature)
	empty := rw3PkgVar(p, tsm1, "emptyBytes")
	if sig == nil || sig.Params().Len() != 4 || empty == nil {
		return // reported by the base rules
	}
	keys, minP, maxP := types.Object(sig.Params().At(1)), types.Object(sig.Params().At(2)), types.Object(sig.Params().At(3))
	body := f.Decl.Body
	match := m4MatchEdge(info, body, keys)
	keysExhausted := m4GE(m4IsLenOf(info, keys))
	apply := call(tsm1 + ".FileStore.Apply")

	// ---- tombstone callback
	if fl := m4ApplyLit(info, body, apply, func(fl *ast.FuncLit) bool {
		return len(core.AllCalls(info, fl.Body, call(tsm1+".TSMFile.BatchDelete"))) > 0
	}); fl != nil {
		lg := f.LitGraph(fl)
		commit := lg.Calling(call(tsm1 + ".BatchDeleter.Commit"))
		noOverlap := func(e *core.Edge) bool {
			return rw3EdgeImplies(e, func(c ast.Expr, v bool) bool {
				if v {
					return false
				}
				c = ast.Unparen(c)
				if cx, ok := c.(*ast.CallExpr); ok {
					return call(tsm1+".TSMFile.OverlapsTimeRange")(info, cx) && len(cx.Args) == 2 && core.ObjOf(info, cx.Args[0]) == minP && core.ObjOf(info, cx.Args[1]) == maxP
				}
				// a local flag computed from key comparisons (the file's key range against the batch's)
				o, isVar := core.ObjOf(info, c).(*types.Var)
				if !isVar || o.IsField() {
					return false
				}
				ds := rw3Defs(info, fl.Body, o)
				if len(ds) != 1 || ds[0].Rhs == nil || ds[0].Idx != -1 {
					return false
				}
				return len(core.AllCalls(info, ds[0].Rhs, call("bytes.Compare"))) > 0
			})
		}
		if r.Check(len(lg.Select(commit)) >= 1, "complete-before-success", name, "tombstones:Commit:absent", p.Pos(fl.Pos()), "the tombstone batch is committed") {
			reach := lg.ReachFromEntry(commit, noOverlap)
			bad := ""
			for _, x := range lg.SuccessExits() {
				if reach[x] {
					bad = lg.Line(x)
				}
			}
			r.Check(bad == "", "complete-before-success", name, "tombstones-not-committed", firstNonEmpty12(bad, p.Pos(fl.Pos())), "the per-file tombstone callback reports success without BatchDeleter.Commit only on an edge on which the file overlaps neither the key range nor OverlapsTimeRange(min,max)")
		}
		dr := lg.Select(lg.Calling(call(tsm1 + ".BatchDeleter.DeleteRange")))
		if r.Check(len(dr) >= 1, "match-guards", name, "BatchDeleter.DeleteRange:absent", p.Pos(fl.Pos()), "keys are tombstoned per file") {
			un := lg.ReachFromEntry(nil, match)
			for _, n := range dr {
				r.Check(!un[n], "match-guards", name, "tombstone-without-match", lg.Line(n), "BatchDeleter.DeleteRange is reachable only on the edge on which the file's key compared equal to a key of the batch")
			}
			for _, c := range core.AllCalls(info, fl.Body, call(tsm1+".BatchDeleter.DeleteRange")) {
				r.Check(len(c.Args) == 3 && core.ObjOf(info, c.Args[1]) == minP && core.ObjOf(info, c.Args[2]) == maxP, "match-guards", name, "tombstone-range", p.Pos(c.Pos()), "the tombstone covers the function's min/max")
			}
		}
	}

	// ---- nothing-to-do exits before the first tombstone
	{
		isTomb := func(n *core.Node) bool {
			if n.N == nil {
				return false
			}
			for _, c := range core.CallsIn(info, n.N, apply, core.WalkOpts{}) {
				for _, a := range c.Args {
					if fl, ok := ast.Unparen(a).(*ast.FuncLit); ok && len(core.AllCalls(info, fl.Body, call(tsm1+".TSMFile.BatchDelete"))) > 0 {
						return true
					}
				}
			}
			return false
		}
		nothing := func(e *core.Edge) bool {
			if rw3ZeroEdge(info, e, keys) {
				return true // empty batch
			}
			// a flag that is only ever set to true (some file / the cache overlaps the range) is still false
			return rw3EdgeImplies(e, func(c ast.Expr, v bool) bool {
				o, isVar := core.ObjOf(info, c).(*types.Var)
				return !v && isVar && !o.IsField() && len(rw3Defs(info, body, o)) >= 1 && m4OnlySetTrue(info, body, o)
			})
		}
		if len(g.Select(isTomb)) >= 1 {
			reach := g.ReachFromEntry(isTomb, nothing)
			bad := ""
			for _, x := range g.SuccessExits() {
				if reach[x] {
					bad = g.Line(x)
				}
			}
			r.Check(bad == "", "complete-before-success", name, "success-before-tombstones", firstNonEmpty12(bad, f.Pos()), "deleteSeriesRange reports success before writing tombstones only for an empty batch or while the nothing-overlaps flag (only ever set to true) is still false")
		}
	}
	// ---- the field set of a measurement is cleaned up only when the index dropped it
	for _, n := range g.Select(g.Calling(call(tsm1 + ".Engine.cleanupMeasurement"))) {
		un := g.ReachFromEntry(nil, func(e *core.Edge) bool {
			return rw3EdgeImplies(e, func(c ast.Expr, v bool) bool {
				o := core.ObjOf(info, c)
				return v && o != nil && rw3SoleCallDef(info, body, o, call("tsdb.Index.DropMeasurementIfSeriesNotExist"), 0) != nil
			})
		})
		r.Check(!un[n], "match-guards", name, "cleanupMeasurement-without-drop", g.Line(n), "Engine.cleanupMeasurement (which deletes the measurement's field set) is reachable only on the edge on which Index.DropMeasurementIfSeriesNotExist reported that it dropped the measurement")
	}

	// ---- selection of cache keys
	var dk types.Object
	for _, c := range core.AllCalls(info, body, call(tsm1+".Cache.DeleteRange")) {
		if len(c.Args) == 3 {
			dk = core.ObjOf(info, c.Args[0])
			r.Check(core.ObjOf(info, c.Args[1]) == minP && core.ObjOf(info, c.Args[2]) == maxP, "match-guards", name, "cache-delete-range", p.Pos(c.Pos()), "the cache delete covers the function's min/max")
		}
	}
	for _, c := range core.AllCalls(info, body, call(tsm1+".WAL.DeleteRange")) {
		r.Check(len(c.Args) == 4 && dk != nil && core.ObjOf(info, c.Args[1]) == dk && core.ObjOf(info, c.Args[2]) == minP && core.ObjOf(info, c.Args[3]) == maxP, "match-guards", name, "wal-delete-args", p.Pos(c.Pos()), "the WAL delete entry carries the keys deleted from the cache and the function's min/max")
	}
	if r.Check(dk != nil, "match-guards", name, "cache-keys:absent", f.Pos(), "the keys handed to Cache.DeleteRange are collected in a variable") {
		n := 0
		for _, fl := range m4Lits(body) {
			lg := f.LitGraph(fl)
			un := lg.ReachFromEntry(nil, match)
			for _, nd := range lg.Nodes {
				if nd.N == nil || rw3AppendTo(info, nd.N, func(e ast.Expr) bool { return core.ObjOf(info, e) == dk }) == nil {
					continue
				}
				n++
				r.Check(!un[nd], "match-guards", name, "cache-key-selected-without-match", lg.Line(nd), "a cache key is queued for deletion only on the edge on which its series key compared equal to a key of the batch")
			}
		}
		for _, nd := range g.Nodes {
			if nd.N != nil && rw3AppendTo(info, nd.N, func(e ast.Expr) bool { return core.ObjOf(info, e) == dk }) != nil {
				n++
				r.Bad("match-guards", name, "cache-key-selected-without-match", g.Line(nd), "a cache key is queued for deletion outside the matching walk")
			}
		}
		r.Check(n >= 1, "match-guards", name, "cache-key-selection:absent", f.Pos(), "cache keys are selected by the Cache.ApplyEntryFn walk")
	}

	// ---- reconciliation callback
	isCross := func(n ast.Node) bool {
		as, ok := n.(*ast.AssignStmt)
		if !ok || len(as.Lhs) != len(as.Rhs) {
			return false
		}
		for i := range as.Lhs {
			ix, ok := ast.Unparen(as.Lhs[i]).(*ast.IndexExpr)
			if ok && core.ObjOf(info, ix.X) == keys && rw3Uses(info, as.Rhs[i], empty) {
				return true
			}
		}
		return false
	}
	hasCross := func(root ast.Node) bool {
		found := false
		ast.Inspect(root, func(n ast.Node) bool {
			if n != nil && isCross(n) {
				found = true
			}
			return true
		})
		return found
	}
	if fl := m4ApplyLit(info, body, apply, func(fl *ast.FuncLit) bool { return hasCross(fl.Body) }); fl != nil {
		lg := f.LitGraph(fl)
		un := lg.ReachFromEntry(nil, match)
		for _, nd := range lg.Nodes {
			if nd.N != nil && isCross(nd.N) {
				r.Check(!un[nd], "match-guards", name, "tsm-cross-out-without-match", lg.Line(nd), "inside the reconciliation callback a key is crossed out only on the edge on which it compared equal to a key still present in the file")
			}
		}
		// exits
		fileExhausted := m4GE(func(x ast.Expr) bool {
			x = ast.Unparen(x)
			if c, ok := x.(*ast.CallExpr); ok {
				return call(tsm1+".TSMFile.KeyCount")(info, c)
			}
			return rw3SoleCallDef(info, fl.Body, core.ObjOf(info, x), call(tsm1+".TSMFile.KeyCount"), -1) != nil
		})
		// a flag returned by a closure called in place that is false only when the batch is exhausted
		flagOK := map[types.Object]bool{}
		contFalse := func(e *core.Edge) bool {
			return rw3EdgeImplies(e, func(c ast.Expr, v bool) bool {
				o := core.ObjOf(info, c)
				if v || o == nil {
					return false
				}
				if ok, seen := flagOK[o]; seen {
					return ok
				}
				flagOK[o] = false
				ds := rw3Defs(info, fl.Body, o)
				if len(ds) != 1 || ds[0].Rhs == nil || ds[0].Idx < 0 {
					return false
				}
				cx, isCall := ast.Unparen(ds[0].Rhs).(*ast.CallExpr)
				if !isCall {
					return false
				}
				inner, isLit := ast.Unparen(cx.Fun).(*ast.FuncLit)
				if !isLit {
					return false
				}
				ig := f.LitGraph(inner)
				reach := ig.ReachFromEntry(nil, keysExhausted)
				okAll := len(ig.Exits) > 0
				for _, x := range ig.Exits {
					rs, isRet := x.N.(*ast.ReturnStmt)
					if !isRet || ds[0].Idx >= len(rs.Results) {
						okAll = false
						continue
					}
					if core.X1IsConstBool(info, rs.Results[ds[0].Idx], true) {
						continue
					}
					if reach[x] {
						okAll = false
					}
				}
				flagOK[o] = okAll
				return okAll
			})
		}
		reach := lg.ReachFromEntry(nil, m4Or(fileExhausted, keysExhausted, contFalse))
		bad := ""
		for _, x := range lg.SuccessExits() {
			if reach[x] {
				bad = lg.Line(x)
			}
		}
		r.Check(bad == "", "complete-before-success", name, "reconcile-walk-cut-short", firstNonEmpty12(bad, p.Pos(fl.Pos())), "the reconciliation callback returns only on an edge on which the file's keys (index >= KeyCount) or the batch's keys (j >= len(seriesKeys)) are exhausted: a key that still has data in the file is otherwise never crossed out and its series is dropped from the index")
	}

	// ---- cache cross-out loop
	cacheKeysNodes := g.Select(g.Calling(call(tsm1 + ".Cache.Keys")))
	var ck types.Object
	for _, n := range cacheKeysNodes {
		if as, ok := n.N.(*ast.AssignStmt); ok && len(as.Lhs) == 1 {
			ck = core.ObjOf(info, as.Lhs[0])
		}
	}
	for _, nd := range g.Nodes {
		if nd.N == nil || !isCross(nd.N) {
			continue
		}
		loop := m4LoopOf(g, body, nd.N.Pos())
		if !r.Check(loop != nil && ck != nil, "every-element", name, "cache-cross-out-loop:absent", g.Line(nd), "keys found in the cache are crossed out in a loop over the batch") {
			continue
		}
		lookup := g.X1CallingWith(call("pkg/bytesutil.SearchBytes"), func(c *ast.CallExpr) bool { return len(c.Args) == 2 && core.ObjOf(info, c.Args[0]) == ck })
		crossed := func(e *core.Edge) bool {
			return rw3ZeroEdgeQ(info, e, func(x ast.Expr) bool {
				c, ok := ast.Unparen(x).(*ast.CallExpr)
				return ok && core.Builtin("len")(info, c) && len(c.Args) == 1 && m4IndexOf(info, body, c.Args[0], keys)
			})
		}
		esc := loop.Escapes(g, lookup, crossed)
		r.Check(len(esc) == 0, "every-element", name, "cache-lookup-skipped", p.Pos(loop.Stmt.Pos()), "every key that is not yet crossed out (len != 0) is looked up in the cache's keys")
		lv := m4LoopLeaves(g, loop, nil)
		r.Check(len(lv) == 0, "every-element", name, "cache-cross-out-loop-left-early", p.Pos(loop.Stmt.Pos()), "the loop that crosses out keys found in the cache visits every key of the batch")
	}

	// ---- drop loop
	var loop *rw3Loop
	for _, s := range rw3TopLoops(body) {
		if rs, ok := s.(*ast.RangeStmt); ok && core.ObjOf(info, rs.X) == keys && len(core.AllCalls(info, rs.Body, call("tsdb.Index.DropSeries"))) > 0 {
			loop = rw3FindLoop(g, rs)
		}
	}
	if loop == nil || len(cacheKeysNodes) == 0 {
		return // reported by the base rules
	}
	lv := m4LoopLeaves(g, loop, nil)
	where := p.Pos(loop.Stmt.Pos())
	if len(lv) > 0 {
		where = g.Line(lv[0])
	}
	r.Check(len(lv) == 0, "every-element", name, "drop-loop-left-early", where, "the loop that drops series without data from the index is left before the last key only with a failure")
	// the measurement loop
	for _, s := range rw3TopLoops(body) {
		rs, ok := s.(*ast.RangeStmt)
		if !ok || len(core.AllCalls(info, rs.Body, call("tsdb.Index.DropMeasurementIfSeriesNotExist"))) == 0 {
			continue
		}
		if ml := rw3FindLoop(g, rs); ml != nil {
			r.Check(len(m4LoopLeaves(g, ml, nil)) == 0, "every-element", name, "measurement-loop-left-early", p.Pos(rs.Pos()), "the loop over the touched measurements is left before the last one only with a failure")
		}
	}
	// bypass of the drop loop
	remainFlag := func(e *core.Edge) bool {
		return rw3EdgeImplies(e, func(c ast.Expr, v bool) bool {
			o, isVar := core.ObjOf(info, c).(*types.Var)
			if v || !isVar || o.IsField() {
				return false
			}
			ds := rw3Defs(info, body, o)
			nTrue := 0
			for _, d := range ds {
				switch {
				case d.Rhs != nil && d.Idx == -1 && core.X1IsConstBool(info, d.Rhs, false):
				case d.Rhs != nil && d.Idx == -1 && core.X1IsConstBool(info, d.Rhs, true):
					nd := rw3StmtNode(g, d.Stmt)
					if nd == nil || nd.N == nil {
						return false
					}
					kl := m4LoopOf(g, body, nd.N.Pos())
					rs, isRange := (*ast.RangeStmt)(nil), false
					if kl != nil {
						rs, isRange = kl.Stmt.(*ast.RangeStmt)
					}
					if !isRange || core.ObjOf(info, rs.X) != keys || kl.Val == nil {
						return false
					}
					if g.Reach([]*core.Node{kl.Entry}, func(x *core.Node) bool { return !kl.In(x) }, func(e *core.Edge) bool { return rw3NonZeroEdge(info, e, kl.Val) })[nd] {
						return false
					}
					nTrue++
				default:
					return false
				}
			}
			return nTrue >= 1
		})
	}
	reach := g.Reach(core.X1SuccsOf(cacheKeysNodes), func(n *core.Node) bool { return n == loop.Head }, remainFlag)
	bad := ""
	for _, x := range g.SuccessExits() {
		if reach[x] {
			bad = g.Line(x)
		}
	}
	r.Check(bad == "", "complete-before-success", name, "index-drop-bypassed", firstNonEmpty12(bad, p.Pos(loop.Stmt.Pos())), "after the reconciliation a success exit is reachable without the index drop loop only on the false edge of a flag that is set exactly where a key with len != 0 remains")
}
