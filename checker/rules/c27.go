package rules

import (
	"fmt"
	"go/ast"
	"go/constant"
	"go/token"
	"go/types"

	"verif/checker/core"
)

const (
	replIntPkg = "replications/internal"
	replRWPkg  = "replications/remotewrite"
)

func init() {
	register(&Prop{
		ID:       "C27",
		Patterns: []string{"./replications/internal", "./replications/remotewrite"},
		Level:    "other",
		Explanation: "Necessary-condition rules for replication forwarding, decided on the CFGs of replications/internal and replications/remotewrite with type-resolved callees, fields and constant values: " +
			"(1) advance-after-accept (replicationQueue.SendWrite): from the failure branch of remoteWriter.Write no Scanner.Advance (direct or through the local advanceScanner closure) is reachable; that branch returns shouldRetry=true, after incrementing failedWrites; the success branch resets failedWrites before the next write; Write is given Scanner.Bytes(); " +
			"(2) success-means-accepted ((*writer).Write): every `return …, nil` is reachable only where postWriteErr == nil was established, or where both StatusCode == 400 and conf.DropNonRetryableData were established; every other return yields postWriteErr itself or a provably non-nil error; postWriteErr holds only the error of PostWrite; PostWrite is passed on every success exit and posts the data parameter; waitTimeFromHeader (Retry-After) is consulted only under StatusCode == 429; " +
			"(3) non-204-is-error (PostWrite): on the branch where StatusCode != 204 every path assigns invalidResponseCode(…) to the returned error; " +
			"(4) enqueue (durableQueueManager.EnqueueData): every success exit passed Queue.Append and its error is propagated.",
		NotCovered:  "the backoff values and Retry-After arithmetic, ordering across restarts (durable queue: C26), max-age purging, the HTTP client library, timeouts classified by normalizeResponse.",
		Assumptions: []string{"the generated API client returns a non-nil *http.Response whenever the remote answered"},
		Run:         runC27,
	})
}

func runC27(p *core.Prog, r *core.Report, tier string) {
	httpPk, rootPk := p.Pkg("net/http"), p.Pkg("")
	if httpPk == nil || rootPk == nil {
		r.Bad("anchor", "net/http|influxdb", "unresolved", "-", "package not loaded")
		return
	}
	statusF := core.LookupField(httpPk.Types, "Response", "StatusCode")
	dropF := core.LookupField(rootPk.Types, "ReplicationHTTPConfig", "DropNonRetryableData")
	httpConst := func(name string) constant.Value {
		c, _ := httpPk.Types.Scope().Lookup(name).(*types.Const)
		if c == nil {
			r.Bad("anchor", "net/http."+name, "unresolved", "-", "constant not found")
			return nil
		}
		return c.Val()
	}
	badReq, tooMany, noContent := httpConst("StatusBadRequest"), httpConst("StatusTooManyRequests"), httpConst("StatusNoContent")
	if !r.Check(statusF != nil && dropF != nil, "anchor", "http.Response.StatusCode|ReplicationHTTPConfig.DropNonRetryableData", "unresolved", "-", "fields resolved") ||
		badReq == nil || tooMany == nil || noContent == nil {
		return
	}

	// ---- (1) SendWrite
	if f := r.Need(p, replIntPkg, "replicationQueue.SendWrite"); f != nil {
		const rule = "advance-after-accept"
		g, info := f.Graph(), f.Info()
		write := call("replications/internal.remoteWriter.Write")
		advance := core.ThroughLocalLits(f.Decl.Body, call("pkg/durablequeue.Scanner.Advance"))
		failedF := core.LookupField(f.Pkg.Types, "replicationQueue", "failedWrites")
		r.Check(failedF != nil, "anchor", replIntPkg+".replicationQueue.failedWrites", "unresolved", "-", "field resolved")
		advs := g.Select(g.Calling(advance))
		r.Check(len(advs) >= 2, rule, f.String(), "Scanner.Advance:count", f.Pos(), fmt.Sprintf("%d advance sites in SendWrite (periodic and final: >= 2)", len(advs)))
		n := 0
		for _, wn := range g.Select(g.Calling(write)) {
			fail, succ, ok := g.ErrEdges(wn)
			if !ok {
				r.Bad(rule, f.String(), "Write:unchecked", g.Line(wn), "the error of remoteWriter.Write is not tested")
				continue
			}
			n++
			reach := g.Reach([]*core.Node{fail.To}, nil, nil)
			bad := false
			for _, a := range advs {
				if reach[a] {
					bad = true
				}
			}
			r.Check(!bad, rule, f.String(), "Advance-after-failed-Write", g.Line(wn), "a batch the remote did not accept is not advanced past")
			// failure ⇒ shouldRetry == true
			exits := g.ExitsFrom([]*core.Node{fail.To}, nil)
			retry := len(exits) > 0
			for _, x := range exits {
				rs, isRet := x.N.(*ast.ReturnStmt)
				if !isRet || len(rs.Results) != 2 {
					retry = false
					continue
				}
				v := core.ConstVal(info, rs.Results[1])
				if v == nil || v.Kind() != constant.Bool || !constant.BoolVal(v) {
					retry = false
				}
			}
			r.Check(retry, rule, f.String(), "retry-after-failed-Write", g.Line(wn), "a failed write returns shouldRetry=true so the batch is posted again")
			if failedF != nil {
				store := g.Assigning(failedF)
				r.Check(len(g.ExitsFrom([]*core.Node{fail.To}, store)) == 0, rule, f.String(), "failedWrites-not-counted", g.Line(wn), "a failed write is counted before returning (drives the backoff)")
				incOK := true
				for x := range reach {
					if store(x) {
						s, isInc := x.N.(*ast.IncDecStmt)
						incOK = incOK && isInc && s.Tok == token.INC
					}
				}
				r.Check(incOK, rule, f.String(), "failedWrites-increment", g.Line(wn), "the failure branch increments failedWrites")
				if succ != nil {
					after := g.Reach([]*core.Node{succ.To}, store, nil)
					bad := false
					for x := range after {
						if len(x.Succ) == 0 || g.Calling(write)(x) {
							bad = true
						}
					}
					r.Check(!bad, rule, f.String(), "failedWrites-not-reset", g.Line(wn), "an accepted write resets failedWrites before the next write or return")
				}
			}
			for _, c := range core.CallsIn(info, wn.N, write, core.WalkOpts{}) {
				ac, isCall := ast.Unparen(c.Args[0]).(*ast.CallExpr)
				r.Check(isCall && call("pkg/durablequeue.Scanner.Bytes")(info, ac), rule, f.String(), "Write-data", p.Pos(c.Pos()), "the posted bytes are the block the scanner just read")
			}
		}
		r.Check(n >= 1, rule, f.String(), "Write:absent", f.Pos(), "SendWrite posts batches through remoteWriter.Write")
		core.RuleErrorsUsed(r, f, rule, "NewScanner/Write", core.Or(write, call("pkg/durablequeue.Queue.NewScanner")), false, 2)
	}

	// ---- (4) EnqueueData
	if f := r.Need(p, replIntPkg, "durableQueueManager.EnqueueData"); f != nil {
		app := call("pkg/durablequeue.Queue.Append")
		core.RuleMustPass(r, f, "enqueue", "Queue.Append", app, false)
		core.RuleErrorsUsed(r, f, "enqueue", "Queue.Append", app, false, 1)
	}

	// ---- (2) (*writer).Write
	// res.StatusCode, also through a single-definition temporary (code := res.StatusCode)
	isStatus := func(info *types.Info, root ast.Node) func(ast.Expr) bool {
		return func(e ast.Expr) bool {
			return core.FieldOf(info, e) == statusF || core.FieldOf(info, core.ResolveLocal(info, root, e)) == statusF
		}
	}
	if f := r.Need(p, replRWPkg, "writer.Write"); f != nil {
		const rule = "success-means-accepted"
		g, info := f.Graph(), f.Info()
		post := call("replications/remotewrite.PostWrite")
		// postWriteErr: the variable holding the error of PostWrite
		var pwErr types.Object
		for _, pn := range g.Select(g.Calling(post)) {
			if as, ok := pn.N.(*ast.AssignStmt); ok && len(as.Lhs) == 2 && len(as.Rhs) == 1 {
				pwErr = core.ObjOf(info, as.Lhs[1])
			}
		}
		if r.Check(pwErr != nil && core.AssignedFrom(info, f.Decl.Body, pwErr, post, 1).OnlyFrom(), rule, f.String(), "postWriteErr", f.Pos(), "one variable holds the error of PostWrite and nothing else") {
			accepted := g.NilEdgeObj(pwErr, true)
			is400 := g.EqConstEdge(isStatus(info, f.Decl.Body), badReq)
			drop := func(e *core.Edge) bool {
				for _, ft := range core.EdgeFacts(e) {
					if ft.Truth && core.FieldOf(info, ft.Cond) == dropF {
						return true
					}
				}
				return false
			}
			r.Check(len(g.Edges(accepted)) >= 1 && len(g.Edges(is400)) >= 1 && len(g.Edges(drop)) >= 1, rule, f.String(), "gates:absent", f.Pos(),
				"tests `postWriteErr == nil`, `StatusCode == 400` and `conf.DropNonRetryableData` found")
			either := func(a, b core.EdgePred) core.EdgePred { return func(e *core.Edge) bool { return a(e) || b(e) } }
			success := map[*core.Node]bool{}
			for _, x := range g.SuccessExits() {
				success[x] = true
			}
			nNil := 0
			for _, x := range g.Exits {
				rs, ok := x.N.(*ast.ReturnStmt)
				if !ok {
					continue
				}
				if len(rs.Results) != 2 {
					r.Bad(rule, f.String(), "return-form", g.Line(x), "return without explicit (backoff, err) operands cannot be classified")
					continue
				}
				op := ast.Unparen(rs.Results[1])
				switch {
				case core.IsNilIdent(info, op):
					nNil++
					ok := g.OnlyVia(x, accepted) || (g.OnlyVia(x, either(accepted, is400)) && g.OnlyVia(x, either(accepted, drop)))
					r.Check(ok, rule, f.String(), "nil-return-ungated", g.Line(x), "`return …, nil` only after the remote accepted the batch, or answered 400 with DropNonRetryableData set")
				case core.ObjOf(info, op) == pwErr:
					r.Ok(rule, f.String(), g.Line(x), "returns the PostWrite error itself")
				default:
					r.Check(!success[x], rule, f.String(), "return-may-be-nil", g.Line(x), "the returned error is provably non-nil (failure of a bookkeeping call)")
				}
			}
			r.Check(nNil >= 2, rule, f.String(), "nil-returns:count", f.Pos(), fmt.Sprintf("%d `return …, nil` sites (accepted, dropped: >= 2)", nNil))
		}
		core.RuleMustPass(r, f, rule, "PostWrite", post, false)
		data := f.Param(0)
		for _, c := range core.AllCalls(info, f.Decl.Body, post) {
			r.Check(len(c.Args) == 4 && data != nil && core.ObjOf(info, c.Args[2]) == types.Object(data), rule, f.String(), "PostWrite-data", p.Pos(c.Pos()), "the data parameter is what is posted")
		}
		// Retry-After only for 429
		is429 := g.EqConstEdge(isStatus(info, f.Decl.Body), tooMany)
		hdr := g.Select(g.Calling(call("replications/remotewrite.writer.waitTimeFromHeader")))
		if r.Check(len(hdr) >= 1, "retry-after", f.String(), "waitTimeFromHeader:absent", f.Pos(), "Retry-After is consulted") {
			for _, h := range hdr {
				r.Check(g.OnlyVia(h, is429), "retry-after", f.String(), "header-outside-429", g.Line(h), "Retry-After is consulted only when the remote answered 429")
			}
		}
		core.RuleErrorsUsed(r, f, rule, "config/response bookkeeping", call("replications/remotewrite.HttpConfigStore.GetFullHTTPConfig", "replications/remotewrite.HttpConfigStore.UpdateResponseInfo", "replications/remotewrite.PostWrite"), false, 4)
	}

	// ---- (3) PostWrite
	if f := r.Need(p, replRWPkg, "PostWrite"); f != nil {
		const rule = "non-204-is-error"
		g, info := f.Graph(), f.Info()
		invalid := call("replications/remotewrite.invalidResponseCode")
		var errVar types.Object
		mark := func(n *core.Node) bool {
			as, ok := n.N.(*ast.AssignStmt)
			if !ok || len(as.Lhs) != 1 || len(as.Rhs) != 1 {
				return false
			}
			c, ok := ast.Unparen(as.Rhs[0]).(*ast.CallExpr)
			return ok && invalid(info, c) && core.ObjOf(info, as.Lhs[0]) != nil
		}
		for _, n := range g.Select(mark) {
			errVar = core.ObjOf(info, n.N.(*ast.AssignStmt).Lhs[0])
		}
		not204 := func(e *core.Edge) bool {
			for _, ft := range core.EdgeFacts(e) {
				be, ok := ft.Cond.(*ast.BinaryExpr)
				if !ok || (be.Op != token.EQL && be.Op != token.NEQ) {
					continue
				}
				is := func(a, b ast.Expr) bool {
					v := core.ConstVal(info, b)
					return core.FieldOf(info, a) == statusF && v != nil && constant.Compare(v, token.EQL, noContent)
				}
				if (is(be.X, be.Y) || is(be.Y, be.X)) && ft.Truth == (be.Op == token.NEQ) {
					return true
				}
			}
			return false
		}
		es := g.Edges(not204)
		if r.Check(errVar != nil && len(es) >= 1, rule, f.String(), "status-test:absent", f.Pos(), "`StatusCode != 204` test and `err = invalidResponseCode(…)` found") {
			for _, e := range es {
				r.Check(len(g.ExitsFrom([]*core.Node{e.To}, mark)) == 0, rule, f.String(), "non-204-without-error", g.Line(e.From), "any status other than 204 makes PostWrite return an error")
				for _, x := range g.ExitsFrom([]*core.Node{e.To}, nil) {
					rs, ok := x.N.(*ast.ReturnStmt)
					r.Check(ok && len(rs.Results) == 2 && core.ObjOf(info, rs.Results[1]) == errVar, rule, f.String(), "error-not-returned", g.Line(x), "the error set for a non-204 status is the one returned")
				}
			}
		}
	}
}
