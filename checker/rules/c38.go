package rules

import (
	"fmt"
	"go/ast"
	"go/constant"
	"go/token"
	"go/types"
	"strings"

	"verif/checker/core"
)

const tarPk = "pkg/tar"

func init() {
	register(&Prop{
		ID:        "C38",
		Patterns:  []string{"./tsdb/engine/tsm1", "./tsdb", "./pkg/tar"},
		Level:     "other",
		Technique: "static analysis: path/ordering rules over go/cfg with type-resolved callees and variables, loop accounting (every iteration passes the accumulate step except on named edges), lock state at call sites, a three-valued evaluation of the restore side's file-name filter per archive member kind",
		Explanation: "Necessary conditions of 'backup + restore gives back the same shard', decided on the CFG of the anchored functions (function literals as separate graphs): " +
			"(1) restore-file-protocol in tsm1.Engine.readFileFromBackup: tar.Next < os.OpenFile < io.CopyN < File.Sync; the file that is synced and copied into is the one just created under e.path, the copy reads hdr.Size bytes from the archive reader, the returned name is the created path; every return of a non-empty name passes Sync; no success exit is reachable from a failure branch; all errors propagated; " +
			"(2) restore-install-order in the locked section of Engine.overlay: readFileFromBackup, file.SyncDir(e.path) and FileStore.Replace run with e.mu write-held, in that order; SyncDir/Replace are reachable only through the `err == io.EOF` edge (the whole archive was consumed); every non-empty name returned by readFileFromBackup is appended to the list handed to Replace (the only skipping edge is name == \"\"); nothing is installed and no success is reported after a failure; " +
			"(3) restore-index in Engine.overlay/addToIndexFromKey: every restored name with the TSM suffix is opened and added to the reader list handed to newMergeKeyIterator (only the non-TSM edge skips), every key read is batched, a batch is reset only after addToIndexFromKey, no success exit is reachable from a batched key without addToIndexFromKey (only the len(keys) > 0 false edge is exempt), the field set is written to disk on every success exit; addToIndexFromKey creates the field and passes Index.CreateSeriesListIfNotExists with the batch; " +
			"(4) restore-error-propagated / passthrough: in tsdb.Shard.Restore no success exit of the locked section is reachable from the failure branch of Engine.Restore or closeNoLock; Store.BackupShard/RestoreShard, Shard.Backup/Restore, Engine.Backup/Restore hand writer, reader, base path and `since` on unchanged; " +
			"(5) snapshot-before-links: Engine.CreateSnapshot flushes the cache (writeSnapshotWithRetries) before FileStore.CreateSnapshot and goes on after a failed flush only on the edge err == ErrSnapshotInProgress && skipCacheOk; the FileStore lock is e.mu read-held; FileStore.CreateSnapshot links the copy of f.files taken under both write locks, Mkdir < MakeSnapshotLinks; MakeSnapshotLinks links the TSM path of every file and, on the TombstoneExists edge, the tombstone path, every error returned; copyOrLink passes copyNotLink or linkNotCopy; " +
			"(6) backup-since-filter: Engine.Backup streams the CreateSnapshot directory through intar.SinceFilterTarFile(since); in that filter StreamFile is reachable only on the edge ModTime().After(since) (of the visited file and the caller's since) and every path from that edge passes StreamFile with the visited file; pkg/tar.Stream hands every directory entry except the root to the write function and closes the tar writer; StreamRenameFile writes the header before copying h.Size bytes of the named file for every regular file, all errors propagated; " +
			"(7) archive-member-kinds: the kinds of file the backup side links into the snapshot directory (MakeSnapshotLinks: TSMFile.Path → \".tsm\", TombstoneStat.Path → \".tombstone\") are compared with the kinds the restore side copies out of the archive: readFileFromBackup's name filter is evaluated for a member of each kind and the copy must be reachable.",
		NotCovered:  "equality of the restored points with the backed-up ones (value level); the block-granular time filter of Export (timeStampFilterTarFile / filterFileToBackup: overlap arithmetic, and that a TSM file with a tombstone is streamed from filepath.Base(ts.Path)); that Backup(skipCacheOk=true) may legitimately omit cache contents while a snapshot is in progress; the tsi1 index and series file parts of a backup (bolt/meta level, outside these packages); asNew (Import) renaming.",
		Assumptions: []string{"os.File.Sync and directory fsync make data durable; rename is atomic", "a function literal that is not started with `go` runs where it is written", "a rule passing means the mechanism is present on every CFG path, not that the archive is byte-correct"},
		Run:         runC38,
	})
}

// ---------------------------------------------------------------- small helpers

func c38Lit(f *core.Func, m core.Matcher) *ast.FuncLit {
	var lit *ast.FuncLit
	ast.Inspect(f.Decl.Body, func(n ast.Node) bool {
		if fl, ok := n.(*ast.FuncLit); ok && lit == nil {
			if len(core.AllCalls(f.Info(), fl.Body, m)) > 0 {
				lit = fl
			}
		}
		return true
	})
	return lit
}

// c38VarFrom: the variable defined/assigned from result idx of a call of class m in body.
func c38VarFrom(info *types.Info, body ast.Node, m core.Matcher, idx int) types.Object {
	var out types.Object
	ast.Inspect(body, func(n ast.Node) bool {
		as, ok := n.(*ast.AssignStmt)
		if !ok || len(as.Rhs) != 1 || idx >= len(as.Lhs) {
			return true
		}
		if c, ok := ast.Unparen(as.Rhs[0]).(*ast.CallExpr); ok && m(info, c) && out == nil {
			out = core.ObjOf(info, as.Lhs[idx])
		}
		return true
	})
	return out
}

func c38Arg(info *types.Info, c *ast.CallExpr, i int) types.Object {
	if c == nil || i >= len(c.Args) {
		return nil
	}
	return core.ObjOf(info, c.Args[i])
}

func c38Recv(info *types.Info, c *ast.CallExpr) types.Object {
	if se, ok := ast.Unparen(c.Fun).(*ast.SelectorExpr); ok {
		return core.ObjOf(info, se.X)
	}
	return nil
}

func c38First(info *types.Info, body ast.Node, m core.Matcher) *ast.CallExpr {
	cs := core.AllCalls(info, body, m)
	if len(cs) == 0 {
		return nil
	}
	return cs[0]
}

func c38IsEmptyString(info *types.Info) func(ast.Expr) bool {
	return func(e ast.Expr) bool {
		v := core.ConstVal(info, e)
		return v != nil && v.Kind() == constant.String && constant.StringVal(v) == ""
	}
}

func c38IsPkgVar(info *types.Info, pkg, name string) func(ast.Expr) bool {
	return func(e ast.Expr) bool {
		var id *ast.Ident
		switch t := ast.Unparen(e).(type) {
		case *ast.SelectorExpr:
			id = t.Sel
		case *ast.Ident:
			id = t
		}
		if id == nil {
			return false
		}
		v, ok := info.Uses[id].(*types.Var)
		return ok && v.Pkg() != nil && v.Parent() == v.Pkg().Scope() && v.Name() == name && (v.Pkg().Path() == pkg || core.Short(v.Pkg().Path()) == pkg)
	}
}

// c38NoSuccessAfterFailure: from no failure branch (`err != nil`) of g is a success exit reachable.
func c38NoSuccessAfterFailure(r *core.Report, f *core.Func, g *core.Graph, rule, unit string, min int) {
	succ := map[*core.Node]bool{}
	for _, x := range g.SuccessExits() {
		succ[x] = true
	}
	n := 0
	ok := true
	for _, nd := range g.Nodes {
		for _, e := range nd.Succ {
			if !g.FailEdge(e) {
				continue
			}
			n++
			for x := range g.Reach([]*core.Node{e.To}, nil, nil) {
				if succ[x] {
					ok = false
					r.Bad(rule, f.String(), unit+"success-after-failure", g.Line(nd), fmt.Sprintf("a success exit (%s) is reachable from the failure branch of `%s`: the error is dropped", g.Line(x), core.Trim(core.ExprStr(e.Cond), 50)))
					break
				}
			}
		}
	}
	if n < min {
		r.Bad(rule, f.String(), unit+"failure-branches:count", f.Pos(), fmt.Sprintf("%d failure branches found, >= %d confirmed by reading", n, min))
		return
	}
	if ok {
		r.Ok(rule, f.String(), f.Pos(), fmt.Sprintf("%sno success exit is reachable from any of the %d failure branches", unit, n))
	}
}

// c38ParamArg checks that argument argIdx of the (single) call of class m in f is f's parameter paramIdx.
func c38ParamArg(r *core.Report, f *core.Func, m core.Matcher, callee string, argIdx, paramIdx int, what string) {
	const rule = "passthrough"
	if f == nil {
		return
	}
	c := c38First(f.Info(), f.Decl.Body, m)
	if c == nil {
		r.Bad(rule, f.String(), callee+":absent", f.Pos(), "no call of "+callee)
		return
	}
	par := f.X1Param(paramIdx)
	r.Check(par != nil && c38Arg(f.Info(), c, argIdx) == par, rule, f.String(), callee+":"+what, f.Prog.Pos(c.Pos()),
		fmt.Sprintf("%s is handed to %s unchanged (argument %d is parameter %d)", what, callee, argIdx, paramIdx))
}

func runC38(p *core.Prog, r *core.Report, tier string) {
	if p.Pkg(tsm1) == nil || p.Pkg(tarPk) == nil || p.Pkg(tsdbP) == nil {
		r.Bad("anchor", "tsm1|tsdb|pkg/tar", "unresolved", "-", "package not loaded")
		return
	}
	c38ReadFile(p, r)
	c38Overlay(p, r)
	c38Index(p, r)
	c38ShardRestore(p, r)
	c38Snapshot(p, r)
	c38Backup(p, r)
	c38Kinds(p, r)
}

// ---------------------------------------------------------------- (1) readFileFromBackup

func c38ReadFile(p *core.Prog, r *core.Report) {
	const rule = "restore-file-protocol"
	f := r.Need(p, tsm1, "Engine.readFileFromBackup")
	if f == nil {
		return
	}
	info, g := f.Info(), f.Graph()
	next := call("archive/tar.Reader.Next")
	open := call("os.OpenFile")
	cp := call("io.CopyN")
	sync := call("os.File.Sync")
	core.RuleOrder(r, f, rule, []string{"tar.Next", "os.OpenFile", "io.CopyN", "File.Sync"}, []core.Matcher{next, open, cp, sync})

	fileVar := c38VarFrom(info, f.Decl.Body, open, 0)
	hdrVar := c38VarFrom(info, f.Decl.Body, next, 0)
	cpCall := c38First(info, f.Decl.Body, cp)
	syncCall := c38First(info, f.Decl.Body, sync)
	openCall := c38First(info, f.Decl.Body, open)
	if !r.Check(fileVar != nil && hdrVar != nil && cpCall != nil && syncCall != nil && openCall != nil, rule, f.String(), "shape", f.Pos(), "tar.Next / OpenFile / CopyN / Sync with named results found") {
		return
	}
	tr := f.X1Param(0)
	sizeOK := false
	if len(cpCall.Args) == 3 {
		if se, ok := ast.Unparen(cpCall.Args[2]).(*ast.SelectorExpr); ok {
			if fv := core.FieldOf(info, se); fv != nil && fv.Name() == "Size" && fv.Pkg() != nil && fv.Pkg().Path() == "archive/tar" && core.ObjOf(info, se.X) == hdrVar {
				sizeOK = true
			}
		}
	}
	r.Check(c38Arg(info, cpCall, 0) == fileVar && tr != nil && c38Arg(info, cpCall, 1) == tr && sizeOK, rule, f.String(), "copy-operands", p.Pos(cpCall.Pos()),
		"io.CopyN copies hdr.Size bytes from the archive reader into the file just created")
	r.Check(c38Recv(info, syncCall) == fileVar, rule, f.String(), "sync-receiver", p.Pos(syncCall.Pos()), "the file that is fsynced is the file that was written")

	// the created path: lives under e.path and is what is returned
	pathVar := c38Arg(info, openCall, 0)
	pathField := core.LookupField(f.Pkg.Types, "Engine", "path")
	underShard := false
	if pathVar != nil && pathField != nil {
		for _, as := range core.X1AssignmentsTo(info, f.Decl.Body, pathVar) {
			if as.Rhs != nil && core.X1MentionsField(info, as.Rhs, pathField) {
				underShard = true
			}
		}
	}
	r.Check(underShard, rule, f.String(), "dest-dir", p.Pos(openCall.Pos()), "the file is created under the shard directory e.path")

	// every return of a non-empty name passes Sync and returns the created path
	reach := g.ReachFromEntry(g.Calling(sync), nil)
	isEmpty := c38IsEmptyString(info)
	named := 0
	for _, x := range g.SuccessExits() {
		rs, ok := x.N.(*ast.ReturnStmt)
		if !ok || len(rs.Results) != 2 || isEmpty(rs.Results[0]) {
			continue
		}
		named++
		r.Check(!reach[x], rule, f.String(), "name-without-sync", g.Line(x), "a file name is returned (for installation by FileStore.Replace) only after the file was fsynced")
		r.Check(core.ObjOf(info, rs.Results[0]) == pathVar, rule, f.String(), "returned-name", g.Line(x), "the returned name is the path of the file that was written")
	}
	r.Check(named >= 1, rule, f.String(), "named-return:absent", f.Pos(), "a return of the written file's name exists")
	c38NoSuccessAfterFailure(r, f, g, rule, "", 4)
	core.RuleErrorsUsed(r, f, rule, "Next/OpenFile/CopyN/Sync/MkdirAll", core.Or(next, open, cp, sync, call("os.MkdirAll")), false, 5)
}

// ---------------------------------------------------------------- (2) overlay, locked section

func c38Overlay(p *core.Prog, r *core.Report) {
	const rule = "restore-install-order"
	f := r.Need(p, tsm1, "Engine.overlay")
	if f == nil {
		return
	}
	info := f.Info()
	rfb := call(tsm1 + ".Engine.readFileFromBackup")
	syncDir := call("pkg/file.SyncDir")
	replace := call(tsm1 + ".FileStore.Replace")
	lit := c38Lit(f, rfb)
	if !r.Check(lit != nil, rule, f.String(), "locked-section:absent", f.Pos(), "function literal calling readFileFromBackup found") {
		return
	}
	lg := f.LitGraph(lit)
	core.RulePrecedeG(r, lg, f, rule, "readFileFromBackup", rfb, "SyncDir", syncDir)
	core.RulePrecedeG(r, lg, f, rule, "SyncDir", syncDir, "FileStore.Replace", replace)

	// e.mu write-held at the three calls
	recv := ""
	if rv := f.X1Recv(); rv != nil {
		recv = rv.Name()
	}
	a := core.NewX11Locks(p)
	held := map[string]int{}
	a.Walk(f, nil, nil, func(s *core.X11Site) {
		for name, m := range map[string]core.Matcher{"readFileFromBackup": rfb, "SyncDir": syncDir, "FileStore.Replace": replace} {
			if m(s.G.Info, s.Call) && s.Kind == "" {
				if s.Held.Mode(recv+".mu") == 2 {
					held[name]++
				} else {
					held[name] = -100
				}
			}
		}
	})
	for _, name := range []string{"readFileFromBackup", "SyncDir", "FileStore.Replace"} {
		r.Check(held[name] >= 1, rule, f.String(), name+"-without-e.mu", f.Pos(), name+" runs with Engine.mu write-held (no reopen, snapshot or write can interleave with the file copy)")
	}

	// archive consumed completely: SyncDir/Replace only through err == io.EOF
	rfbNodes := lg.Select(lg.Calling(rfb))
	if !r.Check(len(rfbNodes) == 1, rule, f.String(), "readFileFromBackup:sites", f.Pos(), "one readFileFromBackup call in the copy loop") {
		return
	}
	nameVar := c38VarFrom(info, lit.Body, rfb, 0)
	errVar := c38VarFrom(info, lit.Body, rfb, 1)
	eof := core.EqEdge(core.IsObj(info, errVar), c38IsPkgVar(info, "io", "EOF"), true)
	noEOF := lg.ReachFromEntry(nil, eof)
	for _, n := range lg.Select(core.AnyOf(lg.Calling(syncDir), lg.Calling(replace))) {
		r.Check(!noEOF[n], rule, f.String(), "install-before-EOF", lg.Line(n), "SyncDir / FileStore.Replace are reached only after readFileFromBackup reported io.EOF (every archive member was processed)")
	}

	// every non-empty name is appended to the list handed to Replace
	repCall := c38First(info, lit.Body, replace)
	listVar := c38Arg(info, repCall, 1)
	isAppend := func(n *core.Node) bool {
		as, ok := n.N.(*ast.AssignStmt)
		if !ok || len(as.Lhs) != 1 || len(as.Rhs) != 1 || core.ObjOf(info, as.Lhs[0]) != listVar {
			return false
		}
		c, ok := ast.Unparen(as.Rhs[0]).(*ast.CallExpr)
		return ok && core.Builtin("append")(info, c) && len(c.Args) == 2 && core.ObjOf(info, c.Args[0]) == listVar && core.ObjOf(info, c.Args[1]) == nameVar
	}
	if r.Check(listVar != nil && nameVar != nil && len(lg.Select(isAppend)) >= 1, rule, f.String(), "append:absent", f.Pos(), "the returned names are collected in the list given to FileStore.Replace") {
		emptyName := core.EqEdge(core.IsObj(info, nameVar), c38IsEmptyString(info), true)
		back := lg.Reach(core.After(rfbNodes[0], nil), isAppend, emptyName)
		r.Check(!back[rfbNodes[0]], rule, f.String(), "name-not-collected", lg.Line(rfbNodes[0]),
			"an iteration of the copy loop reaches the next one without appending the returned name only on the edge name == \"\" (member skipped by readFileFromBackup)")
		r.Check(len(repCall.Args) == 2 && core.IsNilIdent(info, repCall.Args[0]), rule, f.String(), "replace-removes-nothing", p.Pos(repCall.Pos()), "Replace(nil, newFiles): restore only adds files")
	}
	// SyncDir of the shard directory
	if sc := c38First(info, lit.Body, syncDir); sc != nil {
		pathField := core.LookupField(f.Pkg.Types, "Engine", "path")
		r.Check(len(sc.Args) == 1 && pathField != nil && core.FieldOf(info, sc.Args[0]) == pathField, rule, f.String(), "SyncDir-dir", p.Pos(sc.Pos()), "the directory that is fsynced is the shard directory the files were created in")
	}
	// failures stop the installation
	for _, nd := range lg.Nodes {
		for _, e := range nd.Succ {
			if lg.FailEdge(e) {
				for x := range lg.Reach([]*core.Node{e.To}, nil, nil) {
					if lg.Calling(replace)(x) || lg.Calling(syncDir)(x) {
						r.Bad(rule, f.String(), "install-after-failure", lg.Line(x), "SyncDir/Replace reachable from the failure branch at "+lg.Line(nd))
					}
				}
			}
		}
	}
	c38NoSuccessAfterFailure(r, f, lg, rule, "locked-section:", 3)
	// the outer function stops on the section's error
	c38NoSuccessAfterFailure(r, f, f.Graph(), rule, "", 4)
}

// ---------------------------------------------------------------- (3) index load

func c38Index(p *core.Prog, r *core.Report) {
	const rule = "restore-index"
	f := r.Need(p, tsm1, "Engine.overlay")
	if f == nil {
		return
	}
	info, g := f.Info(), f.Graph()
	rfb := call(tsm1 + ".Engine.readFileFromBackup")
	lit := c38Lit(f, rfb)
	if lit == nil {
		return
	}
	// the list returned by the locked section
	var listVar types.Object
	ast.Inspect(f.Decl.Body, func(n ast.Node) bool {
		if as, ok := n.(*ast.AssignStmt); ok && len(as.Rhs) == 1 && len(as.Lhs) == 2 {
			if c, ok := ast.Unparen(as.Rhs[0]).(*ast.CallExpr); ok && ast.Unparen(c.Fun) == ast.Expr(lit) {
				listVar = core.ObjOf(info, as.Lhs[0])
			}
		}
		return true
	})
	mki := call(tsm1 + ".newMergeKeyIterator")
	mkiCall := c38First(info, f.Decl.Body, mki)
	if !r.Check(listVar != nil && mkiCall != nil, rule, f.String(), "shape", f.Pos(), "result of the locked section and newMergeKeyIterator found") {
		return
	}
	readers := c38Arg(info, mkiCall, 0)
	appendTo := func(dst types.Object) core.NodePred {
		return func(n *core.Node) bool {
			as, ok := n.N.(*ast.AssignStmt)
			if !ok || len(as.Lhs) != 1 || len(as.Rhs) != 1 || dst == nil || core.ObjOf(info, as.Lhs[0]) != dst {
				return false
			}
			c, ok := ast.Unparen(as.Rhs[0]).(*ast.CallExpr)
			return ok && core.Builtin("append")(info, c) && len(c.Args) >= 2 && core.ObjOf(info, c.Args[0]) == dst
		}
	}
	// (a) every restored TSM name is opened and joins the reader list
	loops := core.X11LoopOver(f.Decl.Body, core.IsObj(info, listVar))
	if r.Check(len(loops) == 1 && readers != nil, rule, f.String(), "files-loop:absent", f.Pos(), "loop over the restored names found") {
		isSuffix := func(e ast.Expr) bool {
			c, ok := ast.Unparen(e).(*ast.CallExpr)
			return ok && call("strings.HasSuffix")(info, c) && len(c.Args) == 2 && c38ConstString(info, c.Args[1]) == c38TSMExt(p)
		}
		skips, ok := g.X11IterSkips(loops[0], appendTo(readers), core.X1BoolEdge(isSuffix, false))
		r.Check(ok && len(skips) == 0, rule, f.String(), "restored-file-not-indexed", p.Pos(loops[0].Pos()),
			"every restored name joins the TSM reader list whose keys are added to the index; only names without the TSM suffix are skipped")
		core.RuleErrorsUsed(r, f, rule, "os.Open/NewTSMReader", call("os.Open", tsm1+".NewTSMReader"), false, 2)
	}
	// (b) every key read is batched; (c) batches reach addToIndexFromKey
	add := call(tsm1 + ".Engine.addToIndexFromKey")
	addCalls := core.AllCalls(info, f.Decl.Body, add)
	if !r.Check(len(addCalls) >= 1, rule, f.String(), "addToIndexFromKey:absent", f.Pos(), "addToIndexFromKey is called with the key batch") {
		return
	}
	keys := c38Arg(info, addCalls[0], 0)
	okArgs := keys != nil
	for _, c := range addCalls {
		if c38Arg(info, c, 0) != keys {
			okArgs = false
		}
	}
	r.Check(okArgs, rule, f.String(), "batch-argument", p.Pos(addCalls[0].Pos()), "every addToIndexFromKey call is given the key batch")
	var keyLoop *ast.ForStmt
	ast.Inspect(f.Decl.Body, func(n ast.Node) bool {
		if fs, ok := n.(*ast.ForStmt); ok && fs.Cond != nil && keyLoop == nil {
			if c, ok := ast.Unparen(fs.Cond).(*ast.CallExpr); ok && call(tsm1+".KeyIterator.Next", tsm1+".*.Next")(info, c) {
				keyLoop = fs
			}
		}
		return true
	})
	if r.Check(keyLoop != nil, rule, f.String(), "key-loop:absent", f.Pos(), "loop over the merged keys found") {
		keyVar := c38VarFrom(info, keyLoop.Body, call(tsm1+".*.Read"), 0)
		batch := func(n *core.Node) bool {
			if !appendTo(keys)(n) {
				return false
			}
			c := ast.Unparen(n.N.(*ast.AssignStmt).Rhs[0]).(*ast.CallExpr)
			return core.ObjOf(info, c.Args[1]) == keyVar && keyVar != nil
		}
		skips, ok := g.X11IterSkips(keyLoop, batch, nil)
		r.Check(ok && len(skips) == 0, rule, f.String(), "key-not-batched", p.Pos(keyLoop.Pos()), "every key read from the restored files is appended to the batch (error returns leave the function)")
		bn := g.Select(batch)
		if r.Check(len(bn) == 1, rule, f.String(), "batch-append:sites", f.Pos(), "one batching statement") {
			isKeys := core.IsObj(info, keys)
			after := g.Reach(core.After(bn[0], nil), g.Calling(add), core.X1LenZeroEdge(info, isKeys, true))
			lost := ""
			for _, x := range g.SuccessExits() {
				if after[x] {
					lost = g.Line(x)
				}
			}
			r.Check(lost == "", rule, f.String(), "batch-not-flushed", g.Line(bn[0]), "after a key was batched no success exit is reachable without addToIndexFromKey (exempt: the edge on which the batch is empty) "+lost)
			// reset only after a flush
			reset := func(n *core.Node) bool {
				return g.X1StoresToObj(keys)(n) && !batch(n) && n != nil && func() bool {
					as, ok := n.N.(*ast.AssignStmt)
					if !ok {
						return false
					}
					for i, l := range as.Lhs {
						if core.ObjOf(info, l) == keys && i < len(as.Rhs) {
							_, isSlice := ast.Unparen(as.Rhs[i]).(*ast.SliceExpr)
							return isSlice
						}
					}
					return false
				}()
			}
			for _, rn := range g.Select(reset) {
				r.Check(!after[rn], rule, f.String(), "batch-reset-before-flush", g.Line(rn), "the batch is emptied only after it was given to addToIndexFromKey")
			}
		}
	}
	core.RuleErrorsUsed(r, f, rule, "addToIndexFromKey", add, false, 1)
	core.RuleMustPass(r, f, rule, "MeasurementFieldSet.WriteToFile", call("tsdb.MeasurementFieldSet.WriteToFile"), false)
	r.Check(readers != nil, rule, f.String(), "iterator-source", p.Pos(mkiCall.Pos()), "newMergeKeyIterator walks the readers of the restored files")

	if af := r.Need(p, tsm1, "Engine.addToIndexFromKey"); af != nil {
		csl := call("tsdb.Index.CreateSeriesListIfNotExists")
		core.RuleMustPass(r, af, rule, "Index.CreateSeriesListIfNotExists", csl, false)
		if c := c38First(af.Info(), af.Decl.Body, csl); c != nil {
			r.Check(c38Arg(af.Info(), c, 0) == af.X1Param(0), rule, af.String(), "series-list-argument", p.Pos(c.Pos()), "the series of the batch are created in the index")
		}
		core.RuleHasCall(r, af, rule, "MeasurementFields.CreateFieldIfNotExists", call("tsdb.MeasurementFields.CreateFieldIfNotExists"))
		core.RuleErrorsUsed(r, af, rule, "CreateFieldIfNotExists/CreateSeriesListIfNotExists", core.Or(csl, call("tsdb.MeasurementFields.CreateFieldIfNotExists")), false, 2)
	}
}

func c38ConstString(info *types.Info, e ast.Expr) string {
	v := core.ConstVal(info, e)
	if v == nil || v.Kind() != constant.String {
		return "\x00"
	}
	return constant.StringVal(v)
}

func c38TSMExt(p *core.Prog) string {
	if pk := p.Pkg(tsm1); pk != nil {
		if c, ok := pk.Types.Scope().Lookup("TSMFileExtension").(*types.Const); ok && c.Val().Kind() == constant.String {
			return constant.StringVal(c.Val())
		}
	}
	return "\x01"
}

// ---------------------------------------------------------------- (4) Shard.Restore, pass-through

func c38ShardRestore(p *core.Prog, r *core.Report) {
	const rule = "restore-error-propagated"
	if f := r.Need(p, tsdbP, "Shard.Restore"); f != nil {
		restore := call("tsdb.Engine.Restore")
		lit := c38Lit(f, restore)
		if r.Check(lit != nil, rule, f.String(), "locked-section:absent", f.Pos(), "function literal calling Engine.Restore found") {
			lg := f.LitGraph(lit)
			succ := map[*core.Node]bool{}
			for _, x := range lg.SuccessExits() {
				succ[x] = true
			}
			for _, it := range []struct {
				name string
				m    core.Matcher
			}{{"Engine.Restore", restore}, {"Shard.closeNoLock", call("tsdb.Shard.closeNoLock")}} {
				ns := lg.Select(lg.Calling(it.m))
				if !r.Check(len(ns) == 1, rule, f.String(), it.name+":sites", f.Pos(), "one call of "+it.name) {
					continue
				}
				fail, _, ok := lg.ErrEdges(ns[0])
				if !r.Check(ok, rule, f.String(), it.name+":unchecked", lg.Line(ns[0]), "the error of "+it.name+" is tested") {
					continue
				}
				bad := ""
				for x := range lg.Reach([]*core.Node{fail.To}, nil, nil) {
					if succ[x] {
						bad = lg.Line(x)
					}
				}
				r.Check(bad == "", rule, f.String(), it.name+"-error-dropped", lg.Line(ns[0]),
					"from the failure branch of "+it.name+" no exit that reports success is reachable (a failed restore must not be answered with success) "+bad)
			}
			// the outer function reopens the shard only when the locked section (and closeWait) reported no error
			g := f.Graph()
			var secErr types.Object
			ast.Inspect(f.Decl.Body, func(n ast.Node) bool {
				if as, ok := n.(*ast.AssignStmt); ok && len(as.Rhs) == 1 && len(as.Lhs) == 2 {
					if c, ok := ast.Unparen(as.Rhs[0]).(*ast.CallExpr); ok && ast.Unparen(c.Fun) == ast.Expr(lit) {
						secErr = core.ObjOf(f.Info(), as.Lhs[1])
					}
				}
				return true
			})
			if r.Check(secErr != nil, rule, f.String(), "section-error:absent", f.Pos(), "the locked section's error is kept in a variable") {
				withErr := g.ReachFromEntry(nil, g.NilEdge(core.IsObj(f.Info(), secErr), true))
				for _, n := range g.Select(g.Calling(call("tsdb.Shard.Open"))) {
					r.Check(!withErr[n], rule, f.String(), "reopen-after-error", g.Line(n), "the shard is reopened (and success reported) only on a path on which the restore error was tested to be nil")
				}
			}
			if c := c38First(f.Info(), lit.Body, restore); c != nil {
				r.Check(c38Arg(f.Info(), c, 0) == f.X1Param(1) && c38Arg(f.Info(), c, 1) == f.X1Param(2), "passthrough", f.String(), "Engine.Restore:reader,basePath", p.Pos(c.Pos()), "reader and base path are handed to Engine.Restore unchanged")
			}
			// the engine is reopened on every success exit
			core.RuleMustPass(r, f, rule, "Shard.Open", call("tsdb.Shard.Open"), false)
		}
	}
	f := r.Need(p, tsdbP, "Store.BackupShard")
	c38ParamArg(r, f, call("tsdb.Shard.Backup"), "Shard.Backup", 0, 2, "writer")
	c38ParamArg(r, f, call("tsdb.Shard.Backup"), "Shard.Backup", 2, 1, "since")
	f = r.Need(p, tsdbP, "Shard.Backup")
	c38ParamArg(r, f, call("tsdb.Engine.Backup"), "Engine.Backup", 0, 0, "writer")
	c38ParamArg(r, f, call("tsdb.Engine.Backup"), "Engine.Backup", 1, 1, "basePath")
	c38ParamArg(r, f, call("tsdb.Engine.Backup"), "Engine.Backup", 2, 2, "since")
	f = r.Need(p, tsdbP, "Store.RestoreShard")
	c38ParamArg(r, f, call("tsdb.Shard.Restore"), "Shard.Restore", 1, 2, "reader")
	f = r.Need(p, tsm1, "Engine.Restore")
	c38ParamArg(r, f, call(tsm1+".Engine.overlay"), "Engine.overlay", 0, 0, "reader")
	c38ParamArg(r, f, call(tsm1+".Engine.overlay"), "Engine.overlay", 1, 1, "basePath")
	if f := r.Need(p, tsm1, "Engine.overlay"); f != nil {
		c38ParamArg(r, f, call("archive/tar.NewReader"), "tar.NewReader", 0, 0, "reader")
		info := f.Info()
		trVar := c38VarFrom(info, f.Decl.Body, call("archive/tar.NewReader"), 0)
		c := c38First(info, f.Decl.Body, call(tsm1+".Engine.readFileFromBackup"))
		r.Check(c != nil && trVar != nil && c38Arg(info, c, 0) == trVar, "passthrough", f.String(), "readFileFromBackup:tar-reader", f.Pos(), "readFileFromBackup reads from the tar reader over the caller's stream")
	}
}

// ---------------------------------------------------------------- (5) snapshot

func c38Snapshot(p *core.Prog, r *core.Report) {
	const rule = "snapshot-before-links"
	if f := r.Need(p, tsm1, "Engine.CreateSnapshot"); f != nil {
		info, g := f.Info(), f.Graph()
		flush := call(tsm1 + ".Engine.writeSnapshotWithRetries")
		links := call(tsm1 + ".FileStore.CreateSnapshot")
		core.RulePrecede(r, f, rule, "writeSnapshotWithRetries", flush, "FileStore.CreateSnapshot", links)
		fn := g.Select(g.Calling(flush))
		errVar := c38VarFrom(info, f.Decl.Body, flush, 0)
		skip := f.X1Param(0)
		if r.Check(len(fn) == 1 && errVar != nil && skip != nil, rule, f.String(), "shape", f.Pos(), "flush call, its error variable and the skipCacheOk parameter found") {
			isErr := core.IsObj(info, errVar)
			inProgress := core.EqEdge(isErr, c38IsPkgVar(info, tsm1, "ErrSnapshotInProgress"), true)
			skipOK := core.X1BoolEdge(core.X1IsObj(info, skip), true)
			exempt := func(e *core.Edge) bool { return inProgress(e) && skipOK(e) }
			okFlush := g.NilEdge(isErr, true)
			reach := g.Reach(core.After(fn[0], nil), nil, core.OrEdge(exempt, okFlush))
			bad := ""
			for _, n := range g.Select(g.Calling(links)) {
				if reach[n] {
					bad = g.Line(n)
				}
			}
			r.Check(bad == "", rule, f.String(), "links-after-failed-flush", g.Line(fn[0]),
				"after writeSnapshotWithRetries the files are linked only when it succeeded, or on the edge err == ErrSnapshotInProgress && skipCacheOk "+bad)
			n := 0
			for _, nd := range g.Nodes {
				for _, e := range nd.Succ {
					if exempt(e) {
						n++
					}
				}
			}
			r.Check(n == 1, rule, f.String(), "skip-edge", f.Pos(), "exactly one edge lets a busy snapshotter through, and it requires skipCacheOk")
		}
		recv := f.X1Recv()
		a := core.NewX11Locks(p)
		heldOK := false
		a.Walk(f, nil, nil, func(s *core.X11Site) {
			if links(s.G.Info, s.Call) && recv != nil && s.Held.Mode(recv.Name()+".mu") >= 1 {
				heldOK = true
			}
		})
		r.Check(heldOK, rule, f.String(), "links-without-e.mu", f.Pos(), "FileStore.CreateSnapshot runs with Engine.mu held (no restore/close in between)")
		core.RuleErrorsUsed(r, f, rule, "flush/CreateSnapshot", core.Or(flush, links), false, 2)
	}
	if f := r.Need(p, tsm1, "FileStore.CreateSnapshot"); f != nil {
		info, g := f.Info(), f.Graph()
		msl := call(tsm1 + ".FileStore.MakeSnapshotLinks")
		core.RuleOrder(r, f, rule, []string{"os.Mkdir", "MakeSnapshotLinks"}, []core.Matcher{call("os.Mkdir"), msl})
		core.RuleMustPass(r, f, rule, "MakeSnapshotLinks", msl, false)
		filesField := core.LookupField(f.Pkg.Types, "FileStore", "files")
		var copied types.Object
		var cpCall *ast.CallExpr
		for _, c := range core.AllCalls(info, f.Decl.Body, core.Builtin("copy")) {
			if len(c.Args) == 2 && filesField != nil && core.FieldOf(info, c.Args[1]) == filesField {
				copied, cpCall = core.ObjOf(info, c.Args[0]), c
			}
		}
		mc := c38First(info, f.Decl.Body, msl)
		if r.Check(copied != nil && mc != nil && c38Arg(info, mc, 1) == copied, rule, f.String(), "linked-set", f.Pos(), "the files linked are the copy of f.files taken under the lock") {
			// the destination slice has the length of f.files
			lenOK := false
			for _, as := range core.X1AssignmentsTo(info, f.Decl.Body, copied) {
				if c, ok := ast.Unparen(as.Rhs).(*ast.CallExpr); ok && core.Builtin("make")(info, c) && len(c.Args) == 2 {
					if lc, ok := ast.Unparen(c.Args[1]).(*ast.CallExpr); ok && core.Builtin("len")(info, lc) && len(lc.Args) == 1 && core.FieldOf(info, lc.Args[0]) == filesField {
						lenOK = true
					}
				}
			}
			r.Check(lenOK, rule, f.String(), "copy-length", p.Pos(cpCall.Pos()), "the copy has room for every file (make(len(f.files)))")
			a := core.NewX11Locks(p)
			rn := ""
			if rv := f.X1Recv(); rv != nil {
				rn = rv.Name()
			}
			locked := false
			a.Walk(f, nil, nil, func(s *core.X11Site) {
				if s.Call == cpCall {
					locked = s.Held.Mode(rn+".slowMu") == 2 && s.Held.Mode(rn+".fastMu") == 2
				}
			})
			r.Check(locked, rule, f.String(), "copy-unlocked", p.Pos(cpCall.Pos()), "the file list is copied with both FileStore write locks held (no Replace in between)")
			// Ref before unlock: every file of the copy is Ref'd while the locks are still held (C06 checks the pairing)
			core.RuleHasCall(r, f, rule, "TSMFile.Ref", call(tsm1+".TSMFile.Ref"))
		}
		core.RuleErrorsUsed(r, f, rule, "Mkdir/MakeSnapshotLinks", core.Or(call("os.Mkdir"), msl), false, 2)
		c38NoSuccessAfterFailure(r, f, g, rule, "", 2)
	}
	if f := r.Need(p, tsm1, "FileStore.MakeSnapshotLinks"); f != nil {
		info, g := f.Info(), f.Graph()
		col := call(tsm1 + ".FileStore.copyOrLink")
		files := f.X1Param(1)
		loops := core.X11LoopOver(f.Decl.Body, core.IsObj(info, files))
		if r.Check(len(loops) == 1, rule, f.String(), "loop:absent", f.Pos(), "loop over the files parameter found") {
			fileVar := core.ObjOf(info, loops[0].Value)
			linkOf := func(src func(ast.Expr) bool) core.NodePred {
				return g.X1CallingWith(col, func(c *ast.CallExpr) bool { return len(c.Args) == 2 && src(c.Args[0]) })
			}
			isTSMPath := func(e ast.Expr) bool {
				c, ok := ast.Unparen(e).(*ast.CallExpr)
				return ok && call(tsm1+".TSMFile.Path")(info, c) && c38Recv(info, c) == fileVar && fileVar != nil
			}
			tsField := core.LookupField(f.Pkg.Types, "TombstoneStat", "Path")
			existsField := core.LookupField(f.Pkg.Types, "TombstoneStat", "TombstoneExists")
			isTombPath := func(e ast.Expr) bool { return tsField != nil && core.FieldOf(info, e) == tsField }
			skips, ok := g.X11IterSkips(loops[0], linkOf(isTSMPath), nil)
			r.Check(ok && len(skips) == 0 && len(g.Select(linkOf(isTSMPath))) >= 1, rule, f.String(), "tsm-not-linked", p.Pos(loops[0].Pos()), "every iteration links tsmf.Path() into the snapshot directory")
			// tombstone: from the TombstoneExists edge the next iteration is reached only through the tombstone link
			exists := core.X1BoolEdge(core.X1IsField(info, existsField), true)
			var starts []*core.Node
			for _, nd := range g.Nodes {
				for _, e := range nd.Succ {
					if exists(e) {
						starts = append(starts, e.To)
					}
				}
			}
			if r.Check(len(starts) >= 1 && existsField != nil, rule, f.String(), "tombstone-edge:absent", f.Pos(), "test of TombstoneStats().TombstoneExists found") {
				reach := g.Reach(starts, linkOf(isTombPath), nil)
				bad := ""
				for n := range reach {
					if n.N == nil && g.OnCycle(n) || core.X1IsExit(n) && g.X1IsSuccessExit(n) {
						bad = g.Line(n)
					}
				}
				r.Check(bad == "" && len(g.Select(linkOf(isTombPath))) >= 1, rule, f.String(), "tombstone-not-linked", g.Line(starts[0]),
					"when a file has a tombstone, the tombstone file is linked into the snapshot before the next file / the successful return "+bad)
			}
		}
		core.RuleErrorsUsed(r, f, rule, "copyOrLink", col, false, 2)
		c38NoSuccessAfterFailure(r, f, g, rule, "", 2)
	}
	if f := r.Need(p, tsm1, "FileStore.copyOrLink"); f != nil {
		g := f.Graph()
		core.RuleMustPassN(r, f, g, rule, "copyNotLink|linkNotCopy", core.AnyOf(g.Calling(call(tsm1+".FileStore.copyNotLink")), g.Calling(call(tsm1+".FileStore.linkNotCopy"))), nil)
		core.RuleErrorsUsed(r, f, rule, "copyNotLink/linkNotCopy", call(tsm1+".FileStore.copyNotLink", tsm1+".FileStore.linkNotCopy"), false, 2)
		c38NoSuccessAfterFailure(r, f, g, rule, "", 2)
	}
}

// ---------------------------------------------------------------- (6) backup stream / since filter

func c38Backup(p *core.Prog, r *core.Report) {
	const rule = "backup-since-filter"
	if f := r.Need(p, tsm1, "Engine.Backup"); f != nil {
		info := f.Info()
		snap := call(tsm1 + ".Engine.CreateSnapshot")
		stream := call(tarPk + ".Stream")
		filter := call(tarPk + ".SinceFilterTarFile")
		core.RulePrecede(r, f, rule, "CreateSnapshot", snap, "tar.Stream", stream)
		core.RuleMustPass(r, f, rule, "tar.Stream", stream, false)
		sc := c38First(info, f.Decl.Body, stream)
		dir := c38VarFrom(info, f.Decl.Body, snap, 0)
		if r.Check(sc != nil && dir != nil && len(sc.Args) == 4, rule, f.String(), "shape", f.Pos(), "CreateSnapshot result and tar.Stream call found") {
			r.Check(c38Arg(info, sc, 0) == f.X1Param(0) && c38Arg(info, sc, 1) == dir && c38Arg(info, sc, 2) == f.X1Param(1), rule, f.String(), "stream-operands", p.Pos(sc.Pos()),
				"the snapshot directory is streamed to the caller's writer under the caller's base path")
			fc, _ := ast.Unparen(sc.Args[3]).(*ast.CallExpr)
			r.Check(fc != nil && filter(info, fc) && c38Arg(info, fc, 0) == f.X1Param(2), rule, f.String(), "filter-since", p.Pos(sc.Pos()),
				"the write function is SinceFilterTarFile(since) with the caller's since")
		}
		core.RuleErrorsUsed(r, f, rule, "CreateSnapshot/Stream", core.Or(snap, stream), false, 2)
	}
	if f := r.Need(p, tarPk, "SinceFilterTarFile"); f != nil {
		info := f.Info()
		sf := call(tarPk + ".StreamFile")
		lit := c38Lit(f, sf)
		if r.Check(lit != nil, rule, f.String(), "filter-literal:absent", f.Pos(), "returned filter function found") {
			lg := f.LitGraph(lit)
			since := f.X1Param(0)
			var litParams []types.Object
			for _, fl := range lit.Type.Params.List {
				for _, nm := range fl.Names {
					litParams = append(litParams, info.Defs[nm])
				}
			}
			isMod := func(e ast.Expr) bool {
				c, ok := ast.Unparen(e).(*ast.CallExpr)
				return ok && call("*.ModTime")(info, c) && len(litParams) > 0 && c38Recv(info, c) == litParams[0]
			}
			isSince := core.IsObj(info, since)
			newer := core.AtomEdge(func(x ast.Expr, val bool) bool {
				c, ok := ast.Unparen(x).(*ast.CallExpr)
				if !ok || len(c.Args) != 1 || !val {
					return false
				}
				se, ok := ast.Unparen(c.Fun).(*ast.SelectorExpr)
				if !ok {
					return false
				}
				switch core.FName(core.Callee(info, c)) {
				case "time.Time.After":
					return isMod(se.X) && isSince(c.Args[0])
				case "time.Time.Before":
					return isSince(se.X) && isMod(c.Args[0])
				}
				return false
			})
			var gates []*core.Edge
			for _, nd := range lg.Nodes {
				for _, e := range nd.Succ {
					if newer(e) {
						gates = append(gates, e)
					}
				}
			}
			sfNodes := lg.Select(lg.Calling(sf))
			if r.Check(len(gates) == 1 && len(sfNodes) >= 1 && len(litParams) == 4, rule, f.String(), "newer-than-since-test:absent", f.Pos(), "the test f.ModTime().After(since) and the StreamFile call found") {
				without := lg.ReachFromEntry(nil, newer)
				for _, n := range sfNodes {
					r.Check(!without[n], rule, f.String(), "stream-not-gated", lg.Line(n), "a file is written only on the edge ModTime().After(since)")
				}
				miss := ""
				for x := range lg.Reach([]*core.Node{gates[0].To}, lg.Calling(sf), nil) {
					if core.X1IsExit(x) {
						miss = lg.Line(x)
					}
				}
				r.Check(miss == "", rule, f.String(), "newer-file-not-streamed", lg.Line(gates[0].From), "every path from the edge ModTime().After(since) passes StreamFile (a file changed after `since` is in the archive) "+miss)
				for _, c := range core.AllCalls(info, lit.Body, sf) {
					ok := len(c.Args) == 4
					for i := 0; ok && i < 4; i++ {
						ok = core.ObjOf(info, c.Args[i]) == litParams[i]
					}
					r.Check(ok, rule, f.String(), "stream-operands", p.Pos(c.Pos()), "StreamFile is given the visited file, its relative and full path and the tar writer")
				}
				core.RuleErrorsUsed(r, f, rule, "StreamFile", sf, false, 1)
			}
		}
	}
	if f := r.Need(p, tarPk, "Stream"); f != nil {
		info := f.Info()
		wf := f.X1Param(3)
		isWrite := func(c *ast.CallExpr) bool { return wf != nil && core.ObjOf(info, c.Fun) == wf }
		var lit *ast.FuncLit
		ast.Inspect(f.Decl.Body, func(n ast.Node) bool {
			if fl, ok := n.(*ast.FuncLit); ok && lit == nil {
				lit = fl
			}
			return true
		})
		walk := c38First(info, f.Decl.Body, call("path/filepath.WalkDir"))
		if r.Check(lit != nil && walk != nil && len(walk.Args) == 2 && ast.Unparen(walk.Args[1]) == ast.Expr(lit) && c38Arg(info, walk, 0) == f.X1Param(1), rule, f.String(), "walk:absent", f.Pos(), "filepath.WalkDir(dir, callback) found") {
			lg := f.LitGraph(lit)
			writes := func(n *core.Node) bool {
				if n.N == nil {
					return false
				}
				found := false
				core.Walk(n.N, core.WalkOpts{}, func(x ast.Node) bool {
					if c, ok := x.(*ast.CallExpr); ok && isWrite(c) {
						found = true
					}
					return true
				})
				return found
			}
			var pathPar types.Object
			if len(lit.Type.Params.List) > 0 && len(lit.Type.Params.List[0].Names) > 0 {
				pathPar = info.Defs[lit.Type.Params.List[0].Names[0]]
			}
			root := core.EqEdge(core.IsObj(info, f.X1Param(1)), core.IsObj(info, pathPar), true)
			core.RuleMustPassN(r, f, lg, rule, "writeFunc(entry)", writes, root)
			twVar := c38VarFrom(info, f.Decl.Body, call("archive/tar.NewWriter"), 0)
			for _, c := range core.AllCalls(info, lit.Body, func(_ *types.Info, c *ast.CallExpr) bool { return isWrite(c) }) {
				fiVar := c38VarFrom(info, lit.Body, call("io/fs.DirEntry.Info"), 0)
				r.Check(len(c.Args) == 4 && fiVar != nil && core.ObjOf(info, c.Args[0]) == fiVar && core.ObjOf(info, c.Args[2]) == pathPar && core.ObjOf(info, c.Args[3]) == twVar && twVar != nil,
					rule, f.String(), "write-operands", p.Pos(c.Pos()), "the write function gets the entry's FileInfo, its full path and the tar writer over the caller's stream")
			}
			c38NoSuccessAfterFailure(r, f, lg, rule, "callback:", 2)
		}
		nw := c38First(info, f.Decl.Body, call("archive/tar.NewWriter"))
		r.Check(nw != nil && c38Arg(info, nw, 0) == f.X1Param(0), rule, f.String(), "tar-writer", f.Pos(), "the tar writer writes to the caller's stream")
		core.RuleMustPass(r, f, rule, "tar.Writer.Close", call("archive/tar.Writer.Close"), true)
	}
	if f := r.Need(p, tarPk, "StreamRenameFile"); f != nil {
		info, g := f.Info(), f.Graph()
		wh := call("archive/tar.Writer.WriteHeader")
		cp := call("io.CopyN")
		core.RuleOrder(r, f, rule, []string{"tar.FileInfoHeader", "WriteHeader", "os.Open", "io.CopyN"}, []core.Matcher{call("archive/tar.FileInfoHeader"), wh, call("os.Open"), cp})
		isReg := func(e ast.Expr) bool {
			c, ok := ast.Unparen(e).(*ast.CallExpr)
			return ok && call("*.IsRegular")(info, c)
		}
		core.RuleMustPassN(r, f, g, rule, "io.CopyN", g.Calling(cp), core.X1BoolEdge(isReg, false))
		hdr := c38VarFrom(info, f.Decl.Body, call("archive/tar.FileInfoHeader"), 0)
		src := c38VarFrom(info, f.Decl.Body, call("os.Open"), 0)
		cc := c38First(info, f.Decl.Body, cp)
		oc := c38First(info, f.Decl.Body, call("os.Open"))
		whc := c38First(info, f.Decl.Body, wh)
		if r.Check(hdr != nil && src != nil && cc != nil && oc != nil && whc != nil && len(cc.Args) == 3, rule, f.String(), "shape", f.Pos(), "header, source file and copy found") {
			sizeOK := false
			if se, ok := ast.Unparen(cc.Args[2]).(*ast.SelectorExpr); ok {
				if fv := core.FieldOf(info, se); fv != nil && fv.Name() == "Size" && core.ObjOf(info, se.X) == hdr {
					sizeOK = true
				}
			}
			r.Check(c38Arg(info, cc, 0) == f.X1Param(4) && c38Arg(info, cc, 1) == src && sizeOK, rule, f.String(), "copy-operands", p.Pos(cc.Pos()), "h.Size bytes of the opened file are copied to the tar writer")
			r.Check(c38Arg(info, oc, 0) == f.X1Param(3), rule, f.String(), "source-path", p.Pos(oc.Pos()), "the file opened is fullPath")
			r.Check(c38Recv(info, whc) == f.X1Param(4) && c38Arg(info, whc, 0) == hdr, rule, f.String(), "header-operands", p.Pos(whc.Pos()), "the header written is the one built from the file's FileInfo")
			// h.Name mentions relativePath and the header file name
			nameOK := false
			for _, nd := range g.Nodes {
				as, ok := nd.N.(*ast.AssignStmt)
				if !ok || len(as.Lhs) != 1 || len(as.Rhs) != 1 {
					continue
				}
				if se, ok := ast.Unparen(as.Lhs[0]).(*ast.SelectorExpr); ok && core.ObjOf(info, se.X) == hdr && se.Sel.Name == "Name" {
					nameOK = core.X1MentionsObj(info, as.Rhs[0], f.X1Param(1)) && core.X1MentionsObj(info, as.Rhs[0], f.X1Param(2))
				}
			}
			r.Check(nameOK, rule, f.String(), "header-name", f.Pos(), "the member name is built from relativePath and the header file name (restore matches on it)")
		}
		core.RuleErrorsUsed(r, f, rule, "FileInfoHeader/WriteHeader/Open/CopyN", core.Or(call("archive/tar.FileInfoHeader"), wh, call("os.Open"), cp), false, 4)
		c38NoSuccessAfterFailure(r, f, g, rule, "", 3)
	}
	if f := r.Need(p, tarPk, "StreamFile"); f != nil {
		m := call(tarPk + ".StreamRenameFile")
		c38ParamArg(r, f, m, "StreamRenameFile", 0, 0, "FileInfo")
		c38ParamArg(r, f, m, "StreamRenameFile", 2, 1, "relativePath")
		c38ParamArg(r, f, m, "StreamRenameFile", 3, 2, "fullPath")
		c38ParamArg(r, f, m, "StreamRenameFile", 4, 3, "tar writer")
	}
}

// ---------------------------------------------------------------- (7) archive member kinds

// c38Kinds: kinds linked into the snapshot ⊆ kinds copied out of the archive.
func c38Kinds(p *core.Prog, r *core.Report) {
	const rule = "archive-member-kinds"
	pk := p.Pkg(tsm1)
	extOf := func(name string) (string, bool) {
		c, ok := pk.Types.Scope().Lookup(name).(*types.Const)
		if !ok || c.Val().Kind() != constant.String {
			return "", false
		}
		return constant.StringVal(c.Val()), true
	}
	tsmExt, ok1 := extOf("TSMFileExtension")
	tombExt, ok2 := extOf("TombstoneFileExtension")
	if !r.Check(ok1 && ok2, "anchor", "tsm1.TSMFileExtension/TombstoneFileExtension", "unresolved", "-", "extension constants resolved") {
		return
	}
	// producer side: which kinds does MakeSnapshotLinks put into the directory that is archived?
	mf := r.Need(p, tsm1, "FileStore.MakeSnapshotLinks")
	rf := r.Need(p, tsm1, "Engine.readFileFromBackup")
	if mf == nil || rf == nil {
		return
	}
	kinds := map[string]string{} // kind -> extension
	tsField := core.LookupField(pk.Types, "TombstoneStat", "Path")
	for _, c := range core.AllCalls(mf.Info(), mf.Decl.Body, call(tsm1+".FileStore.copyOrLink")) {
		if len(c.Args) != 2 {
			continue
		}
		src := ast.Unparen(c.Args[0])
		if sc, ok := src.(*ast.CallExpr); ok && call(tsm1+".TSMFile.Path")(mf.Info(), sc) {
			kinds["tsm"] = tsmExt
		} else if tsField != nil && core.FieldOf(mf.Info(), src) == tsField {
			kinds["tombstone"] = tombExt
		} else {
			r.Bad(rule, mf.String(), "unknown-kind", p.Pos(c.Pos()), "MakeSnapshotLinks links a file whose kind the rule table does not know: "+core.ExprStr(src))
		}
	}
	r.Check(len(kinds) >= 2, rule, mf.String(), "producer-kinds:count", mf.Pos(), fmt.Sprintf("%d member kinds linked into the snapshot directory (TSM files and their tombstone files, confirmed by reading)", len(kinds)))
	// the tombstone path really carries the tombstone extension
	if tp := r.Need(p, tsm1, "Tombstoner.tombstonePath"); tp != nil {
		uses := false
		ast.Inspect(tp.Decl.Body, func(n ast.Node) bool {
			if id, ok := n.(*ast.Ident); ok {
				if c, ok := tp.Info().Uses[id].(*types.Const); ok && c.Name() == "TombstoneFileExtension" {
					uses = true
				}
			}
			return true
		})
		r.Check(uses, rule, tp.String(), "tombstone-extension", tp.Pos(), "tombstone file names end in TombstoneFileExtension")
	}
	// consumer side: evaluate the name filter of readFileFromBackup for a member of each kind
	info, g := rf.Info(), rf.Graph()
	hdrVar := c38VarFrom(info, rf.Decl.Body, call("archive/tar.Reader.Next"), 0)
	nameDerived := map[types.Object]bool{}
	mentionsName := func(e ast.Node) bool {
		found := false
		ast.Inspect(e, func(n ast.Node) bool {
			switch t := n.(type) {
			case *ast.SelectorExpr:
				if fv := core.FieldOf(info, t); fv != nil && fv.Name() == "Name" && fv.Pkg() != nil && fv.Pkg().Path() == "archive/tar" && core.ObjOf(info, t.X) == hdrVar {
					found = true
				}
			case *ast.Ident:
				if o := info.Uses[t]; o != nil && nameDerived[o] {
					found = true
				}
			}
			return true
		})
		return found
	}
	for changed := true; changed; {
		changed = false
		ast.Inspect(rf.Decl.Body, func(n ast.Node) bool {
			if as, ok := n.(*ast.AssignStmt); ok && len(as.Lhs) == len(as.Rhs) {
				for i, l := range as.Lhs {
					if o := core.ObjOf(info, l); o != nil && !nameDerived[o] && mentionsName(as.Rhs[i]) {
						nameDerived[o] = true
						changed = true
					}
				}
			}
			return true
		})
	}
	// eval: 1 true, 0 false, -1 unknown
	var eval func(e ast.Expr, ext string) int
	eval = func(e ast.Expr, ext string) int {
		e = ast.Unparen(e)
		switch t := e.(type) {
		case *ast.UnaryExpr:
			if t.Op == token.NOT {
				if v := eval(t.X, ext); v >= 0 {
					return 1 - v
				}
			}
		case *ast.BinaryExpr:
			x, y := eval(t.X, ext), eval(t.Y, ext)
			switch t.Op {
			case token.LAND:
				if x == 0 || y == 0 {
					return 0
				}
				if x == 1 && y == 1 {
					return 1
				}
			case token.LOR:
				if x == 1 || y == 1 {
					return 1
				}
				if x == 0 && y == 0 {
					return 0
				}
			}
		case *ast.Ident:
			// a boolean local assigned once from an evaluable test
			if o := info.Uses[t]; o != nil {
				if as := core.X1AssignmentsTo(info, rf.Decl.Body, o); len(as) == 1 && as[0].Rhs != nil {
					return eval(as[0].Rhs, ext)
				}
			}
		case *ast.CallExpr:
			if call("strings.HasSuffix")(info, t) && len(t.Args) == 2 && mentionsName(t.Args[0]) {
				if s := c38ConstString(info, t.Args[1]); s != "\x00" {
					if strings.HasSuffix("000000001-000000001."+ext, s) {
						return 1
					}
					return 0
				}
			}
		}
		return -1
	}
	filters := 0
	for _, nd := range g.Nodes {
		for _, e := range nd.Succ {
			if e.Cond != nil && e.Tag == nil && eval(e.Cond, tsmExt) >= 0 {
				filters++
			}
		}
	}
	r.Check(filters >= 2, rule, rf.String(), "name-filter:absent", rf.Pos(), "readFileFromBackup decides by the suffix of the member name")
	cp := g.Calling(call("io.CopyN"))
	for _, kind := range []string{"tsm", "tombstone"} {
		ext, produced := kinds[kind]
		if !produced {
			continue
		}
		reach := g.ReachFromEntry(nil, func(e *core.Edge) bool {
			if e.Cond == nil || e.Tag != nil {
				return false
			}
			v := eval(e.Cond, ext)
			return v >= 0 && (v == 1) != e.Branch
		})
		copied := false
		for _, n := range g.Select(cp) {
			if reach[n] {
				copied = true
			}
		}
		r.Check(copied, rule, rf.String(), kind+"-dropped", rf.Pos(),
			fmt.Sprintf("archive members of kind %q (suffix %q), which MakeSnapshotLinks puts into every backup, are copied into the shard on restore; when the copy is unreachable for that suffix the file is skipped and its content is lost (for tombstones: deletes not yet compacted away are undone in the restored shard)", kind, "."+ext))
	}
}
