// Package rules holds, per property, the rule instances (tables of functions,
// fields, locks, call classes) confirmed by reading the anchored code.
package rules

import (
	"sort"

	"verif/checker/core"
)

// Prop describes how one property is decided.
type Prop struct {
	ID          string
	Patterns    []string // packages to load in the quick tier
	Level       string   // evidence level
	Explanation string
	NotCovered  string
	Assumptions []string
	Run         func(p *core.Prog, r *core.Report, tier string)
	Extra       func() map[string]any
	Technique   string
}

var registry = map[string]*Prop{}

func register(p *Prop) { registry[p.ID] = p }

// extend adds rules to an already (or later) registered property; the extra
// rules run after the property's own and may add to its explanation.
var extensions = map[string][]func(p *core.Prog, r *core.Report, tier string){}
var extNotes = map[string][]string{}
var extPatterns = map[string][]string{}

func extend(id, note string, patterns []string, run func(p *core.Prog, r *core.Report, tier string)) {
	extensions[id] = append(extensions[id], run)
	if note != "" {
		extNotes[id] = append(extNotes[id], note)
	}
	extPatterns[id] = append(extPatterns[id], patterns...)
}

// Finalize wires the extensions into their properties (called once from main).
func Finalize() {
	for id, p := range registry {
		exts := extensions[id]
		base := p.Run
		id := id
		p.Run = func(pr *core.Prog, r *core.Report, tier string) {
			base(pr, r, tier)
			for _, e := range exts {
				e(pr, r, tier)
			}
			propagatePass(id, pr, r)
		}
		if propagateProps[id] {
			p.Explanation += " Additionally: " + propagateNote
		}
		for _, n := range extNotes[id] {
			p.Explanation += " Additionally: " + n
		}
		have := map[string]bool{}
		for _, x := range p.Patterns {
			have[x] = true
		}
		for _, x := range extPatterns[id] {
			if !have[x] {
				p.Patterns = append(p.Patterns, x)
				have[x] = true
			}
		}
	}
	extensions = map[string][]func(p *core.Prog, r *core.Report, tier string){}
}

// Get returns a property's rule set.
func Get(id string) *Prop { return registry[id] }

// IDs lists the claimed properties.
func IDs() []string {
	var out []string
	for id := range registry {
		out = append(out, id)
	}
	sort.Strings(out)
	return out
}

const (
	tsm1   = "tsdb/engine/tsm1"
	tsdbP  = "tsdb"
	tsi1   = "tsdb/index/tsi1"
	filePk = "pkg/file"
)

var call = core.CallTo

// NotApplicable lists the properties that static analysis cannot decide, with
// the reason; entries for properties that are (later) claimed are ignored.
var NotApplicable = [][2]string{
	{"C22", "equality of InfluxQL SELECT results with a reference evaluator is a value-level semantic property; no clause is visible in the shape of the code"},
	{"C23", "numeric definitions of transformation functions (derivative, moving_average, percentile, …) are value-level; no structural necessary condition"},
	{"C35", "HyperLogLog merge algebra and error bound are statistical/algebraic over register values"},
	{"C36", "model conformance of hash map / bloom filter / radix tree / id sets is value-level sequential semantics"},
	{"C41", "window bounds and aggregate values of Flux tables are computed values; no structural clause that is a necessary condition"},
}
