// Package rules holds, per property, the rule instances (tables of functions,
// fields, locks, call classes) confirmed by reading the anchored code.
package rules

import (
	"sort"

	"verif/checker/core"
)

// Prop describes how one property is decided.
type Prop struct {
	ID          string
	Patterns    []string // packages to load in the quick tier
	Level       string   // evidence level
	Explanation string
	NotCovered  string
	Assumptions []string
	Run         func(p *core.Prog, r *core.Report, tier string)
	Extra       func() map[string]any
	Technique   string
}

var registry = map[string]*Prop{}

func register(p *Prop) { registry[p.ID] = p }

// Get returns a property's rule set.
func Get(id string) *Prop { return registry[id] }

// IDs lists the claimed properties.
func IDs() []string {
	var out []string
	for id := range registry {
		out = append(out, id)
	}
	sort.Strings(out)
	return out
}

const (
	tsm1   = "tsdb/engine/tsm1"
	tsdbP  = "tsdb"
	tsi1   = "tsdb/index/tsi1"
	filePk = "pkg/file"
)

var call = core.CallTo

// NotApplicable lists the properties that static analysis cannot decide, with
// the reason; entries for properties that are (later) claimed are ignored.
var NotApplicable = [][2]string{
	{"C22", "equality of InfluxQL SELECT results with a reference evaluator is a value-level semantic property; no clause is visible in the shape of the code"},
	{"C23", "numeric definitions of transformation functions (derivative, moving_average, percentile, …) are value-level; no structural necessary condition"},
	{"C35", "HyperLogLog merge algebra and error bound are statistical/algebraic over register values"},
	{"C36", "model conformance of hash map / bloom filter / radix tree / id sets is value-level sequential semantics"},
	{"C41", "window bounds and aggregate values of Flux tables are computed values; no structural clause that is a necessary condition"},
}
