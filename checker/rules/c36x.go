package rules

import (
	"go/ast"
	"go/token"
	"go/types"

	"verif/checker/core"
)

// radix-extremes. In a radix tree a node's own key is a proper prefix of every
// key below it, hence smaller than all of them, and node.edges is sorted by
// label. The smallest key of a subtree is therefore the node's own key if it
// has one, else the smallest key under edges[0]; the greatest key is the
// greatest key under the LAST edge, and the node's own key only when it has no
// edges at all. Structurally:
//
//	Minimum: a descent (n = n.edges[0].node) happens only after n.isLeaf() was
//	         false for the current n, and goes through index 0;
//	Maximum: "found" is returned only for a node whose edge list was seen empty
//	         for the current n, and a descent goes through index len(edges)-1.
//
// Decided on the CFG with the facts carried by conditional edges; a
// reassignment of the cursor variable invalidates them.
func init() {
	extend("C36", "(12) radix-extremes: Tree.Minimum descends (first edge) only from a node that holds no key of its own, Tree.Maximum answers with a node's own key only when that node has no edges and otherwise descends through the last edge — a node's key is a prefix of, hence smaller than, every key below it.",
		nil, func(p *core.Prog, r *core.Report, tier string) {
			const rule = "radix-extremes"
			pk := p.Pkg(radixP)
			if pk == nil {
				return
			}
			edgesF := core.LookupField(pk.Types, "node", "edges")
			if !r.Check(edgesF != nil, "anchor", radixP+".node.edges", "unresolved", "", "field resolved") {
				return
			}
			isLeaf := call(radixP + ".node.isLeaf")
			for _, which := range []string{"Tree.Minimum", "Tree.Maximum"} {
				f := r.Need(p, radixP, which)
				if f == nil {
					continue
				}
				g := f.Graph()
				info := f.Info()
				body := f.Decl.Body
				// descents: cursor = cursor.edges[i].node
				type descent struct {
					n   *core.Node
					cur types.Object
					idx ast.Expr
				}
				var descs []descent
				for _, n := range g.Nodes {
					as, ok := n.N.(*ast.AssignStmt)
					if !ok || len(as.Lhs) != 1 || len(as.Rhs) != 1 {
						continue
					}
					var ix *ast.IndexExpr
					ast.Inspect(as.Rhs[0], func(x ast.Node) bool {
						if e, ok := x.(*ast.IndexExpr); ok && core.FieldOf(info, e.X) == edgesF {
							ix = e
						}
						return true
					})
					if ix == nil {
						continue
					}
					cur := core.ObjOf(info, as.Lhs[0])
					sel, _ := ast.Unparen(ix.X).(*ast.SelectorExpr)
					if cur == nil || sel == nil || core.ObjOf(info, sel.X) != cur {
						continue
					}
					descs = append(descs, descent{n, cur, ix.Index})
				}
				if !r.Check(len(descs) == 1, rule, f.String(), "descent:shape", f.Pos(), "exactly one descent `cursor = cursor.edges[i].node`") {
					continue
				}
				d := descs[0]
				reassign := g.AssigningObj(d.cur)
				// facts about the current cursor
				resolveCond := func(c ast.Expr) ast.Expr {
					if be, ok := ast.Unparen(c).(*ast.BinaryExpr); ok {
						return &ast.BinaryExpr{X: core.ResolveLocal(info, body, be.X), OpPos: be.OpPos, Op: be.Op, Y: core.ResolveLocal(info, body, be.Y)}
					}
					return c
				}
				edgesEmpty := core.AtomEdge(func(x ast.Expr, val bool) bool {
					a, br, ok := core.EmptyOn(info, resolveCond(x))
					if !ok || br != val {
						return false
					}
					s, _ := ast.Unparen(a).(*ast.SelectorExpr)
					return s != nil && core.FieldOf(info, s) == edgesF && core.ObjOf(info, s.X) == d.cur
				})
				noOwnKey := core.AtomEdge(func(x ast.Expr, val bool) bool {
					c, ok := ast.Unparen(x).(*ast.CallExpr)
					if !ok || val || !isLeaf(info, c) {
						return false
					}
					s, _ := ast.Unparen(c.Fun).(*ast.SelectorExpr)
					return s != nil && core.ObjOf(info, s.X) == d.cur
				})
				// starts at which nothing is known about the cursor: entry and every (re)assignment
				starts := []*core.Node{g.Entry}
				for _, n := range g.Select(reassign) {
					starts = append(starts, core.After(n, nil)...)
				}
				switch which {
				case "Tree.Minimum":
					ok := !g.Reach(starts, nil, noOwnKey)[d.n]
					r.Check(ok, rule, f.String(), "descend-past-own-key", g.Line(d.n), "the descent is reached only after isLeaf() was false for the current node")
					tv, has := info.Types[d.idx]
					r.Check(has && tv.Value != nil && tv.Value.ExactString() == "0", rule, f.String(), "descend-index", g.Line(d.n), "the descent goes through the first edge")
				case "Tree.Maximum":
					var found []*core.Node
					for _, x := range g.Exits {
						rs, ok := x.N.(*ast.ReturnStmt)
						if !ok || len(rs.Results) == 0 {
							continue
						}
						if tv, has := info.Types[rs.Results[len(rs.Results)-1]]; has && tv.Value != nil && tv.Value.ExactString() == "true" {
							found = append(found, x)
						}
					}
					if r.Check(len(found) >= 1, rule, f.String(), "found-return:absent", f.Pos(), "a `return …, true` exists") {
						reach := g.Reach(starts, nil, edgesEmpty)
						for _, x := range found {
							r.Check(!reach[x], rule, f.String(), "own-key-before-children", g.Line(x), "a node's own key is the answer only when the node was seen to have no edges")
						}
					}
					idx := core.ResolveLocal(info, body, d.idx)
					okIdx := false
					if be, ok := ast.Unparen(idx).(*ast.BinaryExpr); ok && be.Op == token.SUB {
						if tv, has := info.Types[be.Y]; has && tv.Value != nil && tv.Value.ExactString() == "1" {
							l := core.ResolveLocal(info, body, be.X)
							if c, ok := ast.Unparen(l).(*ast.CallExpr); ok && len(c.Args) == 1 && core.Builtin("len")(info, c) {
								s, _ := ast.Unparen(c.Args[0]).(*ast.SelectorExpr)
								okIdx = s != nil && core.FieldOf(info, s) == edgesF && core.ObjOf(info, s.X) == d.cur
							}
						}
					}
					r.Check(okIdx, rule, f.String(), "descend-index", g.Line(d.n), "the descent goes through the last edge (len(edges)-1)")
				}
			}
		})
}
